/-
Props/C05 — Wire protocols round-trip every message and never lose frame sync (raw protocol,
byte-exact, fully in-repo).  Property theorems only; helper lemmas live in Lemmas/.
-/
import Teleport.Lemmas.Raw
import Teleport.Lemmas.Reader
import Teleport.Drv.TestFilters
namespace Teleport
namespace C05
open Bytes

/-- `decodeArg(AppendQuotedArg(s)) = s` for every byte string (with or without `+` decoding), with
    the 256-entry hex table of `utils/bytesconv.go` and with the 255-entry copy in goutil's status
    package; in particular the latter never reaches its out-of-range table index on quoted input. -/
theorem C05_quote_roundtrip (t : HexTab) (plus : Bool) (s : Bytes) : unquote t plus (quote s) = some s :=
  unquote_quote t plus s

/-- Metadata parsing (`utils.Args.ParseBytes`, run on the metadata field of every received frame)
    returns on EVERY byte string: with the 256-entry `hex2intTable` the decoder has no panic point
    (before the repair `%` followed within two bytes by `0xff` indexed a 255-entry table out of range). -/
theorem C05_args_parse_total : ∀ b : Bytes, (Args.parse b).isSome = true := Args.parse_total

/-- the former panic input now decodes: `%\xff\x00` is not an escape, the three bytes are the key. -/
theorem C05_args_parse_ff : Args.parse [37, 255, 0] = some [([37, 255, 0], [])] := by
  simp [Args.parse, Args.scanAll, Args.scanOne, Args.decodeSeg, Args.splitAmp, Args.splitEq, unquote, hexValT,
    hexValFixed]

/-- goutil's status decoder is outside this repository and keeps its 255-entry table: the same
    bytes in the status field still panic (recovered by the read loop: the frame is rejected). -/
theorem C05_status_decode_ff_panics : Status.decode [37, 255, 0] = none := by
  simp [Status.decode, Args.scanAll, Args.scanOne, Args.decodeSeg, Args.splitAmp, Args.splitEq, unquote, hexValT,
    hexVal]

/-- Metadata is an ordered multimap of arbitrary byte strings: parsing the query string of any
    list of pairs gives back exactly the pairs that are not (empty key, empty value), in order. -/
theorem C05_args_parse_query (l : List Args.KV) :
    Args.parse (Args.query l) = some (l.filter Args.nonEmptyKV) := Args.parse_query l

/-- ... hence every well-formed metadata list round-trips unchanged. -/
theorem C05_args_roundtrip (l : List Args.KV) (h : Args.WF l) : Args.parse (Args.query l) = some l :=
  Args.parse_query_wf l h

/-- Status (code, message, cause text) round-trips for every int32 code and all byte strings. -/
theorem C05_status_roundtrip (s : Status) (h : Num.inInt32 s.code) :
    Status.decode (Status.encode s) = some s := Status.decode_encode s h

/-- Sequence numbers: base-36 text round-trips for every int32, negative and extreme included. -/
theorem C05_seq36_roundtrip (i : Int) (h : Num.inInt32 i) :
    Num.parseInt32? 36 (Num.formatInt 34 i) = some i := Num.parseInt32?_formatInt 34 (by omega) i h

/-- One frame: unpacking what was packed, followed by any further bytes `rest`, yields the same
    message (all eight fields, the size being the frame length), consumes exactly the frame and
    leaves `rest` — frames are self-delimiting. Holds for every pooled-buffer capacity `cap0`. -/
theorem C05_raw_roundtrip (reg : Registry) (limit cap0 : Nat) (m : Msg) (bs rest : Bytes) (sz : Nat)
    (hw : Raw.WF reg m) (hp : Raw.pack reg limit m = .ok (bs, sz)) (hlt : bs.length < 4294967296) :
    (Raw.unpack reg limit cap0 (bs ++ rest)).out = .ok { m with size := sz } rest
    ∧ (Raw.unpack reg limit cap0 (bs ++ rest)).consumed = bs.length
    ∧ sz = bs.length := by
  have := Raw.unpack_pack reg limit cap0 m bs rest sz hw hp hlt
  rw [this.1]; exact ⟨rfl, rfl, this.2⟩

/-- all frames of a list of messages, packed back to back. -/
def packAll (reg : Registry) (limit : Nat) : List Msg → Option (Bytes × List Msg)
  | [] => some ([], [])
  | m :: ms =>
    match Raw.pack reg limit m, packAll reg limit ms with
    | .ok (bs, sz), some (r, out) => some (bs ++ r, { m with size := sz } :: out)
    | _, _ => none

/-- Any number of back-to-back frames decodes to the same frame sequence (sizes = frame lengths),
    leaving exactly the trailing bytes. `hfit`: no single frame reaches 4 GiB (the length prefix is
    a `uint32`; beyond that the Go code wraps). -/
theorem C05_raw_stream (reg : Registry) (limit cap0 : Nat) (ms : List Msg) (tail : Bytes)
    (hw : ∀ m ∈ ms, Raw.WF reg m)
    (hfit : ∀ m ∈ ms, ∀ bs sz, Raw.pack reg limit m = .ok (bs, sz) → bs.length < 4294967296)
    (stream : Bytes) (out : List Msg)
    (hp : packAll reg limit ms = some (stream, out)) :
    Raw.unpackN reg limit cap0 ms.length (stream ++ tail) = some (out, tail) := by
  induction ms generalizing stream out with
  | nil => simp [packAll] at hp; simp [Raw.unpackN, hp]
  | cons m ms ih =>
    simp only [packAll] at hp
    cases h1 : Raw.pack reg limit m with
    | error e => simp [h1] at hp
    | ok r =>
      obtain ⟨bs, sz⟩ := r
      cases h2 : packAll reg limit ms with
      | none => simp [h1, h2] at hp
      | some r2 =>
        obtain ⟨r, o⟩ := r2
        simp only [h1, h2, Option.some.injEq, Prod.mk.injEq] at hp
        obtain ⟨hs, ho⟩ := hp
        have hlt := hfit m (by simp) bs sz h1
        have h3 := Raw.unpack_pack reg limit cap0 m bs (r ++ tail) sz (hw m (by simp)) h1 hlt
        have h4 := ih (fun x hx => hw x (by simp [hx])) (fun x hx => hfit x (by simp [hx])) r o h2
        rw [← hs, ← ho, List.append_assoc]
        simp only [List.length_cons, Raw.unpackN, h3.1, h4, Option.map_some]

/-- The size reported for a message depends on that message alone: `pack` is a function of the
    message (and the registry/limit configuration) with no protocol-object state, and the size it
    records is the length of the frame it writes. -/
theorem C05_size_depends_on_message_only (reg : Registry) (limit : Nat) (m : Msg) (bs : Bytes) (sz : Nat)
    (hp : Raw.pack reg limit m = .ok (bs, sz)) (hlt : bs.length < 4294967296) : sz = bs.length := by
  unfold Raw.pack at hp
  split at hp
  · simp at hp
  · cases hx : Xfer.onPack reg m.pipe (Raw.payload m) with
    | none => simp [hx] at hp
    | some p =>
      simp only [hx] at hp
      split at hp
      · simp at hp
      · simp only [Except.ok.injEq, Prod.mk.injEq] at hp
        obtain ⟨h1, h2⟩ := hp
        have : bs.length = 4 + 1 + m.pipe.length + p.length := by
          rw [← h1]; simp [be32]; omega
        omega

/-! ### Non-vacuity: a concrete non-trivial message meets `WF` and packs. -/

def exMsg : Msg :=
  { seq := -2147483648, mtype := 1, method := [47, 97, 0, 255], status := ⟨404, [78, 111, 116, 32, 37], some []⟩,
    md := [([], [1]), ([37, 38], []), ([37, 38], [61, 43, 255])], codec := 106, body := [123, 125],
    pipe := [1, 2, 3, 1] }

theorem lawful_testReg : ∀ i f, Drv.testReg i = some f → Xfer.Lawful f := by
  intro i f h
  unfold Drv.testReg at h
  split at h
  · cases h; intro x y hxy; simp [Drv.fRev] at hxy ⊢; subst hxy; simp
  · split at h
    · cases h; intro x y hxy
      simp only [Drv.fXor, Option.some.injEq] at hxy ⊢
      subst hxy
      simp [List.map_map]
      have : ((fun x : UInt8 => x ^^^ 90) ∘ fun x => x ^^^ 90) = id := by
        funext b; simp [UInt8.xor_assoc]
      rw [this]; simp
    · split at h
      · cases h; intro x y hxy
        simp only [Drv.fLen, Option.some.injEq] at hxy ⊢
        subst hxy; simp
      · simp at h

instance (l : List Args.KV) : Decidable (Args.WF l) := by unfold Args.WF; infer_instance

example : Raw.WF Drv.testReg exMsg := by
  refine { seq := by decide, code := by decide, method := by decide, status := by decide,
           md := by decide, mdwf := by decide, pipeLen := by decide, pipeReg := ?_ }
  intro i hi
  simp only [exMsg, List.mem_cons, List.mem_nil_iff, or_false] at hi
  rcases hi with h | h | h | h <;> subst h
  · exact ⟨Drv.fRev, rfl, lawful_testReg 1 _ rfl⟩
  · exact ⟨Drv.fXor, rfl, lawful_testReg 2 _ rfl⟩
  · exact ⟨Drv.fLen, rfl, lawful_testReg 3 _ rfl⟩
  · exact ⟨Drv.fRev, rfl, lawful_testReg 1 _ rfl⟩

example : (Raw.pack Drv.testReg 65536 exMsg).toOption.isSome = true := by decide

/-! ### Arbitrary read chunk sizes

`Raw.unpack` consumes the whole input as one byte list; the real `readMessage` gets it through
`io.ReadFull` on a connection that delivers it in pieces. Model/Reader has the pieces (`Reader` = list of
chunks, empty chunks allowed), one `Read` (`Reader.read`), the `io.ReadFull` loop (`Reader.readFull`) and
`rawProto.Unpack` written with those reads (`Reader.unpackChunked`). -/

/-- `io.ReadFull` sees the concatenation only: over EVERY chunking `r` of the input (any number of
    chunks of any sizes, empty ones included) a request for `n` bytes returns the first `n` bytes of the
    concatenation (all of it when there are fewer), succeeds iff at least `n` bytes exist, and then leaves
    a reader whose concatenation is exactly the rest. -/
theorem C05_readfull_chunking (n : Nat) (r : Reader) :
    ∃ r' : Reader, Reader.readFull n r = (r.flatten.take n, decide (n ≤ r.flatten.length), r') ∧
      (n ≤ r.flatten.length → r'.flatten = r.flatten.drop n) :=
  Reader.readFull_flatten n r

/-- `Reader.readFull` is the loop of `io.ReadFull` / `io.ReadAtLeast` over single `Read` calls: one
    `Read` (at most the rest of the current chunk, at most what is missing); buffer full → done; else the
    same again for what is missing on the reader that `Read` left. -/
theorem C05_readfull_is_read_loop (n : Nat) (r : Reader) (hn : 0 < n) (hr : r ≠ []) :
    Reader.readFull n r =
      (if (Reader.read n r).1.length = n then ((Reader.read n r).1, true, (Reader.read n r).2)
       else ((Reader.read n r).1 ++ (Reader.readFull (n - (Reader.read n r).1.length) (Reader.read n r).2).1,
             (Reader.readFull (n - (Reader.read n r).1.length) (Reader.read n r).2).2.1,
             (Reader.readFull (n - (Reader.read n r).1.length) (Reader.read n r).2).2.2)) :=
  Reader.readFull_loop n r hn hr

/-- non-vacuity: a concrete reader with an empty chunk; a 4-byte `ReadFull` crosses three chunks and
    stops inside the fourth; a 6-byte one fails with everything read. -/
example : Reader.readFull 4 [[1], [], [2, 3], [4, 5]] = ([1, 2, 3, 4], true, [[5]]) ∧
    Reader.readFull 6 [[1], [], [2, 3], [4, 5]] = ([1, 2, 3, 4, 5], false, []) ∧
    Reader.read 4 [[1], [], [2, 3], [4, 5]] = ([1], [[], [2, 3], [4, 5]]) := by decide

/-- Read chunk sizes are irrelevant for one frame: reading one frame through `io.ReadFull` from EVERY
    chunking `r` of the input gives what `Raw.unpack` gives on the concatenation `r.flatten` — the same
    message with the same eight fields and what is left of the reader is a chunking of the same rest,
    or the same classification (eof / above the limit / rejected, same reason) —, consumes the same
    number of bytes and requests the same largest buffer. -/
theorem C05_chunking_irrelevant (reg : Registry) (limit cap0 : Nat) (r : Reader) :
    (Reader.unpackChunked reg limit cap0 r).out.flat = (Raw.unpack reg limit cap0 r.flatten).out ∧
    (Reader.unpackChunked reg limit cap0 r).consumed = (Raw.unpack reg limit cap0 r.flatten).consumed ∧
    (Reader.unpackChunked reg limit cap0 r).alloc = (Raw.unpack reg limit cap0 r.flatten).alloc := by
  have h := Reader.unpackChunked_flat reg limit cap0 r
  rw [← h]
  exact ⟨rfl, rfl, rfl⟩

/-- Two chunkings of the same bytes decode alike. -/
theorem C05_chunkings_agree (reg : Registry) (limit cap0 : Nat) (r r' : Reader) (h : r.flatten = r'.flatten) :
    (Reader.unpackChunked reg limit cap0 r).flat = (Reader.unpackChunked reg limit cap0 r').flat := by
  rw [Reader.unpackChunked_flat, Reader.unpackChunked_flat, h]

/-- The property itself: a byte stream carrying any number of back-to-back frames, delivered in
    ARBITRARY read chunk sizes, decodes to the same frame sequence. `r` is any chunking of the packed
    frames of `ms` followed by any trailing bytes `tail`; reading `ms.length` frames from it through
    `io.ReadFull` yields exactly the messages (sizes = frame lengths) and leaves a reader holding
    exactly `tail`. Hypotheses as in `C05_raw_stream`. -/
theorem C05_raw_stream_chunked (reg : Registry) (limit cap0 : Nat) (ms : List Msg) (tail : Bytes)
    (hw : ∀ m ∈ ms, Raw.WF reg m)
    (hfit : ∀ m ∈ ms, ∀ bs sz, Raw.pack reg limit m = .ok (bs, sz) → bs.length < 4294967296)
    (stream : Bytes) (out : List Msg)
    (hp : packAll reg limit ms = some (stream, out))
    (r : Reader) (hr : r.flatten = stream ++ tail) :
    ∃ r' : Reader, Reader.unpackNChunked reg limit cap0 ms.length r = some (out, r') ∧ r'.flatten = tail := by
  have h := Reader.unpackNChunked_flat reg limit cap0 ms.length r
  rw [hr, C05_raw_stream reg limit cap0 ms tail hw hfit stream out hp] at h
  cases hx : Reader.unpackNChunked reg limit cap0 ms.length r with
  | none => rw [hx] at h; simp at h
  | some p =>
    rw [hx] at h
    simp only [Option.map_some, Option.some.injEq, Prod.mk.injEq] at h
    exact ⟨p.2, by rw [← h.1], h.2⟩

/-- non-vacuity of the chunking hypothesis: EVERY list of cut positions (zeros give empty chunks) is a
    chunking of the same bytes; a concrete one. -/
example (ks : List Nat) (b : Bytes) : (Reader.chunk ks b).flatten = b := Reader.chunk_flatten ks b

example : Reader.chunk [1, 0, 2] [1, 2, 3, 4, 5] = [[1], [], [2, 3], [4, 5]] := by decide

/-- the packed frame of `exMsg` (metadata, status, a four-filter pipe). -/
def exFrame : Bytes := match Raw.pack Drv.testReg 65536 exMsg with | .ok (bs, _) => bs | _ => []

/-- non-vacuity of `C05_chunking_irrelevant` on the `ok` path: the frame of `exMsg` followed by two more
    bytes, cut into chunks of sizes 1, 0, 2, 3, 0, 7, 1, 30 and the rest (the 4-byte size field spans three
    chunks and an empty one), decodes to `exMsg` with its size, leaving exactly the two bytes; cut off
    three bytes before its end it is `eof` with every byte consumed. -/
example :
    (match (Reader.unpackChunked Drv.testReg 65536 0 (Reader.chunk [1, 0, 2, 3, 0, 7, 1, 30] (exFrame ++ [9, 9]))).out with
     | .ok m rest => decide (m = { exMsg with size := exFrame.length }) && decide (rest.flatten = [9, 9])
     | _ => false) = true ∧
    (match Reader.unpackChunked Drv.testReg 65536 0 (Reader.chunk [1, 0, 2, 3, 0, 7, 1, 30] (exFrame.take (exFrame.length - 3))) with
     | ⟨.eof, consumed, _⟩ => decide (consumed = exFrame.length - 3)
     | _ => false) = true := by decide +kernel

end C05
end Teleport
