/-
Props/C08 — Graceful close loses no reply and waits for running handlers.
Property theorems only. The model is Model/Graceful: one session end as an interleaving transition
system with ANY number of inbound handler goroutines, ANY number of outbound calls, the closer
(`closeLocked`, one step per statement between two gate points), the reader
(`startReadAndHandle` / `readDisconnected`) and the environment (the peer sends CALL and REPLY
frames, the connection may be lost at any moment). `Reach St.init s` = `s` is reachable by some
interleaving of the atomic steps. The invariant `SInv` (Lemmas/Graceful*) is proved for every
step and lifted to `Reach` by induction; the theorems below are its consequences.

Vocabulary (ghost fields, set by the step that the name describes, never read by a guard):
  `h.ebc`   the handler passed `h.enter` while the closer had not done its CAS  (hEnter < closeStart)
  `h.late`  `graceCtxWaitGroup.Add(1)` ran after the closer returned from `graceCtxWait()`
  `h.res`   `.ok` = the reply frame with the handler's own status was written while the socket was
            open and the status test of `write` let it through (`writed = true`); `.lost` = refused
            with the 102 sentinel or the socket write failed
  `c.chk`   the call passed the status test of `write` (status Ok): its frame goes out
  `c.late`  `graceCallCmdWaitGroup.Add(1)` ran after the closer returned from the call wait
  `c.deliv` the reader bound the peer's REPLY frame to the call (`bindReply`)
  closer rank: idle 0, cas 1, hubdel 2, ctxw 3 (ctx wait returned), callw 4, stc 5 (status
            ActiveClosed), sockc 6 (socket closed), ret 7 (`Close()` returned)
  `s.lost`  the environment has lost the connection (peer closed / cut)

The `read.add` window (frame consumed by `ReadMessage`, `Add(1)` not yet executed when the closer runs
`graceCtxWait()`) is stated precisely in `C08_read_add_window*`: such a frame's handler was, by
definition, not entered before closeStart, so the property text does not cover it; its reply CAN be
lost (witness) and the frame CAN be dropped without any handler (witness), and losing a reply
without connection loss happens ONLY to such late-counted handlers (`C08_lost_reply_only_late`).
For the same reason "ctxCount = 0 at closeRet" (DESIGN §5) is false as an unconditional statement
(`C08_close_waits_ctx_witness`); `C08_close_waits` states what the two counters are exactly.

Liveness (section "Close returns"): events are external (`Ev.internal e = false`: a CALL frame arrives,
the peer answers, the connection is lost, the user issues a call / a push / calls `Close()`, a handler
body returns) or internal (everything the library does by itself). `mu` is a natural-number measure
every internal step decreases; `Quiescent s` = no internal step is enabled; `EnvDone s` = the
environment owes nothing `Close()` could be waiting for (no handler body still running; every written,
unbound call answered by the peer, or the connection lost).

The cancel loop (section "the cancel loop's order"): `callCmdMap.Range` is a Go map iteration; the model
lets it yield ANY remaining entry next (`rDPick`), the driver explores all of them.
-/
import Teleport.Lemmas.GracefulC
import Teleport.Lemmas.GracefulQ4
import Teleport.Lemmas.GracefulOrd
import Teleport.Drv.C08
import Teleport.Lemmas.SrcPaths
import Teleport.Gen.Transitions
import Teleport.Gen.PeerClose
import Teleport.Lemmas.PeerClose
import Teleport.Drv.C08p
namespace Teleport
namespace C08
open Graceful

/-! ## every entered handler still gets its genuine reply out, and Close waits for it -/

/-- For every number of in-flight calls in both directions and every interleaving: if the
    connection has not been lost, then from the moment the closer has returned from
    `graceCtxWait()` (rank ≥ 3: before the status becomes ActiveClosed, before the socket is
    closed, and in particular when `Close()` returns), every CALL handler that passed `h.enter`
    before closeStart has finished (`Done()` executed) and its reply frame, carrying the handler's
    own status, was written (`res = ok`: the status test of `write` accepted it and the socket was
    open). So replyWrite h precedes socket close and closeRet. -/
theorem C08_entered_handlers_reply (s : St) (r : Reach St.init s) (hl : s.lost = false)
    (hc : 3 ≤ s.closer.rank) (h : H) (hm : h ∈ s.hs) (hk : h.kind = .call) (he : h.ebc = true) :
    h.pc = .fin ∧ h.res = .ok := by
  have hI := sinv_reach r
  have hlate := hI.ebc_h h hm he
  have hfin := hI.wait_h hc h hm hlate
  have h3 := (hI.hres h hm hk).2.2.1 hfin
  have h4 := (hI.nolost hl).hres h hm hlate hk
  refine ⟨hfin, ?_⟩
  cases hr : h.res with
  | none => exact absurd hr h3
  | ok => rfl
  | lost => exact absurd hr h4

/-- the same at the moment `Close()` returns. -/
theorem C08_entered_handlers_reply_at_closeRet (s : St) (r : Reach St.init s) (hl : s.lost = false)
    (hc : s.closer = .ret) (h : H) (hm : h ∈ s.hs) (hk : h.kind = .call) (he : h.ebc = true) :
    h.pc = .fin ∧ h.res = .ok :=
  C08_entered_handlers_reply s r hl (by rw [hc]; decide) h hm hk he

/-- while the socket is closed and the connection was not lost, every handler entered before
    closeStart has already written its reply: replyWrite precedes the socket close. -/
theorem C08_reply_before_socket_close (s : St) (r : Reach St.init s) (hl : s.lost = false)
    (hs : s.sock = true) (h : H) (hm : h ∈ s.hs) (hk : h.kind = .call) (he : h.ebc = true) :
    h.res = .ok := by
  have h6 := (sinv_reach r).nolost hl |>.sock hs
  exact (C08_entered_handlers_reply s r hl (by omega) h hm hk he).2

/-- the schedule used for non-vacuity: call 7 arrives, is read, counted, entered; Close starts;
    the closer blocks in the ctx wait until the handler has returned, written and finished. -/
def exRun : List Ev :=
  [.rTop, .envCall 7, .rRead, .rCheck, .rAdd, .hEnter 0, .xStart, .xHubdel, .hBody 0, .hCheck 0,
   .hWrite 0, .hFin 0, .xCtxWait, .xCallWait, .xStClosed, .xSock, .xRet]

/-- non-vacuity: a reachable state with `Close()` returned, the connection not lost, and a handler
    that was entered before closeStart. -/
example : ∃ s, Reach St.init s ∧ s.lost = false ∧ s.closer = .ret ∧
    ∃ h ∈ s.hs, h.kind = .call ∧ h.ebc = true := by
  exact ⟨_, run_reach' exRun St.init (by decide), by decide⟩

/-- A handler that has not finished keeps the closer in front of its ctx wait. (In particular a
    handler that itself calls `Close()` and waits for it can never finish: the code does not guard
    against closing from inside a handler; the harness does not generate it.) -/
theorem C08_unfinished_handler_blocks_closer (s : St) (r : Reach St.init s) (h : H) (hm : h ∈ s.hs)
    (hlate : h.late = false) (hp : h.pc ≠ .fin) : s.closer.rank < 3 := by
  have hI := sinv_reach r
  by_cases hc : 3 ≤ s.closer.rank
  · exact absurd (hI.wait_h hc h hm hlate) hp
  · omega

/-! ## Close returns only after both waits; what the two counters are at closeRet -/

/-- From the moment the closer has returned from the call wait (rank ≥ 4, in particular at
    closeRet): every handler counted before the ctx wait returned has finished, every call issued
    before the call wait returned has completed, and the two wait-group counters are exactly the
    numbers of unfinished late-counted handlers / late-issued calls. -/
theorem C08_close_waits (s : St) (r : Reach St.init s) (hc : 4 ≤ s.closer.rank) :
    (∀ h ∈ s.hs, h.late = false → h.pc = .fin) ∧
    (∀ c ∈ s.cs, c.late = false → c.isOpen = false) ∧
    s.ctx = s.hs.countP (fun h => h.late && h.holds) ∧
    s.calls = s.cs.countP (fun c => c.late && c.isOpen) := by
  have hI := sinv_reach r
  have hh := hI.wait_h (by omega)
  have hcc := hI.wait_c hc
  refine ⟨hh, hcc, ?_, ?_⟩
  · rw [hI.ctx_eq]
    apply List.countP_congr
    intro h hm
    cases hl : h.late with
    | true => simp
    | false => simp [H.holds, hh h hm hl]
  · rw [hI.calls_eq]
    apply List.countP_congr
    intro c hm
    cases hl : c.late with
    | true => simp
    | false => simp [hcc c hm hl]

/-- at closeRet both counters are 0 when no frame was in the `read.add` window, no `Push` and no
    `AsyncCall` of this side raced with the waits (no late thread). -/
theorem C08_close_waits_zero (s : St) (r : Reach St.init s) (hc : s.closer = .ret)
    (hh : ∀ h ∈ s.hs, h.late = false) (hcs : ∀ c ∈ s.cs, c.late = false) :
    s.ctx = 0 ∧ s.calls = 0 := by
  have h := C08_close_waits s r (by rw [hc]; decide)
  refine ⟨?_, ?_⟩
  · rw [h.2.2.1, List.countP_eq_zero]
    intro x hx; simp [hh x hx]
  · rw [h.2.2.2, List.countP_eq_zero]
    intro x hx; simp [hcs x hx]

example : ∃ s, Reach St.init s ∧ s.closer = .ret ∧ (∀ h ∈ s.hs, h.late = false) ∧
    (∀ c ∈ s.cs, c.late = false) ∧ s.hs ≠ [] := by
  exact ⟨_, run_reach' exRun St.init (by decide), by decide⟩

/-- the `read.add` window schedule: the CALL frame is consumed and has passed the post-read status
    check BEFORE `Close()` starts; the closer sees the counter at 0, goes on to ActiveClosed and
    closes the socket; only then the reader executes `Add(1)`; the handler runs, its reply is
    refused with the 102 sentinel; `Close()` has already returned with the ctx counter at 1. -/
def windowRun : List Ev :=
  [.rTop, .envCall 7, .rRead, .rCheck, .xStart, .xHubdel, .xCtxWait, .xCallWait, .xStClosed, .xSock,
   .xRet, .rAdd]

/-- "ctxCount = 0 at closeRet" does not hold unconditionally: `Close()` has returned, the connection
    was never lost, and the ctx wait group counter is 1. -/
theorem C08_close_waits_ctx_witness :
    ∃ s, Reach St.init s ∧ s.lost = false ∧ s.closer = .ret ∧ s.ctx = 1 := by
  exact ⟨_, run_reach' windowRun St.init (by decide), by decide⟩

/-! ## the `read.add` window, precisely -/

/-- Without connection loss a CALL handler's reply is lost only if its `Add(1)` ran after the
    closer had returned from `graceCtxWait()` — its frame was still in the reader's hands (or not
    yet read) at that moment — and such a handler was never entered before closeStart. -/
theorem C08_lost_reply_only_late (s : St) (r : Reach St.init s) (hl : s.lost = false)
    (h : H) (hm : h ∈ s.hs) (hk : h.kind = .call) (hr : h.res = .lost) :
    h.late = true ∧ h.ebc = false := by
  have hI := sinv_reach r
  have h1 : h.late = true := by
    cases hlt : h.late with
    | true => rfl
    | false => exact absurd hr ((hI.nolost hl).hres h hm hlt hk)
  refine ⟨h1, ?_⟩
  cases he : h.ebc with
  | false => rfl
  | true => rw [hI.ebc_h h hm he] at h1; cases h1

/-- A frame consumed before `Close()` was even invoked can have its handler run and its reply
    refused (status 102 written nowhere; the remote caller ends with a connection error), with no
    connection loss: the handler is entered after closeStart, so this is outside the property's
    guarantee — but it is what happens to a frame in the `read.add` window. -/
theorem C08_read_add_window_witness :
    ∃ s, Reach St.init s ∧ s.lost = false ∧ s.closer = .ret ∧
      ∃ h ∈ s.hs, h.kind = .call ∧ h.pc = .fin ∧ h.res = .lost ∧ h.ebc = false ∧ h.late = true := by
  exact ⟨_, run_reach' (windowRun ++ [.hEnter 0, .hBody 0, .hCheck 0, .hFin 0]) St.init (by decide), by decide⟩

/-- A frame consumed (gate `read.msg`) but not yet past the post-read status check when the closer
    reaches ActiveClosed is dropped: no handler, no reply, nothing counted. -/
theorem C08_read_msg_window_dropped_witness :
    ∃ s, Reach St.init s ∧ s.lost = false ∧ s.closer = .ret ∧ s.hs = [] ∧ s.inq = [] ∧ s.ctx = 0 ∧
      s.reader = .rexit := by
  exact ⟨_, run_reach' [.rTop, .envCall 7, .rRead, .xStart, .xHubdel, .xCtxWait, .xCallWait, .xStClosed,
    .rCheck, .xSock, .xRet, .rDLoad, .rDGo] St.init (by decide), by decide⟩

/-- While the closer is still waiting for calls of this side (status ActiveClosing), a handler
    counted after the ctx wait still gets its reply out: the window loses the reply only once the
    status has left ActiveClosing. -/
theorem C08_read_add_window_replied_witness :
    ∃ s, Reach St.init s ∧ s.lost = false ∧ s.closer = .ret ∧
      ∃ h ∈ s.hs, h.kind = .call ∧ h.late = true ∧ h.res = .ok := by
  exact ⟨_, run_reach' [.rTop, .cSeq, .cIssue 0, .cCheck 0, .cWrite 0, .envCall 7, .rRead, .rCheck,
    .xStart, .xHubdel, .xCtxWait, .rAdd, .rTop, .hEnter 0, .hBody 0, .hCheck 0, .hWrite 0, .hFin 0,
    .envReply 0, .rRead, .rCheck, .rAdd, .hReplyDone 1, .hFin 1, .xCallWait, .xStClosed, .xSock, .xRet]
    St.init (by decide), by decide⟩

/-! ## calls this side issued -/

/-- For every reachable state and every call of this side that passed the status test of `write`
    (which is possible only before closeStart, `C08_issued_before_close`):
    (a) if it has completed, it completed with the peer's reply — or the connection was lost;
    (b) once the reader has delivered the peer's reply frame to it (also in ActiveClosing: the
        reader keeps reading), the call is bound and the only completion it can get is the reply;
    (c) when the closer has returned from the call wait (in particular at closeRet) it has
        completed. -/
theorem C08_issued_calls (s : St) (r : Reach St.init s) (c : C) (hm : c ∈ s.cs) (hk : c.chk = true) :
    (∀ res, c.pc = .done res → res = .reply ∨ s.lost = true) ∧
    (c.deliv = true → c.pc = .bound ∨ c.pc = .done .reply) ∧
    (4 ≤ s.closer.rank → ∃ res, c.pc = .done res) := by
  have hI := sinv_reach r
  have hf := hI.cflags c hm
  refine ⟨?_, hf.2.2.2.1, ?_⟩
  · intro res hp
    cases hlost : s.lost with
    | true => exact Or.inr rfl
    | false =>
      left
      have hn := (hI.nolost hlost).cres c hm
      cases res with
      | reply => rfl
      | refused => have := hf.2.1 (Or.inr (Or.inr (Or.inr hp))); rw [hk] at this; cases this
      | wfail => exact absurd hp hn.2
      | cancelled => exact absurd hp hn.1
  · intro h4
    have ho := hI.wait_c h4 c hm (hf.1 hk)
    have hns : c.pc ≠ .seq := fun h => by have := hf.2.1 (Or.inl h); rw [hk] at this; cases this
    revert ho hns
    unfold C.isOpen
    cases c.pc <;> simp

/-- a call passes the status test of `write` (step `cCheck` sets `chk` exactly when
    `callAllowed s.status`) only while the closer has not done its CAS: the calls
    `C08_issued_calls` speaks about are exactly the calls issued (written) before closeStart; a call
    of this side that reaches the test later is refused with the 102 sentinel without any frame
    (`C08_refused_not_written`). -/
theorem C08_issued_before_close (s : St) (r : Reach St.init s) (h : callAllowed s.status = true) :
    s.closer.rank = 0 := by
  have hI := sinv_reach r
  by_cases h1 : 1 ≤ s.closer.rank
  · have := hI.st_rank h1
    simp only [callAllowed, beq_iff_eq] at h
    exact absurd h this
  · omega

/-- a refused call never passed the test and wrote no frame. -/
theorem C08_refused_not_written (s : St) (r : Reach St.init s) (c : C) (hm : c ∈ s.cs)
    (hp : c.pc = .done .refused) : c.chk = false :=
  ((sinv_reach r).cflags c hm).2.1 (Or.inr (Or.inr (Or.inr hp)))

/-- non-vacuity: a reachable state at closeRet, connection not lost, with a call of this side that
    was written before closeStart, whose reply arrived during ActiveClosing and completed it. -/
example : ∃ s, Reach St.init s ∧ s.lost = false ∧ s.closer = .ret ∧
    ∃ c ∈ s.cs, c.chk = true ∧ c.pc = .done .reply := by
  exact ⟨_, run_reach' [.rTop, .cSeq, .cIssue 0, .cCheck 0, .cWrite 0, .xStart, .xHubdel, .xCtxWait,
    .envReply 0, .rRead, .rCheck, .rAdd, .hReplyDone 0, .hFin 0, .xCallWait, .xStClosed, .xSock, .xRet]
    St.init (by decide), by decide⟩

/-- with connection loss the call does end with the connection error (the other branch of the
    property): written, connection lost, the reader cancels it. -/
example : ∃ s, Reach St.init s ∧ s.lost = true ∧ ∃ c ∈ s.cs, c.chk = true ∧ c.pc = .done .cancelled := by
  exact ⟨_, run_reach' [.rTop, .cSeq, .cIssue 0, .cCheck 0, .cWrite 0, .envLost, .rReadErr, .rCheck,
    .rDLoad, .rDGo, .rDWait, .rDSnap, .rDPick 0, .rDVisit] St.init (by decide), by decide⟩

/-! ## Close returns (liveness) -/

/-- **The wait counters are exact.** In every reachable state the handler-context wait group counts
    exactly the handler goroutines that have not yet run `putContext` (`Done()`), and the call wait
    group exactly the calls between `Add(1)` and `done()`/`cancel()`. So a wait returns as soon as — and
    only when — nothing it counts is outstanding. -/
theorem C08_wait_counters_exact (s : St) (r : Reach St.init s) :
    s.ctx = s.hs.countP H.holds ∧ s.calls = s.cs.countP C.isOpen :=
  ⟨(sinv_reach r).ctx_eq, (sinv_reach r).calls_eq⟩

/-- Every internal step — any step that is not a new choice of the environment — strictly decreases
    the natural-number measure `mu` (no reachability assumption needed). -/
theorem C08_measure (s t : St) (e : Ev) (hi : e.internal = true) (hs : step s e = some t) : mu t < mu s :=
  mu_step hi hs

/-- Every run of internal steps is finite: from any state `s` a run of internal steps has at most
    `mu s` steps (it ends in a state with no internal step enabled, or is extended by the environment). -/
theorem C08_internal_runs_finite (s t : St) (es : List Ev) (hint : ∀ e ∈ es, e.internal = true)
    (hrun : run s es = some t) : es.length + mu t ≤ mu s :=
  run_internal_bound es hint hrun

/-- **Close returns.** For every interleaving of any number of handlers, callers, the reader, the
    disconnect path (cancel loop in any order) and the closer, with the connection intact or lost: in
    every reachable state in which no internal step is enabled, `Close()` has been called, no handler
    body is still running and every written call has been answered by the peer or the connection is
    lost — `Close()` HAS RETURNED; the session is closed (status ActiveClosed / PassiveClosed, socket
    closed, the reader has left its loop and `readDisconnected`); both wait-group counters are zero;
    every handler goroutine has finished, the reply of every CALL handler was written or refused for a
    reason the property allows (the connection was lost, or the handler was counted only after the
    closer's context wait had returned — the `read.add` window — and such a handler was not entered
    before closeStart); every call has completed: with the peer's reply unless the connection was lost,
    and refused without a frame exactly when it never passed `write`'s status test (issued after
    closeStart). The closer is never parked at a wait whose counter can no longer reach zero. -/
theorem C08_close_returns (s : St) (r : Reach St.init s) (hq : Quiescent s) (hc : s.closer ≠ .idle)
    (he : EnvDone s) :
    s.closeReturned = true ∧ (s.status = .closed ∨ s.status = .pclosed) ∧ s.sock = true ∧ s.reader = .rexit ∧
    s.ctx = 0 ∧ s.calls = 0 ∧
    (∀ h ∈ s.hs, h.pc = .fin ∧
      (h.kind = .call → h.res = .ok ∨ (h.res = .lost ∧ (s.lost = true ∨ (h.late = true ∧ h.ebc = false))))) ∧
    (∀ c ∈ s.cs, ∃ res, c.pc = .done res ∧ (c.chk = true → res = .reply ∨ s.lost = true) ∧
      (c.chk = false → res = .refused)) := by
  have hS := sinv_reach r
  have hI := qinv_reach r
  obtain ⟨h1, h2, h3, h4, h5, h6, h7, h8⟩ := close_returns hS hI hq hc he
  refine ⟨h1, h2, h3, h4, h5, h6, ?_, ?_⟩
  · intro h hm
    refine ⟨h7 h hm, ?_⟩
    intro hk
    have hn := (hS.hres h hm hk).2.2.1 (h7 h hm)
    cases hr : h.res with
    | none => exact absurd hr hn
    | ok => exact Or.inl rfl
    | lost =>
      right
      refine ⟨rfl, ?_⟩
      cases hl : s.lost with
      | true => exact Or.inl rfl
      | false => exact Or.inr (C08_lost_reply_only_late s r hl h hm hk hr)
  · intro c hm
    obtain ⟨res, hres⟩ := h8 c hm
    refine ⟨res, hres, ?_, ?_⟩
    · intro hk
      exact (C08_issued_calls s r c hm hk).1 res hres
    · intro hk
      have hco := (hI.qc.copen c hm).2.2
      cases res with
      | refused => rfl
      | reply => have := hco (Or.inl hres); rw [hk] at this; cases this
      | cancelled => have := hco (Or.inr (Or.inl hres)); rw [hk] at this; cases this
      | wfail => have := hco (Or.inr (Or.inr hres)); rw [hk] at this; cases this

/-- **A running handler is the only thing that can keep Close from returning.** Reachable, no
    internal step enabled, `Close()` called and NOT returned: then a handler body of this side is still
    running, or a call this side wrote is still unanswered on an intact connection (the peer's handler
    is still running) — nothing else; in particular never a wait for something that can no longer
    happen. -/
theorem C08_close_waits_only_for_env (s : St) (r : Reach St.init s) (hq : Quiescent s) (hc : s.closer ≠ .idle)
    (hnr : s.closeReturned = false) :
    (∃ h ∈ s.hs, h.pc = .entered) ∨ (∃ c ∈ s.cs, c.pc = .written ∧ c.replied = false ∧ s.lost = false) :=
  close_waits_only_for_env (sinv_reach r) (qinv_reach r) hq hc hnr

/-- "Once the running handlers have returned and the issued calls have been answered (or the
    connection is lost), Close returns without any further external event": from a reachable state in
    which `Close()` has been called, every run of internal steps only has at most `mu s` steps, and when
    it reaches a state `t` it cannot be extended from (which every maximal run does, by the bound) and in
    which the environment owes nothing, `Close()` has returned in `t` and the session is closed, all
    handlers finished, all calls completed. -/
theorem C08_close_return_follows (s t : St) (r : Reach St.init s) (es : List Ev)
    (hint : ∀ e ∈ es, e.internal = true) (hrun : run s es = some t) (hc : s.closer ≠ .idle)
    (hq : Quiescent t) (he : EnvDone t) :
    es.length ≤ mu s ∧ t.closeReturned = true ∧ (t.status = .closed ∨ t.status = .pclosed) ∧ t.sock = true ∧
    (∀ h ∈ t.hs, h.pc = .fin) ∧ (∀ c ∈ t.cs, ∃ res, c.pc = .done res) := by
  have hb := run_internal_bound es hint hrun
  have rt : Reach St.init t := reach_trans r (run_reach es hrun)
  have h := C08_close_returns t rt hq (run_closer_called es hrun hc) he
  refine ⟨by omega, h.1, h.2.1, h.2.2.1, fun x hx => (h.2.2.2.2.2.2.1 x hx).1, ?_⟩
  intro c hm
  obtain ⟨res, hres, _⟩ := h.2.2.2.2.2.2.2 c hm
  exact ⟨res, hres⟩

/-- the end state of `exRun` after the reader has seen the closed status and left: the call answered,
    everything finished, `Close()` returned. -/
def exEnd : St :=
  { status := .closed, ctx := 0, calls := 0, sock := true, lost := false, inq := [], closer := .ret,
    reader := .rexit, hs := [⟨.call, 7, .fin, true, false, .ok⟩], cs := [] }

/-- a state in which `Close()` legitimately still waits: handler 7 is in its body (entered before
    closeStart), the closer is parked in the context wait. -/
def waitingRun : List Ev := [.rTop, .envCall 7, .rRead, .rCheck, .rAdd, .rTop, .hEnter 0, .xStart, .xHubdel]

def waitingSt : St :=
  { status := .closing, ctx := 1, calls := 0, sock := false, lost := false, inq := [], closer := .hubdel,
    reader := .blocked, hs := [⟨.call, 7, .entered, true, false, .none⟩], cs := [] }

/-- the same for a call of this side: written before closeStart, the peer has not answered, the
    connection is intact; the closer is parked in the call wait. -/
def waitingCallRun : List Ev := [.rTop, .cSeq, .cIssue 0, .cCheck 0, .cWrite 0, .xStart, .xHubdel, .xCtxWait]

def waitingCallSt : St :=
  { status := .closing, ctx := 0, calls := 1, sock := false, lost := false, inq := [], closer := .ctxw,
    reader := .blocked, hs := [], cs := [⟨.written, true, false, false, false⟩] }

/-- non-vacuity of `C08_close_returns`: the end of `exRun` followed by the reader's last steps (it sees
    the closed status and leaves) is reachable, quiescent, `Close()` was called, the environment owes
    nothing — and a handler entered before closeStart is among the finished ones. -/
example : ∃ s, Reach St.init s ∧ Quiescent s ∧ s.closer ≠ .idle ∧ EnvDone s ∧ s.hs ≠ [] := by
  have hrun : run St.init (exRun ++ [.rTop, .rDLoad, .rDGo]) = some exEnd := by decide
  refine ⟨_, run_reach _ hrun, ?_, by decide, ⟨by decide, by decide⟩, by decide⟩
  intro e he
  cases e with
  | hEnter i => rcases i with _ | i <;> simp [step, exEnd]
  | hBody i => simp [Ev.internal] at he
  | hCheck i => rcases i with _ | i <;> simp [step, exEnd]
  | hWrite i => rcases i with _ | i <;> simp [step, exEnd]
  | hReplyDone i => rcases i with _ | i <;> simp [step, exEnd]
  | hFin i => rcases i with _ | i <;> simp [step, exEnd]
  | cIssue j => simp [step, exEnd]
  | cCheck j => simp [step, exEnd]
  | cRefuse j => simp [step, exEnd]
  | cWrite j => simp [step, exEnd]
  | envCall _ => simp [Ev.internal] at he
  | envReply _ => simp [Ev.internal] at he
  | envLost => simp [Ev.internal] at he
  | cSeq => simp [Ev.internal] at he
  | pushStart => simp [Ev.internal] at he
  | xStart => simp [Ev.internal] at he
  | rDPick j => simp [step, exEnd]
  | _ => simp [step, exEnd]

/-- non-vacuity of `C08_close_waits_only_for_env`, first disjunct: `Close()` legitimately still waits
    for a running handler — reachable, quiescent, `Close()` called and not returned. -/
example : Reach St.init waitingSt ∧ Quiescent waitingSt ∧ waitingSt.closer ≠ .idle ∧
    waitingSt.closeReturned = false ∧ ∃ h ∈ waitingSt.hs, h.pc = .entered ∧ h.ebc = true := by
  have hrun : run St.init waitingRun = some waitingSt := by decide
  refine ⟨run_reach _ hrun, ?_, by decide, by decide, by decide⟩
  intro e he
  cases e with
  | hEnter i => rcases i with _ | i <;> simp [step, waitingSt]
  | hBody i => simp [Ev.internal] at he
  | hCheck i => rcases i with _ | i <;> simp [step, waitingSt]
  | hWrite i => rcases i with _ | i <;> simp [step, waitingSt]
  | hReplyDone i => rcases i with _ | i <;> simp [step, waitingSt]
  | hFin i => rcases i with _ | i <;> simp [step, waitingSt]
  | cIssue j => simp [step, waitingSt]
  | cCheck j => simp [step, waitingSt]
  | cRefuse j => simp [step, waitingSt]
  | cWrite j => simp [step, waitingSt]
  | envCall _ => simp [Ev.internal] at he
  | envReply _ => simp [Ev.internal] at he
  | envLost => simp [Ev.internal] at he
  | cSeq => simp [Ev.internal] at he
  | pushStart => simp [Ev.internal] at he
  | xStart => simp [Ev.internal] at he
  | rDPick j => simp [step, waitingSt]
  | _ => simp [step, waitingSt]

/-- Second disjunct, as a named witness because it bounds what "Close returns" can mean: the
    statement "Close() has returned in every quiescent state in which Close() was called and no handler
    body of THIS side is running" is false — `Close()` waits in the call wait for the peer's answer to a
    call written before closeStart, on an intact connection (the property: such a call completes "with
    the peer's reply if the peer sends one"). The peer's handler is the handler that is still running;
    without a context deadline there is no other bound. The real code does the same (gate schedule
    `1.o1,1.oa1,1.ob1,1.oc1,1.cl,1.cc,1.cc,1.cc`: closer parked after close.ctxwait, corpus/C08). -/
theorem C08_close_waits_for_peer_reply_witness :
    Reach St.init waitingCallSt ∧ Quiescent waitingCallSt ∧ waitingCallSt.closer ≠ .idle ∧
    (∀ h ∈ waitingCallSt.hs, h.pc ≠ .entered) ∧ waitingCallSt.lost = false ∧
    waitingCallSt.closeReturned = false ∧
    ∃ c ∈ waitingCallSt.cs, c.pc = .written ∧ c.replied = false := by
  have hrun : run St.init waitingCallRun = some waitingCallSt := by decide
  refine ⟨run_reach _ hrun, ?_, by decide, by decide, by decide, by decide, by decide⟩
  intro e he
  cases e with
  | hEnter i => simp [step, waitingCallSt]
  | hBody i => simp [Ev.internal] at he
  | hCheck i => simp [step, waitingCallSt]
  | hWrite i => simp [step, waitingCallSt]
  | hReplyDone i => simp [step, waitingCallSt]
  | hFin i => simp [step, waitingCallSt]
  | cIssue j => rcases j with _ | j <;> simp [step, waitingCallSt]
  | cCheck j => rcases j with _ | j <;> simp [step, waitingCallSt]
  | cRefuse j => rcases j with _ | j <;> simp [step, waitingCallSt]
  | cWrite j => rcases j with _ | j <;> simp [step, waitingCallSt]
  | envCall _ => simp [Ev.internal] at he
  | envReply _ => simp [Ev.internal] at he
  | envLost => simp [Ev.internal] at he
  | cSeq => simp [Ev.internal] at he
  | pushStart => simp [Ev.internal] at he
  | xStart => simp [Ev.internal] at he
  | rDPick j => simp [step, waitingCallSt]
  | _ => simp [step, waitingCallSt]

/-- non-vacuity of `C08_close_return_follows` / `C08_measure`: from `waitingSt` after the handler body
    has returned (one external event), 8 internal steps and nothing else lead to a state in which
    `Close()` has returned; the measure goes from 19 to 11. -/
example : ∃ s t, Reach St.init s ∧ s.closer ≠ .idle ∧
    run s [.hCheck 0, .hWrite 0, .hFin 0, .xCtxWait, .xCallWait, .xStClosed, .xSock, .xRet] = some t ∧
    (∀ e ∈ [Ev.hCheck 0, .hWrite 0, .hFin 0, .xCtxWait, .xCallWait, .xStClosed, .xSock, .xRet], e.internal = true) ∧
    t.closeReturned = true ∧ mu s = 19 ∧ mu t = 11 := by
  have hrun : run St.init (waitingRun ++ [.hBody 0]) =
      some { waitingSt with hs := [⟨.call, 7, .hdone, true, false, .none⟩] } := by decide
  refine ⟨_, { exEnd with reader := .blocked }, run_reach _ hrun, by decide, by decide, by decide, by decide,
    by decide, by decide⟩

/-! ## the cancel loop's order (`callCmdMap.Range` in `readDisconnected`) -/

/-- **Any remaining entry can be next.** Inside `Range` with the entries `todo` still to come, the
    model lets the iteration yield entry `j` next iff `j` is one of them — no order is preferred. -/
theorem C08_cancel_any_order (s : St) (a : Bool) (todo : List Nat) (hr : s.reader = .dloop a todo) (j : Nat) :
    (step s (.rDPick j)).isSome = true ↔ j ∈ todo := by
  simp only [step, hr]
  by_cases hj : j ∈ todo <;> simp [hj]

/-- **Every permutation of the entries is a possible visiting order, and the order does not matter
    unless the loop blocks.** From a state inside `Range` with the entries `todo` still to come, none of
    whose calls has its mutex held (no caller parked inside `AsyncCall`): for EVERY permutation `ord` of
    `todo` the loop can visit the entries in the order `ord`, and it always ends in the same state
    `loopEnd s a todo` (every written call among them cancelled, the counter lowered accordingly). So
    the observation of such a loop is invariant under the order. -/
theorem C08_cancel_order_invariant (s : St) (a : Bool) (todo ord : List Nat) (hr : s.reader = .dloop a todo)
    (hp : ord.Perm todo) (hfree : ∀ j ∈ todo, ∀ c, s.cs[j]? = some c → c.muHeld = false) :
    run s (loopEvs ord) = some (loopEnd s a todo) := by
  rw [run_loop_perm ord todo s a hr hp hfree, loopEnd_perm s a hp]

/-- **Only permutations.** For any run (any events of any goroutines in between) during which the
    reader stays inside one `Range` — `rem` still to come at the start, `rem'` at the end — the entries
    the loop yielded, followed by `rem'`, are a permutation of `rem`. In particular a loop that ran from
    its snapshot to the end (`rem' = []`) visited exactly a permutation of the snapshot: the
    alternatives the order can produce are exactly the permutations of the set to cancel. -/
theorem C08_cancel_only_permutations (s t : St) (es : List Ev) (rem rem' : List Nat) (hrun : run s es = some t)
    (h0 : s.reader.remaining = some rem) (h1 : t.reader.remaining = some rem') :
    (picks es ++ rem').Perm rem :=
  picks_perm es hrun h0 h1

/-- the snapshot `Range` starts from is exactly the set of calls in the pending table. -/
theorem C08_cancel_snapshot (s t : St) (hs : step s .rDSnap = some t) :
    ∃ a, s.reader = .dcancel a ∧ t.reader = .dloop a (openIdx s.cs) ∧
      ∀ j c, s.cs[j]? = some c → c.isOpen = true → j ∈ openIdx s.cs := by
  simp only [step] at hs
  split at hs
  · rename_i a hr
    cases hs
    exact ⟨a, hr, rfl, fun j c hg ho => mem_openIdx hg ho⟩
  · cases hs

/-- **The driver explores every order (tie B).** Inside `Range` the reader steps the model driver
    (`Drv/C08.readerEvs`, from which `settle` builds all alternatives of the printed line) tries are
    exactly the reader steps the model enables: one `rDPick j` per remaining entry, `rDCancelEnd` when
    none is left. -/
theorem C08_driver_explores_every_order (s : St) (a : Bool) (todo : List Nat) (hr : s.reader = .dloop a todo)
    (e : Ev) (he : e.isReader = true) : (step s e).isSome = true ↔ e ∈ Drv.D08.readerEvs s := by
  cases todo with
  | nil => cases e <;> simp [step, hr, Drv.D08.readerEvs, Ev.isReader] at he ⊢
  | cons k r => cases e <;> simp [step, hr, Drv.D08.readerEvs, Ev.isReader] at he ⊢

/-- calls 0 and 1 written, the connection lost, the reader inside `Range` over both. -/
def twoWritten : List Ev :=
  [.rTop, .cSeq, .cIssue 0, .cCheck 0, .cWrite 0, .cSeq, .cIssue 1, .cCheck 1, .cWrite 1, .envLost, .rReadErr, .rCheck,
   .rDLoad, .rDGo, .rDWait, .rDSnap]

/-- non-vacuity of `C08_cancel_order_invariant` / `C08_cancel_only_permutations`: a reachable state
    inside `Range` over two written calls, no mutex held; both orders run and give the same state, in
    which both calls are cancelled. -/
example : ∃ s, Reach St.init s ∧ s.reader = .dloop false [0, 1] ∧
    (∀ j ∈ [0, 1], ∀ c, s.cs[j]? = some c → c.muHeld = false) ∧
    run s (loopEvs [0, 1]) = run s (loopEvs [1, 0]) ∧
    (∃ t, run s (loopEvs [1, 0]) = some t ∧ t.cs.map (·.pc) = [.done .cancelled, .done .cancelled] ∧ t.calls = 0) := by
  have h : run St.init twoWritten = some ((run St.init twoWritten).getD St.init) := by decide
  refine ⟨_, run_reach _ h, by decide, by decide, by decide,
    (run ((run St.init twoWritten).getD St.init) (loopEvs [1, 0])).getD St.init, by decide, by decide, by decide⟩

/-- call 0 written, call 1 parked at `write.check` (its caller holds the mutex), the connection lost, the
    reader inside `Range` over both. -/
def writtenAndParked : List Ev :=
  [.rTop, .cSeq, .cIssue 0, .cCheck 0, .cWrite 0, .cSeq, .cIssue 1, .cCheck 1, .envLost, .rReadErr, .rCheck,
   .rDLoad, .rDGo, .rDWait, .rDSnap]

/-- **When the loop blocks, the order is observable** (this is what the driver's alternatives are for):
    from the same reachable state, the order 0,1 cancels call 0 and then blocks at call 1; the order 1,0
    blocks at call 1 with call 0 still pending. Both are stuck until the caller of call 1 moves; a
    `Close()` that returns at once in between (the status is already PassiveClosing) sees 1 resp. 2
    pending calls. -/
theorem C08_cancel_order_observable_when_blocked_witness :
    ∃ s t1 t2, Reach St.init s ∧ run s [.rDPick 0, .rDVisit, .rDPick 1] = some t1 ∧ run s [.rDPick 1] = some t2 ∧
      step t1 .rDVisit = none ∧ step t2 .rDVisit = none ∧ t1.calls = 1 ∧ t2.calls = 2 ∧
      (step t1 .xStart).map (·.closer) = some .noop ∧ (step t2 .xStart).map (·.closer) = some .noop := by
  have h : run St.init writtenAndParked = some ((run St.init writtenAndParked).getD St.init) := by decide
  refine ⟨(run St.init writtenAndParked).getD St.init,
    (run ((run St.init writtenAndParked).getD St.init) [.rDPick 0, .rDVisit, .rDPick 1]).getD St.init,
    (run ((run St.init writtenAndParked).getD St.init) [.rDPick 1]).getD St.init,
    run_reach _ h, by decide, by decide, by decide, by decide, by decide, by decide, by decide, by decide⟩

/-! ## Peer.Close -/

/-- `Peer.Close` = listeners closed, then one `Close` per session of the hub in parallel, joined:
    for every interleaving of any number of sessions, when `Peer.Close` has returned the listeners
    are closed, every session it spawned a `Close` for has its `Close()` returned, and every
    session is a reachable state of the one-session system — so all theorems above hold for each of
    them (product lemma), which the last three conjuncts spell out. -/
theorem C08_peer_close (p : PSt) (r : PReach PSt.init p) (hj : p.pc = .joined) :
    p.lis = false ∧
    (∀ i ∈ p.spawned, ∀ s, p.ss[i]? = some s → s.closeReturned = true) ∧
    (∀ s ∈ p.ss, Reach St.init s) ∧
    (∀ s ∈ p.ss, s.lost = false → 3 ≤ s.closer.rank → ∀ h ∈ s.hs, h.kind = .call → h.ebc = true →
        h.pc = .fin ∧ h.res = .ok) ∧
    (∀ s ∈ p.ss, 4 ≤ s.closer.rank → ∀ c ∈ s.cs, c.chk = true →
        ∃ res, c.pc = .done res ∧ (res = .reply ∨ s.lost = true)) := by
  have hI := pinv_reach r
  refine ⟨hI.lis (by rw [hj]; decide), hI.joined hj, hI.reach, ?_, ?_⟩
  · intro s hs hl hc h hm hk he
    exact C08_entered_handlers_reply s (hI.reach s hs) hl hc h hm hk he
  · intro s hs hc c hm hk
    have h := C08_issued_calls s (hI.reach s hs) c hm hk
    obtain ⟨res, hres⟩ := h.2.2 hc
    exact ⟨res, hres, h.1 res hres⟩

/-- the sessions `Peer.Close` spawns a `Close` for include every session that is serving and that
    nobody has started to close (those are certainly in the hub when it ranges over it). -/
theorem C08_peer_close_covers (p q : PSt) (w : List Nat) (hs : pstep p (.spawn w) = some q)
    (i : Nat) (s : St) (hi : p.ss[i]? = some s) (hh : s.inHub = true) : i ∈ q.spawned := by
  simp only [pstep] at hs
  split at hs
  · rename_i hg
    cases hs
    have := coversHub_spec p.ss 0 w hg.2 i s hi hh
    simpa using this
  · contradiction

/-- non-vacuity: two sessions, `Peer.Close` runs to the join. -/
example : ∃ p, PReach PSt.init p ∧ p.pc = .joined ∧ p.ss.length = 2 ∧ p.spawned = [0, 1] := by
  have r0 : PReach PSt.init PSt.init := .refl
  have r1 := r0.step ⟨.accept, rfl⟩
  have r2 := r1.step ⟨.accept, rfl⟩
  have r3 := r2.step ⟨.closeLis, rfl⟩
  have r4 := r3.step ⟨.spawn [0, 1], rfl⟩
  have r5 := r4.step ⟨.sess 0 .xStart, rfl⟩
  have r6 := r5.step ⟨.sess 1 .xStart, rfl⟩
  have r7 := r6.step ⟨.sess 0 .xHubdel, rfl⟩
  have r8 := r7.step ⟨.sess 0 .xCtxWait, rfl⟩
  have r9 := r8.step ⟨.sess 0 .xCallWait, rfl⟩
  have r10 := r9.step ⟨.sess 0 .xStClosed, rfl⟩
  have r11 := r10.step ⟨.sess 0 .xSock, rfl⟩
  have r12 := r11.step ⟨.sess 0 .xRet, rfl⟩
  have r13 := r12.step ⟨.sess 1 .xHubdel, rfl⟩
  have r14 := r13.step ⟨.sess 1 .xCtxWait, rfl⟩
  have r15 := r14.step ⟨.sess 1 .xCallWait, rfl⟩
  have r16 := r15.step ⟨.sess 1 .xStClosed, rfl⟩
  have r17 := r16.step ⟨.sess 1 .xSock, rfl⟩
  have r18 := r17.step ⟨.sess 1 .xRet, rfl⟩
  have r19 := r18.step ⟨.join, rfl⟩
  exact ⟨_, r19, by decide⟩

/-! ## Peer.Close as coded (Model/PeerClose): any number of sessions, accepted / served / dialled

`Model/PeerClose` refines the `PSt` product above: `Peer.Close` statement by statement (`close(closeCh)`,
listeners closed, `sessHub.rangeCallback` visiting one hub entry at a time and spawning one
`sess.Close()` each, `count` receives from `errCh`, return), and the three ways a session comes to
exist with the exact place of `sessHub.set` in each (names qualified `PeerClose.`). -/

/-- **When `Peer.Close` has returned, every session it found in the hub has its `Close()` returned —
    hence every handler entered before that `Close()` has finished with its genuine reply written.**
    For every interleaving of any number of sessions (accepted, served, dialled; established before,
    while or after `Peer.Close` runs), in every reachable state in which `Peer.Close` has returned:
    `closeCh` is closed and the listeners no longer accept; for EVERY session the range callback ran
    for, `sess.Close()` has returned; every session that was in the hub when the range started was
    visited, or has left the hub in the meantime (`sessHub.delete` by another `Close()` of that session
    or by its own `readDisconnected` — `hub = false` after `sessHub.set` was done); every session
    record is a reachable state of the one-session machine, so the per-session theorems apply: in a
    visited session whose closer ran to its end on an intact connection, every CALL handler entered
    before closeStart has finished and its reply was written OK, and every call that passed `write`'s
    status test has completed with the peer's reply. -/
theorem C08_peer_close_returns_after_all_sessions (p : PeerClose.PSt)
    (r : PeerClose.PReach PeerClose.PSt.init p) (hr : p.pc = .ret) :
    p.chClosed = true ∧ p.lis = false ∧
    (∀ i ∈ p.visited, ∃ s, p.ss[i]? = some s ∧ s.st.closeReturned = true) ∧
    (∀ i ∈ p.must, i ∈ p.visited ∨ ∃ s, p.ss[i]? = some s ∧ s.hub = false ∧ s.setDone = true) ∧
    (∀ s ∈ p.ss, Reach St.init s.st) ∧
    (∀ i ∈ p.visited, ∀ s, p.ss[i]? = some s → s.st.closer = .ret → s.st.lost = false →
        (∀ h ∈ s.st.hs, h.kind = .call → h.ebc = true → h.pc = .fin ∧ h.res = .ok) ∧
        (∀ c ∈ s.st.cs, c.chk = true → c.pc = .done .reply)) := by
  have hI := PeerClose.pinv_reach r
  have hp := PeerClose.ret_pend_nil hI hr
  refine ⟨hI.ch (by rw [hr]; decide), hI.lis (by rw [hr]; decide), ?_, ?_, fun s hs => (hI.good s hs).reach, ?_⟩
  · intro i hi
    rcases hI.vis i hi with h | h
    · rw [hp] at h; cases h
    · exact h
  · intro i hi
    rcases hI.cover (by rw [hr]; decide) i hi with h | ⟨s, h1, h2⟩
    · exact Or.inl h
    · obtain ⟨s', h1', h3⟩ := hI.mustset i hi
      rw [h1] at h1'
      cases h1'
      exact Or.inr ⟨s, h1, h2, h3⟩
  · intro i _ s hk hc hl
    have hR := (hI.good s (List.mem_of_getElem? hk)).reach
    refine ⟨fun h hm hkd he => C08_entered_handlers_reply s.st hR hl (by rw [hc]; decide) h hm hkd he, ?_⟩
    intro c hm hk
    have h := C08_issued_calls s.st hR c hm hk
    obtain ⟨res, hres⟩ := h.2.2 (by rw [hc]; decide)
    rcases h.1 res hres with h2 | h2
    · rw [h2] at hres; exact hres
    · rw [hl] at h2; cases h2

/-- non-vacuity: an accepted and a dialled session, a handler entered on the first before `Peer.Close`;
    `Peer.Close` runs to its return; both were visited. -/
def peerExRun : List PeerClose.PEv :=
  [.accept, .hookOk 0, .goLive 0, .dial, .hookOk 1, .hubSet 1,
   .sess 0 (.envCall 7), .sess 0 .rTop, .sess 0 .rRead, .sess 0 .rCheck, .sess 0 .rAdd, .sess 0 (.hEnter 0),
   .pStart, .pLis, .pRange, .pVisit 1, .pVisit 0, .pRangeEnd,
   .sess 0 .xStart, .sess 1 .xStart, .sess 1 .xHubdel, .sess 1 .xCtxWait, .sess 1 .xCallWait, .sess 1 .xStClosed,
   .sess 1 .xSock, .sess 1 .xRet, .pRecv 1, .sess 0 .xHubdel,
   .sess 0 (.hBody 0), .sess 0 (.hCheck 0), .sess 0 (.hWrite 0), .sess 0 (.hFin 0),
   .sess 0 .xCtxWait, .sess 0 .xCallWait, .sess 0 .xStClosed, .sess 0 .xSock, .sess 0 .xRet, .pRecv 0, .pRet]

example : ∃ p, PeerClose.PReach PeerClose.PSt.init p ∧ p.pc = .ret ∧ p.visited = [0, 1] ∧ p.must = [0, 1] ∧
    ∃ s, p.ss[0]? = some s ∧ s.st.closer = .ret ∧ s.st.lost = false ∧
      ∃ h ∈ s.st.hs, h.kind = .call ∧ h.ebc = true ∧ h.pc = .fin ∧ h.res = .ok := by
  have h : PeerClose.prun PeerClose.PSt.init peerExRun =
      some ((PeerClose.prun PeerClose.PSt.init peerExRun).getD PeerClose.PSt.init) := by decide
  exact ⟨_, PeerClose.prun_reach _ h, by decide, by decide, by decide, by decide⟩

/-- **Peer.Close returns (liveness, any number of sessions).** In every reachable state of the peer
    system in which no internal step is enabled (no step of `Peer.Close`, no internal step of any
    session, no `Close()` of a session `Peer.Close` spawned one for), `Peer.Close` has been called, and
    in the sessions it is closing no handler body is still running and every written call has been
    answered or the connection is lost: `Peer.Close` HAS returned, and so has the `Close()` of every
    session it visited. `Peer.Close` is never parked at a receive that cannot be served. The internal
    steps of the sessions are finite (`C08_measure`, `C08_peer_measure_session`); that `Peer.Close`'s own
    steps are finite (one per statement group, one visit and one receive per hub entry) is visible from
    `pstep` but not stated as a theorem. -/
theorem C08_peer_close_waits (p : PeerClose.PSt) (r : PeerClose.PReach PeerClose.PSt.init p)
    (hq : PeerClose.PQuiescent p) (hc : p.pc ≠ .idle) (he : PeerClose.PEnvDone p) :
    p.pc = .ret ∧ ∀ i ∈ p.visited, ∃ s, p.ss[i]? = some s ∧ s.st.closeReturned = true := by
  have hr := PeerClose.peer_close_returns (PeerClose.pinv_reach r) hq hc he
  exact ⟨hr, (C08_peer_close_returns_after_all_sessions p r hr).2.2.1⟩

/-- **The only thing `Peer.Close` waits for is a session's `Close()`.** Reachable, no internal step
    enabled, `Peer.Close` called and NOT returned: then some session it spawned a `Close()` for has not
    returned from it (and for that session `C08_close_waits_only_for_env` says what it waits for: a
    running handler or the peer's answer on an intact connection). -/
theorem C08_peer_close_waits_only_for_sessions (p : PeerClose.PSt) (r : PeerClose.PReach PeerClose.PSt.init p)
    (hq : PeerClose.PQuiescent p) (hc : p.pc ≠ .idle) (hnr : p.pc ≠ .ret) :
    ∃ i ∈ p.visited, ∃ s, p.ss[i]? = some s ∧ s.st.closeReturned = false := by
  apply Classical.byContradiction
  intro hne
  apply hnr
  refine PeerClose.peer_returns_of_sessions (PeerClose.pinv_reach r) hq hc ?_
  intro i hi s hk
  cases h : s.st.closeReturned with
  | true => rfl
  | false => exact absurd ⟨i, hi, s, hk, h⟩ hne

/-- every internal step of a session — and the `Close()` that `Peer.Close` spawns — strictly decreases
    that session's measure `mu`. -/
theorem C08_peer_measure_session (s t : St) (e : Graceful.Ev) (hi : e.internal = true ∨ e = .xStart)
    (hs : step s e = some t) : mu t < mu s := by
  rcases hi with hi | hi
  · exact mu_step hi hs
  · subst hi
    simp only [step] at hs
    split at hs
    · rename_i hc
      have hM := rWf_mono s.reader (s.status == .ok) s.cs.length
      split at hs <;> cases hs <;> simp_all [mu, rW, xW, show (Status.closing == Status.ok) = false from by decide] <;> omega
    · cases hs

/-- the state `waitingSt`-like for the peer: one accepted session with a handler in its body,
    `Peer.Close` parked at its receive. -/
def peerWaitRun : List PeerClose.PEv :=
  [.accept, .hookOk 0, .goLive 0,
   .sess 0 (.envCall 7), .sess 0 .rTop, .sess 0 .rRead, .sess 0 .rCheck, .sess 0 .rAdd, .sess 0 .rTop, .sess 0 (.hEnter 0),
   .pStart, .pLis, .pRange, .pVisit 0, .pRangeEnd, .sess 0 .xStart, .sess 0 .xHubdel]

/-- non-vacuity of `C08_peer_close_waits_only_for_sessions` (and of the hypotheses of
    `C08_peer_close_waits` except `PEnvDone`): `Peer.Close` legitimately waits for session 0, whose
    closer waits for the running handler. -/
example : ∃ p, PeerClose.PReach PeerClose.PSt.init p ∧ p.pc = .recv ∧ p.visited = [0] ∧
    ∃ s, p.ss[0]? = some s ∧ s.st.closeReturned = false ∧ s.st.closer = .hubdel ∧
      ∃ h ∈ s.st.hs, h.pc = .entered ∧ h.ebc = true := by
  have h : PeerClose.prun PeerClose.PSt.init peerWaitRun =
      some ((PeerClose.prun PeerClose.PSt.init peerWaitRun).getD PeerClose.PSt.init) := by decide
  exact ⟨_, PeerClose.prun_reach _ h, by decide, by decide, by decide⟩

/-- **Which new connections `Peer.Close` refuses: the listeners', nothing else.** Once `Peer.Close` has
    closed the listeners (`pLis` and later, in every reachable state) no `accept` step is enabled; but
    `ServeConn` and `Dial` are enabled in EVERY state — before, during and after `Peer.Close` — because
    neither consults `closeCh` or any other record of the close (tie A: `C08_peer_close_order`). -/
theorem C08_peer_close_refuses_only_listener_accepts (p : PeerClose.PSt)
    (r : PeerClose.PReach PeerClose.PSt.init p) :
    (2 ≤ p.pc.rank → PeerClose.pstep p .accept = none) ∧
    (PeerClose.pstep p .serveConn).isSome = true ∧ (PeerClose.pstep p .dial).isSome = true := by
  refine ⟨?_, rfl, rfl⟩
  intro h
  have := (PeerClose.pinv_reach r).lis h
  simp [PeerClose.pstep, this]

/-- a `ServeConn` session serving a call, not yet in the hub; `Peer.Close` from call to return. -/
def slipRun : List PeerClose.PEv :=
  [.serveConn, .hookOk 0,
   .sess 0 (.envCall 7), .sess 0 .rTop, .sess 0 .rRead, .sess 0 .rCheck, .sess 0 .rAdd, .sess 0 (.hEnter 0),
   .pStart, .pLis, .pRange, .pRangeEnd, .pRet]

/-- **A serving session that is not yet in the hub survives `Peer.Close`, with a handler in flight
    (finding).** `ServeConn` and `Dial` start the reader (`AnywayGo(sess.startReadAndHandle)`) BEFORE
    `p.sessHub.set(sess)`. Reachable: a session made by `ServeConn` is live (status Ok), has read a CALL
    and ENTERED its handler; its goroutine stands just before `sessHub.set`. `Peer.Close` is called,
    closes the listeners, ranges over the hub (empty), receives nothing and RETURNS — while the handler
    entered before `Peer.Close` was called is still in its body, and the session is never closed: after
    `hubSet` it is in the hub of the closed peer, status Ok, nobody closing it. So the unqualified
    statement "when Peer.Close has returned every session's Close has returned / every handler entered
    before has finished" is FALSE of the code; `C08_peer_close_returns_after_all_sessions` is the
    statement that holds (sessions in the hub when the range starts). Real code: case
    `c08p roles=a late=us sched=1.s1,1.rm,1.ra,1.en1,pcl,DRAIN` (the harness parks the `ServeConn`
    goroutine in the `hubset` event hook): observation `late=alive:hrun`, oracle
    `c08:peer-close-missed-unindexed-session`. -/
theorem C08_peer_close_unindexed_session_survives_witness :
    ∃ p q, PeerClose.PReach PeerClose.PSt.init p ∧ p.pc = .ret ∧ p.must = [] ∧ p.visited = [] ∧
      (∃ s, p.ss[0]? = some s ∧ s.ph = .live ∧ s.hub = false ∧ s.st.status = .ok ∧ s.st.closer = .idle ∧
        s.st.closeReturned = false ∧ ∃ h ∈ s.st.hs, h.kind = .call ∧ h.pc = .entered ∧ h.ebc = true) ∧
      PeerClose.pstep p (.hubSet 0) = some q ∧
      (∃ s, q.ss[0]? = some s ∧ s.hub = true ∧ s.st.status = .ok ∧ s.st.closer = .idle) := by
  have h : PeerClose.prun PeerClose.PSt.init slipRun =
      some ((PeerClose.prun PeerClose.PSt.init slipRun).getD PeerClose.PSt.init) := by decide
  refine ⟨(PeerClose.prun PeerClose.PSt.init slipRun).getD PeerClose.PSt.init,
    (PeerClose.prun PeerClose.PSt.init (slipRun ++ [.hubSet 0])).getD PeerClose.PSt.init,
    PeerClose.prun_reach _ h, by decide, by decide, by decide, by decide, by decide, by decide⟩

/-- a connection accepted before the listener is closed, its `PostAccept` hooks still running while
    `Peer.Close` runs from call to return; then the hooks pass. -/
def acceptSlipRun : List PeerClose.PEv :=
  [.accept, .pStart, .pLis, .pRange, .pRangeEnd, .pRet, .hookOk 0, .goLive 0]

/-- **A connection whose accept hooks are running survives `Peer.Close`.** The accept goroutine of
    `serveListener` is not joined by `Peer.Close` and checks nothing after its hooks: a connection
    accepted before the listener was closed becomes a live session in the hub of the closed peer
    (status Ok) after `Peer.Close` has returned. No handler was in flight when `Peer.Close` was called,
    so this is not a violation of C08's text; it bounds what "peer closed" means (C07: the session is
    healthy and indexed, the peer that owns it has been closed). Real code: `c08p … late=ha`:
    `late=alive`; likewise `late=hs`, `hd` (hooks of `ServeConn` / `Dial`) and `ns`, `nd` (`ServeConn` /
    `Dial` called after `Peer.Close` returned). -/
theorem C08_peer_close_accept_in_flight_survives_witness :
    ∃ p, PeerClose.PReach PeerClose.PSt.init p ∧ p.pc = .ret ∧ p.lis = false ∧
      ∃ s, p.ss[0]? = some s ∧ s.role = .accept ∧ s.ph = .live ∧ s.hub = true ∧ s.st.status = .ok ∧
        s.st.closer = .idle := by
  have h : PeerClose.prun PeerClose.PSt.init acceptSlipRun =
      some ((PeerClose.prun PeerClose.PSt.init acceptSlipRun).getD PeerClose.PSt.init) := by decide
  exact ⟨_, PeerClose.prun_reach _ h, by decide, by decide, by decide⟩

/-- **`Peer.Close` does not wait for a session that another `Close()` is already closing.** A session
    whose own `Close()` (called by its user) has passed `sessHub.delete` and waits for a running handler
    is no longer in the hub: `Peer.Close` returns while that handler runs. That `Close()` call itself has
    not returned (its caller still waits; `C08_close_waits` applies to it) — the second disjunct of
    `C08_peer_close_returns_after_all_sessions`'s coverage clause is real. -/
theorem C08_peer_close_skips_session_closing_elsewhere_witness :
    ∃ p, PeerClose.PReach PeerClose.PSt.init p ∧ p.pc = .ret ∧ p.visited = [] ∧
      ∃ s, p.ss[0]? = some s ∧ s.setDone = true ∧ s.hub = false ∧ s.st.closer = .hubdel ∧
        ∃ h ∈ s.st.hs, h.pc = .entered ∧ h.ebc = true := by
  have h : PeerClose.prun PeerClose.PSt.init
      [.accept, .hookOk 0, .goLive 0, .sess 0 (.envCall 7), .sess 0 .rTop, .sess 0 .rRead, .sess 0 .rCheck, .sess 0 .rAdd,
       .sess 0 (.hEnter 0), .sess 0 .xStart, .sess 0 .xHubdel, .pStart, .pLis, .pRange, .pRangeEnd, .pRet] =
      some ((PeerClose.prun PeerClose.PSt.init
      [.accept, .hookOk 0, .goLive 0, .sess 0 (.envCall 7), .sess 0 .rTop, .sess 0 .rRead, .sess 0 .rCheck, .sess 0 .rAdd,
       .sess 0 (.hEnter 0), .sess 0 .xStart, .sess 0 .xHubdel, .pStart, .pLis, .pRange, .pRangeEnd, .pRet]).getD
        PeerClose.PSt.init) := by decide
  exact ⟨_, PeerClose.prun_reach _ h, by decide, by decide, by decide⟩

/-! ### tie A — `peer.Close` as it is in the source NOW (`Gen/PeerClose`, `Gen/Transitions`) -/

section TieAPeer
open SrcFlow

def pcEvents : List PeerClose.PEv := [.pLis, .pRange, .pRangeEnd, .pRet]

/-- the one step of `Peer.Close` the model enables in `p`. -/
def pcNext (p : PeerClose.PSt) : Option (PeerClose.PEv × PeerClose.PSt) :=
  match pcEvents.filterMap fun e => (PeerClose.pstep p e).map fun q => (e, q) with
  | [x] => some x
  | _ => none

def pcTrace : Nat → PeerClose.PSt → List PeerClose.PEv
  | 0, _ => []
  | n + 1, p =>
    match pcNext p with
    | some (e, q) => e :: pcTrace n q
    | none => []

/-- the source statement groups of a step of `Peer.Close`. -/
def pcKeys : PeerClose.PEv → List String
  | .pStart => ["close:closeCh"]
  | .pLis => ["closeall:listeners"]
  | .pRange => ["range:sessHub"]
  | .pRangeEnd => []
  | .pRet => ["recvloop", "return"]
  | _ => ["?"]

/-- the order in which `PeerClose.pstep` enables `Peer.Close`'s steps (empty hub). -/
def modelPeerClose : List String :=
  (PeerClose.PEv.pStart :: ((PeerClose.pstep PeerClose.PSt.init .pStart).map (pcTrace 8)).getD []).flatMap pcKeys

def pcModelled : List String := ["close:closeCh", "closeall:listeners", "range:sessHub", "recvloop", "return"]

/-- every statement group the extractor may report for a `peer.Close` of the modelled shape. -/
def pcAllowed : List String :=
  ["close:closeCh", "lock", "snapshot:listeners", "unlock", "closeall:listeners", "call:deletePeer", "range:sessHub",
   "recvloop", "close:callback-chan", "closeall:quic-listeners", "return"]

/-- `f` holds of the statements of EVERY control-flow path of an establishment function on which the
    Preparing→Ok swap is won (and there is such a path). -/
def estAll (ps : List SrcPaths.Path) (f : List String → Bool) : Bool :=
  let won := ps.filter fun p => p.any fun (e : SrcPaths.PEv) => e.kind == "cas" && e.out == "ok"
  !won.isEmpty && won.all fun p => f (SrcPaths.keys p)

/-- `Peer.Close` in its receive loop, one spawned `Close()` (of a session nobody has started to close)
    outstanding. -/
def pcRecvSt : PeerClose.PSt :=
  { PeerClose.PSt.init with pc := .recv, count := 1, pend := [0], visited := [0], ss := [PeerClose.Sess.new .accept] }

/-- **`peer.Close` in the source has the statement order, the callback and the receive loop of the
    model, nobody but the listener loop reads `closeCh`, and `sessHub.set` stands where the model puts
    it (tie A).** From the regenerated facts: (1) `peer.Close`'s own body consists only of statement
    groups of the modelled shape, none of them conditional, and the modelled ones come in the order in
    which `PeerClose.pstep` enables `pStart, pLis, pRange, pRangeEnd, pRet`: `close(closeCh)`, close every
    listener, range over the hub, receive loop, return; the receive loop comes after the range and the
    result channel is closed only after it; (2) the range callback increments the counter, spawns
    (`MustGo`/`AnywayGo`/`go`: never dropped) a goroutine that sends `sess.Close()` on the channel, and
    returns only `true` — an error never stops the range; (3) the receive loop runs exactly `counter`
    times over that channel with no early exit — an error never ends the join; in the model `pRet` is
    enabled only at `recvd = count` and `pRecv i` only once session `i`'s `Close()` has returned;
    (4) `closeCh` is made in `NewPeer`, closed in `peer.Close` and read in `serveListener` only —
    `Dial` and `ServeConn` never consult it, which is why `serveConn`/`dial` are enabled in every state
    of the model and `accept` only while the listeners are open; (5) `sessHub.set` comes BEFORE the
    Preparing→Ok swap in the accept goroutine (model: `hookOk` puts an `accept` session in the hub in
    phase `hubbed`) and AFTER the reader is started in `ServeConn` and `Dial` (model: `hookOk` makes the
    session live with `hub = false`; `hubSet` is a later step). Moving `sessHub.set`, adding a `closeCh`
    check, stopping the range or the join on an error, or reordering the close changes a regenerated
    fact and this theorem no longer checks. (5) is read off `Gen/Transitions`' control-flow paths: it holds on
    EVERY path on which the swap is won. -/
theorem C08_peer_close_order :
    Gen.peerClose_missing = [] ∧ Gen.transitions_missing = [] ∧
    Gen.peerclose_order.all pcAllowed.contains = true ∧
    Gen.peerclose_order.filter pcModelled.contains = modelPeerClose ∧
    modelPeerClose = pcModelled ∧
    before "recvloop" "close:callback-chan" Gen.peerclose_order = true ∧
    onlyAfter "recvloop" "close:callback-chan" Gen.peerclose_order = true ∧
    -- (2) the callback
    Gen.peerclose_callback.all
      (["inc:counter", "spawn:MustGo", "spawn:AnywayGo", "spawn:go", "send:chan<-param.Close", "return:true"].contains) = true ∧
    ["inc:counter", "send:chan<-param.Close", "return:true"].all Gen.peerclose_callback.contains = true ∧
    count "inc:counter" Gen.peerclose_callback = 1 ∧ count "send:chan<-param.Close" Gen.peerclose_callback = 1 ∧
    before "inc:counter" "return:true" Gen.peerclose_callback = true ∧
    -- (3) the receive loop, and the model's guards
    Gen.peerclose_recvloop = ["bound=callback-counter", "chan=callback-chan"] ∧
    (PeerClose.pstep pcRecvSt .pRet).isNone = true ∧ (PeerClose.pstep pcRecvSt (.pRecv 0)).isNone = true ∧
    -- (4) closeCh
    Gen.peerclose_closech = ["NewPeer:make", "peer.Close:close", "peer.serveListener:copy"] ∧
    ([PeerClose.PPc.idle, .chClosed, .lisClosed, .ranging, .recv, .ret].all fun pc =>
      (PeerClose.pstep { PeerClose.PSt.init with pc := pc } .serveConn).isSome &&
      (PeerClose.pstep { PeerClose.PSt.init with pc := pc } .dial).isSome &&
      (PeerClose.pstep { PeerClose.PSt.init with pc := pc, lis := false } .accept).isNone) = true ∧
    -- (5) where sessHub.set stands
    Gen.tpaths_peer_serveListener_accept_missing = [] ∧ Gen.tpaths_peer_ServeConn_missing = [] ∧
    Gen.tpaths_peer_Dial_missing = [] ∧
    estAll Gen.tpaths_peer_serveListener_accept (fun k =>
      before "stage:postAccept" "call:sessHub.set" k && before "call:sessHub.set" "cas:statusOk<-statusPreparing" k &&
      before "cas:statusOk<-statusPreparing" "run:startReadAndHandle" k && count "call:sessHub.set" k == 1) = true ∧
    estAll Gen.tpaths_peer_ServeConn (fun k =>
      before "cas:statusOk<-statusPreparing" "spawn:startReadAndHandle" k &&
      before "spawn:startReadAndHandle" "call:sessHub.set" k && count "call:sessHub.set" k == 1) = true ∧
    estAll Gen.tpaths_peer_Dial (fun k =>
      before "cas:statusOk<-statusPreparing" "spawn:startReadAndHandle" k &&
      before "spawn:startReadAndHandle" "call:sessHub.set" k && count "call:sessHub.set" k == 1) = true ∧
    ((PeerClose.prun PeerClose.PSt.init [.accept, .hookOk 0]).map fun p => p.ss.map fun s => (s.ph, s.hub)) =
      some [(.hubbed, true)] ∧
    ((PeerClose.prun PeerClose.PSt.init [.serveConn, .hookOk 0, .dial, .hookOk 1]).map fun p =>
      p.ss.map fun s => (s.ph, s.hub)) = some [(.live, false), (.live, false)] := by
  decide

/-- non-vacuity: the model's order of `Peer.Close`, spelled out. -/
example : modelPeerClose = ["close:closeCh", "closeall:listeners", "range:sessHub", "recvloop", "return"] := by decide

end TieAPeer

/-! ## tie A — the closer as it is in the source NOW (`Gen/Transitions`)

The closer of `Model/Graceful` is one step per statement of `closeLocked` between two gate points.
`srcfacts` regenerates the ordered flow of `closeLocked` (helpers such as `graceCtxWait` inlined) and
the callers of the two wait groups; the theorem compares the flow with the order in which `step`
enables the closer's events, and the callers with the threads of the model that count up and down. -/

section TieA
open SrcFlow

def xEvents : List Graceful.Ev := [.xHubdel, .xCtxWait, .xCallWait, .xStClosed, .xSock, .xRet]

/-- the one closer event the model enables in `s`. -/
def xNext (s : St) : Option (Graceful.Ev × St) :=
  match xEvents.filterMap fun e => (step s e).map fun t => (e, t) with
  | [x] => some x
  | _ => none

def xTrace : Nat → St → List (Graceful.Ev × St)
  | 0, _ => []
  | n + 1, s =>
    match xNext s with
    | some (e, t) => (e, t) :: xTrace n t
    | none => []

/-- Go constant of the status the closer's store leaves. -/
def closedName : Graceful.Status → String
  | .closed => "statusActiveClosed" | .closing => "statusActiveClosing" | .ok => "statusOk"
  | .pclosing => "statusPassiveClosing" | .pclosed => "statusPassiveClosed"

/-- the source statements of a closer step (`xCtxWait` = `notifyClosed` and the context wait). -/
def xKeys : Graceful.Ev × St → List String
  | (.xHubdel, _) => ["call:sessHub.delete"]
  | (.xCtxWait, _) => ["call:notifyClosed", "wg:ctx.Wait"]
  | (.xCallWait, _) => ["wg:call.Wait"]
  | (.xStClosed, t) => ["store:" ++ closedName t.status]
  | (.xSock, _) => ["call:socket.Close"]
  | (.xRet, _) => ["stage:postDisconnect"]
  | _ => ["?"]

/-- the closer of an idle established session, after `xStart`. -/
def modelCloser : List String := (((step St.init .xStart).map (xTrace 12)).getD []).flatMap xKeys

/-- the control-flow paths of `closeLocked` on which its compare-and-swap is won. -/
def closeWon : List SrcPaths.Path :=
  Gen.tpaths_session_closeLocked.filter fun p => p.any fun (e : SrcPaths.PEv) => e.kind == "cas" && e.out == "ok"
/-- … and lost. -/
def closeLost : List SrcPaths.Path :=
  Gen.tpaths_session_closeLocked.filter fun p => !(p.any fun (e : SrcPaths.PEv) => e.kind == "cas" && e.out == "ok")
/-- the statements of the (one) path on which the compare-and-swap is won. -/
def closeKeys : List String := (closeWon.head?.map SrcPaths.keys).getD []

/-- (function, wait group operation) of every wait-group call of the package. -/
def wgSites : List (String × String) :=
  (Gen.lifecycle_sites.filter fun r => r.2.1 == "wg").map fun r => (r.1, r.2.2.1)

/-- **Both waits of the close path come before the ActiveClosed store and the socket close (tie A).**
    `closeLocked` as it is now runs, after its compare-and-swap: hub delete, `notifyClosed`,
    `graceCtxWaitGroup.Wait()` (through `graceCtxWait`), `graceCallCmdWaitGroup.Wait()`, store ActiveClosed,
    `socket.Close`, `postDisconnect` — exactly the order in which `Graceful.step` enables `xHubdel`,
    `xCtxWait`, `xCallWait`, `xStClosed`, `xSock`, `xRet` — on the ONE control-flow path on which the
    compare-and-swap is won (the other path: lost → return), so every one of them unconditional; so both
    waits precede the store of ActiveClosed and the closing of the socket (what `C08_close_waits`
    and `C08_reply_before_socket_close` rest on), and in the model the two wait steps are enabled
    only at counter zero. On every path of `readDisconnected` the wait for the handler contexts precedes the
    socket close, every path that took the session out of the hub reaches that wait before it
    returns, and the cancel loop is reached also on the path taken while `Close()` is closing the
    session (the model's `rDSnap` / `rDVisit` in status closing). The wait groups are counted up and down where the model's threads do it (a site inside
    an unexported helper counts for the watched functions that reach it): context group `Add` in
    `startReadAndHandle` (`rAdd`) and in `Push` through `getContext` (`pushStart`), `Done` through
    `putContext` on the same two paths (`hFin`); call group `Add` in `AsyncCall` (`cIssue`), `Done` in
    `callCmd.done` / `cancel` (`hReplyDone`, `cRefuse`, `cWrite` failure, `rDVisit`); waited for only
    on the close path (both groups) and on the disconnect path (contexts). Removing a wait, moving it behind the store or the socket close, or counting
    somewhere else changes a regenerated fact and this theorem no longer checks. -/
theorem C08_close_waits_sites :
    Gen.transitions_missing = [] ∧
    Gen.tpaths_session_closeLocked_missing = [] ∧ Gen.tpaths_session_readDisconnected_missing = [] ∧
    closeWon.length = 1 ∧
    closeLost.map SrcPaths.tags = [["cas:statusActiveClosing<-statusOk,statusPreparing=fail"]] ∧
    closeKeys.tail = modelCloser ∧ modelCloser.length = 7 ∧
    closeKeys.head? = some "cas:statusActiveClosing<-statusOk,statusPreparing" ∧
    before "wg:ctx.Wait" "store:statusActiveClosed" closeKeys = true ∧
    before "wg:ctx.Wait" "call:socket.Close" closeKeys = true ∧
    before "wg:call.Wait" "store:statusActiveClosed" closeKeys = true ∧
    before "wg:call.Wait" "call:socket.Close" closeKeys = true ∧
    onlyAfter "wg:ctx.Wait" "call:socket.Close" closeKeys = true ∧
    onlyAfter "wg:call.Wait" "call:socket.Close" closeKeys = true ∧
    onlyAfter "wg:call.Wait" "store:statusActiveClosed" closeKeys = true ∧
    closeWon.map (fun p => (p.filter fun (e : SrcPaths.PEv) => e.kind == "wg").map SrcPaths.PEv.name) = [["ctx.Wait", "call.Wait"]] ∧
    Gen.tpaths_session_readDisconnected.all
      (SrcPaths.precededBy (fun e => e.is "wg" "ctx.Wait") (fun e => e.is "call" "socket.Close")) = true ∧
    Gen.tpaths_session_readDisconnected.any (fun p => p.any fun (e : SrcPaths.PEv) => e.is "call" "socket.Close") = true ∧
    -- every path that took the session out of the hub waits for the handler contexts before it returns;
    -- the cancel loop is reached also when `Close()` is closing the session (status ActiveClosing)
    Gen.tpaths_session_readDisconnected.all (fun p =>
      !(p.any fun (e : SrcPaths.PEv) => e.is "call" "sessHub.delete") ||
        (SrcPaths.rest (fun e => e.is "call" "sessHub.delete") p).any fun e => e.is "wg" "ctx.Wait") = true ∧
    Gen.tpaths_session_readDisconnected.any (fun p =>
      (p.any fun (e : SrcPaths.PEv) => e.is "case" "statusActiveClosing") &&
      (p.any fun (e : SrcPaths.PEv) => e.is "call" "cancel")) = true ∧
    -- the model's waits block until the counter is zero
    (((step St.init .xStart).bind (step · .xHubdel)).map fun s => (step { s with ctx := 1 } .xCtxWait).isNone) = some true ∧
    ((((step St.init .xStart).bind (step · .xHubdel)).bind (step · .xCtxWait)).map fun s =>
      (step { s with calls := 1 } .xCallWait).isNone) = some true ∧
    sameSet wgSites
      [("session.startReadAndHandle", "ctx.Add"), ("session.Push", "ctx.Add"),
       ("session.startReadAndHandle", "ctx.Done"), ("session.Push", "ctx.Done"),
       ("session.closeLocked", "ctx.Wait"), ("session.readDisconnected", "ctx.Wait"),
       ("session.AsyncCall", "call.Add"), ("callCmd.done", "call.Done"), ("callCmd.cancel", "call.Done"),
       ("session.closeLocked", "call.Wait")] = true := by
  decide

/-- non-vacuity: the model's closer order, spelled out. -/
example : modelCloser = ["call:sessHub.delete", "call:notifyClosed", "wg:ctx.Wait", "wg:call.Wait",
    "store:statusActiveClosed", "call:socket.Close", "stage:postDisconnect"] := by decide

end TieA

end C08
end Teleport
