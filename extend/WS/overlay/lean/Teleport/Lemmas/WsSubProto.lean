import Teleport.Model.WsSubProto
import Teleport.Lemmas.JsonProto
import Teleport.Lemmas.PbProto
/-
Lemmas/WsSubProto — helper lemmas for the websocket sub-protocols (Model/WsSubProto): the
`"xferPipe":[..]` member under gjson's value loop and under `Array()`/`Int()`, the one-by-one
`Append`, the eight field reads on the document `Pack` writes, and the two round trips.
-/
namespace Teleport
namespace WsP
open Bytes JsonP

/-! ### the id list `json.Marshal` writes -/

theorem digitChar10_digit : ∀ d, d < 10 → isDigit (Num.digitChar d) = true := by decide

theorem formatNat10_digits (n : Nat) : ∀ c ∈ Num.formatNat 8 n, isDigit c = true := by
  intro c hc
  unfold Num.formatNat at hc
  obtain ⟨d, hd, rfl⟩ := List.mem_map.mp hc
  have := Num.digitsRev_lt 8 n d (List.mem_reverse.mp hd)
  exact digitChar10_digit d (by omega)

/-- what the scanners need to know about a decimal digit. -/
theorem digit_facts : ∀ c, isDigit c = true →
    (c ≤ 32) = False ∧ (c == 93 || c == 125) = false ∧ (c == 34) = false ∧ (c == 123 || c == 91) = false ∧
    (c == 125 || c == 93) = false ∧ numStopA c = false := by
  apply forall_u8
  decide +kernel

theorem joinIds_cons2 (a b : UInt8) (r : List UInt8) :
    joinIds (a :: b :: r) = Num.formatNat 8 a.toNat ++ 44 :: joinIds (b :: r) := rfl

/-- the text between the brackets holds digits and commas only. -/
theorem joinIds_bytes (ids : List UInt8) : ∀ c ∈ joinIds ids, isDigit c = true ∨ c = 44 := by
  induction ids with
  | nil => simp [joinIds]
  | cons a r ih =>
    cases r with
    | nil => intro c hc; exact Or.inl (formatNat10_digits _ c hc)
    | cons b r =>
      intro c hc
      rw [joinIds_cons2] at hc
      rcases List.mem_append.mp hc with h | h
      · exact Or.inl (formatNat10_digits _ c h)
      · rcases List.mem_cons.mp h with h | h
        · exact Or.inr h
        · exact ih c h

/-- `parseSquash` runs over brackets-free, quote-free text up to the closing bracket. -/
theorem squash_plain (inner rest : Bytes)
    (h : ∀ c ∈ inner, (c == 34) = false ∧ (c == 123 || c == 91) = false ∧ (c == 125 || c == 93) = false) :
    squash 1 false false (inner ++ 93 :: rest) = (inner ++ [93], rest) := by
  induction inner with
  | nil => simp [squash]
  | cons c t ih =>
    obtain ⟨h1, h2, h3⟩ := h c (by simp)
    have := ih (fun x hx => h x (by simp [hx]))
    simp only [List.cons_append, squash, h1, h2, h3, Bool.false_eq_true, if_false, this]

theorem joinIds_squashable (ids : List UInt8) :
    ∀ c ∈ joinIds ids, (c == 34) = false ∧ (c == 123 || c == 91) = false ∧ (c == 125 || c == 93) = false := by
  intro c hc
  rcases joinIds_bytes ids c hc with h | h
  · obtain ⟨_, _, a, b, d, _⟩ := digit_facts c h
    exact ⟨a, b, d⟩
  · subst h; decide

/-- the `"xferPipe"` member under gjson's value loop: a JSON value whose raw text is the list. -/
theorem memOk_arr (k : Bytes) (hk : ∀ c ∈ k, c ≠ 34 ∧ c ≠ 92) (ids : List UInt8) :
    (Mem.mk k (idsJSON ids) (.json (idsJSON ids))).ok := by
  refine ⟨hk, ?_⟩
  intro c r _
  have e : (58 :: idsJSON ids ++ c :: r) = 58 :: 91 :: (joinIds ids ++ 93 :: (c :: r)) := by
    simp [idsJSON]
  show value (58 :: idsJSON ids ++ c :: r) = some (.json (idsJSON ids), c :: r)
  rw [e, value_colon, value]
  simp only [show ((91 : UInt8) == 34) = false by decide, show ((91 : UInt8) == 123 || (91 : UInt8) == 91) = true by decide,
    Bool.false_eq_true, if_false, if_true]
  rw [squash_plain (joinIds ids) (c :: r) (joinIds_squashable ids)]
  simp [idsJSON]

/-! ### `Array()` / `Int()` on that list -/

theorem arrInts_close (f : Nat) (rest : Bytes) : arrInts (f + 1) (93 :: rest) = some [] := by
  simp [arrInts]

theorem arrInts_comma (f : Nat) (rest : Bytes) : arrInts (f + 1) (44 :: rest) = arrInts f rest := by
  rw [arrInts]
  simp [isDigit]

theorem toInt_formatNat (n : Nat) (hn : n < 2 ^ 64) : (JVal.num (Num.formatNat 8 n)).toInt = some (n : Int) := by
  simp [JVal.toInt, decInt_formatNat n hn]

/-- one decimal element followed by a stop byte. -/
theorem arrInts_num (f n : Nat) (hn : n < 2 ^ 64) (s : UInt8) (hs : numStopA s = true) (rest : Bytes) :
    arrInts (f + 1) (Num.formatNat 8 n ++ s :: rest) = (arrInts f (s :: rest)).map ((n : Int) :: ·) := by
  have hd := formatNat10_digits n
  have ht := toInt_formatNat n hn
  cases hfm : Num.formatNat 8 n with
  | nil => exact absurd hfm (formatNat10_ne_nil n)
  | cons c0 t =>
    rw [hfm] at hd ht
    obtain ⟨a1, a2, _, _, _, _⟩ := digit_facts c0 (hd c0 (by simp))
    have hu : untilB numStopA (t ++ s :: rest) = (t, s :: rest) :=
      untilB_append numStopA t s rest (fun x hx => (digit_facts x (hd x (by simp [hx]))).2.2.2.2.2) hs
    rw [List.cons_append, arrInts]
    simp only [a1, a2, hd c0 (by simp), Bool.or_true, Bool.false_eq_true, if_false, if_true, hu, ht]

theorem arrInts_joinIds (ids : List UInt8) : ∀ f, 2 * ids.length + 1 ≤ f →
    arrInts f (joinIds ids ++ [93]) = some (ids.map (fun i => (i.toNat : Int))) := by
  have h64 : ∀ a : UInt8, a.toNat < 2 ^ 64 := by
    intro a
    have := a.toNat_lt
    have : (2 : Nat) ^ 64 = 18446744073709551616 := by decide
    omega
  induction ids with
  | nil =>
    intro f hf
    cases f with
    | zero => simp at hf
    | succ f => simp [joinIds, arrInts_close]
  | cons a r ih =>
    intro f hf
    cases r with
    | nil =>
      cases f with
      | zero => simp at hf
      | succ f =>
        cases f with
        | zero => simp at hf
        | succ f =>
          show arrInts (f + 1 + 1) (Num.formatNat 8 a.toNat ++ [93]) = _
          rw [arrInts_num _ _ (h64 a) 93 (by decide) [], arrInts_close]
          rfl
    | cons b r =>
      cases f with
      | zero => simp at hf
      | succ f =>
        cases f with
        | zero => simp at hf
        | succ f =>
          rw [joinIds_cons2, List.append_assoc, List.cons_append,
            arrInts_num _ _ (h64 a) 44 (by decide) _, arrInts_comma,
            ih f (by simp only [List.length_cons] at hf ⊢; omega)]
          rfl

theorem joinIds_len (ids : List UInt8) : 2 * ids.length ≤ (joinIds ids).length + 1 := by
  induction ids with
  | nil => simp
  | cons a r ih =>
    have hne : 1 ≤ (Num.formatNat 8 a.toNat).length := by
      cases h : Num.formatNat 8 a.toNat with
      | nil => exact absurd h (formatNat10_ne_nil _)
      | cons _ _ => simp
    cases r with
    | nil => simp only [joinIds, List.length_cons, List.length_nil]; omega
    | cons b r =>
      rw [joinIds_cons2]
      simp only [List.length_append, List.length_cons] at ih ⊢
      omega

/-- `Array()` + `Int()` on the value gjson returns for the member `Pack` wrote. -/
theorem pipeInts_idsJSON (ids : List UInt8) :
    pipeInts (.json (idsJSON ids)) = some (ids.map (fun i => (i.toNat : Int))) := by
  have hl := joinIds_len ids
  have hf : 2 * ids.length + 1 ≤ (joinIds ids ++ [93]).length + 3 := by
    rw [List.length_append]
    simp only [List.length_cons, List.length_nil]
    omega
  have := arrInts_joinIds ids _ hf
  simp only [pipeInts, idsJSON]
  exact this

theorem map_byteOf (ids : List UInt8) : (ids.map (fun i => (i.toNat : Int))).map byteOf = ids := by
  induction ids with
  | nil => rfl
  | cons a r ih => simp only [List.map_cons, ih, byteOf_toNat]

/-! ### the one-by-one `Append` -/

theorem append_one_some (reg : Registry) (cur : List UInt8) (i : UInt8) (hi : (reg i).isSome = true)
    (hl : cur.length < 255) : Xfer.append reg cur [i] = some (cur ++ [i]) := by
  unfold Xfer.append
  have : ¬ ((cur ++ [i]).length > 255) := by
    simp only [List.length_append, List.length_cons, List.length_nil]; omega
  simp only [List.all_cons, hi, List.all_nil, Bool.and_self, if_true, this, if_false]

theorem append_one_none (reg : Registry) (cur : List UInt8) (i : UInt8)
    (h : ¬ ((reg i).isSome = true ∧ cur.length < 255)) : Xfer.append reg cur [i] = none := by
  unfold Xfer.append
  by_cases hi : (reg i).isSome = true
  · have : (cur ++ [i]).length > 255 := by
      simp only [List.length_append, List.length_cons, List.length_nil]
      have : ¬ cur.length < 255 := fun hl => h ⟨hi, hl⟩
      omega
    simp only [List.all_cons, hi, List.all_nil, Bool.and_self, if_true, this]
  · simp [hi]

theorem appendEach_ok (reg : Registry) (ids : List UInt8) (hreg : ∀ i ∈ ids, (reg i).isSome = true) :
    ∀ cur, cur.length + ids.length ≤ 255 → appendEach reg cur ids = cur ++ ids := by
  induction ids with
  | nil => intro cur _; simp [appendEach]
  | cons i is ih =>
    intro cur hlen
    simp only [List.length_cons] at hlen
    rw [appendEach, append_one_some reg cur i (hreg i (by simp)) (by omega), Option.getD_some,
      ih (fun j hj => hreg j (by simp [hj])) (cur ++ [i])
      (by simp only [List.length_append, List.length_cons, List.length_nil]; omega)]
    simp

/-- whatever ids a document names, the pipe `Unpack` builds is at most 255 long and holds
    registered ids only (the others were dropped). -/
theorem appendEach_inv (reg : Registry) (ids : List UInt8) :
    ∀ cur, (cur.length ≤ 255 ∧ ∀ i ∈ cur, (reg i).isSome = true) →
      (appendEach reg cur ids).length ≤ 255 ∧ ∀ i ∈ appendEach reg cur ids, (reg i).isSome = true := by
  induction ids with
  | nil => intro cur h; simpa [appendEach] using h
  | cons i is ih =>
    intro cur h
    rw [appendEach]
    apply ih
    by_cases hc : (reg i).isSome = true ∧ cur.length < 255
    · rw [append_one_some reg cur i hc.1 hc.2, Option.getD_some]
      refine ⟨by simp only [List.length_append, List.length_cons, List.length_nil]; omega, ?_⟩
      intro j hj
      rcases List.mem_append.mp hj with hj | hj
      · exact h.2 j hj
      · simp only [List.mem_singleton] at hj; subst hj; exact hc.1
    · rw [append_one_none reg cur i hc]
      exact h

/-! ### jsonSubProto: the eight reads on the document `Pack` wrote -/

theorem kPipe_plain : ∀ c ∈ kPipe, c ≠ 34 ∧ c ≠ 92 := by decide

/-- what `gjson.Get` returns for each of the eight keys on a document written by `Pack`. -/
theorem jget_renderW (seq mt me st md co body : Bytes) (ids : List UInt8) (h1 : NumTok seq) (h2 : NumTok mt) (h6 : NumTok co)
    (h3 : ∀ c ∈ me, c ≠ 34 ∧ c ≠ 92) (h4 : ∀ c ∈ st, c ≠ 34 ∧ c ≠ 92) (h5 : ∀ c ∈ md, c ≠ 34 ∧ c ≠ 92)
    (doc : Bytes)
    (hd : doc = renderW seq mt (34 :: me ++ [34]) (34 :: st ++ [34]) (34 :: md ++ [34]) co (escapeBody body) (idsJSON ids)) :
    jget doc kSeq = some (.num seq) ∧ jget doc kMtype = some (.num mt) ∧ jget doc kMethod = some (.str me) ∧
    jget doc kStatus = some (.str st) ∧ jget doc kMeta = some (.str md) ∧ jget doc kCodec = some (.num co) ∧
    jget doc kBody = some (.str (strVal (escapeBody body))) ∧ jget doc kPipe = some (.json (idsJSON ids)) := by
  obtain ⟨k1, k2, k3, k4, k5, k6, k7⟩ := key_facts
  let m1 : Mem := ⟨kSeq, seq, .num seq⟩
  let ms : List Mem := [⟨kMtype, mt, .num mt⟩, ⟨kMethod, 34 :: me ++ [34], .str (strVal me)⟩,
    ⟨kStatus, 34 :: st ++ [34], .str (strVal st)⟩, ⟨kMeta, 34 :: md ++ [34], .str (strVal md)⟩,
    ⟨kCodec, co, .num co⟩, ⟨kBody, 34 :: escapeBody body ++ [34], .str (strVal (escapeBody body))⟩,
    ⟨kPipe, idsJSON ids, .json (idsJSON ids)⟩]
  have hok : ∀ x ∈ m1 :: ms, x.ok := by
    intro x hx
    simp only [m1, ms, List.mem_cons, List.mem_nil_iff, or_false] at hx
    rcases hx with rfl | rfl | rfl | rfl | rfl | rfl | rfl | rfl
    · exact memOk_num _ _ k1 h1
    · exact memOk_num _ _ k2 h2
    · exact memOk_str _ _ k3 (fun r => strEnd_plain me r h3)
    · exact memOk_str _ _ k4 (fun r => strEnd_plain st r h4)
    · exact memOk_str _ _ k5 (fun r => strEnd_plain md r h5)
    · exact memOk_num _ _ k6 h6
    · exact memOk_str _ _ k7 (fun r => strEnd_escapeBody body r)
    · exact memOk_arr _ kPipe_plain ids
  have hdoc : doc = 123 :: member m1.k m1.raw ++ mems ms := by
    rw [hd]
    simp only [renderW, mems, member, m1, ms, List.append_assoc, List.cons_append, List.nil_append]
  have hg := fun key => jget_mems key m1 ms hok
  rw [← hdoc] at hg
  have e3 := strVal_plain me (fun c hc => (h3 c hc).2)
  have e4 := strVal_plain st (fun c hc => (h4 c hc).2)
  have e5 := strVal_plain md (fun c hc => (h5 c hc).2)
  refine ⟨?_, ?_, ?_, ?_, ?_, ?_, ?_, ?_⟩
  · rw [hg]; rfl
  · rw [hg]; rfl
  · rw [hg, ← e3]; rfl
  · rw [hg, ← e4]; rfl
  · rw [hg, ← e5]; rfl
  · rw [hg]; rfl
  · rw [hg]; rfl
  · rw [hg]; rfl

/-- inside `WFj` the three Go-quoted strings are the plain strings between quotes. -/
theorem textW_wf (m : Msg) (fb : Bytes) (hw : WFj m) :
    textW m fb = some (renderW (Num.formatInt 8 m.seq) (Num.formatNat 8 m.mtype.toNat) (34 :: m.method ++ [34])
      (34 :: m.status.encode ++ [34]) (34 :: Args.query m.md ++ [34]) (Num.formatNat 8 m.codec.toNat)
      (escapeBody fb) (idsJSON m.pipe)) := by
  obtain ⟨_, _, hm, _, _⟩ := hw
  unfold textW
  rw [goQuote_plain _ (all_plain _ hm), goQuote_plain _ (encode_plain _), goQuote_plain _ (query_plain _)]
  rfl

/-- all field reads of `Unpack` on the document `Pack` wrote for `m` with filtered body `fb`. -/
theorem reads_textW (m : Msg) (fb : Bytes) (hw : WFj m) (t : Bytes) (ht : textW m fb = some t) :
    getInt t kSeq = .ok m.seq ∧ getInt t kMtype = .ok (m.mtype.toNat : Int) ∧ getStr t kMethod = .ok m.method ∧
    getStr t kStatus = .ok m.status.encode ∧ getStr t kMeta = .ok (Args.query m.md) ∧
    getInt t kCodec = .ok (m.codec.toNat : Int) ∧ getStr t kBody = .ok fb ∧
    (jget t kPipe).bind pipeInts = some (m.pipe.map (fun i => (i.toNat : Int))) := by
  rw [textW_wf m fb hw] at ht
  have hd := (Option.some.inj ht).symm
  obtain ⟨hseq, _, hm, _, _⟩ := hw
  have pm := fun c hc => plainByte_ne c (all_plain _ hm c hc)
  have ps := fun c hc => plainByte_ne c (encode_plain m.status c hc)
  have pe := fun c hc => plainByte_ne c (query_plain m.md c hc)
  obtain ⟨g1, g2, g3, g4, g5, g6, g7, g8⟩ := jget_renderW _ _ _ _ _ _ fb m.pipe (formatInt10_numTok m.seq)
    (formatNat10_numTok _) (formatNat10_numTok _) pm ps pe t hd
  have p64 : (2:Nat) ^ 64 = 18446744073709551616 := by decide
  have d1 : decInt (Num.formatInt 8 m.seq) = some m.seq := by
    apply decInt_formatInt
    unfold Num.inInt32 at hseq
    omega
  have d2 : decInt (Num.formatNat 8 m.mtype.toNat) = some (m.mtype.toNat : Int) := by
    apply decInt_formatNat
    have := m.mtype.toNat_lt
    omega
  have d6 : decInt (Num.formatNat 8 m.codec.toNat) = some (m.codec.toNat : Int) := by
    apply decInt_formatNat
    have := m.codec.toNat_lt
    omega
  refine ⟨getInt_of g1 d1, getInt_of g2 d2, getStr_of g3, getStr_of g4, getStr_of g5, getInt_of g6 d6, ?_, ?_⟩
  · rw [getStr_of g7, strVal_escapeBody]
  · rw [g8, Option.bind_some, pipeInts_idsJSON]

theorem u32_of_lt (n : Nat) (h : n < 4294967296) : u32 n = n := Nat.mod_eq_of_lt h

theorem isSome_of_lawful (reg : Registry) (pipe : List UInt8)
    (hl : ∀ i ∈ pipe, ∃ f, reg i = some f ∧ Xfer.Lawful f) : ∀ i ∈ pipe, (reg i).isSome = true := by
  intro i hi
  obtain ⟨f, hf, _⟩ := hl i hi
  simp [hf]

/-- jsonSubProto: `Unpack` of the document `Pack` wrote gives the message back, the status
    included, and both sides report the document length as the size. -/
theorem unpackJson_packJson (reg : Registry) (limit : Nat) (m : Msg) (bs : Bytes) (sz : Nat)
    (hw : WFj m) (hl : ∀ i ∈ m.pipe, ∃ f, reg i = some f ∧ Xfer.Lawful f)
    (hp : packJson reg limit m = .ok (bs, sz)) (hlt : bs.length < 4294967296) :
    unpackJson reg limit bs = .ok { m with size := sz } ∧ sz = bs.length := by
  unfold packJson at hp
  cases hx : Xfer.onPack reg m.pipe m.body with
  | none => simp [hx] at hp
  | some fb =>
    simp only [hx] at hp
    cases ht : textW m fb with
    | none => simp [ht] at hp
    | some t =>
      simp only [ht] at hp
      split at hp
      · simp at hp
      · rename_i hlim
        simp only [Except.ok.injEq, Prod.mk.injEq] at hp
        obtain ⟨hbs, hsz⟩ := hp
        subst hbs
        rw [u32_of_lt _ hlt] at hsz hlim
        subst hsz
        refine ⟨?_, rfl⟩
        obtain ⟨r1, r2, r3, r4, r5, r6, r7, r8⟩ := reads_textW m fb hw t ht
        obtain ⟨hseq, hcode, _, hmd, hpl⟩ := hw
        have hpipe : appendEach reg [] ((m.pipe.map (fun i => (i.toNat : Int))).map byteOf) = m.pipe := by
          rw [map_byteOf, appendEach_ok reg m.pipe (isSome_of_lawful reg m.pipe hl) [] (by simpa using hpl)]
          rfl
        have hun := Raw.onUnpack_onPack reg m.pipe hl m.body fb hx
        have hs : sizeSet limit t.length = t.length := by
          unfold sizeSet
          rw [u32_of_lt _ hlt]
          simp [hlim]
        unfold unpackJson
        rw [r8]
        simp only [hpipe]
        unfold readBodyJ
        rw [r6, r7]
        simp only [hun]
        unfold readOtherJ
        rw [r1, r2, r3, r4, r5]
        simp only [Status.decode_encode m.status hcode, Args.parse_query_wf m.md hmd, wrap32_id m.seq hseq,
          byteOf_toNat, startMsg, hs, Frame2.emptyMsg]

/-! ### pbSubProto -/

/-- pbSubProto's supported field set: no (empty, empty) metadata pair, at most 255 filters
    (service method and body are whatever the serializer accepts; the status does not travel). -/
def WFwp (m : Msg) : Prop := Args.WF m.md ∧ m.pipe.length ≤ 255

instance (m : Msg) : Decidable (WFwp m) := by unfold WFwp Args.WF; infer_instance

/-- pbSubProto: `Unpack` of the document `Pack` wrote gives every field back EXCEPT the status,
    which is the zero status whatever was packed. -/
theorem unpackPb_packPb (ser : PRec → Option Bytes) (de : Bytes → Except String PRec)
    (hsd : ∀ r t, ser r = some t → de t = .ok r)
    (reg : Registry) (limit : Nat) (m : Msg) (bs : Bytes) (sz : Nat)
    (hw : WFwp m) (hl : ∀ i ∈ m.pipe, ∃ f, reg i = some f ∧ Xfer.Lawful f)
    (hp : packPb ser reg limit m = .ok (bs, sz)) (hlt : bs.length < 4294967296) :
    unpackPb de reg limit bs = .ok { m with status := Status.zero, size := sz } ∧ sz = bs.length := by
  unfold packPb at hp
  cases hx : Xfer.onPack reg m.pipe m.body with
  | none => simp [hx] at hp
  | some fb =>
    simp only [hx] at hp
    cases ht : ser (toPRec m fb) with
    | none => simp [ht] at hp
    | some t =>
      simp only [ht] at hp
      split at hp
      · simp at hp
      · rename_i hlim
        simp only [Except.ok.injEq, Prod.mk.injEq] at hp
        obtain ⟨hbs, hsz⟩ := hp
        subst hbs
        rw [u32_of_lt _ hlt] at hsz hlim
        subst hsz
        refine ⟨?_, rfl⟩
        obtain ⟨hmd, hpl⟩ := hw
        have hpipe : appendEach reg [] m.pipe = m.pipe := by
          rw [appendEach_ok reg m.pipe (isSome_of_lawful reg m.pipe hl) [] (by simpa using hpl)]
          rfl
        have hun := Raw.onUnpack_onPack reg m.pipe hl m.body fb hx
        have hs : sizeSet limit t.length = t.length := by
          unfold sizeSet
          rw [u32_of_lt _ hlt]
          simp [hlim]
        unfold unpackPb
        rw [hsd _ _ ht]
        simp only [readRecP, toPRec, hpipe, hun, readOtherP, Args.parse_query_wf m.md hmd, PbP.byteOf_toNat,
          startMsg, hs, Frame2.emptyMsg]

/-! ### what `Unpack` reports as the size, for ANY document -/

theorem readOtherJ_size (s : Bytes) (m1 : Msg) (data : Bytes) (m : Msg) (h : readOtherJ s m1 data = .ok m) :
    m.size = m1.size := by
  unfold readOtherJ at h
  split at h
  · split at h
    · simp at h
    · split at h
      · simp at h
      · simp only [Res.ok.injEq] at h; rw [← h]
  · simp at h

/-- jsonSubProto.Unpack never refuses a document for its size: whatever is delivered carries the
    document length, or 0 when that length is above the limit (`SetSize`'s error is dropped). -/
theorem unpackJson_size (reg : Registry) (limit : Nat) (b : Bytes) (m : Msg)
    (h : unpackJson reg limit b = .ok m) : m.size = sizeSet limit b.length := by
  unfold unpackJson at h
  split at h
  · simp at h
  · unfold readBodyJ at h
    split at h
    · split at h
      · simp at h
      · exact readOtherJ_size _ _ _ _ h
    · simp at h

/-- the pipe of every message jsonSubProto.Unpack delivers holds registered ids only, at most 255. -/
theorem unpackJson_pipe (reg : Registry) (limit : Nat) (b : Bytes) (m : Msg)
    (h : unpackJson reg limit b = .ok m) : m.pipe.length ≤ 255 ∧ ∀ i ∈ m.pipe, (reg i).isSome = true := by
  unfold unpackJson at h
  split at h
  · simp at h
  · rename_i ints _
    have hinv := appendEach_inv reg (ints.map byteOf) [] ⟨by simp, by simp⟩
    unfold readBodyJ at h
    split at h
    · split at h
      · simp at h
      · unfold readOtherJ at h
        split at h
        · split at h
          · simp at h
          · split at h
            · simp at h
            · simp only [Res.ok.injEq] at h; rw [← h]; exact hinv
        · simp at h
    · simp at h

/-! ### sizes on the packing side, for EVERY message `Pack` accepts -/

theorem packJson_size (reg : Registry) (limit : Nat) (m : Msg) (bs : Bytes) (sz : Nat)
    (hp : packJson reg limit m = .ok (bs, sz)) : sz = u32 bs.length ∧ sz ≤ limit := by
  unfold packJson at hp
  split at hp
  · simp at hp
  · split at hp
    · simp at hp
    · split at hp
      · simp at hp
      · rename_i hlim
        simp only [Except.ok.injEq, Prod.mk.injEq] at hp
        obtain ⟨hbs, hsz⟩ := hp
        subst hbs
        exact ⟨hsz.symm, by omega⟩

theorem packPb_size (ser : PRec → Option Bytes) (reg : Registry) (limit : Nat) (m : Msg) (bs : Bytes) (sz : Nat)
    (hp : packPb ser reg limit m = .ok (bs, sz)) : sz = u32 bs.length ∧ sz ≤ limit := by
  unfold packPb at hp
  split at hp
  · simp at hp
  · split at hp
    · simp at hp
    · split at hp
      · simp at hp
      · rename_i hlim
        simp only [Except.ok.injEq, Prod.mk.injEq] at hp
        obtain ⟨hbs, hsz⟩ := hp
        subst hbs
        exact ⟨hsz.symm, by omega⟩

/-! ### a toy protobuf serializer (one record ↦ one byte string) for the concrete examples -/

def toySer (r0 : PRec) (r : PRec) : Option Bytes := if r = r0 then some [10, 1, 7] else none
def toyDe (r0 : PRec) (t : Bytes) : Except String PRec := if t = [10, 1, 7] then .ok r0 else .error "err:proto"

theorem toy_inverts (r0 : PRec) : ∀ r t, toySer r0 r = some t → toyDe r0 t = .ok r := by
  intro r t h
  unfold toySer at h
  split at h
  · rename_i hr
    simp only [Option.some.injEq] at h
    subst h; subst hr
    simp [toyDe]
  · simp at h


end WsP
end Teleport
