/-
Model/WsSubProto — the two websocket sub-protocols
`mixer/websocket/jsonSubProto/jsonSubProto.go` and `mixer/websocket/pbSubProto/pbSubProto.go`.

One websocket message = one protocol message: there is NO outer length frame. `Pack` writes the
document (JSON text / protobuf bytes) with a single `Write`; `Unpack` reads everything that
arrives with `ioutil.ReadAll` and takes that as the document.

Differences to jsonproto / pbproto that are modelled as coded:
  * the transfer pipe is applied to the BODY only (`OnPack(bodyBytes)`), the filtered body is
    embedded (json: through `escapeBody`), and the filter ids travel inside the document
    (json: `"xferPipe":[1,2,3]` written by `json.Marshal([]int)`; pb: the bytes field `XferPipe`);
  * `Pack`: `SetSize(uint32(len(document)))`, its error is returned (nothing is written);
  * `Unpack`: `SetSize(uint32(len(b)))` with the error IGNORED (above the limit the size stays 0 and
    the message is decoded all the same); then the filter ids are appended ONE BY ONE with the error
    of `Append` ignored (an unregistered id and every id beyond the 255th is silently dropped);
    then body codec, body string, `OnUnpack` — whose error is returned with only size, pipe and
    body codec set —; then seq, mtype, service method, status (json only), metadata; then the body;
  * pbSubProto's record has no status field (known finding c04:ws-subproto-drops-status:pb): the
    status of the unpacked message is the zero status whatever was packed.

Third-party code modelled here (validated case by case by the kinds `wsjsonunpack`):
`gjson.Result.Array()` on the value of `"xferPipe"` (tidwall/gjson v1.2.2 `arrayOrMap('[')` with
`tonum`, `tolit`, `tostr`, `squash`) followed by `Result.Int()` of every element. The protobuf
serializer stays a parameter as in Model/PbProto.  Core Lean only.
-/
import Teleport.Model.JsonProto
import Teleport.Model.PbProto
namespace Teleport
namespace WsP
open Bytes JsonP

/-! ### jsonSubProto.Pack -/

def kPipe : Bytes := [120, 102, 101, 114, 80, 105, 112, 101]          -- xferPipe

/-- the elements of `json.Marshal([]int{...})`, comma separated. -/
def joinIds : List UInt8 → Bytes
  | [] => []
  | [a] => Num.formatNat 8 a.toNat
  | a :: b :: r => Num.formatNat 8 a.toNat ++ 44 :: joinIds (b :: r)

/-- `json.Marshal(xferPipeIDs)` for the `[]int` built from the filter ids. -/
def idsJSON (ids : List UInt8) : Bytes := 91 :: joinIds ids ++ [93]

/-- the `format` constant with the eight values in place. -/
def renderW (seq mtype qm qs qe codec body ids : Bytes) : Bytes :=
  123 :: member kSeq seq ++ 44 :: member kMtype mtype ++ 44 :: member kMethod qm
    ++ 44 :: member kStatus qs ++ 44 :: member kMeta qe ++ 44 :: member kCodec codec
    ++ 44 :: member kBody (34 :: body ++ [34]) ++ 44 :: member kPipe ids ++ [125]

/-- `fmt.Sprintf(format, ...)` for message `m` whose filtered body is `fb` (`%q` = `strconv.Quote`,
    `%d` = decimal, `%s` = the bytes); `none` = the service method is outside the modelled domain
    of `strconv.Quote`. -/
def textW (m : Msg) (fb : Bytes) : Option Bytes :=
  (goQuote m.method).bind fun qm =>
  (goQuote m.status.encode).bind fun qs =>
  (goQuote (Args.query m.md)).map fun qe =>
    renderW (Num.formatInt 8 m.seq) (Num.formatNat 8 m.mtype.toNat) qm qs qe
      (Num.formatNat 8 m.codec.toNat) (escapeBody fb) (idsJSON m.pipe)

/-- what `SetSize(uint32(n))` stores when it succeeds. -/
def u32 (n : Nat) : Nat := n % 4294967296

/-- `jsonSubProto.Pack`: the bytes of the single `Write` and the size recorded in the message. -/
def packJson (reg : Registry) (limit : Nat) (m : Msg) : Except Frame2.PackErr (Bytes × Nat) :=
  match Xfer.onPack reg m.pipe m.body with
  | none => .error .xfer
  | some fb =>
    match textW m fb with
    | none => .error .ser
    | some t => if u32 t.length > limit then .error .size else .ok (t, u32 t.length)

/-! ### `gjson.Get(s, "xferPipe").Array()` and `Int()` of each element -/

/-- `tonum` stops at: byte ≤ ' ', `,`, and any byte ≥ `]` except `e`. -/
def numStopA (c : UInt8) : Bool := c ≤ 32 || c == 44 || (c ≥ 93 && c != 101)

/-- the element loop of `arrayOrMap('[', false)` on the text behind the opening `[`, as the list of
    `Int()` values of the elements. Fuel ≥ input length + 2 suffices. `none` = an element is a number
    token whose value depends on `strconv.ParseFloat` (not modelled).
    String elements follow `tostr`: a string that contains a backslash and whose closing quote is
    the LAST byte of the text is reported without that quote, so the loop reads the quote again as
    a second, empty string. -/
def arrInts : Nat → Bytes → Option (List Int)
  | 0, _ => some []
  | _ + 1, [] => some []
  | f + 1, c :: cs =>
    if c ≤ 32 then arrInts f cs
    else if c == 93 || c == 125 then some []
    else if c == 45 || isDigit c then
      match (JVal.num (c :: (untilB numStopA cs).1)).toInt with
      | none => none
      | some v => (arrInts f (untilB numStopA cs).2).map (v :: ·)
    else if c == 123 || c == 91 then (arrInts f (squash 1 false false cs).2).map ((0 : Int) :: ·)
    else if c == 110 || c == 102 then (arrInts f (untilB litStop cs).2).map ((0 : Int) :: ·)
    else if c == 116 then (arrInts f (untilB litStop cs).2).map ((1 : Int) :: ·)
    else if c == 34 then
      match strEnd false cs with
      | none => some [(decInt (strVal cs)).getD 0]
      | some (content, rest) =>
        (arrInts f (if content.contains 92 && rest.isEmpty then [34] else rest)).map
          ((decInt (strVal content)).getD 0 :: ·)
    else arrInts f cs

/-- `Result.Array()` then `Int()` of each element. -/
def pipeInts : JVal → Option (List Int)
  | .absent => some []
  | .json raw =>
    match raw with
    | c :: cs => if c == 91 then arrInts (cs.length + 3) cs else some []
    | [] => some []
  | v => v.toInt.map (fun i => [i])

/-! ### Unpack -/

/-- `m.XferPipe().Append(id)` once per id with the error ignored: an id that is not registered and
    every id that would make the pipe longer than 255 is dropped. -/
def appendEach (reg : Registry) : List UInt8 → List UInt8 → List UInt8
  | cur, [] => cur
  | cur, i :: is => appendEach reg ((Xfer.append reg cur [i]).getD cur) is

/-- result of `Unpack` on one websocket message. -/
inductive Res
  | ok (m : Msg)
  /-- `Unpack` returned an error; `m` = the fields of the message object set so far. -/
  | err (why : String) (m : Msg)
  /-- goutil's status decoder indexes its 255-entry hex table out of range. -/
  | panic (why : String)
  /-- the model declines (gjson array path / float tokens, payload missing from the table). -/
  | unmodelled
deriving Repr, DecidableEq

/-- `m.SetSize(uint32(n))` with the error ignored, on a message whose size is 0. -/
def sizeSet (limit n : Nat) : Nat := if u32 n > limit then 0 else u32 n

/-- the message object after `Reset` and the ignored-error `SetSize`. -/
def startMsg (limit n : Nat) : Msg := { Frame2.emptyMsg with size := sizeSet limit n }

/-- "read other" of jsonSubProto (after `OnUnpack` succeeded with `data`) + `UnmarshalBody`. -/
def readOtherJ (s : Bytes) (m1 : Msg) (data : Bytes) : Res :=
  match getInt s kSeq, getInt s kMtype, getStr s kMethod, getStr s kStatus, getStr s kMeta with
  | .ok seq, .ok mt, .ok method, .ok st, .ok me =>
    match Status.decode st with
    | none => .panic "panic:statusquote"
    | some status =>
      match Args.parse me with
      | none => .panic "panic:metaquote"
      | some md => .ok { m1 with seq := wrap32 seq, mtype := byteOf mt, method := method, status := status, md := md, body := data }
  | _, _, _, _, _ => .unmodelled

/-- "read body" of jsonSubProto: body codec, body string, `OnUnpack`. -/
def readBodyJ (reg : Registry) (s : Bytes) (m0 : Msg) (pipe : List UInt8) : Res :=
  match getInt s kCodec, getStr s kBody with
  | .ok co, .ok body =>
    match Xfer.onUnpack reg pipe body with
    | none => .err "err:xfer" { m0 with pipe := pipe, codec := byteOf co }
    | some data => readOtherJ s { m0 with pipe := pipe, codec := byteOf co } data
  | _, _ => .unmodelled

/-- `jsonSubProto.Unpack` on the websocket message `b`. -/
def unpackJson (reg : Registry) (limit : Nat) (b : Bytes) : Res :=
  match (jget b kPipe).bind pipeInts with
  | none => .unmodelled
  | some ints => readBodyJ reg b (startMsg limit b.length) (appendEach reg [] (ints.map byteOf))

/-! ### pbSubProto -/

/-- `pb.Payload` of mixer/websocket/pbSubProto/pb (no status field; the filter ids as bytes). -/
structure PRec where
  seq    : Int
  mtype  : Int
  method : Bytes
  md     : Bytes
  codec  : Int
  body   : Bytes
  pipe   : Bytes
deriving DecidableEq, Repr

/-- the record `Pack` hands to `codec.ProtoMarshal` (`fb` = the filtered body). -/
def toPRec (m : Msg) (fb : Bytes) : PRec :=
  { seq := m.seq, mtype := m.mtype.toNat, method := m.method, md := Args.query m.md,
    codec := m.codec.toNat, body := fb, pipe := m.pipe }

/-- `pbSubProto.Pack` for a protobuf encoder `ser`. -/
def packPb (ser : PRec → Option Bytes) (reg : Registry) (limit : Nat) (m : Msg) : Except Frame2.PackErr (Bytes × Nat) :=
  match Xfer.onPack reg m.pipe m.body with
  | none => .error .xfer
  | some fb =>
    match ser (toPRec m fb) with
    | none => .error .ser
    | some t => if u32 t.length > limit then .error .size else .ok (t, u32 t.length)

/-- "read other" of pbSubProto + `UnmarshalBody`. -/
def readOtherP (r : PRec) (m1 : Msg) (data : Bytes) : Res :=
  match Args.parse r.md with
  | none => .panic "panic:metaquote"
  | some md => .ok { m1 with seq := r.seq, mtype := PbP.byteOf r.mtype, method := r.method, md := md, body := data }

/-- `pbSubProto.Unpack` after `ProtoUnmarshal` gave `r`. -/
def readRecP (reg : Registry) (m0 : Msg) (r : PRec) : Res :=
  match Xfer.onUnpack reg (appendEach reg [] r.pipe) r.body with
  | none => .err "err:xfer" { m0 with pipe := appendEach reg [] r.pipe, codec := PbP.byteOf r.codec }
  | some data => readOtherP r { m0 with pipe := appendEach reg [] r.pipe, codec := PbP.byteOf r.codec } data

/-- `pbSubProto.Unpack` for a protobuf decoder `de` (its error is returned with only the size set;
    `"unmodelled"` = the decoder table of the case line has no entry). -/
def unpackPb (de : Bytes → Except String PRec) (reg : Registry) (limit : Nat) (b : Bytes) : Res :=
  match de b with
  | .error e => if e == "unmodelled" then .unmodelled else .err e (startMsg limit b.length)
  | .ok r => readRecP reg (startMsg limit b.length) r

/-- the delivered message, if any. -/
def Res.msg? : Res → Option Msg
  | .ok m => some m
  | _ => none

end WsP
end Teleport
