import Teleport.Drv.C05
import Teleport.Model.WsSubProto
/-
Drv/C05w — case kinds `wsjsonpack`, `wsjsonunpack` (Model/WsSubProto: `jsonSubProto.Pack/Unpack`)
and `wspbpack`, `wspbunpack` (`pbSubProto.Pack/Unpack`; the protobuf serializer is given by the
case line: `payload=` what the real `ProtoMarshal` wrote for the record, `tab=` what the real
`ProtoUnmarshal` returns for the document). An `Unpack` that returns an error is observed together
with the fields it had set by then (`err:<class> <message>`), so the order of the assignments is part
of the comparison. `unmodelled` is printed where the model declines (the Go generator keeps to the
modelled domain).
-/
namespace Teleport.Drv
namespace D05w
open Teleport

def showRes (r : WsP.Res) : String :=
  match r with
  | .ok m => s!"ok {showMsg m}"
  | .err e m => s!"err:{if e == "eof" then "eof" else "reject"} {showMsg m}"
  | .panic _ => "panic"
  | .unmodelled => "unmodelled"

def showPRec (r : WsP.PRec) : String :=
  s!"{r.seq};{r.mtype};{hexOr r.method};{hexOr r.md};{r.codec};{hexOr r.body};{hexOr r.pipe}"

/-- `seq;mtype;method;meta;codec;body;pipe`; `x` = the real decoder refused the document,
    `e` = it refused with `io.ErrUnexpectedEOF`. -/
def parsePRec (s : String) : Option (Except String WsP.PRec) :=
  if s == "x" then some (.error "err:proto") else if s == "e" then some (.error "eof") else
  match s.splitOn ";" with
  | [a, b, c, d, e, f, g] => do
    let seq ← a.toInt?; let mt ← b.toInt?; let me ← ofHex c; let md ← ofHex d
    let co ← e.toInt?; let body ← ofHex f; let pipe ← ofHex g
    pure (.ok { seq, mtype := mt, method := me, md, codec := co, body, pipe })
  | _ => none

def packErr (e : Frame2.PackErr) : String :=
  match e with | .xfer => "err:xfer" | .size => "err:size" | .ser => "unmodelled"

def c05w (kind : String) (f : Fields) : String :=
  match kind with
  | "wsjsonpack" =>
    match msgOfFields f, f.nat "limit" with
    | some m, some lim =>
      match WsP.packJson testReg lim m with
      | .ok (b, sz) => s!"ok size={sz} bytes={hexOr b}"
      | .error e => packErr e
    | _, _ => "bad-case"
  | "wsjsonunpack" =>
    match f.hex "bytes", f.nat "limit" with
    | some b, some lim => showRes (WsP.unpackJson testReg lim b)
    | _, _ => "bad-case"
  | "wspbpack" =>
    match msgOfFields f, f.nat "limit", f.hex "payload" with
    | some m, some lim, some pl =>
      match WsP.packPb (fun _ => some pl) testReg lim m with
      | .ok (b, sz) =>
        let r := match Xfer.onPack testReg m.pipe m.body with
          | some fb => showPRec (WsP.toPRec m fb)
          | none => "?"
        s!"ok size={sz} bytes={hexOr b} rec={r}"
      | .error e => packErr e
    | _, _, _ => "bad-case"
  | "wspbunpack" =>
    match f.hex "bytes", f.nat "limit", (f.get "rec").bind parsePRec with
    | some b, some lim, some r => showRes (WsP.unpackPb (fun _ => r) testReg lim b)
    | _, _, _ => "bad-case"
  | _ => "bad-kind"

end D05w

/-- case kinds served by this module. -/
def handlersC05w : List (String × (Fields → String)) :=
  ["wsjsonpack", "wsjsonunpack", "wspbpack", "wspbunpack"].map (fun k => (k, D05w.c05w k))

end Teleport.Drv
