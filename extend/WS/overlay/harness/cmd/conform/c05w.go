package main

import (
	"fmt"
	"io"
	"strconv"
	"strings"

	"github.com/tidwall/gjson"

	erpc "github.com/henrylee2cn/erpc/v6"
	"github.com/henrylee2cn/erpc/v6/codec"
	"github.com/henrylee2cn/erpc/v6/mixer/websocket/jsonSubProto"
	"github.com/henrylee2cn/erpc/v6/mixer/websocket/pbSubProto"
	wspb "github.com/henrylee2cn/erpc/v6/mixer/websocket/pbSubProto/pb"
	"github.com/henrylee2cn/erpc/v6/socket"
	"github.com/henrylee2cn/erpc/v6/xfer"
	"github.com/henrylee2cn/goutil/status"

	"verif/harness/internal/hx"
)

// C05 (and the status transport of C04), the two websocket sub-protocols against their Lean model
// (Model/WsSubProto): kinds
//   wsjsonpack   real jsonSubProto.Pack output vs the model's bytes (byte-exact) + the property's
//                round-trip / size / single-write oracles inside the supported field set (c05jWF)
//   wsjsonunpack real jsonSubProto.Unpack of valid, truncated, mutated, hand-made and synthetic
//                documents vs the model: class and EVERY field, also of a message whose Unpack
//                returned an error (the fields set by then show the order of the assignments)
//   wspbpack / wspbunpack the same for pbSubProto; the protobuf serializer is not modelled, the
//                case line carries what the real ProtoMarshal wrote for the record (payload=) and
//                what the real ProtoUnmarshal returns for the document (rec=)
// One websocket message = one document: the reader hands out the document (in chunks) and then EOF.
// The generator keeps to the model's domain (c05wInClass: gjson array path / float tokens, and no
// filter id 'g', which other runners of this binary register at some point of the run).

func init() {
	p := props["c05"]
	g, r := p.Gen, p.Run
	p.Gen = func(rr *hx.R, tier string, out *hx.Out) []string {
		ls := g(rr, tier, out)
		return append(ls, c05wGen(rr, tier, out)...)
	}
	p.Run = func(line string, out *hx.Out) (string, bool) {
		if strings.HasPrefix(line, "wsjson") || strings.HasPrefix(line, "wspb") {
			return c05wRun(line, out)
		}
		return r(line, out)
	}
}

var c05wKeys = []string{"seq", "mtype", "serviceMethod", "status", "meta", "bodyCodec", "body", "xferPipe"}

// c05wInClass: the model answers for every gjson read of jsonSubProto.Unpack on this document, and
// no filter id of the document is 'g'.
func c05wInClass(text string) bool {
	if !c05jInClass(text, c05wKeys) {
		return false
	}
	for _, e := range gjson.Get(text, "xferPipe").Array() {
		if e.Type == gjson.Number && !c05jPlainNum.MatchString(e.Raw) && c05jFloatish(e.Raw) {
			return false
		}
		if byte(e.Int()) == 'g' {
			return false
		}
	}
	return true
}

// c05wFilter applies the real pipe made of ids to the body (nil = some id is not registered).
func c05wFilter(ids []byte, body []byte) []byte {
	pipe := xfer.NewXferPipe()
	if pipe.Append(ids...) != nil {
		return nil
	}
	b, err := pipe.OnPack(append([]byte(nil), body...))
	if err != nil {
		return nil
	}
	return b
}

// c05wEscape is the escaping the sub-protocol documents use for the body (generator side only:
// hand-made documents; the real escapeBody is compared with the model by every wsjsonpack case).
func c05wEscape(b []byte) []byte {
	const hexd = "0123456789abcdef"
	var o []byte
	for _, c := range b {
		switch {
		case c == '\\' || c == '"':
			o = append(o, '\\', c)
		case c < ' ':
			o = append(o, '\\', 'u', '0', '0', hexd[c>>4], hexd[c&15])
		default:
			o = append(o, c)
		}
	}
	return o
}

// c05wDoc writes a document in the sub-protocol's format with a hand-made xferPipe value; the body
// is filtered by ids (the pipe the author of the document means the receiver to end up with).
func c05wDoc(m *M, pipeText string, ids []byte) []byte {
	fb := c05wFilter(ids, m.Body)
	if fb == nil {
		fb = m.Body
	}
	msg, err := (&M{Code: m.Code, Msg: m.Msg, Cause: m.Cause, HasCause: m.HasCause, Meta: m.Meta}).toMessage()
	if err != nil {
		return nil
	}
	return []byte(fmt.Sprintf(`{"seq":%d,"mtype":%d,"serviceMethod":%q,"status":%q,"meta":%q,"bodyCodec":%d,"body":"%s","xferPipe":%s}`,
		m.Seq, m.Mtype, string(m.Method), msg.Status(true).QueryString(), msg.Meta().QueryString(), m.Codec, c05wEscape(fb), pipeText))
}

type c05wPipeVariant struct {
	text string
	ids  []byte // what Unpack makes of it (registered ids only)
}

func c05wPipeVariants(r *hx.R) c05wPipeVariant {
	many := "[" + strings.TrimSuffix(strings.Repeat("1,", 300), ",") + "]"
	ones := make([]byte, 255)
	for i := range ones {
		ones[i] = 1
	}
	vs := []c05wPipeVariant{
		{"[]", nil}, {"[1]", []byte{1}}, {"[1,2,3]", []byte{1, 2, 3}}, {"[3,2,1,1]", []byte{3, 2, 1, 1}},
		{"[9]", nil}, {"[1,9,2]", []byte{1, 2}}, {"[0,3]", []byte{3}}, {"[256,2]", []byte{2}}, {"[257]", []byte{1}}, {"[-255]", []byte{1}},
		{"[-253,4294967298]", []byte{3, 2}}, {"[99999999999999999999999]", nil},
		{`["2"]`, []byte{2}}, {`["2","x",3]`, []byte{2, 3}}, {"[true]", []byte{1}}, {"[false,2]", []byte{2}}, {"[null,2]", []byte{2}}, {"[tx,nope,2]", []byte{1, 2}},
		{"[[1],2]", []byte{2}}, {`[{"a":1},3]`, []byte{3}}, {`[{"a":"]"},3]`, []byte{3}}, {"[[1,[2]],[3],1]", []byte{1}},
		{"3", []byte{3}}, {`"1"`, []byte{1}}, {`"x"`, nil}, {"true", []byte{1}}, {"false", nil}, {"null", nil}, {`{"a":1}`, nil}, {"-254", []byte{2}},
		{"[1 2]", []byte{1, 2}}, {"[ 1 ,\n 2 ]", []byte{1, 2}}, {"[1;2]", nil}, {"[1,,2]", []byte{1, 2}}, {"[:1]", []byte{1}}, {"[01]", []byte{1}}, {"[1x]", []byte{1}}, {"[2[3]", nil},
		{`["1"]`, []byte{1}}, {`["1\\"]`, nil}, {`["\\",2]`, []byte{2}}, {`["a\"b",3]`, []byte{3}}, {`["3]`, nil}, {`["\\3]`, nil},
		{"[1}", []byte{1}}, {"[1]]", []byte{1}}, {many, ones},
	}
	return vs[r.Intn(len(vs))]
}

func c05wPackReal(pf erpc.ProtoFunc, m *M) (packed []byte, msg socket.Message, writes int, err error) {
	msg, err = m.toMessage()
	if err != nil {
		return nil, nil, 0, err
	}
	cr := newChunkReader(nil, 0, 0)
	func() {
		defer func() {
			if e := recover(); e != nil {
				err = fmt.Errorf("panic: %v", e)
			}
		}()
		err = pf(cr).Pack(msg)
	}()
	return append([]byte(nil), cr.written.Bytes()...), msg, cr.Writes, err
}

// c05wUnpack runs the real Unpack on one websocket message. The message object is Reset first, the
// way the read loop re-uses its input message; with dirty it carried other values before. The
// fields are read back also when Unpack returned an error.
func c05wUnpack(pf erpc.ProtoFunc, b []byte, chunk, cseed int, dirty bool) (*M, string) {
	rd := newChunkReader(b, chunk, int64(cseed))
	msg := socket.NewMessage()
	if dirty {
		msg.SetSeq(77)
		msg.SetMtype(9)
		msg.SetServiceMethod("/stale")
		msg.SetStatus(status.New(55, "stale", "stale"))
		msg.Meta().Set("stale", "1")
		msg.SetBodyCodec('x')
		msg.SetBody([]byte("stale"))
		msg.XferPipe().Append(1, 3)
		msg.SetSize(12345)
	}
	msg.Reset(socket.WithNewBody(func(socket.Header) interface{} { return new([]byte) }))
	var err error
	panicked := false
	func() {
		defer func() {
			if e := recover(); e != nil {
				panicked = true
			}
		}()
		err = pf(rd).Unpack(msg)
	}()
	switch {
	case panicked:
		return nil, "panic"
	case err == nil:
		return fromMessage(msg), "ok"
	case err == io.EOF || err == io.ErrUnexpectedEOF:
		return fromMessage(msg), "err:eof"
	default:
		return fromMessage(msg), "err:reject"
	}
}

func c05wMutateBytes(r *hx.R, b []byte) []byte {
	b = append([]byte(nil), b...)
	for k := 1 + r.Intn(3); k > 0 && len(b) > 0; k-- {
		i := r.Intn(len(b))
		switch r.Intn(4) {
		case 0:
			b[i] ^= 1 << uint(r.Intn(8))
		case 1:
			b[i] = byte(r.Pick(0, 1, 2, 3, 4, 255, 254, 8, 0x3a))
		case 2:
			b = append(b[:i], b[i+1:]...)
		default:
			b[i] = byte(r.Intn(256))
		}
	}
	return b
}

func c05wGenJSONUnpack(r *hx.R, out *hx.Out) string {
	limit := r.Pick(1<<20, 1<<20, 1<<20, 1<<20, 64, 200)
	m := c05jGenMsg(r)
	if len(m.Body) > 200 {
		m.Body = m.Body[:200]
	}
	if len(m.Pipe) > 4 {
		m.Pipe = m.Pipe[:4]
	}
	socket.SetMessageSizeLimit(1 << 30)
	base, _, _, _ := c05wPackReal(jsonSubProto.NewJSONSubProtoFunc(), m)
	socket.SetMessageSizeLimit(0)
	b := base
	switch r.Intn(12) {
	case 0: // random bytes
		b = r.Bytes(r.Intn(40), 0)
	case 1: // truncation
		if len(b) > 0 {
			b = b[:r.Intn(len(b))]
		}
	case 2, 3: // text mutations
		b = c05jMutateText(r, b)
	case 4: // a synthetic document, sometimes with an xferPipe member
		b = c05jSynthDoc(r)
		if r.Intn(2) == 0 && len(b) > 0 && b[len(b)-1] == '}' {
			sep := ","
			if len(b) < 3 {
				sep = ""
			}
			b = append(b[:len(b)-1], []byte(sep+`"xferPipe":`+c05wPipeVariants(r).text+"}")...)
		}
	case 5, 6, 7: // hand-made xferPipe value, body filtered by the pipe it stands for
		v := c05wPipeVariants(r)
		if d := c05wDoc(m, v.text, v.ids); d != nil {
			b = d
		}
	case 8: // hand-made xferPipe value over the body as filtered by the ORIGINAL pipe (OnUnpack usually fails)
		v := c05wPipeVariants(r)
		if d := c05wDoc(m, v.text, m.Pipe); d != nil {
			b = d
		}
	case 9: // the xferPipe member missing / the body member missing
		if i := strings.LastIndex(string(b), `,"xferPipe"`); i > 0 && r.Intn(2) == 0 {
			b = append(append([]byte(nil), b[:i]...), '}')
		} else if i := strings.Index(string(b), `,"body":"`); i > 0 {
			if j := strings.LastIndex(string(b), `,"xferPipe"`); j > i {
				b = append(append([]byte(nil), b[:i]...), b[j:]...)
			}
		}
	case 11: // goutil's status decoder panics on '%' followed within two bytes by 0xff (255-entry table)
		if r.Intn(2) == 0 {
			b = []byte(strings.Replace(string(b), `"status":"`, "\"status\":\"m=%"+string([]byte{0xff, '0'})+"&", 1))
		}
	case 10: // empty message / white space
		b = []byte([]string{"", " ", "{}", "[]x", "null"}[r.Intn(5)])
	}
	if !c05wInClass(string(b)) {
		out.Count("wsjsonunpack:gen-outside-model-domain")
		b = base
	}
	return fmt.Sprintf("wsjsonunpack limit=%d chunk=%d cseed=%d dirty=%d bytes=%s", limit, r.Intn(4), r.Intn(1000), r.Intn(2), hx.Hex(b))
}

// ---- pbSubProto ---------------------------------------------------------------------------------

func c05wShowRec(s *wspb.Payload) string {
	return fmt.Sprintf("%d;%d;%s;%s;%d;%s;%s", s.Seq, s.Mtype, hx.Hex([]byte(s.ServiceMethod)), hx.Hex(s.Meta), s.BodyCodec, hx.Hex(s.Body), hx.Hex(s.XferPipe))
}

// c05wDecode: what the real protobuf decoder returns for a document (`x` = refused, `e` = refused
// with io.ErrUnexpectedEOF), and the record when it accepted.
func c05wDecode(doc []byte) (string, *wspb.Payload) {
	s := &wspb.Payload{}
	res := ""
	func() {
		defer func() {
			if recover() != nil {
				res = "x"
			}
		}()
		if err := codec.ProtoUnmarshal(doc, s); err == io.ErrUnexpectedEOF || err == io.EOF {
			res = "e"
		} else if err != nil {
			res = "x"
		}
	}()
	if res != "" {
		return res, nil
	}
	return c05wShowRec(s), s
}

// c05wPayload: the bytes of the real serializer for m, built the way pbSubProto.Pack builds them.
func c05wPayload(m *M) ([]byte, error) {
	msg, err := m.toMessage()
	if err != nil {
		return nil, err
	}
	fb := c05wFilter(m.Pipe, m.Body)
	if fb == nil {
		return nil, fmt.Errorf("pipe")
	}
	return codec.ProtoMarshal(&wspb.Payload{
		Seq:           msg.Seq(),
		Mtype:         int32(msg.Mtype()),
		ServiceMethod: msg.ServiceMethod(),
		Meta:          msg.Meta().QueryString(),
		BodyCodec:     int32(msg.BodyCodec()),
		Body:          fb,
		XferPipe:      append([]byte(nil), m.Pipe...),
	})
}

func c05wGenPbUnpack(r *hx.R, out *hx.Out) string {
	limit := r.Pick(1<<20, 1<<20, 1<<20, 1<<20, 64, 200)
	m := c05pGenMsg(r)
	if len(m.Body) > 200 {
		m.Body = m.Body[:200]
	}
	if len(m.Pipe) > 4 {
		m.Pipe = m.Pipe[:4]
	}
	base, _ := c05wPayload(m)
	b := base
	switch r.Intn(8) {
	case 0:
		b = r.Bytes(r.Intn(40), 0)
	case 1:
		if len(b) > 0 {
			b = b[:r.Intn(len(b))]
		}
	case 2, 3:
		b = c05wMutateBytes(r, b)
	case 4, 5: // a hand-made record: odd filter ids, numbers outside the byte range
		ids := [][]byte{nil, {1}, {9}, {1, 9, 2}, {0, 3}, {3, 2, 1, 1}, {255}, make([]byte, 300)}[r.Intn(8)]
		if len(ids) == 300 {
			for i := range ids {
				ids[i] = byte(1 + i%3)
			}
		}
		var reg []byte
		for _, id := range ids {
			if id >= 1 && id <= 3 && len(reg) < 255 {
				reg = append(reg, id)
			}
		}
		body := m.Body
		if r.Intn(3) != 0 {
			if fb := c05wFilter(reg, m.Body); fb != nil {
				body = fb
			}
		}
		msg, _ := (&M{Meta: m.Meta}).toMessage()
		b, _ = codec.ProtoMarshal(&wspb.Payload{
			Seq:           m.Seq,
			Mtype:         int32(r.Pick(int(m.Mtype), 256, 257, -1, 1<<31-1, -1<<31)),
			ServiceMethod: string(m.Method),
			Meta:          msg.Meta().QueryString(),
			BodyCodec:     int32(r.Pick(int(m.Codec), 256+'j', -1, 511)),
			Body:          body,
			XferPipe:      ids,
		})
	case 6:
		b = nil // the empty websocket message
	}
	recs, rec := c05wDecode(b)
	if rec != nil && strings.IndexByte(string(rec.XferPipe), 'g') >= 0 {
		out.Count("wspbunpack:gen-outside-model-domain")
		b = base
		recs, _ = c05wDecode(b)
	}
	return fmt.Sprintf("wspbunpack limit=%d chunk=%d cseed=%d dirty=%d rec=%s bytes=%s", limit, r.Intn(4), r.Intn(1000), r.Intn(2), recs, hx.Hex(b))
}

func c05wGen(r *hx.R, tier string, out *hx.Out) []string {
	n := 2400
	if tier == "thorough" {
		n = 24000
	}
	regTestFilters()
	var ls []string
	for i := 0; i < n; i++ {
		switch k := r.Intn(12); {
		case k < 4:
			m := c05jGenMsg(r)
			limit := 1 << 30
			if r.Intn(8) == 0 {
				limit = r.Pick(16, 64, 300)
			}
			w := 0
			if c05jWF(m) {
				w = 1
			}
			ls = append(ls, fmt.Sprintf("wsjsonpack %s limit=%d wf=%d chunk=%d cseed=%d", m.Line(), limit, w, r.Intn(4), r.Intn(1000)))
		case k < 8:
			ls = append(ls, c05wGenJSONUnpack(r, out))
		case k < 10:
			m := c05pGenMsg(r)
			pl, err := c05wPayload(m)
			if err != nil {
				continue
			}
			limit := 1 << 30
			if r.Intn(8) == 0 {
				limit = r.Pick(16, 64, 300)
			}
			w := 0
			if c05pWF(m) {
				w = 1
			}
			ls = append(ls, fmt.Sprintf("wspbpack %s limit=%d wf=%d chunk=%d cseed=%d payload=%s", m.Line(), limit, w, r.Intn(4), r.Intn(1000), hx.Hex(pl)))
		default:
			ls = append(ls, c05wGenPbUnpack(r, out))
		}
	}
	return ls
}

func c05wRun(line string, out *hx.Out) (string, bool) {
	kind, f := hx.Fields(line)
	limit, _ := strconv.Atoi(f["limit"])
	socket.SetMessageSizeLimit(uint32(limit))
	defer socket.SetMessageSizeLimit(0)
	chunk, _ := strconv.Atoi(f["chunk"])
	cseed, _ := strconv.Atoi(f["cseed"])
	proto, pf := "wsjson", jsonSubProto.NewJSONSubProtoFunc()
	if strings.HasPrefix(kind, "wspb") {
		proto, pf = "wspb", pbSubProto.NewPbSubProtoFunc()
	}
	switch strings.TrimPrefix(kind, proto) {
	case "pack":
		m := parseM(f)
		out.Count(kind)
		packed, msg, writes, err := c05wPackReal(pf, m)
		if msg == nil {
			out.Count(kind + ":pipe-refused")
			return "err:xfer", true
		}
		if err != nil {
			out.Count(kind + ":" + c05jPackErr(err))
			if writes != 0 {
				out.Violate(line, "no-write-on-error", fmt.Sprintf("Pack failed but wrote %d times", writes), "c05:"+proto+":write-on-error")
			}
			return c05jPackErr(err), true
		}
		if writes != 1 {
			out.Violate(line, "single-write", fmt.Sprintf("Pack wrote %d times", writes), "c05:"+proto+":single-write")
		}
		// one websocket message = the document: the size reported is its length, on both sides
		if int(msg.Size()) != len(packed) {
			out.Violate(line, "size-is-document-length", fmt.Sprintf("size %d, document %d bytes", msg.Size(), len(packed)), "c05:"+proto+":size")
		}
		if f["wf"] == "1" {
			socket.SetMessageSizeLimit(1 << 30)
			got, class := c05wUnpack(pf, packed, chunk, cseed, cseed%2 == 0)
			want := *m
			want.Size = msg.Size()
			statusLost := false
			if proto == "wspb" && (m.Code != 0 || len(m.Msg) > 0 || m.HasCause) {
				// pbSubProto's record has no status field: recorded finding of C04
				// (c04:ws-subproto-drops-status:pb); outside the supported field set of C05
				statusLost = true
				want.Code, want.Msg, want.Cause, want.HasCause = 0, nil, nil, false
			}
			if class != "ok" {
				out.Violate(line, "roundtrip", "unpack of packed message: "+class, "c05:"+proto+":frame-sync")
			} else if d := sameM(&want, got, true); d != "" {
				out.Violate(line, "roundtrip", d, c05jDiffSig(proto, &want, got))
			}
			if statusLost {
				out.Count(kind + ":wf-roundtrip-status-not-carried")
			} else {
				out.Count(kind + ":wf-roundtrip")
			}
		} else {
			out.Count(kind + ":outside-supported-set")
		}
		obs := fmt.Sprintf("ok size=%d bytes=%s", msg.Size(), hx.Hex(packed))
		if proto == "wspb" {
			rec, _ := c05wDecode(packed)
			obs += " rec=" + rec
		}
		return obs, true
	case "unpack":
		b := hx.UnHex(f["bytes"])
		got, class := c05wUnpack(pf, b, chunk, cseed, f["dirty"] == "1")
		out.Count(kind + ":" + class)
		if got == nil {
			return class, true
		}
		if class != "ok" && len(got.Pipe) > 0 {
			out.Count(kind + ":" + class + ":pipe-set")
		}
		if class == "ok" && int(got.Size) != len(b) {
			out.Count(kind + ":ok:size-above-limit-ignored")
		}
		return class + " " + got.Show(), len(b) > 0
	}
	return "bad-kind", false
}
