package main

// C13 — a redial-enabled client session survives connection loss.
//
// One case = one fresh client peer (RedialTimes = b, RedialInterval = 1 ms) dialing a fresh server
// peer through the VerifHooks.Dial hook (in-memory listener), then a scripted fault history:
//
//	c13 b=<budget> werr=pipe|eof steps=<step>,<step>,...
//
//	call[:av]         Call /c13h/echo                         loss seen by the writer's status check
//	push[:av]         Push /c13p/p
//	cut[:av]          cut the live connection while idle      reader detects
//	cutcall[:av]      call whose handler is blocked, then cut (loss while awaiting the reply)
//	wdet:n[:av]       reader parked right after its failed read (gate read.msg), then a Call writes:
//	                  n<0 the connection was cut before the write, n>=0 it is cut after n bytes of
//	                  the frame (loss while writing); writer detects first
//	race:r|w[:av]     cut; reader parked before redialForClient (gate disc.redial), a Call parked
//	                  after its status check (gate write.check); then reader first / writer first
//	stale:0|1[:av]    cut; reader parked before its cancel loop (gate disc.cancel); a Call detects
//	                  the loss, redials and succeeds; (1: a second call with a blocked handler is
//	                  issued on the new connection;) then the old reader is released
//	lockq:r|w 0|1[:av] lock-queue schedules of redialForClient (the de-duplication must happen UNDER s.lock):
//	                  r: cut; the reader is parked INSIDE redialForClient holding s.lock (gate
//	                  redial.locked); a Call detects the loss by its status check, enters
//	                  redialForClient and blocks acquiring s.lock (seen in its goroutine stack); the
//	                  reader is released and runs its round; the writer obtains the lock next and is
//	                  parked at its own redial.locked gate until the reader has finished;
//	                  w: mirrored — reader parked at disc.redial, the Call is parked inside
//	                  redialForClient holding the lock, the reader is released and blocks on the lock,
//	                  the writer runs its round, the reader obtains the lock and is parked at the gate;
//	                  1: while the queued party holds the lock at the gate a second call (handler
//	                  blocked) is issued on the re-established connection; then the queued party runs
//	setid             SetID("u13")
//	sfin:op:av1:av2   (case kind c13stale, c13g.go) the stale final store: the reader, told `false` by
//	                  redialForClient, is parked at gate final.store while a Call / Push redials
//	storm:n:av        (case kind c13stale, c13g.go) n forced turns of the redial storm
//
// av = availability of the server for the following dial attempts: a string over u (up), d (dial
// refused), h (connection established, the dial hook then fails: loss during the redial); the last
// letter repeats for ever. Every step ends at quiescence (no goroutine inside the library except
// readers blocked on a live connection and goroutines parked by the harness), found by polling
// goroutine stacks; every wait has a watchdog (observation `hang`). The only sleep that orders
// anything is the library's own 1 ms redial interval.

import (
	"fmt"
	"io"
	"net"
	"os"
	"runtime"
	"strconv"
	"strings"
	"sync"
	"sync/atomic"
	"time"

	erpc "github.com/henrylee2cn/erpc/v6"

	"verif/harness/internal/hx"
	"verif/harness/internal/mem"
)

func init() {
	props["c13"] = &Prop{Setup: func() { erpc.SetLoggerLevel("OFF") }, Gen: c13Gen, Run: c13Run}
}

const c13Watchdog = 4 * time.Second

// ---- server handlers ------------------------------------------------------------------------

type C13h struct{ erpc.CallCtx }

var c13Cur atomic.Value // *c13Case

func (h *C13h) Echo(arg *int) (int, *erpc.Status) { return *arg + 1, nil }

func (h *C13h) Block(arg *int) (int, *erpc.Status) {
	c, _ := c13Cur.Load().(*c13Case)
	if c == nil {
		return 0, nil
	}
	return c13BlockWait(c, *arg), nil
}

// c13BlockWait is named so that a goroutine blocked in it is recognised as parked.
func c13BlockWait(c *c13Case, arg int) int {
	atomic.AddInt32(&c.blocked, 1)
	defer atomic.AddInt32(&c.blocked, -1)
	rel := c.curRelease()
	c.entered <- struct{}{}
	select {
	case <-rel:
	case <-time.After(4 * c13Watchdog):
	}
	return arg + 1
}

type C13p struct{ erpc.PushCtx }

func (h *C13p) P(arg *int) *erpc.Status { return nil }

// ---- client connection wrapper --------------------------------------------------------------

type c13Conn struct {
	*mem.Conn
	idx    int
	eof    bool
	broken int32
	inRead int32
	owner  *c13Case
}

// Read records which goroutine reads this connection (the session's reader of connection idx) and
// whether it is inside Read right now.
func (c *c13Conn) Read(p []byte) (int, error) {
	id := c13Goid()
	c.owner.mu.Lock()
	c.owner.readerConn[id] = c.idx
	c.owner.mu.Unlock()
	atomic.AddInt32(&c.inRead, 1)
	n, err := c.Conn.Read(p)
	atomic.AddInt32(&c.inRead, -1)
	return n, err
}

func (c *c13Conn) Write(p []byte) (int, error) {
	n, err := c.Conn.Write(p)
	if err != nil && c.eof {
		err = io.EOF
	}
	return n, err
}

func (c *c13Conn) alive() bool {
	return atomic.LoadInt32(&c.broken) == 0 && atomic.LoadInt32(&c.Conn.Closed) == 0
}

func (c *c13Conn) cut() {
	atomic.StoreInt32(&c.broken, 1)
	c.Conn.Break(io.ErrUnexpectedEOF)
}

// ---- one case's shared state ----------------------------------------------------------------

type c13Case struct {
	mu         sync.Mutex
	budget     int
	eof        bool
	av         []byte
	sticky     byte
	failNext   bool
	lis        *mem.Listener
	conns      []*c13Conn
	rounds     []int // dial attempts per redial round of the current step
	log        []byte
	disc       int
	prewrite   map[int32]int // pre-write hook firings per message seq
	cli        erpc.Peer
	sess       erpc.Session
	entered    chan struct{}
	release    chan struct{}
	writers    map[int64]bool
	parkAt     map[string]chan struct{} // "r:point" / "w:point" -> release channel (one shot)
	parkConn   map[string]int           // reader rules: only the reader of this connection parks
	readerConn map[int64]int            // goroutine id -> connection it last read
	keyOf      map[chan struct{}]string
	leaving    int32 // goroutines released by the harness that have not resumed yet
	blocked    int32 // handlers inside c13BlockWait
	arrived    map[string]bool
	hung       bool
	userID     bool
	upAtStart  bool
	hubTainted bool
	lqFirstOK  bool // lockq: the lock holder's round re-established the connection
	lqExtra    bool // lockq: a call was issued on the re-established connection
	g          c13gState // sfin / storm steps (c13g.go)
}

func c13Goid() int64 {
	var b [64]byte
	n := runtime.Stack(b[:], false)
	s := strings.TrimPrefix(string(b[:n]), "goroutine ")
	if i := strings.IndexByte(s, ' '); i > 0 {
		id, _ := strconv.ParseInt(s[:i], 10, 64)
		return id
	}
	return -1
}

func (c *c13Case) setAv(s string) {
	if s == "" {
		return
	}
	c.mu.Lock()
	c.av = []byte(s[:len(s)-1])
	c.sticky = s[len(s)-1]
	c.mu.Unlock()
}

// dial is the VerifHooks.Dial hook: one dial attempt of the client dialer.
func (c *c13Case) dial(network, addr string) (net.Conn, error) {
	c.mu.Lock()
	defer c.mu.Unlock()
	a := c.sticky
	if len(c.av) > 0 {
		a = c.av[0]
		c.av = c.av[1:]
	}
	if n := len(c.rounds); n > 0 {
		c.rounds[n-1]++
	}
	if a == 'd' {
		return nil, fmt.Errorf("connection refused")
	}
	mc, err := c.lis.Dial()
	if err != nil {
		return nil, err
	}
	cc := &c13Conn{Conn: mc, idx: len(c.conns), eof: c.eof, owner: c}
	c.conns = append(c.conns, cc)
	c.failNext = a == 'h'
	return cc, nil
}

// plugin of the client peer
type c13Plug struct{ c *c13Case }

func (p *c13Plug) Name() string { return "c13plug" }
func (p *c13Plug) PostDial(sess erpc.PreSession, isRedial bool) *erpc.Status {
	p.c.mu.Lock()
	defer p.c.mu.Unlock()
	if isRedial {
		p.c.log = append(p.c.log, 'r')
	} else {
		p.c.log = append(p.c.log, 'd')
	}
	if p.c.failNext {
		p.c.failNext = false
		return erpc.NewStatus(erpc.CodeDialFailed, "c13 hook", "scripted dial hook failure")
	}
	return nil
}
// PreWriteCall / PreWritePush count their firings per message (sequence number): a write that is
// retried after a redial must not run the pre-write hooks of the same message again (each hook fires
// at most once per stage and message, property C09).
func (p *c13Plug) PreWriteCall(ctx erpc.WriteCtx) *erpc.Status {
	p.c.mu.Lock()
	if p.c.prewrite == nil {
		p.c.prewrite = map[int32]int{}
	}
	p.c.prewrite[ctx.Output().Seq()]++
	p.c.mu.Unlock()
	return nil
}
func (p *c13Plug) PreWritePush(ctx erpc.WriteCtx) *erpc.Status { return p.PreWriteCall(ctx) }

func (p *c13Plug) PostDisconnect(erpc.BaseSession) *erpc.Status {
	p.c.mu.Lock()
	p.c.disc++
	p.c.mu.Unlock()
	return nil
}

func (c *c13Case) event(kind string, sess erpc.Session, a, b int64) {
	if sess == nil || sess.Peer() != c.cli {
		return
	}
	if kind == "st" && b == 6 && a != 0 {
		c.mu.Lock()
		c.rounds = append(c.rounds, 0)
		c.mu.Unlock()
	}
}

func (c *c13Case) gate(point string, sess erpc.Session) {
	if sess == nil || sess.Peer() != c.cli {
		return
	}
	role := "r:"
	gid := c13Goid()
	c.mu.Lock()
	if c.writers[gid] {
		role = "w:"
	}
	key := role + point
	ch := c.parkAt[key]
	if ch != nil && role == "r:" {
		if idx, ok := c.readerConn[gid]; !ok || idx != c.parkConn[key] {
			ch = nil // another connection's reader
		}
	}
	if ch != nil {
		delete(c.parkAt, key)
		c.arrived[key] = true
	}
	c.mu.Unlock()
	if ch != nil {
		c13Park(ch)
		atomic.AddInt32(&c.leaving, -1)
	}
}

func (c *c13Case) unparkCh(ch chan struct{}) {
	c.mu.Lock()
	key := c.keyOf[ch]
	c.mu.Unlock()
	c.unpark(key, ch)
}

// unpark releases a parked goroutine; quiescence is not reported before it has resumed.
func (c *c13Case) unpark(key string, ch chan struct{}) {
	c.mu.Lock()
	arrived := c.arrived[key]
	delete(c.parkAt, key)
	c.mu.Unlock()
	if arrived {
		atomic.AddInt32(&c.leaving, 1)
	}
	close(ch)
}

// c13Park is named so that a goroutine blocked in it is recognised as parked.
func c13Park(ch chan struct{}) {
	select {
	case <-ch:
	case <-time.After(4 * c13Watchdog):
	}
}

func (c *c13Case) arm(key string) chan struct{} {
	ch := make(chan struct{})
	c.mu.Lock()
	c.parkAt[key] = ch
	c.arrived[key] = false
	c.parkConn[key] = len(c.conns) - 1
	c.keyOf[ch] = key
	c.mu.Unlock()
	return ch
}

func (c *c13Case) disarm(key string) {
	c.mu.Lock()
	delete(c.parkAt, key)
	c.mu.Unlock()
}

func (c *c13Case) waitArrived(key string) bool {
	ok := waitUntil(c13Watchdog, func() bool {
		c.mu.Lock()
		defer c.mu.Unlock()
		return c.arrived[key]
	})
	if !ok {
		c.hung = true
	}
	return ok
}

// waitQueued waits until a goroutine of the given kind (a frame of its stack) is blocked acquiring
// s.lock inside redialForClient.
func (c *c13Case) waitQueued(frame string) bool {
	ok := waitUntil(c13Watchdog, func() bool {
		for _, g := range c13Stacks() {
			if !strings.Contains(g, "erpc/v6.(*session).redialForClient(") || !strings.Contains(g, frame) ||
				!strings.Contains(g, "sync.(*RWMutex).Lock(") {
				continue
			}
			hdr := g
			if i := strings.IndexByte(g, '\n'); i >= 0 {
				hdr = g[:i]
			}
			if strings.Contains(hdr, "[semacquire") || strings.Contains(hdr, "[sync.") {
				return true
			}
		}
		return false
	})
	if !ok {
		c.hung = true
	}
	return ok
}

// ---- quiescence ------------------------------------------------------------------------------

func c13Stacks() []string {
	buf := make([]byte, 1<<17)
	for {
		n := runtime.Stack(buf, true)
		if n < len(buf) {
			buf = buf[:n]
			break
		}
		buf = make([]byte, 2*len(buf))
	}
	return strings.Split(string(buf), "\n\n")
}

// c13Quiet: every goroutine with a frame of the library is blocked reading a connection or parked.
func c13Quiet() bool {
	for _, g := range c13Stacks() {
		if !strings.Contains(g, "henrylee2cn/erpc/v6.(*") && !strings.Contains(g, "henrylee2cn/erpc/v6/socket.") {
			continue
		}
		if strings.Contains(g, "main.c13Run(") && !strings.Contains(g, "main.c13Park(") {
			continue // the case runner itself (it polls from here)
		}
		if strings.Contains(g, "internal/mem.(*Conn).Read(") || strings.Contains(g, "main.c13Park(") ||
			strings.Contains(g, "main.c13BlockWait(") {
			continue
		}
		// blocked on a lock or wait group: waits for another goroutine, which is itself counted
		hdr := g
		if i := strings.IndexByte(g, '\n'); i >= 0 {
			hdr = g[:i]
		}
		if strings.Contains(hdr, "[semacquire") || strings.Contains(hdr, "[sync.") {
			continue
		}
		// the session's own wait group (fix c551801) blocks on a channel, not on a semaphore
		if strings.Contains(g, "erpc/v6.(*graceWaitGroup).Wait(") {
			continue
		}
		if os.Getenv("C13_DEBUG") != "" {
			fmt.Fprintln(os.Stderr, "BUSY:", g)
		}
		return false
	}
	return true
}

// noWakePending: no goroutine released by the harness is still on its way out of the park, and no
// client reader sits in Read on a connection that is already cut or closed (it is about to wake).
func (c *c13Case) noWakePending() bool {
	if atomic.LoadInt32(&c.leaving) != 0 {
		return false
	}
	c.mu.Lock()
	defer c.mu.Unlock()
	for _, cc := range c.conns {
		if atomic.LoadInt32(&cc.inRead) > 0 && !cc.alive() {
			return false
		}
	}
	return true
}

func (c *c13Case) quiesce() {
	n := 0
	ok := waitUntil(c13Watchdog, func() bool {
		if c.noWakePending() && c13Quiet() && c.noWakePending() {
			n++
		} else {
			n = 0
		}
		return n >= 2
	})
	if !ok {
		c.hung = true
	}
}

// ---- calls -----------------------------------------------------------------------------------

type c13Call struct {
	cmd  erpc.CallCmd
	ret  chan struct{} // AsyncCall returned
	stat *erpc.Status
}

func c13Class(st *erpc.Status) string {
	if st.OK() {
		return "ok"
	}
	return strconv.Itoa(int(st.Code()))
}

// asyncCall runs AsyncCall in a goroutine registered as a writer.
func (c *c13Case) asyncCall(method string) *c13Call {
	k := &c13Call{ret: make(chan struct{})}
	started := make(chan struct{})
	go func() {
		id := c13Goid()
		c.mu.Lock()
		c.writers[id] = true
		c.mu.Unlock()
		close(started)
		var r int
		k.cmd = c.sess.AsyncCall(method, 1, &r, make(chan erpc.CallCmd, 1))
		c.mu.Lock()
		delete(c.writers, id)
		c.mu.Unlock()
		close(k.ret)
	}()
	<-started
	return k
}

func (k *c13Call) waitRet(c *c13Case) bool {
	select {
	case <-k.ret:
		return true
	case <-time.After(c13Watchdog):
		c.hung = true
		return false
	}
}

// result waits for the call to complete; "hang" when it does not.
func (k *c13Call) result(c *c13Case) string {
	if !k.waitRet(c) {
		return "hang"
	}
	select {
	case <-k.cmd.Done():
		return c13Class(k.cmd.Status())
	case <-time.After(c13Watchdog):
		c.hung = true
		return "hang"
	}
}

func (k *c13Call) doneNow() bool {
	select {
	case <-k.cmd.Done():
		return true
	default:
		return false
	}
}

func (c *c13Case) push() string {
	res := make(chan *erpc.Status, 1)
	started := make(chan struct{})
	go func() {
		id := c13Goid()
		c.mu.Lock()
		c.writers[id] = true
		c.mu.Unlock()
		close(started)
		st := c.sess.Push("/c13p/p", 1)
		c.mu.Lock()
		delete(c.writers, id)
		c.mu.Unlock()
		res <- st
	}()
	<-started
	select {
	case st := <-res:
		return c13Class(st)
	case <-time.After(c13Watchdog):
		c.hung = true
		return "hang"
	}
}

func (c *c13Case) cur() *c13Conn {
	c.mu.Lock()
	defer c.mu.Unlock()
	return c.conns[len(c.conns)-1]
}

// cutLive cuts the connection the socket holds if it is still alive.
func (c *c13Case) cutLive() bool {
	cc := c.cur()
	if cc.alive() {
		cc.cut()
		return true
	}
	return false
}

func (c *c13Case) live() bool {
	return erpc.VerifStatus(c.sess) == 1 && c.cur().alive()
}

func (c *c13Case) waitEntered() bool {
	select {
	case <-c.entered:
		return true
	case <-time.After(c13Watchdog):
		c.hung = true
		return false
	}
}

// ---- steps -----------------------------------------------------------------------------------

func (c *c13Case) step(st string) string {
	f := strings.Split(st, ":")
	arg := func(i int) string {
		if i < len(f) {
			return f[i]
		}
		return ""
	}
	switch f[0] {
	case "call":
		c.setAv(arg(1))
		r := c.asyncCall("/c13h/echo").result(c)
		c.quiesce()
		return r
	case "push":
		c.setAv(arg(1))
		r := c.push()
		c.quiesce()
		return r
	case "cut":
		c.setAv(arg(1))
		c.cutLive()
		c.quiesce()
		return "-"
	case "setid":
		c.sess.SetID("u13")
		c.userID = true
		return "-"
	case "cutcall":
		c.setAv(arg(1))
		k := c.asyncCall("/c13h/block")
		if !k.waitRet(c) {
			return "hang"
		}
		if !k.doneNow() {
			if !c.waitEntered() {
				return "hang"
			}
			c.cutLive()
		}
		r := k.result(c)
		c.quiesce()
		c.releaseHandlers()
		c.quiesce()
		return r
	case "wdet":
		n, _ := strconv.Atoi(arg(1))
		c.setAv(arg(2))
		if !c.live() {
			r := c.asyncCall("/c13h/echo").result(c)
			c.quiesce()
			return r
		}
		ch := c.arm("r:read.msg")
		if n < 0 {
			c.cutLive()
			if !c.waitArrived("r:read.msg") {
				return "hang"
			}
		} else {
			cc := c.cur()
			cc.Conn.CutAfter(int64(n), func() { atomic.StoreInt32(&cc.broken, 1) })
		}
		r := c.asyncCall("/c13h/echo").result(c)
		if n >= 0 && !c.waitArrived("r:read.msg") {
			c.unparkCh(ch)
			return "hang"
		}
		c.quiesce()
		c.unparkCh(ch)
		c.quiesce()
		return r
	case "race":
		c.setAv(arg(2))
		if !c.live() {
			r := c.asyncCall("/c13h/echo").result(c)
			c.quiesce()
			return r
		}
		rch := c.arm("r:disc.redial")
		c.cutLive()
		if !c.waitArrived("r:disc.redial") {
			c.unparkCh(rch)
			return "hang"
		}
		wch := c.arm("w:write.check")
		k := c.asyncCall("/c13h/echo")
		if !c.waitArrived("w:write.check") {
			c.unparkCh(rch)
			c.unparkCh(wch)
			return "hang"
		}
		if arg(1) == "r" {
			c.unparkCh(rch)
			c.quiesce()
			c.unparkCh(wch)
		} else {
			c.unparkCh(wch)
			// the writer runs until its call completes or is written; the reader stays parked
			k.waitRet(c)
			c.quiesce()
			c.unparkCh(rch)
		}
		r := k.result(c)
		c.quiesce()
		return r
	case "stale":
		c.setAv(arg(2))
		if !c.live() {
			r := c.asyncCall("/c13h/echo").result(c)
			c.quiesce()
			return r + ",-"
		}
		rch := c.arm("r:disc.cancel")
		c.cutLive()
		if !c.waitArrived("r:disc.cancel") {
			c.unparkCh(rch)
			return "hang"
		}
		r1 := c.asyncCall("/c13h/echo").result(c)
		c.quiesce()
		r2 := "-"
		var k2 *c13Call
		if arg(1) == "1" && c.live() {
			k2 = c.asyncCall("/c13h/block")
			if !k2.waitRet(c) {
				c.unparkCh(rch)
				return "hang"
			}
			if !k2.doneNow() && !c.waitEntered() {
				c.unparkCh(rch)
				return "hang"
			}
			c.quiesce()
		}
		c.unparkCh(rch)
		c.quiesce()
		if k2 != nil {
			if k2.doneNow() {
				r2 = c13Class(k2.cmd.Status())
			} else {
				// nothing was lost on its connection and the handler is still blocked: pending
				r2 = "pend"
			}
		}
		c.releaseHandlers()
		c.quiesce()
		if k2 != nil && r2 == "pend" {
			r2 = "pend>" + k2.result(c)
			c.quiesce()
		}
		return r1 + "," + r2
	case "lockq":
		c.setAv(arg(2))
		c.lqFirstOK, c.lqExtra = false, false
		mode := arg(1)
		if len(mode) != 2 {
			return "bad-step"
		}
		if !c.live() {
			r := c.asyncCall("/c13h/echo").result(c)
			c.quiesce()
			return r + ",-"
		}
		if c.budget == 0 {
			// no redial function: redialForClient returns before the lock; plain loss, then a call
			c.cutLive()
			c.quiesce()
			r := c.asyncCall("/c13h/echo").result(c)
			c.quiesce()
			return r + ",-"
		}
		var k *c13Call
		var qch chan struct{} // the queued party, parked at its redial.locked gate with the lock
		r1 := ""
		if mode[0] == 'r' {
			rch := c.arm("r:redial.locked")
			c.cutLive()
			if !c.waitArrived("r:redial.locked") {
				c.unparkCh(rch)
				return "hang"
			}
			qch = c.arm("w:redial.locked")
			k = c.asyncCall("/c13h/echo")
			if !c.waitQueued("(*session).AsyncCall(") {
				c.unparkCh(rch)
				c.unparkCh(qch)
				return "hang"
			}
			c.unparkCh(rch)
			if !c.waitArrived("w:redial.locked") {
				c.unparkCh(qch)
				return "hang"
			}
			c.quiesce() // the reader finishes (exit, or PassiveClosed + notification after a failed round)
		} else {
			rch := c.arm("r:disc.redial")
			c.cutLive()
			if !c.waitArrived("r:disc.redial") {
				c.unparkCh(rch)
				return "hang"
			}
			wch := c.arm("w:redial.locked")
			k = c.asyncCall("/c13h/echo")
			if !c.waitArrived("w:redial.locked") {
				c.unparkCh(rch)
				c.unparkCh(wch)
				return "hang"
			}
			qch = c.arm("r:redial.locked")
			c.unparkCh(rch)
			if !c.waitQueued("(*session).readDisconnected(") {
				c.unparkCh(wch)
				c.unparkCh(qch)
				return "hang"
			}
			c.unparkCh(wch)
			if !c.waitArrived("r:redial.locked") {
				c.unparkCh(qch)
				return "hang"
			}
			r1 = k.result(c) // the writer's call completes on the connection it established
			c.quiesce()
		}
		c.lqFirstOK = c.live()
		r2 := "-"
		var k2 *c13Call
		if mode[1] == '1' && c.live() {
			c.lqExtra = true
			k2 = c.asyncCall("/c13h/block")
			if !k2.waitRet(c) {
				c.unparkCh(qch)
				return "hang"
			}
			if !k2.doneNow() && !c.waitEntered() {
				c.unparkCh(qch)
				return "hang"
			}
			c.quiesce()
		}
		c.unparkCh(qch)
		if r1 == "" {
			r1 = k.result(c)
		}
		c.quiesce()
		if k2 != nil {
			if k2.doneNow() {
				r2 = c13Class(k2.cmd.Status())
			} else {
				r2 = "pend" // nothing was lost on its connection and the handler is still blocked
			}
		}
		c.releaseHandlers()
		c.quiesce()
		if k2 != nil && r2 == "pend" {
			r2 = "pend>" + k2.result(c)
			c.quiesce()
		}
		return r1 + "," + r2
	case "sfin", "storm":
		return c.stepG(f[0], arg) // c13g.go
	}
	return "bad-step"
}

func (c *c13Case) curRelease() chan struct{} {
	c.mu.Lock()
	defer c.mu.Unlock()
	return c.release
}

func (c *c13Case) releaseHandlers() {
	c.mu.Lock()
	close(c.release)
	c.release = make(chan struct{})
	c.mu.Unlock()
	waitUntil(c13Watchdog, func() bool { return atomic.LoadInt32(&c.blocked) == 0 })
	// drain stale entries
	for {
		select {
		case <-c.entered:
			continue
		default:
		}
		break
	}
}

func (c *c13Case) idString() string {
	id := c.sess.ID()
	if id == "u13" {
		return "user"
	}
	c.mu.Lock()
	defer c.mu.Unlock()
	for _, cc := range c.conns {
		if cc.LocalAddr().String() == id {
			return "a" + strconv.Itoa(cc.idx)
		}
	}
	return "other"
}

func c13B(b bool) string {
	if b {
		return "1"
	}
	return "0"
}

// observe renders the canonical observation after a step and evaluates the per-step oracles.
func (c *c13Case) observe(res string) string {
	c.mu.Lock()
	att := "-"
	if len(c.rounds) > 0 {
		parts := make([]string, len(c.rounds))
		for i, n := range c.rounds {
			parts[i] = strconv.Itoa(n)
		}
		att = strings.Join(parts, "+")
	}
	lg := "-"
	if len(c.log) > 0 {
		lg = string(c.log)
	}
	disc := c.disc
	nconn := len(c.conns)
	c.mu.Unlock()
	notified := false
	select {
	case <-c.sess.CloseNotify():
		notified = true
	default:
	}
	got, ok := c.cli.GetSession(c.sess.ID())
	inHub := ok && got == c.sess
	return fmt.Sprintf("%s;st=%d;id=%s;h=%s;nt=%s;hub=%d:%s;att=%s;log=%s;pend=%d;disc=%d;conn=%d",
		res, erpc.VerifStatus(c.sess), c.idString(), c13B(c.sess.Health()), c13B(notified),
		c.cli.CountSession(), c13B(inHub), att, lg, erpc.VerifPendingCalls(c.sess), disc, nconn-1)
}

func c13Run(line string, out *hx.Out) (obs string, nontrivial bool) {
	_, f := hx.Fields(line)
	budget, _ := strconv.Atoi(f["b"])
	steps := strings.Split(f["steps"], ",")
	c := &c13Case{budget: budget, eof: f["werr"] == "eof", sticky: 'u',
		entered: make(chan struct{}, 16), release: make(chan struct{}),
		writers: map[int64]bool{}, parkAt: map[string]chan struct{}{}, arrived: map[string]bool{},
		parkConn: map[string]int{}, readerConn: map[int64]int{}, keyOf: map[chan struct{}]string{}}
	c13Cur.Store(c)
	defer func() {
		if p := recover(); p != nil {
			obs = "panic:" + strings.ReplaceAll(fmt.Sprint(p), " ", "_")
		}
	}()

	srv := erpc.NewPeer(erpc.PeerConfig{})
	srv.RouteCall(new(C13h))
	srv.RoutePush(new(C13p))
	c.lis = mem.NewListener("c13srv:1")
	go func() {
		for {
			conn, err := c.lis.Accept()
			if err != nil {
				return
			}
			go srv.ServeConn(conn)
		}
	}()
	c.cli = erpc.NewPeer(erpc.PeerConfig{RedialTimes: int32(budget), RedialInterval: time.Millisecond}, &c13Plug{c})
	erpc.VerifSetHooks(&erpc.VerifHooks{Dial: c.dial, Gate: c.gate, Event: c.event})
	defer func() {
		c.releaseHandlers()
		// Close waits for the session's pending calls: with a call left stuck by an sfin step (c13g.go) it
		// returns only after the connections are broken below (the reader's cancel loop then completes the call)
		closed := make(chan struct{})
		if c.sess != nil {
			go func() { c.sess.Close(); close(closed) }()
		} else {
			close(closed)
		}
		wait := c13Watchdog
		if c.stuckPending() > 0 {
			wait = 100 * time.Millisecond
		}
		select {
		case <-closed:
		case <-time.After(wait):
		}
		for _, cc := range c.conns {
			cc.Conn.Break(io.EOF)
		}
		c.lis.Close()
		select {
		case <-closed:
		case <-time.After(c13Watchdog):
			c.hung = true
			obs += " close!hang"
			out.Violate(line, "close-returns", "Session.Close() at the end of the case did not return within the watchdog, even after every connection was broken: "+obs, "c13:close-never-returns")
		}
		if !c.hung {
			c.quiesce()
		}
		erpc.VerifSetHooks(nil)
		c.cli.Close()
		srv.Close()
	}()

	sess, stat := c.cli.Dial("c13srv:1")
	if !stat.OK() {
		return "dial-failed:" + c13Class(stat), false
	}
	c.sess = sess
	c.quiesce()
	parts := []string{c.observe("dial")}
	everOK := false
	for _, st := range steps {
		c.mu.Lock()
		c.rounds, c.log = nil, nil
		c.mu.Unlock()
		before := erpc.VerifStatus(c.sess)
		c.mu.Lock()
		c.upAtStart = len(c.av) == 0 && c.sticky == 'u'
		c.mu.Unlock()
		if av := c13StepAv(st); av != "" {
			c.upAtStart = av == "u"
		}
		if strings.HasPrefix(st, "setid") && before != 1 {
			c.hubTainted = true // SetID on an ended session puts it back into the index
		}
		res := c.step(st)
		if erpc.VerifStatus(c.sess) == 1 {
			c.hubTainted = false
		}
		if c.hung && !strings.Contains(res, "hang") {
			res += "!hang"
		}
		o := c.observe(res)
		parts = append(parts, o)
		c13Oracles(c, line, st, res, o, before, out)
		out.Count("step:" + strings.SplitN(st, ":", 2)[0])
		out.Count("res:" + res)
		if strings.Contains(o, "log=") && !strings.Contains(o, "log=-") {
			everOK = true
		}
		if c.hung {
			break
		}
	}
	out.Count(fmt.Sprintf("budget:%d", budget))
	out.Count("werr:" + f["werr"])
	return strings.Join(parts, " "), everOK
}

// c13Oracles: the property's own statements, evaluated on what the real code just did.
func c13Oracles(c *c13Case, line, st, res, o string, before int32, out *hx.Out) {
	kind := strings.SplitN(st, ":", 2)[0]
	if strings.Contains(res, "hang") {
		out.Violate(line, "no-hang", "step "+st+" did not complete within the watchdog: "+o, "c13:hang")
		return
	}
	// bounded rounds
	c.mu.Lock()
	for seq, n := range c.prewrite {
		if n > 1 {
			c.prewrite[seq] = 1 // report once
			c.mu.Unlock()
			out.Violate(line, "prewrite-hook-once", fmt.Sprintf("the pre-write hook fired %d times for the message with seq %d (step %s): %s", n, seq, st, o), "c09:prewrite-hook-rerun-after-redial")
			c.mu.Lock()
		}
	}
	rounds := append([]int(nil), c.rounds...)
	logStep := string(c.log)
	c.mu.Unlock()
	if c.budget >= 0 {
		for _, n := range rounds {
			if n > c.budget+1 {
				out.Violate(line, "bounded-round", fmt.Sprintf("a redial round made %d attempts with budget %d: %s", n, c.budget, o), "c13:attempts-exceed-budget")
			}
		}
	}
	if kind == "sfin" || kind == "storm" {
		c13gOracles(c, line, st, res, o, before, rounds, out) // c13g.go: their own, more specific sigs
		return
	}
	status := erpc.VerifStatus(c.sess)
	notified := strings.Contains(o, ";nt=1;")
	inHub := strings.Contains(o, ":1;att=")
	serverUp := c.upAtStart
	// in-flight call at the loss completes with a connection error
	if kind == "cutcall" && res != "102" && res != "104" && before == 1 {
		out.Violate(line, "inflight-conn-error", "call in flight at the loss ended with "+res+": "+o, "c13:inflight-not-cancelled")
	}
	if erpc.VerifPendingCalls(c.sess) != c.stuckPending() { // calls an earlier sfin step reported as stuck are not reported again
		out.Violate(line, "no-pending-left", "pending calls remain at quiescence after "+st+": "+o, "c13:hang")
	}
	if c.budget == 0 {
		return
	}
	// the session reconnected in this step: id rule, hooks, index
	if status == 1 && len(rounds) > 0 {
		if !strings.Contains(logStep, "r") {
			out.Violate(line, "hooks-rerun", "reconnected without a dial hook run with isRedial=true: "+o, "c13:no-redial-hook")
		}
		if !inHub {
			out.Violate(line, "in-index", "reconnected session is not in the peer's index under its id: "+o, "c13:reconnected-not-in-hub")
		}
	}
	if c.userID && c.sess.ID() != "u13" {
		out.Violate(line, "id-kept", "user-assigned id lost: "+o, "c13:id-lost")
	}
	// later calls succeed once the server is reachable
	if serverUp && (kind == "call" || kind == "push") && res != "ok" {
		out.Violate(line, "later-call-succeeds", "server reachable, call result "+res+": "+o, "c13:later-call-fails-server-up")
	}
	if kind == "stale" && serverUp {
		rs := strings.Split(res, ",")
		if len(rs) == 2 && rs[0] == "ok" && rs[1] != "-" && !strings.HasPrefix(rs[1], "pend>ok") && rs[1] != "ok" {
			out.Violate(line, "later-call-succeeds",
				"a call issued on the new connection after a successful reconnect (server up, no further loss) ended with "+rs[1]+": "+o,
				"c13:stale-disconnect-cancels-new-calls")
		}
	}
	// one loss ⇒ one redial: the party that queued on s.lock behind a redial that re-established
	// the connection must not dial again, and nothing issued on the new connection is cancelled
	if kind == "lockq" && c.lqFirstOK {
		rs := strings.Split(res, ",")
		if len(rounds) != 1 || status != 1 {
			out.Violate(line, "single-redial", fmt.Sprintf("one connection loss, the redial of the lock holder re-established the connection, yet %d redial rounds ran (dial hooks %q) and the session is in status %d: %s",
				len(rounds), logStep, status, o), "c13:single-redial")
		}
		if len(rs) == 2 && rs[0] != "ok" {
			out.Violate(line, "single-redial", "the call that detected the loss and queued on the session lock ended with "+rs[0]+" although the connection was re-established: "+o,
				"c13:single-redial:queued-call-fails")
		}
		if len(rs) == 2 && c.lqExtra && rs[1] != "pend>ok" {
			out.Violate(line, "single-redial", "a call issued on the re-established connection (no further loss) ended with "+rs[1]+": "+o,
				"c13:single-redial:new-call-cancelled")
		}
	}
	// the session ended (budget exhausted): notification, index
	ended := status == 7 || status == 5
	if ended && len(rounds) > 0 {
		if !notified {
			out.Violate(line, "exhausted-notifies", "redial budget exhausted, session ended in status "+strconv.Itoa(int(status))+" without close notification: "+o, "c13:exhausted-writer-path-no-notify")
		}
		if inHub && !c.hubTainted {
			out.Violate(line, "exhausted-leaves-index", "ended session still in the index: "+o, "c13:exhausted-in-hub")
		}
	}
	// pending and later calls on an ended session: a connection error after at most one bounded round
	if (before == 5 || before == 7) && (kind == "call" || kind == "push") {
		if len(rounds) > 1 {
			out.Violate(line, "one-further-round", fmt.Sprintf("call on an ended session ran %d redial rounds: %s", len(rounds), o), "c13:ended-call-many-rounds")
		}
		if res != "ok" && res != "102" {
			out.Violate(line, "ended-conn-error", "call on an ended session ended with "+res+": "+o, "c13:ended-call-wrong-error")
		}
	}
	// server up and everything quiescent: the session has reconnected (usable, in the index), it is
	// not left half-closed waiting for the next call to repair it
	if serverUp && len(rounds) > 0 && status != 1 {
		out.Violate(line, "reconnects", "server reachable, session quiescent in status "+strconv.Itoa(int(status))+" (Health false, not in the index under its id): "+o, "c13:writer-first-leaves-passive-closing")
	}
}

// c13StepAv returns the availability script of a step ("" when it has none).
func c13StepAv(st string) string {
	f := strings.Split(st, ":")
	i := 1
	switch f[0] {
	case "wdet", "race", "stale", "lockq", "sfin", "storm":
		i = 2
	case "setid":
		return ""
	}
	if i < len(f) {
		return f[i]
	}
	return ""
}

// ---- generator -------------------------------------------------------------------------------

func c13Av(r *hx.R, budget int, wantFail bool) string {
	// availability script; sticky 'u' unless exhaustion is wanted (never with an unlimited budget)
	n := r.Intn(4)
	if wantFail && budget >= 0 {
		n = budget + 1 + r.Intn(2)
	}
	var b []byte
	for i := 0; i < n; i++ {
		if r.Intn(4) == 0 {
			b = append(b, 'h')
		} else {
			b = append(b, 'd')
		}
	}
	if wantFail && budget >= 0 && r.Intn(2) == 0 {
		if r.Intn(3) == 0 {
			return string(b) + "h"
		}
		return string(b) + "d"
	}
	return string(b) + "u"
}

func c13Gen(r *hx.R, tier string, out *hx.Out) []string {
	fixed := []string{
		"c13 b=3 werr=pipe steps=call,cut:u,call",
		"c13 b=3 werr=pipe steps=cutcall:ddu,call",
		"c13 b=1 werr=pipe steps=cut:ddd,call:d,call:u,call",
		"c13 b=0 werr=pipe steps=cut:u,call,call",
		"c13 b=-1 werr=pipe steps=setid,cut:dddddu,call,cutcall:hu,push",
		"c13 b=3 werr=pipe steps=race:r:u,call,race:w:u,call",
		"c13 b=3 werr=pipe steps=stale:0:u,call",
		"c13 b=3 werr=pipe steps=stale:1:u,call",
		"c13 b=1 werr=pipe steps=race:w:hhu,call:u",
		"c13 b=3 werr=eof steps=wdet:-1:u,call,wdet:3:u,call",
		"c13 b=3 werr=pipe steps=wdet:-1:u,call,wdet:3:u,call",
		"c13 b=1 werr=eof steps=wdet:-1:u,call:ddd,call:u",
		"c13 b=3 werr=pipe steps=lockq:r1:u,call",
		"c13 b=3 werr=pipe steps=lockq:w1:u,call",
		"c13 b=3 werr=pipe steps=lockq:r0:du,call,lockq:w0:hu,call",
		"c13 b=1 werr=pipe steps=lockq:r1:ddd,call:u",
		"c13 b=1 werr=pipe steps=lockq:w1:ddd,call:u",
		"c13 b=1 werr=eof steps=lockq:w1:hhu,call:u,lockq:r1:hhu,call:u",
		"c13 b=0 werr=pipe steps=lockq:r1:u,call",
		"c13 b=-1 werr=eof steps=setid,lockq:r1:ddhu,lockq:w1:u,call",
	}
	n := 150
	if tier == "thorough" {
		n = 500
	}
	lines := append([]string(nil), fixed...)
	for i := 0; i < n; i++ {
		budget := r.Pick(0, 1, 1, 3, 3, 3, -1, -1)
		werr := "pipe"
		if r.Intn(4) == 0 {
			werr = "eof"
		}
		ns := 2 + r.Intn(6)
		var steps []string
		for j := 0; j < ns; j++ {
			fail := r.Intn(5) == 0
			av := c13Av(r, budget, fail)
			switch r.Intn(15) {
			case 0, 1:
				if r.Intn(2) == 0 {
					steps = append(steps, "call")
				} else {
					steps = append(steps, "call:"+av)
				}
			case 2:
				steps = append(steps, "push:"+av)
			case 3, 4:
				steps = append(steps, "cut:"+av)
			case 5, 6:
				steps = append(steps, "cutcall:"+av)
			case 7:
				steps = append(steps, fmt.Sprintf("wdet:%d:%s", r.Pick(-1, -1, 0, 1, 5), av))
			case 8, 9:
				steps = append(steps, "race:"+[]string{"r", "w"}[r.Intn(2)]+":"+av)
			case 10:
				steps = append(steps, fmt.Sprintf("stale:%d:%s", r.Intn(2), av))
			case 11:
				steps = append(steps, "setid")
			case 12, 13, 14:
				steps = append(steps, fmt.Sprintf("lockq:%s%d:%s", []string{"r", "w"}[r.Intn(2)], r.Intn(2), av))
			}
		}
		// end with a call while the server is up: "later calls succeed"
		steps = append(steps, "call:u")
		lines = append(lines, fmt.Sprintf("c13 b=%d werr=%s steps=%s", budget, werr, strings.Join(steps, ",")))
	}
	return lines
}
