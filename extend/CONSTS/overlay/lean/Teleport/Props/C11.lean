/-
Props/C11 — Body codecs round-trip their value domain and fail cleanly on garbage.
Property theorems only (about Model/Codec); helper lemmas live in Lemmas/Codec.
-/
import Teleport.Lemmas.Codec
import Teleport.Gen.Consts
import Teleport.Gen.CodecArms
namespace Teleport
namespace C11
open Codec

/-! ## plain codec -/

/-- **Round trip, plain codec.** For every value of the codec's supported domain (bool; int, int8 …
    int64 and uint … uint64 anywhere in their range, extremes included; strings and `[]byte` over
    all byte values) `Unmarshal(Marshal(v), &d)` succeeds and leaves exactly `v` in `d`, for every
    destination `d` of the same type, whatever it held before. -/
theorem C11_plain_roundtrip (v d : Val) (hv : InPlainDomain v) (hd : d.sameTy v = true) :
    ∃ b, plainEncode v = some b ∧ plainDecode b (.ptr d) = .ok (.ptr v) :=
  plain_roundtrip v d hv hd

example : InPlainDomain (.sc (.int 64 (-9223372036854775808))) := by unfold InPlainDomain; decide
example : InPlainDomain (.sc (.uint 8 255)) := by unfold InPlainDomain; decide
example : InPlainDomain (.sc (.str [0, 255, 37, 38])) := trivial

/-- **Decoder totality, plain codec.** For every byte string and every destination,
    `PlainCodec.Unmarshal` returns (ok or error) — it panics exactly when the destination is a typed
    nil `*string` or `*[]byte` (no destination value exists; `*s = …` dereferences nil). In
    particular no byte string makes it panic on a non-nil destination. -/
theorem C11_plain_decode_total (data : Bytes) (d : PDest) :
    plainDecode data d = .panic ↔ (d = .nilPtr .str false ∨ d = .nilPtr .bytes false) := by
  constructor
  · intro h
    unfold plainDecode at h
    split at h <;> simp_all
    split at h <;> simp_all
  · rintro (h | h) <;> subst h <;> rfl

/-- **Writes stay inside the destination, plain codec.** A successful decode through a pointer
    yields a value of the destination's own type (same kind and width); a `[]byte` passed by
    value keeps its length (`copy` never grows it). -/
theorem C11_plain_decode_shape (data : Bytes) (cur : Val) (d' : PDest) :
    (plainDecode data (.ptr cur) = .ok d' → ∃ v, d' = .ptr v ∧ v.sameTy cur = true) ∧
    (∀ c, plainDecode data (.byVal (.sc (.bytes c)) false) = .ok d' →
      ∃ r, d' = .byVal (.sc (.bytes r)) false ∧ r.length = c.length) := by
  constructor
  · intro h
    simp only [plainDecode] at h
    cases hp : parseProper data cur with
    | none => simp [hp] at h
    | some v =>
      simp only [hp, Outcome.ok.injEq] at h
      exact ⟨v, h.symm, parseProper_sameTy data cur v hp⟩
  · intro c h
    simp only [plainDecode, Outcome.ok.injEq] at h
    refine ⟨_, h.symm, ?_⟩
    simp only [List.length_append, List.length_take, List.length_drop]
    omega

/-! ## form codec -/

/-- **Round trip, form codec, element order included.** For every struct whose fields are exported
    and are booleans, integers of any width in range, strings (all bytes), `[]byte`, slices and
    fixed arrays of those (any length, 0 included), or untagged nested structs of the same shape
    (any depth), with pairwise distinct form keys after flattening: `Marshal` succeeds, the result
    always parses, and `Unmarshal` into a fresh value of the same type yields exactly the value —
    every slice, array and `[]byte` with its elements in the original order. -/
theorem C11_form_roundtrip (v : Val) (h : InFormDomain v) :
    ∃ b, formEncode v = some b ∧ formDecode b (.ptr v.zero) = .ok (.ptr v) :=
  form_roundtrip v h

/-- `struct{ V []int32 "form:v" }{V: [1,2,3]}` -/
def exOrder : Val :=
  .scons [86] [118] true (.slice (.int 32) [.int 32 1, .int 32 2, .int 32 3]) .snil

/-- a nested value with every kind of field and sequences of length 0, 1, 2 and 3 that are not
    palindromes -/
def exNested : Val :=
  .scons [65] [] true (.sc (.int 8 (-128)))
    (.scons [73, 110] [] true
      (.scons [88] [120, 32, 38] true (.sc (.str [0, 37, 255, 38, 61]))
        (.scons [89] [] true (.slice (.uint 64) [.uint 64 18446744073709551615, .uint 64 0]) .snil))
      (.scons [90] [] true (.array .bool [.bool true, .bool false, .bool false])
        (.scons [87] [] true (.sc (.bytes [7, 0, 255])) (.scons [69] [] true (.slice .str []) .snil))))

example : InFormDomain exOrder := by
  refine ⟨rfl, ?_, by decide⟩
  simp [exOrder, StructOK, FieldOK, ScDom, Sc.kind, Val.isStruct, goodBits, width]

example : InFormDomain exNested := by
  refine ⟨rfl, ?_, by decide⟩
  simp [exNested, StructOK, FieldOK, ScDom, Sc.kind, Val.isStruct, goodBits, width]

/-- the former counterexample: `{V: [1,2,3]}` now encodes to `v=1&v=2&v=3`. -/
example : formEncode exOrder = some [118, 61, 49, 38, 118, 61, 50, 38, 118, 61, 51] := by decide

/-- **Decoder totality, form codec: it never panics.** For EVERY byte string and every
    destination (nil, `*url.Values` / `*map[string][]string` / `*interface{}`, pointer to any
    value — struct or not, with fixed arrays of any length, unexported fields, unknown kinds),
    `FormCodec.Unmarshal` returns: either an error or a new state of the destination. No input
    (bad escapes, `;`, bad numbers, unknown kinds, empty values, more values than array slots, any
    bytes at all) makes it panic. -/
theorem C11_form_decode_total (data : Bytes) (d : FDest) :
    formDecode data d = .err ∨ ∃ d', formDecode data d = .ok d' := by
  cases h : formDecode data d with
  | ok d' => exact Or.inr ⟨d', rfl⟩
  | err => exact Or.inl rfl
  | panic => exact absurd h (formDecode_ne_panic data d)

/-- **More values than array slots is an error, and when exactly the array arm fails.** The array
    arm of `mapFormToStruct` never panics; it returns an error iff there are more values than
    slots (checked before anything is written) or some value that has a slot is refused by
    `setWithProperType`; otherwise it fills the first `len(values)` slots. -/
theorem C11_form_array_err_iff (ek : Kind) (vals : List Bytes) (slots : List Sc) :
    setArray ek vals slots ≠ .panic ∧
    (setArray ek vals slots = .err ↔
      (slots.length < vals.length ∨ ∃ p ∈ vals.zip slots, setScalar ek p.1 p.2 = .err)) :=
  ⟨setArray_ne_panic ek vals slots, setArray_err_iff ek vals slots⟩

/-- **Writes stay inside the destination, form codec.** Whatever the bytes, a successful decode
    into a struct yields a value of exactly the destination's type — same fields, tags, element
    kinds and fixed-array lengths (slices are replaced by fresh ones): the model never produces
    anything outside the destination value. (On the real code this is what the guard bytes
    around the destination check.) -/
theorem C11_form_decode_shape (data : Bytes) (cur : Val) (d' : FDest)
    (h : formDecode data (.ptr cur) = .ok d') : ∃ v', d' = .ptr v' ∧ v'.sameTy cur = true := by
  unfold formDecode at h
  cases hp : parseQuery data with
  | none => simp [hp] at h
  | some form =>
    simp only [hp] at h
    split at h
    · obtain ⟨a, ha, hr⟩ := map_eq_ok _ _ _ h
      exact ⟨a, hr.symm, decStruct_sameTy cur form a ha⟩
    · cases h

/-- `struct{ P [2]int32 "form:p"; Q [3]uint8 }{}` -/
def exArr : Val :=
  .scons [80] [112] true (.array (.int 32) [.int 32 0, .int 32 0])
    (.scons [81] [] true (.array (.uint 8) [.uint 8 0, .uint 8 0, .uint 8 0]) .snil)

/-- **The former panic is now an ordinary error.** Decoding `p=1&p=2&p=3` into
    `struct{ P [2]int32 "form:p"; … }` returns an error (it used to panic with `reflect: array
    index out of range`), two values decode as before, one value fills the first slot only, and a
    bad first value is an error as before. -/
theorem C11_form_array_overflow_is_error :
    formDecode [112, 61, 49, 38, 112, 61, 50, 38, 112, 61, 51] (.ptr exArr) = .err ∧
    formDecode [112, 61, 49, 38, 112, 61, 50] (.ptr exArr) =
      .ok (.ptr (.scons [80] [112] true (.array (.int 32) [.int 32 1, .int 32 2])
        (.scons [81] [] true (.array (.uint 8) [.uint 8 0, .uint 8 0, .uint 8 0]) .snil))) ∧
    formDecode [112, 61, 55] (.ptr exArr) =
      .ok (.ptr (.scons [80] [112] true (.array (.int 32) [.int 32 7, .int 32 0])
        (.scons [81] [] true (.array (.uint 8) [.uint 8 0, .uint 8 0, .uint 8 0]) .snil))) ∧
    formDecode [112, 61, 120, 38, 112, 61, 50, 38, 112, 61, 51] (.ptr exArr) = .err := by
  refine ⟨by decide, by decide, by decide, by decide⟩

/-! ## library-backed codecs and the message body -/

/-- **Wrapper dispatch (protobuf, thrift).** The wrappers add nothing to the library except the
    listed arms: a message goes to `lib.marshal` / `lib.unmarshal` unchanged; `nil`, `struct{}` and
    `*struct{}` marshal as the library's empty message and unmarshal as a no-op; anything else is
    an error. Hence, **under the library law** `hlaw` (assumed, measured by the harness as a
    test), the codec round-trips every message. JSON and XML have no switch at all
    (`directMarshal = lib.marshal`). -/
theorem C11_wrapper_dispatch {M : Type} (lib : Lib M)
    (hlaw : ∀ m d b, lib.marshal m = some b → lib.unmarshal b d = some m) :
    (∀ m, wrapMarshal lib (.msg m) = lib.marshal m) ∧
    (∀ data m, wrapUnmarshal lib data (.msg m) = (lib.unmarshal data m).map .msg) ∧
    (wrapMarshal lib .empty = lib.marshal lib.emptyMsg) ∧
    (∀ data, wrapUnmarshal lib data .empty = some .empty) ∧
    (wrapMarshal lib .other = none ∧ ∀ data, wrapUnmarshal lib data .other = none) ∧
    (∀ m d b, wrapMarshal lib (.msg m) = some b → wrapUnmarshal lib b (.msg d) = some (.msg m)) ∧
    (∀ m d b, directMarshal lib m = some b → directUnmarshal lib b d = some m) := by
  refine ⟨fun _ => rfl, fun _ _ => rfl, rfl, fun _ => rfl, ⟨rfl, fun _ => rfl⟩, ?_, ?_⟩
  · intro m d b h
    simp only [wrapMarshal] at h
    simp [wrapUnmarshal, hlaw m d b h]
  · intro m d b h
    exact hlaw m d b h

/-- the hypothesis of `C11_wrapper_dispatch` is satisfiable (identity library on byte strings). -/
example : ∃ lib : Lib Bytes, ∀ m d b, lib.marshal m = some b → lib.unmarshal b d = some m :=
  ⟨{ marshal := some, unmarshal := fun b _ => some b, emptyMsg := [] }, by
    intro m d b h; simp at h; simp [h]⟩

/-- **Byte-slice bodies bypass the codecs.** `MarshalBody` returns a `[]byte` or `*[]byte` body
    itself, whatever the body codec id is (registered or not); `UnmarshalBody` stores non-empty
    received bytes into a non-nil `*[]byte` body verbatim without consulting any codec. (As coded,
    zero received bytes leave the body untouched, and a `[]byte` body that is not a pointer goes
    to the codec on the receiving side.) -/
theorem C11_bytes_bypass {V : Type} (codec : V → Option Bytes)
    (codecB : Bytes → Bytes → Option Bytes) (codecV : Bytes → V → Option V) (b cur data : Bytes) :
    marshalBody codec (.bytes b) = some b ∧
    marshalBody codec (.bytesPtr b) = some b ∧
    (data ≠ [] → unmarshalBody codecB codecV data (.bytesPtr cur) = .ok (.bytesPtr data)) ∧
    unmarshalBody codecB codecV [] (.bytesPtr cur) = .ok (.bytesPtr cur) := by
  refine ⟨rfl, rfl, ?_, rfl⟩
  intro h
  cases data with
  | nil => exact absurd rfl h
  | cons c cs => rfl

/-- the registry resolves exactly the six built-in ids, to distinct codecs. -/
theorem C11_registry : (builtinIds.map (·.1)).Nodup ∧ (builtinIds.map (·.2)).Nodup ∧
    regGet builtinIds 0 = none := by decide


/-! ## tie A — codec ids (fact group `Consts`) and switch arms (fact group `CodecArms`) -/

/-- **C11 tie A, registry**: the model's `builtinIds` is, as a set, the (ID(), Name()) of the codec types
    that an `init()` of package codec registers now (both methods evaluated), and `codec.NilCodecID`
    resolves to nothing. Swapping two codec ids breaks this. -/
theorem C11_consts_registry :
    Gen.consts_missing = [] ∧
    Gen.consts_codecs.length = builtinIds.length ∧
    (Gen.consts_codecs.all fun c => c.2.1 < 256 && regGet builtinIds c.2.1.toUInt8 == some c.2.2) = true ∧
    regGet builtinIds Gen.consts_nil_codec_id.toUInt8 = none ∧ Gen.consts_nil_codec_name = "" := by
  decide

/-- probe input `"12"` and a previous content. -/
def pData : Bytes := [49, 50]
def pOld : Bytes := [7, 8, 9]

/-- Go classes that are acceptable for an arm, given what the MODEL does on the probe of that arm.
    The model has value semantics: an arm that stores the input must `copy` or `convert` it; the class
    `alias` is acceptable only where the model (and the property) say nothing about later writes to the
    input — on the Marshal side. An empty list = the model's behaviour on the probe is not the expected one. -/
def plainUnmarshalOK (pat : String) : List String :=
  match pat with
  | "nil" => if plainDecode pData .nilIface = .ok .nilIface then ["ret:nil", ""] else []
  | "*string" =>
    if plainDecode pData (.ptr (.sc (.str pOld))) = .ok (.ptr (.sc (.str pData))) ∧
       plainDecode pData (.nilPtr .str false) = .panic then ["convert"] else []
  | "[]byte" =>
    if plainDecode pData (.byVal (.sc (.bytes pOld)) false) = .ok (.byVal (.sc (.bytes [49, 50, 9])) false)
    then ["copy"] else []
  | "*[]byte" =>
    if plainDecode pData (.ptr (.sc (.bytes pOld))) = .ok (.ptr (.sc (.bytes pData))) ∧
       plainDecode pData (.nilPtr .bytes false) = .panic then ["copy+make", "append", "append+make"] else []
  | "default" =>
    if plainDecode pData (.ptr (.sc (.int 32 0))) = .ok (.ptr (.sc (.int 32 12))) ∧
       plainDecode pData (.byVal (.sc (.int 32 0)) false) = .err ∧
       plainDecode pData (.byVal (.sc (.bytes pOld)) true) = .err ∧
       plainDecode pData (.nilPtr (.int 32) true) = .err then ["call:parseProperType+error"] else []
  | _ => []

def plainMarshalOK (pat : String) : List String :=
  match pat with
  | "nil" => if plainMarshal none = some [] then ["", "ret:nil,nil"] else []
  | "string" | "*string" =>
    if plainEncode (.sc (.str pData)) = some pData then ["convert", "copy+make"] else []
  | "[]byte" | "*[]byte" =>
    if plainEncode (.sc (.bytes pData)) = some pData then ["alias", "copy+make", "append"] else []
  | "default" =>
    if plainEncode (.sc (.int 32 12)) = some pData ∧ plainEncode (.slice (.int 32) []) = none ∧
       plainEncode (.sc .other) = none then ["call:formatProperType+convert+error"] else []
  | _ => []

/-- **C11 tie A, type switches of the plain codec**: `PlainCodec.Marshal` and `Unmarshal` have exactly the
    arms the model distinguishes (`PDest`: nil / `*string` / `[]byte` / `*[]byte` / everything else → the
    reflect path), and every arm does what `plainEncode` / `plainDecode` do on a probe of that arm
    (evaluated inside the statement): nil is a no-op, `*string` converts, `[]byte` is copied INTO (length
    kept), `*[]byte` is (re)allocated and copied — never made to alias the input —, the default arm
    delegates to `parseProperType` / `formatProperType` and reports their refusal as an error. Removing the
    `case *[]byte` arm of Unmarshal, adding an arm, or turning a copying arm into an aliasing one breaks this. -/
theorem C11_arms_plain :
    Gen.codecArms_missing = [] ∧
    Gen.arms_plain_unmarshal.map (·.1) = ["*[]byte", "*string", "[]byte", "default", "nil"] ∧
    (Gen.arms_plain_unmarshal.all fun a => (plainUnmarshalOK a.1).contains a.2) = true ∧
    Gen.arms_plain_marshal.map (·.1) = ["*[]byte", "*string", "[]byte", "default", "nil", "string"] ∧
    (Gen.arms_plain_marshal.all fun a => (plainMarshalOK a.1).contains a.2) = true := by
  decide

/-- the model kind a `reflect.Kind` name stands for (`none`: outside the model's value universe). -/
def kindOfName : String → Option Kind
  | "Bool" => some .bool | "String" => some .str | "Slice" => some .bytes
  | "Int" => some (.int 0) | "Int8" => some (.int 8) | "Int16" => some (.int 16)
  | "Int32" => some (.int 32) | "Int64" => some (.int 64)
  | "Uint" => some (.uint 0) | "Uint8" => some (.uint 8) | "Uint16" => some (.uint 16)
  | "Uint32" => some (.uint 32) | "Uint64" => some (.uint 64)
  | "default" => some .other
  | _ => none

def sMax63 : Bytes := [57, 50, 50, 51, 51, 55, 50, 48, 51, 54, 56, 53, 52, 55, 55, 53, 56, 48, 55]   -- 2^63-1
def sMax63p : Bytes := [57, 50, 50, 51, 51, 55, 50, 48, 51, 54, 56, 53, 52, 55, 55, 53, 56, 48, 56]  -- 2^63
def sMax64 : Bytes := [49, 56, 52, 52, 54, 55, 52, 52, 48, 55, 51, 55, 48, 57, 53, 53, 49, 54, 49, 53]  -- 2^64-1
def sMax64p : Bytes := [49, 56, 52, 52, 54, 55, 52, 52, 48, 55, 51, 55, 48, 57, 53, 53, 49, 54, 49, 54] -- 2^64

/-- class of the `formatProperType` arm for kind `n`, read off the model by running `formatProper`. -/
def formatClass (n : String) : String :=
  match kindOfName n with
  | some .bool => if formatProper (.bool true) = some sTrue ∧ formatProper (.bool false) = some sFalse then "call:strconv.FormatBool" else "?"
  | some (.int b) => if formatProper (.int b (-255)) = some [45, 50, 53, 53] then "call:strconv.FormatInt(10)" else "?"
  | some (.uint b) => if formatProper (.uint b 255) = some [50, 53, 53] then "call:strconv.FormatUint(10)" else "?"
  | some .str => if formatProper (.str pData) = some pData then "" else "?"
  | some .bytes => if formatProper (.bytes pData) = some pData ∧ formatVal (.slice (.int 32) []) = none then "convert+ret:\"\",false" else "?"
  | some .other => if formatProper .other = none then "ret:\"\",false" else "?"
  | none => "outside"

/-- class of the `parseProperType` arm for kind `n`, read off the model by running `parseProper`:
    integers are parsed in base 10 at 64 bits and then stored with wrap-around (`SetInt`). -/
def parseClass (n : String) : String :=
  match kindOfName n with
  | some .bool =>
    if parseProper sTrue (.sc (.bool false)) = some (.sc (.bool true)) ∧ parseProper pData (.sc (.bool false)) = none
    then "call:strconv.ParseBool+ret:false+set:SetBool" else "?"
  | some (.int b) =>
    if (parseProper sMax63 (.sc (.int b 0))).isSome ∧ parseProper sMax63p (.sc (.int b 0)) = none ∧
       parseProper [48, 120, 49] (.sc (.int b 0)) = none ∧ parseProper pData (.sc (.int b 0)) = some (.sc (.int b 12))
    then "call:strconv.ParseInt(10,64)+ret:false+set:SetInt" else "?"
  | some (.uint b) =>
    if (parseProper sMax64 (.sc (.uint b 0))).isSome ∧ parseProper sMax64p (.sc (.uint b 0)) = none ∧
       parseProper pData (.sc (.uint b 0)) = some (.sc (.uint b 12))
    then "call:strconv.ParseUint(10,64)+ret:false+set:SetUint" else "?"
  | some .str => if parseProper pData (.sc (.str pOld)) = some (.sc (.str pData)) then "set:SetString" else "?"
  | some .bytes =>
    -- AS CODED: `v.SetBytes(data)` makes the destination alias the input (reached only for a defined
    -- byte-slice type behind a pointer; `*[]byte` itself is copied by the type switch)
    if parseProper pData (.sc (.bytes pOld)) = some (.sc (.bytes pData)) then "alias+ret:false+set:SetBytes" else "?"
  | some .other => if parseProper pData (.sc .other) = none then "ret:false" else "?"
  | none => "outside"

def kindNames : List String :=
  ["Bool", "Float32", "Float64", "Int", "Int16", "Int32", "Int64", "Int8", "Invalid", "Slice", "String",
   "Uint", "Uint16", "Uint32", "Uint64", "Uint8", "default"]

/-- arms for kinds outside the model's value universe (floats, the invalid value), as coded. -/
def outsideFormat : List (String × String) :=
  [("Float32", "call:strconv.FormatFloat('f',32)"), ("Float64", "call:strconv.FormatFloat('f',64)"), ("Invalid", "ret:\"\",true")]
def outsideParse : List (String × String) :=
  [("Float32", "call:strconv.ParseFloat(64)+ret:false+set:SetFloat"), ("Float64", "call:strconv.ParseFloat(64)+ret:false+set:SetFloat"),
   ("Invalid", "ret:true")]

def withOutside (cls : String → String) (out : List (String × String)) (n : String) : String × String :=
  (n, if cls n == "outside" then (out.lookup n).getD "?" else cls n)

/-- **C11 tie A, kind switches of the plain codec**: `formatProperType` and `parseProperType` have one arm
    per kind of the model's universe (bool, the five signed and five unsigned widths, string, byte slice),
    each doing what `formatProper` / `parseProper` do on a probe of that kind (base 10; parse at 64 bits,
    then wrap), every other kind is refused (`default`), and the only kinds handled outside the model are
    the two float kinds and `Invalid`, exactly as listed. Dropping or adding a kind, or changing a base /
    bit size, breaks this. -/
theorem C11_arms_plain_kinds :
    Gen.codecArms_missing = [] ∧
    Gen.arms_plain_format = kindNames.map (withOutside formatClass outsideFormat) ∧
    Gen.arms_plain_parse = kindNames.map (withOutside parseClass outsideParse) := by
  decide +kernel

def pForm : Form := [([97], [[49]])]
def pStruct : Val := .scons [65] [] true (.sc (.int 32 5)) .snil

def formMarshalOK (pat : String) : List String :=
  match pat with
  | "nil" => if formMarshal .nilIface = some [] then ["", "ret:nil,nil"] else []
  | "url.Values" | "*url.Values" | "map[string][]string" | "*map[string][]string" =>
    if formMarshal (.values pForm) = some (urlEncode pForm) then ["call:.Encode+convert", "call:$.Encode+convert"] else []
  | "default" =>
    if formMarshal (.val pStruct) = some (urlEncode (encStruct pStruct [])) ∧ formMarshal (.val (.sc (.int 32 5))) = none
    then ["call:.Encode+call:setStructToForm+convert+error+make"] else []
  | _ => []

def formUnmarshalOK (pat : String) : List String :=
  match pat with
  | "nil" => if formDecode [97, 61, 49] .nilIface = .ok .nilIface ∧ formDecode [37] .nilIface = .err then ["", "ret:nil"] else []
  | "*url.Values" | "*map[string][]string" | "*interface{}" =>
    if formDecode [97, 61, 49] (.values []) = .ok (.values pForm) then ["store:var"] else []
  | "default" =>
    if formDecode [65, 61, 55] (.ptr pStruct) = .ok (.ptr (.scons [65] [] true (.sc (.int 32 7)) .snil)) ∧
       formDecode [65, 61, 55] (.ptr (.sc (.int 32 5))) = .err
    then ["call:.Set+call:mapFormToStruct+error"] else []
  | _ => []

/-- **C11 tie A, type switches of the form codec**: the arms of `FormCodec.Marshal` / `Unmarshal` are the
    cases of the model's `FArg` / `FDest` (nil; the four spellings of a value map on the encoding side, the
    three pointer spellings on the decoding side; everything else → struct or error), each doing what
    `formMarshal` / `formDecode` do on a probe; the kind switch in `Unmarshal`'s default arm sends structs to
    `mapFormToStruct` and everything else to the error (`Interface` is outside the model: it is set and the
    error is returned all the same, as coded). -/
theorem C11_arms_form :
    Gen.codecArms_missing = [] ∧
    Gen.arms_form_marshal.map (·.1) =
      ["*map[string][]string", "*url.Values", "default", "map[string][]string", "nil", "url.Values"] ∧
    (Gen.arms_form_marshal.all fun a => (formMarshalOK a.1).contains a.2) = true ∧
    Gen.arms_form_unmarshal.map (·.1) = ["*interface{}", "*map[string][]string", "*url.Values", "default", "nil"] ∧
    (Gen.arms_form_unmarshal.all fun a => (formUnmarshalOK a.1).contains a.2) = true ∧
    Gen.arms_form_unmarshal_kinds =
      [("Interface", "call:.Set"), ("Struct", "call:mapFormToStruct"), ("default", "error")] := by
  decide +kernel

/-- (kind name, bit-size argument in the source, expected class): the bit size is what the MODEL's
    `setScalar` enforces for that kind (largest accepted / smallest refused value, evaluated). -/
def setRow (n : String) (isInt : Bool) (arg : Nat) : String × String :=
  let bits := width arg
  let okI := match setScalar (.int arg) (fmtUint (2 ^ (bits - 1) - 1)) (.int arg 0), setScalar (.int arg) (fmtUint (2 ^ (bits - 1))) (.int arg 0),
                   setScalar (.int arg) [] (.int arg 9), setScalar (.int arg) [120] (.int arg 9) with
             | .ok _, .err, .ok (.int _ 0), .err => true
             | _, _, _, _ => false
  let okU := match setScalar (.uint arg) (fmtUint (2 ^ bits - 1)) (.uint arg 0), setScalar (.uint arg) (fmtUint (2 ^ bits)) (.uint arg 0),
                   setScalar (.uint arg) [] (.uint arg 9), setScalar (.uint arg) [120] (.uint arg 9) with
             | .ok _, .err, .ok (.uint _ 0), .err => true
             | _, _, _, _ => false
  (n, if isInt then (if okI then "call:setIntField(" ++ toString arg ++ ")" else "?")
      else (if okU then "call:setUintField(" ++ toString arg ++ ")" else "?"))

def boolRow : String × String :=
  ("Bool", if setScalar .bool sTrue (.bool false) = .ok (.bool true) ∧ setScalar .bool [] (.bool true) = .ok (.bool false) ∧
              setScalar .bool [120] (.bool true) = .ok (.bool true) then "call:setBoolField" else "?")

/-- **C11 tie A, kind switch of the form decoder**: `setWithProperType` has one arm per integer width with
    exactly the bit size `setScalar` enforces (probed at the extremes), bool, string, the two float kinds
    (outside the model), and refuses everything else (`.bytes`, `.other` → "Unknown type"); the scalar
    setters parse in base 10, default an empty value, return the parse error — except `setBoolField`,
    which swallows it, exactly as `setScalar .bool` keeps the old value. -/
theorem C11_arms_form_kinds :
    Gen.codecArms_missing = [] ∧
    Gen.arms_form_set =
      [boolRow, ("Float32", "call:setFloatField(32)"), ("Float64", "call:setFloatField(64)"),
       setRow "Int" true 0, setRow "Int16" true 16, setRow "Int32" true 32, setRow "Int64" true 64, setRow "Int8" true 8,
       ("String", if setScalar .str pData (.str pOld) = .ok (.str pData) then "set:SetString" else "?"),
       setRow "Uint" false 0, setRow "Uint16" false 16, setRow "Uint32" false 32, setRow "Uint64" false 64, setRow "Uint8" false 8,
       ("default", if setScalar .other pData .other = .err ∧ setScalar .bytes pData (.bytes []) = .err then "error" else "?")] ∧
    Gen.arms_form_setters =
      [("setBoolField", "call:strconv.ParseBool+lit:\"false\"+ret:nil+set:SetBool"),
       ("setFloatField", "call:strconv.ParseFloat+lit:\"0.0\"+ret:err+set:SetFloat"),
       ("setIntField", "call:strconv.ParseInt(10)+lit:\"0\"+ret:err+set:SetInt"),
       ("setUintField", "call:strconv.ParseUint(10)+lit:\"0\"+ret:err+set:SetUint")] := by
  decide +kernel

/-- a concrete library for probing the wrappers: marshal prefixes a 1, unmarshal returns the input. -/
def pLib : Lib Bytes := { marshal := fun m => some (1 :: m), unmarshal := fun d _ => some d, emptyMsg := [9] }

def isOtherW : Option (WArg Bytes) → Bool
  | none => true
  | _ => false
def isEmptyW : Option (WArg Bytes) → Bool
  | some .empty => true
  | _ => false
def isMsgW (d : Bytes) : Option (WArg Bytes) → Bool
  | some (.msg m) => m == d
  | _ => false

/-- expected arms of a wrapper pair, read off `wrapMarshal` / `wrapUnmarshal` on `pLib`. -/
def wrapMarshalArms (iface libCall emptyCall : String) : List (String × String) :=
  [(iface, if wrapMarshal pLib (.msg [5]) = some [1, 5] then libCall else "?"),
   ("nil", if wrapMarshal pLib .empty = some [1, 9] then emptyCall else "?"),
   ("*struct{}", if wrapMarshal pLib .empty = some [1, 9] then emptyCall else "?"),
   ("struct{}", if wrapMarshal pLib .empty = some [1, 9] then emptyCall else "?"),
   ("default", if wrapMarshal pLib .other = none then "error" else "?")]

def wrapUnmarshalArms (iface libCall : String) : List (String × String) :=
  [(iface, if isMsgW [4] (wrapUnmarshal pLib [4] (.msg [5])) then libCall else "?"),
   ("nil", if isEmptyW (wrapUnmarshal pLib [4] .empty) then "ret:nil" else "?"),
   ("*struct{}", if isEmptyW (wrapUnmarshal pLib [4] .empty) then "ret:nil" else "?"),
   ("struct{}", if isEmptyW (wrapUnmarshal pLib [4] .empty) then "ret:nil" else "?"),
   ("default", if isOtherW (wrapUnmarshal pLib [4] .other) then "error" else "?")]

/-- **C11 tie A, wrapper switches**: `ProtoMarshal/Unmarshal`, `ThriftMarshal/Unmarshal` have, in this
    order, the arms `wrapMarshal` / `wrapUnmarshal` model (message → the library on the value itself;
    `nil`, `*struct{}`, `struct{}` → the library's empty message on the way out, a no-op on the way in;
    anything else → error), and `JSONCodec` / `XMLCodec` are one library call without a switch
    (`directMarshal`). -/
theorem C11_arms_wrappers :
    Gen.codecArms_missing = [] ∧
    Gen.arms_pb_marshal = wrapMarshalArms "proto.Message" "call:proto.Marshal<$>" "call:proto.Marshal<PbEmptyStruct>" ∧
    Gen.arms_pb_unmarshal = wrapUnmarshalArms "proto.Message" "call:proto.Unmarshal<$>" ∧
    Gen.arms_thrift_marshal = wrapMarshalArms "thrift.TStruct" "call:$.Write" "call:ThriftEmptyStruct.Write" ∧
    Gen.arms_thrift_unmarshal =
      wrapUnmarshalArms "thrift.TStruct" "call:$.Read+call:bytes.NewBuffer+call:thrift.NewTBinaryProtocol" ∧
    Gen.arms_direct =
      (if directMarshal pLib [5] = pLib.marshal [5] ∧ directUnmarshal pLib [4] [5] = pLib.unmarshal [4] [5] then
        [("JSONCodec.Marshal", "call:json.Marshal"), ("JSONCodec.Unmarshal", "call:json.Unmarshal"),
         ("XMLCodec.Marshal", "call:xml.Marshal"), ("XMLCodec.Unmarshal", "call:xml.Unmarshal")] else []) := by
  decide

def pCodec : Bytes → Option Bytes := fun v => some (2 :: v)
def pCodecB : Bytes → Bytes → Option Bytes := fun d _ => some (3 :: d)
def pCodecV : Bytes → Bytes → Option Bytes := fun d _ => some (4 :: d)

def bodyIs (f : Body Bytes → Bool) : Outcome (Body Bytes) → Bool
  | .ok b => f b
  | _ => false

def bodyMarshalOK (pat : String) : List String :=
  match pat with
  | "nil" => if marshalBody pCodec .nilBody = some [] then ["ret:[]byte{},nil", "ret:nil,nil"] else []
  | "[]byte" => if marshalBody pCodec (.bytes pData) = some pData then ["alias", "copy+make"] else []
  | "*[]byte" =>
    if marshalBody pCodec (.bytesPtr pData) = some pData ∧ marshalBody pCodec .bytesPtrNil = some []
    then ["alias+nil-check+ret:[]byte{},nil"] else []
  | "default" => if marshalBody pCodec (.other pData) = some (2 :: pData) then ["call:.Marshal+call:codec.Get"] else []
  | _ => []

def isPanicB : Outcome (Body Bytes) → Bool
  | .panic => true
  | _ => false
def isNilBody : Body Bytes → Bool
  | .nilBody => true
  | _ => false
def isBytesPtr (d : Bytes) : Body Bytes → Bool
  | .bytesPtr x => x == d
  | _ => false
def isOtherBody (d : Bytes) : Body Bytes → Bool
  | .other x => x == d
  | _ => false
def isBytesBody (d : Bytes) : Body Bytes → Bool
  | .bytes x => x == d
  | _ => false

def bodyUnmarshalOK (pat : String) : List String :=
  match pat with
  | "nil" => if bodyIs isNilBody (unmarshalBody pCodecB pCodecV pData .nilBody) then ["ret:nil"] else []
  | "*[]byte" =>
    if bodyIs (isBytesPtr pData) (unmarshalBody pCodecB pCodecV pData (.bytesPtr pOld)) &&
       isPanicB (unmarshalBody pCodecB pCodecV pData .bytesPtrNil)
    then ["copy+make+ret:nil", "append+ret:nil"] else []
  | "default" =>
    if bodyIs (isOtherBody (4 :: pData)) (unmarshalBody pCodecB pCodecV pData (.other pOld)) &&
       bodyIs (isBytesBody (3 :: pData)) (unmarshalBody pCodecB pCodecV pData (.bytes pOld))
    then ["call:.Unmarshal+call:codec.Get"] else []
  | _ => []

/-- **C11 tie A, message body switches**: `MarshalBody` / `UnmarshalBody` of socket/message.go have the
    arms of the model's `Body` (nil, `[]byte`, `*[]byte` with its nil check, everything else → the codec
    registry), `UnmarshalBody` has no `[]byte` arm (a byte slice by value goes to the codec, as
    `unmarshalBody` models), returns at once for empty input, and its `*[]byte` arm copies — it never
    aliases the read buffer. -/
theorem C11_arms_body :
    Gen.codecArms_missing = [] ∧
    Gen.arms_body_marshal.map (·.1) = ["*[]byte", "[]byte", "default", "nil"] ∧
    (Gen.arms_body_marshal.all fun a => (bodyMarshalOK a.1).contains a.2) = true ∧
    Gen.arms_body_unmarshal.map (·.1) = ["*[]byte", "default", "nil"] ∧
    (Gen.arms_body_unmarshal.all fun a => (bodyUnmarshalOK a.1).contains a.2) = true ∧
    Gen.arms_body_unmarshal_pre =
      (if bodyIs (isBytesPtr pOld) (unmarshalBody pCodecB pCodecV [] (.bytesPtr pOld))
       then ["body-nil:call:.newBodyFunc", "empty-input:ret:nil"] else []) := by
  decide +kernel


end C11
end Teleport
