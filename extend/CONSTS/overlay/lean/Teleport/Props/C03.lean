/-
Props/C03 — Each received CALL is handled at most once and answered exactly once.
Property theorems only, about `Dispatch.handleFrame` (one iteration of the read loop plus the handler
goroutine it starts) and `Dispatch.readLoop` (any sequence of received frames).
Every theorem quantifies over all routing tables, frames (any type byte, seq, route, codec id,
empty or non-empty body), handler behaviours (returns any status, panics, slow), plugin verdicts at
every stage, body-decode outcomes and reply-write outcomes.
-/
import Teleport.Lemmas.Dispatch
import Teleport.Lemmas.SrcFlow
import Teleport.Gen.Stages
import Teleport.Gen.Consts
namespace Teleport
namespace C03
open Dispatch

/-- At most once, never twice — for EVERY frame, whatever its type: at most one handler invocation,
    at most one REPLY written, and a written REPLY carries the frame's sequence number. -/
theorem C03_at_most_once (cfg : Cfg) (env : Env) (f : Frame) (hb : HB) (pv : PV) (wr : WR × WR) :
    (handleFrame cfg env f hb pv wr).invocations ≤ 1 ∧ (handleFrame cfg env f hb pv wr).replies.length ≤ 1 ∧
    ∀ r ∈ (handleFrame cfg env f hb pv wr).replies, r.seq = f.seq := by
  have hc := handleFrame_cases cfg env f hb pv wr
  generalize handleFrame cfg env f hb pv wr = o at hc ⊢
  cases hc with
  | left st => simp
  | refused st h => simp
  | handled h =>
    have hh := handle_cases cfg f (binding cfg f pv) (statAfterRead cfg env f pv) hb pv wr.1 wr.2
    generalize handle cfg f (binding cfg f pv) (statAfterRead cfg env f pv) hb pv wr.1 wr.2 = o at hh ⊢
    cases hh with
    | close => simp
    | reply h => simp
    | push h =>
      have := handlePush_facts (binding cfg f pv) (statAfterRead cfg env f pv) pv
      simp [this.2.1, this.2.2.1]
    | call h h405 =>
      have := handleCall_shape cfg f (statAfterRead cfg env f pv) hb pv wr.1 wr.2
      exact ⟨this.inv, this.len, this.seq⟩

/-
FULL STATEMENT (the property text): for every CALL frame
    (∃ r, o.replies = [r] ∧ r.seq = f.seq) ∨ o.disconnected
It does NOT hold for the code as written: `C03_call_witness` below. What holds is `C03_call_partial`
(the same conclusion whenever the handler goroutine was started and not every reply write failed
without touching the connection) and the exact characterisation `C03_never_silently_dropped`.
-/

/-- Exactly when is a CALL silently dropped (no REPLY and the session not disconnected)?
    Only when the goroutine pool refused the handler, or when a reply was attempted and every
    attempt failed quietly (nothing written, connection still up). Both disjuncts are inputs the
    environment can produce; the second one the real code produces by itself: `C03_call_witness`. -/
theorem C03_never_silently_dropped (cfg : Cfg) (env : Env) (f : Frame) (hb : HB) (pv : PV) (wr : WR × WR)
    (hc : f.mtype = tCall) :
    (handleFrame cfg env f hb pv wr).dropped = true ↔
      ((handleFrame cfg env f hb pv wr).leftLoop = false ∧ env.spawn = false) ∨
      ((handleFrame cfg env f hb pv wr).writes ≠ [] ∧ ∀ w ∈ (handleFrame cfg env f hb pv wr).writes, w.quiet = true) := by
  have hcs := handleFrame_cases cfg env f hb pv wr
  generalize handleFrame cfg env f hb pv wr = o at hcs ⊢
  cases hcs with
  | left st => simp [Outcome.dropped, Outcome.disconnected]
  | refused st h => simp [Outcome.dropped, Outcome.disconnected, h]
  | handled h =>
    have hh := handle_cases cfg f (binding cfg f pv) (statAfterRead cfg env f pv) hb pv wr.1 wr.2
    generalize handle cfg f (binding cfg f pv) (statAfterRead cfg env f pv) hb pv wr.1 wr.2 = o at hh ⊢
    cases hh with
    | close => simp [Outcome.dropped, Outcome.disconnected, h]
    | reply h' => rw [hc] at h'; exact absurd h' (by decide)
    | push h' => rw [hc] at h'; exact absurd h' (by decide)
    | call _ h405 =>
      have sh := handleCall_shape cfg f (statAfterRead cfg env f pv) hb pv wr.1 wr.2
      constructor
      · intro hd; right; exact ⟨sh.wne, sh.drop.mp hd⟩
      · rintro (⟨_, h'⟩ | ⟨_, h'⟩)
        · simp [h] at h'
        · exact sh.drop.mpr h'

/-- CALL: at most one invocation, and exactly one REPLY with the same seq or the session is
    disconnected — provided the goroutine pool took the handler (`env.spawn`) and at least one
    attempted reply write did not fail "quietly" (no byte written, connection still up). -/
theorem C03_call_partial (cfg : Cfg) (env : Env) (f : Frame) (hb : HB) (pv : PV) (wr : WR × WR)
    (hc : f.mtype = tCall) (hs : env.spawn = true)
    (hw : (handleFrame cfg env f hb pv wr).writes = [] ∨ ∃ w ∈ (handleFrame cfg env f hb pv wr).writes, w.quiet = false) :
    (handleFrame cfg env f hb pv wr).invocations ≤ 1 ∧
    ((∃ r, (handleFrame cfg env f hb pv wr).replies = [r] ∧ r.seq = f.seq) ∨
      (handleFrame cfg env f hb pv wr).disconnected = true) := by
  have hamo := C03_at_most_once cfg env f hb pv wr
  have hdrop := C03_never_silently_dropped cfg env f hb pv wr hc
  generalize handleFrame cfg env f hb pv wr = o at hamo hdrop hw ⊢
  refine ⟨hamo.1, ?_⟩
  have hnd : o.dropped = false := by
    cases hd : o.dropped with
    | false => rfl
    | true =>
      rcases hdrop.mp hd with ⟨_, h⟩ | ⟨hne, hq⟩
      · simp [hs] at h
      · rcases hw with h | ⟨w, hwm, hwq⟩
        · exact absurd h hne
        · simp [hq w hwm] at hwq
  cases hdc : o.disconnected with
  | true => right; rfl
  | false =>
    left
    match hr : o.replies, hamo.2.1 with
    | [], _ => simp [Outcome.dropped, hr, hdc] at hnd
    | [r], _ => exact ⟨r, rfl, hamo.2.2 r (by simp [hr])⟩
    | _ :: _ :: _, h => simp at h

/-- PUSH: at most one handler invocation and never a reply (nor a reply attempt). -/
theorem C03_push (cfg : Cfg) (env : Env) (f : Frame) (hb : HB) (pv : PV) (wr : WR × WR)
    (hp : f.mtype = tPush) :
    (handleFrame cfg env f hb pv wr).invocations ≤ 1 ∧ (handleFrame cfg env f hb pv wr).replies = [] ∧
    (handleFrame cfg env f hb pv wr).writes = [] := by
  have hcs := handleFrame_cases cfg env f hb pv wr
  generalize handleFrame cfg env f hb pv wr = o at hcs ⊢
  cases hcs with
  | left st => simp
  | refused st h => simp
  | handled h =>
    have hh := handle_cases cfg f (binding cfg f pv) (statAfterRead cfg env f pv) hb pv wr.1 wr.2
    generalize handle cfg f (binding cfg f pv) (statAfterRead cfg env f pv) hb pv wr.1 wr.2 = o at hh ⊢
    cases hh with
    | close => simp
    | reply h' => simp
    | push h' =>
      have := handlePush_facts (binding cfg f pv) (statAfterRead cfg env f pv) pv
      exact ⟨this.2.1, this.2.2.1, this.2.2.2.1⟩
    | call h' _ => rw [hp] at h'; exact absurd h' (by decide)

/-- A frame of an unsupported type (anything but CALL, REPLY, PUSH): no handler runs, nothing is
    written, and the session is disconnected: the read loop ended on it, or `Close` is requested.
    (`env.spawn`: the goroutine pool took the `handle` goroutine; if it refuses, the frame is
    ignored without a disconnect.) -/
theorem C03_other (cfg : Cfg) (env : Env) (f : Frame) (hb : HB) (pv : PV) (wr : WR × WR)
    (h1 : f.mtype ≠ tCall) (h2 : f.mtype ≠ tReply) (h3 : f.mtype ≠ tPush) :
    (handleFrame cfg env f hb pv wr).invocations = 0 ∧ (handleFrame cfg env f hb pv wr).replies = [] ∧
    (handleFrame cfg env f hb pv wr).writes = [] ∧
    (env.spawn = true → (handleFrame cfg env f hb pv wr).disconnected = true) ∧
    (env.spawn = true → (handleFrame cfg env f hb pv wr).leftLoop = false →
      (handleFrame cfg env f hb pv wr).closeRequested = true) := by
  have hcs := handleFrame_cases cfg env f hb pv wr
  generalize handleFrame cfg env f hb pv wr = o at hcs ⊢
  cases hcs with
  | left st => simp [Outcome.disconnected]
  | refused st h => simp [h]
  | handled h =>
    rw [handle_other cfg f _ _ hb pv _ _ h1 h2 h3]
    simp [Outcome.disconnected]

/-- The read loop hands a frame to exactly one `handle` goroutine, or to none when it leaves the
    loop on that frame (or the pool refuses): never to two. -/
theorem C03_one_goroutine (cfg : Cfg) (env : Env) (f : Frame) (hb : HB) (pv : PV) (wr : WR × WR) :
    (handleFrame cfg env f hb pv wr).handled =
      (if (handleFrame cfg env f hb pv wr).leftLoop || !env.spawn then 0 else 1) := by
  have hcs := handleFrame_cases cfg env f hb pv wr
  generalize handleFrame cfg env f hb pv wr = o at hcs ⊢
  cases hcs with
  | left st => simp
  | refused st h => simp [h]
  | handled h =>
    have hh := handle_cases cfg f (binding cfg f pv) (statAfterRead cfg env f pv) hb pv wr.1 wr.2
    generalize handle cfg f (binding cfg f pv) (statAfterRead cfg env f pv) hb pv wr.1 wr.2 = o at hh ⊢
    cases hh with
    | close => simp [h]
    | reply h' => simp [h]
    | push h' =>
      have := handlePush_facts (binding cfg f pv) (statAfterRead cfg env f pv) pv
      simp [h, this.1, this.2.2.2.2]
    | call h' _ =>
      have sh := handleCall_shape cfg f (statAfterRead cfg env f pv) hb pv wr.1 wr.2
      simp [h, sh.handled, sh.noLeft]

/-- … lifted to any sequence of received frames: the outcomes of the read loop are the outcomes of
    a prefix of the frames, one per frame and in order; only the last one can have ended the loop;
    every one was handed to at most one goroutine; and the total number of handler invocations and
    of replies never exceeds the number of frames read. -/
theorem C03_one_goroutine_stream (cfg : Cfg) (items : List Item) :
    (∃ n, n ≤ items.length ∧ readLoop cfg items = (items.take n).map (Item.run cfg)) ∧
    (∀ o ∈ (readLoop cfg items).dropLast, o.leftLoop = false) ∧
    (∀ o ∈ readLoop cfg items, o.handled ≤ 1 ∧ o.invocations ≤ 1 ∧ o.replies.length ≤ 1) ∧
    ((readLoop cfg items).map (·.invocations)).sum ≤ (readLoop cfg items).length ∧
    ((readLoop cfg items).map (·.replies.length)).sum ≤ (readLoop cfg items).length := by
  induction items with
  | nil => simp [readLoop]
  | cons it rest ih =>
    obtain ⟨⟨n, hn, hpre⟩, hlast, hall, hinv, hrep⟩ := ih
    have hamo : (it.run cfg).invocations ≤ 1 ∧ (it.run cfg).replies.length ≤ 1 ∧ _ :=
      C03_at_most_once cfg it.env it.frame it.hb it.pv it.wr
    have hone := C03_one_goroutine cfg it.env it.frame it.hb it.pv it.wr
    have hh : (it.run cfg).handled ≤ 1 := by
      unfold Item.run; rw [hone]; split <;> omega
    unfold readLoop
    by_cases hl : (it.run cfg).leftLoop = true
    · simp only [hl, if_true]
      refine ⟨⟨1, by simp, by simp⟩, by simp, ?_, ?_, ?_⟩
      · intro o ho; simp at ho; subst ho; exact ⟨hh, hamo.1, hamo.2.1⟩
      · simpa using hamo.1
      · simpa using hamo.2.1
    · simp only [hl, Bool.false_eq_true, if_false]
      refine ⟨⟨n + 1, by simp; omega, by simp [hpre]⟩, ?_, ?_, ?_, ?_⟩
      · intro o ho
        cases hr : readLoop cfg rest with
        | nil => simp [hr] at ho
        | cons a l =>
          rw [hr, List.dropLast_cons_of_ne_nil (by simp)] at ho
          rcases List.mem_cons.mp ho with h | h
          · subst h; simpa using hl
          · exact hlast o (by rw [hr]; exact h)
      · intro o ho
        rcases List.mem_cons.mp ho with h | h
        · subst h; exact ⟨hh, hamo.1, hamo.2.1⟩
        · exact hall o h
      · have := hamo.1
        simp only [List.map_cons, List.sum_cons, List.length_cons]
        omega
      · have := hamo.2.1
        simp only [List.map_cons, List.sum_cons, List.length_cons]
        omega

/-! ### Witnesses: the full statement fails on the unchanged code -/

def exCfg : Cfg := { calls := [[47, 97]], codecs := [106], age := true }
def exFrame : Frame := ⟨1, 7, [47, 97], 106, false, none⟩

/-- A context age is configured and the handler outlives it (here it even returns the framework's
    own 408 status, as `examples/age` does): both `writeReply` attempts are refused because the
    reply's context is done — no REPLY, no disconnect, the connection stays up. Reproduced on the
    real code by the harness (`c03:call-dropped:context-age-expired`). -/
theorem C03_call_witness :
    let o := handleFrame exCfg {} exFrame (.ret ⟨408, [], none⟩ {} true) {} (.sent, .sent)
    o.invocations = 1 ∧ o.replies = [] ∧ o.disconnected = false ∧ o.writes.length = 2 := by
  decide

/-- The same with a handler that succeeds, and with one that panics (one refused write). -/
theorem C03_call_witness_ok_and_panic :
    (handleFrame exCfg {} exFrame (.ret Status.zero {} true) {} (.sent, .sent)).dropped = true ∧
    (handleFrame exCfg {} exFrame (.panic [] true) {} (.sent, .sent)).dropped = true := by
  decide

/-! ### Non-vacuity -/

/-- `C03_call_partial` applies to an ordinary successful call … -/
example : ∃ w ∈ (handleFrame exCfg {} exFrame (.ret Status.zero {} false) {} (.sent, .sent)).writes,
    w.quiet = false := by decide

example : (handleFrame exCfg {} exFrame (.ret Status.zero {} false) {} (.sent, .sent)).replies =
    [⟨7, Status.zero, 106, true⟩] := by decide

/-- … and to the double-write path: the result cannot be marshalled, the second write carries 500. -/
example : (handleFrame exCfg {} exFrame (.ret Status.zero { merr := [(106, [101])] } false) {} (.sent, .sent)).replies =
    [⟨7, stInternal [101], 0, false⟩] := by decide

/-- `C03_other`'s hypotheses hold for type byte 4 (and the frame disconnects). -/
example : (handleFrame exCfg {} { exFrame with mtype := 4 } (.panic [] false) {} (.sent, .sent)).closeRequested = true := by
  decide

/-! ## tie A — where `handleCall` marks the reply as written (`Gen/Stages`)

`Dispatch.handle` answers a handler panic from the deferred recover of `handleCall` only while nothing
has been written (`writed` false); a panic AFTER the reply went out (in a `PostWriteReply` plugin) must
not produce a second REPLY. In the code that is one assignment: `writed = true` between the
successful `writeReply` and `postWriteReply`. `srcfacts` regenerates the flow of `handleCall`; the
flag is found structurally (the boolean local that the deferred literal tests negated around its
`writeReply`), not by name. -/

section TieA
open SrcFlow

def hcFlow : List Ev := Gen.stages_handlerCtx_handleCall
/-- the statements of `handleCall` itself, in order. -/
def hcMain : List Ev := mainFlow hcFlow

def isFirstWrite (e : Ev) : Bool := e.is "call" "writeReply" && e.use == "fail-return" && e.guards.isEmpty
def isFlagSet (e : Ev) : Bool := e.is "flag" "set"

/-- **The reply-written flag is set between the successful reply write and the post-write hooks
    (tie A).** In `handleCall` as it is in the source now: (1) the first, unconditional `writeReply`
    is tested at once and its failing branch returns; (2) the flag is assigned exactly once, the
    value `true`, unconditionally, in the function body itself; (3) that assignment comes after the
    first `writeReply` and before `postWriteReply`; between the two there is nothing but the retry
    `writeReply` of the failing branch and its `return` — in particular no plugin stage and no handler
    call runs after a successful write with the flag still false; (4) every `writeReply` of the
    deferred recover is guarded by the negated flag. Hence a panic raised after the reply was written
    (a `PostWriteReply` plugin) finds the flag set and writes nothing: at most one REPLY per CALL, as
    `C03_at_most_once` states for the model. Moving the assignment behind `postWriteReply`, dropping
    it, or dropping the guard in the recover changes the regenerated flow and this theorem no
    longer checks. -/
theorem C03_writed_before_postwrite :
    Gen.stages_missing = [] ∧
    (hcFlow.filter isFlagSet).map (fun e => (e.x, e.guards)) = [("true", [])] ∧
    (hcMain.filter isFirstWrite).length = 1 ∧
    ((after isFirstWrite hcMain).bind (upto isFlagSet)).map keys = some ["call:writeReply"] ∧
    (((after isFirstWrite hcMain).bind (upto isFlagSet)).getD []).all (fun e => !e.guards.isEmpty) = true ∧
    ((after isFlagSet hcMain).map keys) = some ["stage:postWriteReply"] ∧
    ((upto isFirstWrite hcMain).map fun l => l.all fun e => !(e.is "stage" "postWriteReply")) = some true ∧
    (hcFlow.filter fun e => e.deferred && e.is "call" "writeReply").length = 1 ∧
    (hcFlow.all fun e => !(e.inClosure && e.is "call" "writeReply") || (e.deferred && e.guards.contains "!flag")) = true := by
  decide

/-- non-vacuity: the flow has the three landmarks. -/
example : (keys hcMain).filter (fun k => k == "call:writeReply" || k == "flag:set" || k == "stage:postWriteReply") =
    ["call:writeReply", "call:writeReply", "flag:set", "stage:postWriteReply"] := by decide


/-! ### tie A — message type constants (fact group `Consts`) -/

/-- what `binding` does with a frame of message type `t`: the status codes it leaves for a method
    that is registered as a CALL route only and for one that is registered as a PUSH route only. -/
def typeProbe (t : Nat) : Int × Int :=
  let cfg : Cfg := { calls := [[47, 99]], pushes := [[47, 112]] }
  let fr (m : Bytes) : Frame := { mtype := t.toUInt8, seq := 1, method := m, codec := 0, bodyEmpty := true }
  ((binding cfg (fr [47, 99]) {}).stat.code, (binding cfg (fr [47, 112]) {}).stat.code)

/-- **C03 tie A, message types**: the model's dispatch constants are the values message.go declares
    NOW, and — running `binding` on every declared type value — exactly `TypeCall` reaches the CALL
    table, exactly `TypePush` the PUSH table, `TypeReply` neither (no status), every other declared
    type (undefined, the two AUTH types) is answered with the 405 sentinel. Changing the value of
    `TypePush` (or of any other type constant) makes this stop building. -/
theorem C03_consts_msg_types :
    Gen.consts_missing = [] ∧
    Gen.consts_msg_types.lookup "TypeCall" = some tCall.toNat ∧
    Gen.consts_msg_types.lookup "TypeReply" = some tReply.toNat ∧
    Gen.consts_msg_types.lookup "TypePush" = some tPush.toNat ∧
    Gen.consts_msg_types.map (fun p => (p.1, typeProbe p.2)) =
      [("TypeAuthCall", (405, 405)), ("TypeAuthReply", (405, 405)), ("TypeCall", (0, 404)),
       ("TypePush", (404, 0)), ("TypeReply", (0, 0)), ("TypeUndefined", (405, 405))] ∧
    (Gen.consts_msg_types.all fun p => p.2 < 256) = true := by
  decide


end TieA

end C03
end Teleport
