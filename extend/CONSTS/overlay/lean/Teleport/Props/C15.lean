/-
Props/C15 — "Framework statuses are immutable: error codes do not depend on history."

Two kinds of theorems:
* tie A (`C15_no_mutation_of_shared`, `C15_known_mutators_are_sites`, `C15_sentinel_table`,
  `C15_escapes_recognised`): over the facts `srcfacts` regenerates from the Go sources on every run
  (`Teleport.Gen.StatusMut`): the predefined statuses with their constructor arguments, every in-place
  mutation of a `*Status` in the repository with the provenance class of its receiver, every place a
  sentinel pointer escapes uncopied.
* model theorems over `Model/StatusHeap` (heap of status cells, sentinels at fixed addresses):
  for every history of class-respecting operations whose mutating sites have the receiver classes of
  the regenerated table (minus the explicit `knownMutators`, empty today), the sentinel cells never change, hence
  what a caller observes for each framework failure rule is a constant function of the failure cause.
-/
import Teleport.Gen.StatusMut
import Teleport.Gen.Fields
import Teleport.Lemmas.StatusHeap
import Teleport.Gen.Consts
namespace Teleport
namespace C15
open StatusHeap

/-! ## tie A: regenerated facts -/

abbrev Site := String × String × String × String × String

def Site.file (s : Site) : String := s.1
def Site.fn (s : Site) : String := s.2.1
def Site.method (s : Site) : String := s.2.2.1
def Site.cls (s : Site) : String := s.2.2.2.1

/-- Mutating sites whose receiver may be a shared object — genuine defects of the tree, each with
    the finding it corresponds to: (file, function, method, receiver class, finding).
    EMPTY since /repo commit 521761f ("fix: proxy: answer 502 when the backend connection is down,
    without touching the shared status"): `plugin/proxy` used to do `stat := callcmd.Status()` /
    `stat := forwarder.Push(...)` followed by `stat.SetCode(502); stat.SetMsg("Bad Gateway")` (four
    rows of class returnedByCall, finding c15:sentinel-changed:statConnClosed:proxy-push-backend-down
    = c19:badgateway-mutates-shared-status); it now builds the status with
    `stat.Copy(nil).SetCode(..).SetMsg(..)` (rows of class copy in `badGateway`). -/
def knownMutators : List Site := []

def sameSite (k s : Site) : Bool :=
  k.file == s.file && k.fn == s.fn && k.method == s.method && k.cls == s.cls

def isKnown (s : Site) : Bool := knownMutators.any (sameSite · s)

def safeClass (c : String) : Bool := (Cls.ofString c).safe

/-- **C15, "no API call or plugin shipped with the framework alters a status value that is shared
    between calls"**, at the level of the source text as it is in `/repo` now (regenerated, nothing
    missing): every call of `SetCode / SetMsg / SetCause / Clear / DecodeQuery / UnmarshalJSON`, every
    `*p = ...` through a status pointer and every assignment to a package-level status variable, in
    every non-test non-example package, has a receiver of class fresh, copy, messageOwned or callback
    — or is one of the `knownMutators`. For `messageOwned` (`m.Status(true)` in the protocols'
    `Unpack`) the message's status slot must be empty when a message is handed out: `message.Reset`
    clears the `status` field (regenerated fact of `Gen.Fields`).
    Adding e.g. `statNotFound.SetCause(x)` anywhere adds a `sentinel` row and this no longer builds. -/
theorem C15_no_mutation_of_shared :
    Gen.statusMut_missing = [] ∧
    (Gen.statusMutSites.all fun (s : Site) => safeClass s.cls || isKnown s) = true ∧
    Gen.message_Reset.contains "status" = true := by
  decide

/-- the exception list cannot go stale silently: every `knownMutators` entry is a row of the current
    table with exactly that (unsafe) class. When a defect is repaired (receiver copied first) its
    row changes class and this theorem stops building until the entry is removed — this is how the
    proxy repair (521761f) surfaced in this check. Trivial while the list is empty. -/
theorem C15_known_mutators_are_sites :
    (knownMutators.all fun k => !safeClass k.cls && Gen.statusMutSites.any (sameSite k ·)) = true := by
  decide

def asciiL (cs : List Char) : Bytes := cs.map (fun c => c.toNat.toUInt8)

/-- initial content of a predefined status as the source text declares it. -/
def genSentinelVal (g : Site) : Option Status := do
  let code ← Gen.statusCodes.lookup g.method
  let msg ← if g.cls == "CodeText" then Gen.statusCodeText.lookup g.method else none
  let c := g.2.2.2.2.toList
  let cause ← if c.take 4 == "lit:".toList then some (asciiL (c.drop 4)) else none
  pure ⟨code, ascii msg, some cause⟩

def rootShared : List String := (Gen.statusShared.filter (·.1 == "root package")).map (·.2)

/-- the model's sentinel table IS the set of package-level statuses of the root package with the
    (code, msg, cause) their declarations give them (`NewStatus(CodeX, CodeText(CodeX), "")`, values
    of the `Code*` constants and arms of `CodeText` regenerated), and the verif accessor the harness
    snapshots exposes exactly that set. -/
theorem C15_sentinel_table :
    Gen.statusSentinels.length = sentinelTable.length ∧
    (Gen.statusSentinels.all fun (g : Site) =>
      (genSentinelVal g).isSome && sentinelTable.lookup g.1 == genSentinelVal g) = true ∧
    (sentinelTable.all fun p => rootShared.contains p.1 && Gen.statusAccessor.contains (p.1, p.1)) = true ∧
    rootShared.length = sentinelTable.length ∧ Gen.statusAccessor.length = sentinelTable.length := by
  decide +kernel

def escapeKinds : List String := ["return", "assign:.stat", "assign:var", "arg:SetStatus", "mapvalue"]

/-- every uncopied use of a package-level status is of a recognised kind (returned, stored in a
    context/call status field or a local, put into a message with SetStatus, listed by the verif
    accessor): these are the `returnSentinel` operations of the model. Address-taking, passing to
    other functions, unknown methods on a sentinel fail closed. -/
theorem C15_escapes_recognised :
    (Gen.statusEscapes.all fun e => escapeKinds.contains e.2.2.2 &&
      (e.2.2.2 != "mapvalue" || e.2.1 == "VerifSentinels")) = true := by
  decide

/-! ## model theorems -/

/-- receiver classes of the mutating sites of the current source (known defects excluded). -/
def siteClasses : List Cls := (Gen.statusMutSites.filter (fun (s : Site) => !isKnown s)).map (fun (s : Site) => Cls.ofString s.cls)

/-- the regenerated table (known defects excluded) only has safe receiver classes — the form of
    `C15_no_mutation_of_shared` the model theorems consume. -/
theorem C15_site_classes_safe :
    (siteClasses.all fun c => [Cls.fresh, .copy, .messageOwned, .callback].contains c) = true := by
  decide

/-- **C15, sentinel invariance, all histories**: start from any heap in which the predefined statuses
    have their initial content (in particular the initial heap) and run ANY finite history of
    operations — sentinel hand-outs, copies, decodes, statuses crossing the wire, user allocations,
    and in-place mutations at sites whose receiver class is one of the classes of the regenerated
    table (known defects excluded) and that respect the class discipline. Then every predefined
    status still has its initial (code, msg, cause). Induction over the operation list. -/
theorem C15_sentinels_invariant (h : Heap) (hi : SInv h) (ops : List Op) (hr : Respects h ops)
    (hs : ∀ op ∈ ops, op.siteIn siteClasses = true) :
    sentinels (run h ops) = sentinels init ∧ SInv (run h ops) := by
  have := run_inv ops h hi hr (fun op ho => siteIn_mono _ _ C15_site_classes_safe op (hs op ho))
  exact ⟨sentinels_of_inv this, this⟩

def exampleHistory : List Op := [
  -- the repaired proxy with the backend down: `badGateway(stat)` on the shared connection-closed status
  .returnSentinel aConnClosed, .copyOf aConnClosed none,
  .mutate .copy 11 (.setCode 502), .mutate .copy 11 (.setMsg (ascii "Bad Gateway")),
  -- a 400 crossing the wire, decoded into the reply message's own status
  .copyOf aBadMessage (some [1]), .sendOver 12,
  .mutate .messageOwned 13 (.overwrite Status.zero), .mutate .messageOwned 13 (.setCode 7),
  -- binder: the user's ErrorFunc result rewritten by fixStatus
  .newCallback ⟨400, [2], none⟩, .mutate .callback 14 (.setMsg [3]), .mutate .callback 14 (.setCode 1001),
  .returnSentinel aNotFound, .sendOver aNotFound]

/-- non-vacuity: a history with mutations at copy, messageOwned and callback sites satisfies the hypotheses. -/
example : SInv init ∧ Respects init exampleHistory ∧ ∀ op ∈ exampleHistory, op.siteIn siteClasses = true :=
  ⟨sinv_init, (respectsB_iff _ _).1 (by decide), by decide⟩

/-- **C15, history independence**: after every such history, the (code, msg, cause) a caller observes
    for each framework failure rule — closed connection → (102, "Connection Closed", ""), unknown
    route → (404, "Not Found", ""), empty method / undecodable body → (400, "Bad Message", text),
    handler panic → (500, "Internal Server Error", text), write failure → (104, ..), dial failure →
    (105, ..), pre-session call outside the Preparing phase → (1, "Invalid Operation", ..), also when
    the status travels over the wire (EncodeQuery / DecodeQuery) — is the rule table's entry: a function
    of the failure cause alone, equal to what a pristine process yields. Rules may be chained: the
    heap after a rule satisfies the invariant again. -/
theorem C15_history_independent (ops : List Op) (hr : Respects init ops)
    (hs : ∀ op ∈ ops, op.siteIn siteClasses = true) (r : Rule) :
    (r.exec (run init ops)).2 = r.table ∧ (r.exec (run init ops)).2 = (r.exec init).2 ∧
    SInv (r.exec (run init ops)).1 := by
  have hi := (C15_sentinels_invariant init sinv_init ops hr hs).2
  exact ⟨rule_exec_table hi r, by rw [rule_exec_table hi r, rule_exec_table sinv_init r], rule_inv hi r⟩

example : (Rule.unknownRoute.exec (run init exampleHistory)).2 = ⟨404, ascii "Not Found", some []⟩ :=
  (C15_history_independent exampleHistory ((respectsB_iff _ _).1 (by decide)) (by decide) .unknownRoute).1

/-- the former proxy defect as a history: the forwarder returns the shared connection-closed status
    (`returnSentinel`), the plugin rewrites code and message through that pointer (a site of class
    returnedByCall: allowed by the class discipline to denote any object). -/
def aliasHistory : List Op := [
  .returnSentinel aConnClosed,
  .mutate .returnedByCall aConnClosed (.setCode 502),
  .mutate .returnedByCall aConnClosed (.setMsg (ascii "Bad Gateway"))]

/-- **no aliasing site remains in the source**: the regenerated table has no mutating site at all whose
    receiver class is returnedByCall, sentinel or unknown (the proxy rows of the pre-521761f tree are
    gone: `badGateway` mutates a `Copy`). This replaces the former `C15_alias_mutation_witness`, whose
    code half is false of the repaired tree. -/
theorem C15_no_alias_site_remains :
    (Gen.statusMutSites.filter fun (s : Site) => !safeClass s.cls) = [] ∧ knownMutators = [] := by
  decide

/-- **the restriction to safe classes in `C15_sentinels_invariant` is necessary** (a statement about
    the hypothesis, not about the code): one site of class returnedByCall is enough to break
    history independence. The history `aliasHistory` respects the class discipline, and afterwards a
    closed-connection failure is observed as (502, "Bad Gateway", "") instead of
    (102, "Connection Closed", "") — what the real code did before the proxy was repaired, and what
    any future `x := call(); x.SetCode(..)` site would make possible again (such a site fails
    `C15_no_mutation_of_shared`). -/
theorem C15_class_restriction_necessary :
    Respects init aliasHistory ∧
    (Rule.closedCall.exec (run init aliasHistory)).2 = ⟨502, ascii "Bad Gateway", some []⟩ ∧
    (Rule.closedCall.exec (run init aliasHistory)).2 ≠ Rule.closedCall.table ∧
    sentinels (run init aliasHistory) ≠ sentinels init := by
  refine ⟨(respectsB_iff _ _).1 (by decide), by decide, by decide, by decide⟩


/-! ### tie A — sentinel values (fact group `Consts`, arguments evaluated) -/

/-- the regenerated sentinel row as a model status. -/
def constSentinel (r : String × Int × String × String) : String × Status :=
  (r.1, ⟨r.2.1, ascii r.2.2.1, if r.2.2.2 == "!nil" then none else some (ascii r.2.2.2)⟩)

/-- **C15 tie A, sentinel values (semantic form)**: the model's `sentinelTable` is, as a set, the set of
    package-level `stat*` statuses of the root package with code, text and cause obtained by EVALUATING
    their initialisers (`NewStatus(code, CodeText(code), "")` with `CodeText` executed, or
    `<sentinel>.Copy(cause)`), `nSent` is their number, every text is `CodeText` of the code, and the
    fixed addresses the failure rules use hold the sentinel they are named after. Unlike
    `C15_sentinel_table` this does not depend on how the initialiser is spelled. -/
theorem C15_consts_sentinels :
    Gen.consts_missing = [] ∧
    Gen.consts_sentinels.length = sentinelTable.length ∧ nSent = Gen.consts_sentinels.length ∧
    (Gen.consts_sentinels.all fun r => sentinelTable.lookup r.1 == some (constSentinel r).2) = true ∧
    (sentinelTable.map (·.1)).Nodup ∧
    (Gen.consts_sentinels.all fun r => Gen.consts_code_text.lookup r.2.1 == some r.2.2.1) = true ∧
    [addrOf "statInvalidOpError", addrOf "statDialFailed", addrOf "statConnClosed", addrOf "statWriteFailed",
     addrOf "statBadMessage", addrOf "statNotFound", addrOf "statCodeMtypeNotAllowed",
     addrOf "statInternalServerError", addrOf "statUnpreparedError"] =
      [some aInvalidOp, some aDialFailed, some aConnClosed, some aWriteFailed, some aBadMessage, some aNotFound,
       some aMtype, some aISE, some aUnprepared] := by
  decide +kernel


end C15
end Teleport
