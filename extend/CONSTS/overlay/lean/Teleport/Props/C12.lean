/-
Props/C12 — Transfer-filter pipes invert exactly; the integrity filter detects change.
Property theorems only; the model is Model/Xfer + Model/XferMd5 + Model/Md5 + Model/RawProto,
helper lemmas are in Lemmas/Xfer and Lemmas/Raw.
-/
import Teleport.Lemmas.Xfer
import Teleport.Props.C05
import Teleport.Gen.Consts
namespace Teleport
namespace C12
open Xfer

/-- the registry used by the non-vacuity examples: the three non-commuting test filters and the
    md5 filter with the concrete MD5 (id 'm'). -/
def exReg : Registry := fun i => if i == 109 then some md5Filter else Drv.testReg i

/-- Pipes invert exactly: for every pipe `p` (any length, repeats allowed) whose ids are registered
    with lawful filters, and every payload `x`, unpacking (filters first → last) what packing
    (filters last → first) produced restores `x`. -/
theorem C12_pipe_inverts (reg : Registry) (p : List UInt8)
    (hl : ∀ i ∈ p, ∃ f, reg i = some f ∧ Lawful f) (x y : Bytes)
    (h : onPack reg p x = some y) : onUnpack reg p y = some x :=
  Raw.onUnpack_onPack reg p hl x y h

/-- ... and when every filter of the pipe packs every input (true of md5 and of the test filters),
    packing succeeds, so the round trip is unconditional. -/
theorem C12_pipe_roundtrip (reg : Registry) (p : List UInt8)
    (hl : ∀ i ∈ p, ∃ f, reg i = some f ∧ Lawful f ∧ ∀ x, (f.pack x).isSome = true) (x : Bytes) :
    ∃ y, onPack reg p x = some y ∧ onUnpack reg p y = some x := by
  have hp : ∃ y, onPack reg p x = some y := by
    induction p with
    | nil => exact ⟨x, rfl⟩
    | cons i is ih =>
      obtain ⟨f, hf, _, ht⟩ := hl i (by simp)
      obtain ⟨z, hz⟩ := ih (fun j hj => hl j (by simp [hj]))
      have := ht z
      cases hy : f.pack z with
      | none => simp [hy] at this
      | some y => exact ⟨y, by simp [onPack, hf, hz, hy]⟩
  obtain ⟨y, hy⟩ := hp
  exact ⟨y, hy, C12_pipe_inverts reg p (fun i hi => by
    obtain ⟨f, h1, h2, _⟩ := hl i hi; exact ⟨f, h1, h2⟩) x y hy⟩

theorem lawful_exReg : ∀ i f, exReg i = some f → Lawful f ∧ ∀ x, (f.pack x).isSome = true := by
  intro i f h
  unfold exReg at h
  split at h
  · cases h; exact ⟨md5Filter_lawful, fun x => rfl⟩
  · refine ⟨C05.lawful_testReg i f h, ?_⟩
    unfold Drv.testReg at h
    split at h
    · cases h; intro x; rfl
    · split at h
      · cases h; intro x; rfl
      · split at h
        · cases h; intro x; rfl
        · simp at h

/-- non-vacuity: a pipe with repeats over non-commuting filters and md5. -/
example : ∀ i ∈ [109, 1, 2, 109, 3, 1], ∃ f, exReg i = some f ∧ Lawful f ∧ ∀ x, (f.pack x).isSome = true := by
  intro i hi
  have : (exReg i).isSome = true := by
    simp only [List.mem_cons, List.mem_nil_iff, or_false] at hi
    rcases hi with h | h | h | h | h | h <;> subst h <;> decide
  cases hf : exReg i with
  | none => simp [hf] at this
  | some f => exact ⟨f, rfl, lawful_exReg i f hf⟩

/-- Documented length, all or nothing: `Append` (both the functional model used by the frame reader
    and the statement-by-statement model `appendSt` = (pipe afterwards, returned nil))
    (1) refuses a total length above 255 and leaves the pipe exactly as it was;
    (2) accepts every total length up to 255 when all ids are registered, appending exactly them;
    (3) in every case the pipe afterwards is the old pipe plus all the ids (and the call returned
        nil) or the old pipe unchanged (and it returned an error) — never a partial append;
    (4) so it never makes a pipe longer than 255. -/
theorem C12_pipe_len (reg : Registry) (cur ids : List UInt8) :
    ((cur ++ ids).length > 255 →
        Xfer.append reg cur ids = none ∧ appendSt reg cur ids = (cur, false)) ∧
    ((∀ i ∈ ids, (reg i).isSome = true) → (cur ++ ids).length ≤ 255 →
        Xfer.append reg cur ids = some (cur ++ ids) ∧ appendSt reg cur ids = (cur ++ ids, true)) ∧
    (appendSt reg cur ids = (cur ++ ids, true) ∨ appendSt reg cur ids = (cur, false)) ∧
    (cur.length ≤ 255 → (appendSt reg cur ids).1.length ≤ 255) := by
  refine ⟨?_, ?_, ?_, appendSt_len reg cur ids⟩
  · intro hlen
    have h1 : Xfer.append reg cur ids = none := by
      unfold Xfer.append
      repeat' split
      all_goals first | rfl | omega
    refine ⟨h1, ?_⟩
    rcases appendSt_cases reg cur ids with ⟨_, _, hl⟩ | ⟨h, _⟩
    · omega
    · exact h
  · intro hall hlen
    have h2 := appendSt_all reg cur ids hall
    rw [if_pos hlen] at h2
    refine ⟨?_, h2⟩
    rw [append_eq_appendSt, h2]; rfl
  · rcases appendSt_cases reg cur ids with ⟨h, _⟩ | ⟨h, _⟩
    · exact Or.inl h
    · exact Or.inr h

example : (∀ i ∈ List.replicate 200 (109 : UInt8), (exReg i).isSome = true) ∧
    (List.replicate 55 (1 : UInt8) ++ List.replicate 200 109).length ≤ 255 := by
  constructor
  · intro i hi; rw [List.eq_of_mem_replicate hi]; decide
  · rw [List.length_append, List.length_replicate, List.length_replicate]; omega

/-- An unregistered filter is refused, never passed through: `Append` of ids containing an
    unregistered one fails (whatever the pipe held before) and leaves the pipe as it was — the
    registered ids in front of it do not stay appended —, and packing or unpacking along a pipe
    that names an unregistered id fails for every payload. -/
theorem C12_unknown_filter_refused (reg : Registry) (p : List UInt8) (i : UInt8) (hi : i ∈ p)
    (hr : reg i = none) :
    (∀ cur, Xfer.append reg cur p = none ∧ appendSt reg cur p = (cur, false)) ∧
    (∀ x, onPack reg p x = none) ∧ (∀ y, onUnpack reg p y = none) := by
  refine ⟨fun cur => ?_, fun x => onPack_unregistered reg p x i hi hr,
    fun y => onUnpack_unregistered reg p y i hi hr⟩
  have h := appendSt_unknown reg cur p i hi hr
  exact ⟨by rw [append_eq_appendSt, h]; rfl, h⟩

example : (7 : UInt8) ∈ [1, 7, 109] ∧ exReg 7 = none := by decide

/-- ... in particular the raw frame reader never delivers a message from a frame whose pipe
    bytes name an unregistered id (it fails at `Append` — or earlier, when the ids do not fit into the
    announced frame —, before any payload is looked at). -/
theorem C12_frame_unknown_filter_rejected (reg : Registry) (limit : Nat)
    (a b c d xl : UInt8) (r : Bytes) (ids rest : Bytes)
    (hids : Raw.take? xl.toNat r = some (ids, rest)) (i : UInt8) (hi : i ∈ ids) (hr : reg i = none) :
    ∀ m rest', (Raw.unpack reg limit (a :: b :: c :: d :: xl :: r)).out ≠ .ok m rest' := by
  intro m rest'
  have happ : Xfer.append reg [] ids = none := (C12_unknown_filter_refused reg ids i hi hr).1 [] |>.1
  have hx : ∀ size last alloc n,
      (Raw.unpackXfer reg size last alloc n (xl :: r)).out ≠ .ok m rest' := by
    intro size last alloc n
    unfold Raw.unpackXfer
    simp only [hids, happ]
    split <;> simp
  unfold Raw.unpack
  dsimp only
  repeat' split
  all_goals first | exact hx _ _ _ _ | simp

example : Raw.take? (2 : UInt8).toNat [1, 7, 0, 0] = some ([1, 7], [0, 0]) ∧ (7 : UInt8) ∈ [1, 7] ∧ exReg 7 = none := by
  decide

/-- The md5 filter is lawful for every hash with a 16-byte digest: unpack strips exactly what pack
    appended and returns the original payload. -/
theorem C12_md5_lawful (h : Bytes → Bytes) (hlen : ∀ x, (h x).length = 16) : Lawful (md5F h) :=
  md5F_lawful h hlen

/-- the concrete MD5 of Model/Md5 meets the hypothesis, so the registered filter is lawful. -/
theorem C12_md5_concrete_lawful : (∀ x, (Md5.sum x).length = 16) ∧ Lawful md5Filter :=
  ⟨md5_sum_length, md5Filter_lawful⟩

/-- The filter accepts a received string `s` exactly when `s` is some content followed by that
    content's own digest, and then it delivers that content: whatever was altered in transit, an
    accepted payload always carries a matching checksum. -/
theorem C12_md5_accepts_only_checksummed (h : Bytes → Bytes) (hlen : ∀ x, (h x).length = 16)
    (s d : Bytes) : (md5F h).unpack s = some d ↔ s = d ++ h d :=
  md5F_unpack_eq_some h hlen s d

/-- A change confined to the checksum (the last 16 bytes replaced by any other 16 bytes) is
    always rejected. No assumption on the hash. -/
theorem C12_md5_detects_checksum_change (h : Bytes → Bytes) (x c : Bytes) (hc : c.length = 16)
    (hne : c ≠ h x) : (md5F h).unpack (x ++ c) = none :=
  md5F_checksum_change h x c hc hne

example : ([0,1,2,3,4,5,6,7,8,9,10,11,12,13,14,15] : Bytes).length = 16 ∧
    ([0,1,2,3,4,5,6,7,8,9,10,11,12,13,14,15] : Bytes) ≠ Md5.sum [] := by decide +kernel

/-- A change of the content (the checksum left as sent) is rejected whenever the two contents do
    not collide under the hash — the explicit hypothesis; it cannot be proved of MD5. -/
theorem C12_md5_detects_content_change (h : Bytes → Bytes) (hlen : ∀ x, (h x).length = 16)
    (x x' : Bytes) (hne : h x' ≠ h x) : (md5F h).unpack (x' ++ h x) = none :=
  md5F_content_change h hlen x x' hne

example : Md5.sum [98] ≠ Md5.sum [97] := by decide +kernel

/-- Anything shorter than a digest is rejected. -/
theorem C12_md5_short_input_rejected (h : Bytes → Bytes) (s : Bytes) (hs : s.length < 16) :
    (md5F h).unpack s = none := md5F_short h s hs

/-- gzip: the filter as coded (compressor on pack; on unpack the empty input is returned as is,
    anything else goes to the decompressor) is lawful for every compressor pair in which
    decompression inverts compression and compressed output is never empty — the assumption made
    about `compress/gzip`. -/
theorem C12_gzip_lawful (comp decomp : Bytes → Option Bytes)
    (hinv : ∀ x y, comp x = some y → y ≠ [] ∧ decomp y = some x) : Lawful (gzipF comp decomp) :=
  gzipF_lawful comp decomp hinv

example : ∀ x y, tableComp [([1, 2], [31, 139, 8])] x = some y →
    y ≠ [] ∧ tableDecomp [([1, 2], [31, 139, 8])] y = some x := by
  intro x y h
  simp only [tableComp, List.find?_cons, List.find?_nil] at h
  split at h
  · rename_i hb
    simp only [Option.map_some, Option.some.injEq] at h
    subst h
    have : x = [1, 2] := (eq_of_beq hb).symm
    subst this
    decide
  · simp at h

/-- The receiver learns the pipe from the frame itself: unpacking a packed frame (followed by any
    further bytes) delivers a message whose pipe is the sender's pipe. -/
theorem C12_receiver_learns_pipe (reg : Registry) (limit : Nat) (m : Msg) (bs rest : Bytes)
    (sz : Nat) (hw : Raw.WF reg m) (hp : Raw.pack reg limit m = .ok (bs, sz))
    (hlt : bs.length < 4294967296) :
    ∃ m', (Raw.unpack reg limit (bs ++ rest)).out = .ok m' rest ∧ m'.pipe = m.pipe ∧
      m'.body = m.body := by
  have := (Raw.unpack_pack reg limit m bs rest sz hw hp hlt).1
  exact ⟨{ m with size := sz }, by rw [this], rfl, rfl⟩

/-- a message with md5 and repeated non-commuting filters in its pipe meets the hypotheses. -/
def exMsg : Msg := { C05.exMsg with pipe := [109, 1, 2, 109, 3] }

example : Raw.WF exReg exMsg := by
  refine { seq := by decide, code := by decide, method := by decide, status := by decide,
           md := by decide, mdwf := by decide, pipeLen := by decide, pipeReg := ?_ }
  intro i hi
  have : (exReg i).isSome = true := by
    simp only [exMsg, List.mem_cons, List.mem_nil_iff, or_false] at hi
    rcases hi with h | h | h | h | h <;> subst h <;> decide
  cases hf : exReg i with
  | none => simp [hf] at this
  | some f => exact ⟨f, rfl, (lawful_exReg i f hf).1⟩

/-- A reply to a call is sent through the caller's pipe. `replyPipe reg pre req post` is the
    pipe of the reply as `context.go` computes it (`pre`/`post`: the `AddXferPipe` calls made before
    / after `handleCall` copied the request's pipe; `req`: the caller's pipe, which a frame can only
    carry within the documented length). In the code the order is: filters added before
    `handleCall` (dropped if they and the caller's pipe do not both fit), then the caller's pipe,
    then the handler's additions (each call accepted or refused as a whole).
    (1) without additions it is exactly the caller's pipe;
    (2) in general it is the caller's pipe between accepted additions, all of them registered;
    (3) registered handler additions that fit follow the caller's pipe in call order;
    (4) it names only registered filters if the caller's pipe does. -/
theorem C12_reply_uses_callers_pipe (reg : Registry) (pre post : List (List UInt8)) (req : List UInt8)
    (hreq : req.length ≤ 255) :
    replyPipe reg [] req [] = req ∧
    (∃ a b, replyPipe reg pre req post = a ++ req ++ b ∧ ∀ i ∈ a ++ b, (reg i).isSome = true) ∧
    ((∀ c ∈ post, ∀ i ∈ c, (reg i).isSome = true) → (req ++ post.flatten).length ≤ 255 →
      replyPipe reg [] req post = req ++ post.flatten) ∧
    ((∀ i ∈ req, (reg i).isSome = true) → ∀ i ∈ replyPipe reg pre req post, (reg i).isSome = true) := by
  have hnil : callPipe [] req = req := by
    have := (callPipe_spec [] req hreq).2
    simpa using this
  have hgen : ∃ a b, replyPipe reg pre req post = a ++ req ++ b ∧ ∀ i ∈ a ++ b, (reg i).isSome = true := by
    obtain ⟨a, ha, ha2⟩ := addAll_extends reg [] pre
    simp only [List.nil_append] at ha
    obtain ⟨b, hb, hb2⟩ := addAll_extends reg (callPipe (addAll reg [] pre) req) post
    have hc := (callPipe_spec (addAll reg [] pre) req hreq).2
    by_cases hov : (addAll reg [] pre).length + req.length > 255
    · rw [if_pos hov] at hc
      refine ⟨[], b, ?_, ?_⟩
      · unfold replyPipe; rw [hb, hc]
      · intro i hi; exact hb2 i (by simpa using hi)
    · rw [if_neg hov, ha] at hc
      refine ⟨a, b, ?_, ?_⟩
      · unfold replyPipe; rw [hb, ha, hc]
      · intro i hi
        rcases List.mem_append.1 hi with e | e
        · exact ha2 i e
        · exact hb2 i e
  refine ⟨by simp [replyPipe, addAll, hnil], hgen, ?_, ?_⟩
  · intro hall hlen
    simp only [replyPipe, addAll, List.foldl_nil, hnil]
    exact addAll_registered reg req post hall hlen
  · intro hreq' i hi
    obtain ⟨a, b, e, hab⟩ := hgen
    rw [e] at hi
    simp only [List.mem_append] at hi hab
    rcases hi with (h | h) | h
    · exact hab i (Or.inl h)
    · exact hreq' i h
    · exact hab i (Or.inr h)

example : ([1, 109, 2] : List UInt8).length ≤ 255 ∧
    (∀ c ∈ [[2, 2], [109, 1]], ∀ i ∈ c, (exReg i).isSome = true) ∧
    (([1, 109, 2] : List UInt8) ++ [[2, 2], [109, 1]].flatten).length ≤ 255 := by decide

/-- The reply's pipe never overflows (this replaces the former finding
    `C12_reply_pipe_overflow_witness`, which the corrected `Append` / `AppendFrom` / `handleCall`
    make false). For EVERY registry, EVERY request pipe within the documented length, and EVERY
    sequence of `AddXferPipe` calls before and after `handleCall` (any ids, registered or not, any
    lengths):
    (1) the reply's pipe has at most 255 filters;
    (2) it contains the caller's pipe (the reply still goes through it, whatever was refused);
    (3) the frame announces exactly it: the length byte `rawProto.Pack` writes is its true length,
        and what the receiver reads back from the frame (`learned`) is the pipe itself. -/
theorem C12_reply_pipe_never_overflows (reg : Registry) (pre post : List (List UInt8)) (req : List UInt8)
    (hreq : req.length ≤ 255) :
    (replyPipe reg pre req post).length ≤ 255 ∧
    (∃ a b, replyPipe reg pre req post = a ++ req ++ b) ∧
    (∃ n : UInt8, wirePipe (replyPipe reg pre req post) = n :: replyPipe reg pre req post ∧
      n.toNat = (replyPipe reg pre req post).length) ∧
    learned (replyPipe reg pre req post) = replyPipe reg pre req post := by
  have hlen : (replyPipe reg pre req post).length ≤ 255 :=
    addAll_len reg _ post (callPipe_spec _ req hreq).1
  obtain ⟨a, b, e, _⟩ := (C12_reply_uses_callers_pipe reg pre post req hreq).2.1
  refine ⟨hlen, ⟨a, b, e⟩, ⟨_, rfl, ?_⟩, learned_of_le _ hlen⟩
  exact Raw.toUInt8_toNat (replyPipe reg pre req post).length (by omega)

/-- non-vacuity and the former failing inputs: additions before and after, an unregistered id (7)
    in the middle of a call — that whole call is refused —, and the two boundary cases of the
    finding: a caller's pipe of 255 plus a handler addition (refused, the reply uses exactly the
    caller's pipe), and a filter added before `handleCall` (dropped in favour of the caller's pipe). -/
example : (replyPipe exReg [[3]] [1, 109, 2] [[2, 2], [109, 7, 1], [1]]) = [3, 1, 109, 2, 2, 2, 1] ∧
    (replyPipe exReg [[3]] [1, 109, 2] [[2, 2], [109, 7, 1], [1]]).length ≤ 255 := by decide

example : replyPipe exReg [] (List.replicate 255 1) [[2]] = List.replicate 255 1 ∧
    replyPipe exReg [[1]] (List.replicate 255 3) [] = List.replicate 255 3 ∧
    replyPipe exReg [] (List.replicate 254 1) [[2, 3], [2]] = List.replicate 254 1 ++ [2] ∧
    learned (replyPipe exReg [] (List.replicate 255 1) [[2]]) = List.replicate 255 1 := by
  decide +kernel

/-- Registration never replaces a filter: after any successful `Reg`, every id that was registered
    still maps to the same entry, ids and names stay unique, the new entry is found under its id
    and its name; registering an id or a name twice panics (`none`) and stores nothing. -/
theorem C12_reg_unique_never_replaced (es : List Entry) (e : Entry) :
    (∀ es', reg es e = some es' →
      (RegInv es → RegInv es') ∧ (∀ i x, get es i = some x → get es' i = some x) ∧
      get es' e.id = some e ∧ getByName es' e.name = some e) ∧
    (∀ x, (get es e.id = some x ∨ getByName es e.name = some x) → reg es e = none) := by
  refine ⟨fun es' h => ⟨fun hi => reg_inv es e es' hi h, fun i x hg => reg_preserves_get es e es' h i x hg,
    (reg_get_new es e es' h).1, (reg_get_new es e es' h).2⟩, fun x hx => reg_dup es e x hx⟩

example : (reg [⟨1, [118], Drv.fRev⟩] ⟨2, [119], Drv.fXor⟩).isSome = true ∧
    (reg [⟨1, [118], Drv.fRev⟩] ⟨1, [119], Drv.fXor⟩).isSome = false ∧
    (reg [⟨1, [118], Drv.fRev⟩] ⟨2, [118], Drv.fXor⟩).isSome = false := by decide


/-! ### tie A — pipe length limit and digest length (fact group `Consts`) -/

/-- **C12 tie A, limits**: the largest pipe `XferPipe.check` and `XferPipe.AppendFrom` accept (the
    comparison with `math.MaxUint8`, normalised to "largest accepted length") is the bound of the model's
    `append` / `appendSt` / `appendFrom` / `callPipe` — checked by RUNNING them at the limit and one
    above; `md5Length` is the digest length `md5F` cuts off. -/
theorem C12_consts_pipe_limits :
    Gen.consts_missing = [] ∧
    Gen.consts_len_limits = [("XferPipe.check", 255), ("XferPipe.AppendFrom", 255)] ∧
    (Gen.consts_len_limits.all fun p =>
      (Xfer.append Drv.testReg [] (List.replicate p.2 1)).isSome &&
      (Xfer.append Drv.testReg [] (List.replicate (p.2 + 1) 1)).isNone &&
      (appendSt Drv.testReg (List.replicate (p.2 - 1) 1) [2]).2 &&
      !(appendSt Drv.testReg (List.replicate p.2 1) [2]).2 &&
      appendFrom (List.replicate (p.2 - 1) 1) [2] == List.replicate (p.2 - 1) 1 ++ [2] &&
      appendFrom (List.replicate p.2 1) [2] == List.replicate p.2 1 &&
      callPipe (List.replicate p.2 1) [2] == [2] &&
      callPipe (List.replicate (p.2 - 1) 1) [2] == List.replicate (p.2 - 1) 1 ++ [2]) = true ∧
    md5Length = Gen.consts_md5_length ∧
    (md5F fun _ => List.replicate Gen.consts_md5_length 0).unpack (List.replicate (Gen.consts_md5_length - 1) 0) = none ∧
    (md5F fun _ => List.replicate Gen.consts_md5_length 0).unpack (List.replicate Gen.consts_md5_length 0) = some [] := by
  decide +kernel


end C12
end Teleport
