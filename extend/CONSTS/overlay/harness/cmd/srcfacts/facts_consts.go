package main

// Fact group `Consts`: every constant of the library that a Lean model hard-codes, with its VALUE.
//
// Emits into Gen/Consts.lean (all tables are sorted sets: declaration order carries no information)
//
//	consts_msg_types            (name, value) of the `Type*` constants of message.go
//	consts_type_text            (value, TypeText(value)) for every declared type value — TypeText is EXECUTED
//	consts_type_text_default    TypeText of a value that no constant has
//	consts_codes                (name, value) of the `Code*` constants of status.go (aliases evaluated)
//	consts_code_text            (value, CodeText(value)) for every declared code value — CodeText is EXECUTED
//	consts_code_text_default    CodeText of a value that no constant has
//	consts_sentinels            (name, code, msg, cause) of every package-level `stat*` status of the root
//	                            package: `NewStatus(code, msg, cause)` with all three arguments evaluated
//	                            (msg usually `CodeText(code)`), or `<sentinel>.Copy(cause)`; a nil cause is `!nil`
//	consts_copy_texts           (function, sentinel, text) of every `<sentinel>.Copy("literal")` in the root package
//	consts_meta_keys            (name, value) of the `Meta*` string constants of message.go
//	consts_codecs               (type, ID(), Name()) of every codec type of package codec that an init() registers
//	consts_nil_codec_id/_name   codec.NilCodecID / NilCodecName
//	consts_codec_unsupported    format string of the error of codec.Get for an unknown id
//	consts_protos               (package/type, id, name) of the shipped wire protocols (the composite literal
//	                            whose `id`/`name` fields `Version()` returns)
//	consts_size_limit_default   socket.defaultMessageSizeLimit
//	consts_size_limit_rule      SetMessageSizeLimit evaluated: (argument, resulting limit) for 0, 1 and 4096
//	consts_len_limits           (site, largest accepted length) of the explicit length checks
//	                            XferPipe.check, XferPipe.AppendFrom (xfer/xfer.go)
//	consts_md5_length           xfer/md5 md5Length
//
// Everything is evaluated (consteval.go): renaming a constant's spelling of its value (`0x194`, `400+4`),
// reordering declarations, turning CodeText's switch into an if chain or re-ordering its cases does not
// change the generated text; changing a value or a text does.

import (
	"fmt"
	"go/ast"
	"go/token"
	"sort"
	"strings"
)

func init() {
	register(Group{
		Name: "Consts",
		Doc:  "Values of the constants the Lean models hard-code: message types and their texts, framework status codes and texts (CodeText executed), the predefined stat* statuses with code/msg/cause, codec ids and names, protocol ids and names, the default message size limit, the pipe-length limits, md5Length. Consumed by C03_consts_msg_types, C04_consts_dispatch_statuses, C04_consts_codec_texts, C05_consts_limits, C05_consts_http_codec_ids, C10_consts_dispatch_codes, C11_consts_registry, C12_consts_pipe_limits, C15_consts_sentinels.",
		Gen:  genConsts,
	})
}

func ccLeanInt(i int64) string {
	if i < 0 {
		return fmt.Sprintf("(%d)", i)
	}
	return fmt.Sprint(i)
}

func ccRows(rows []string) string {
	if len(rows) == 0 {
		return "[]"
	}
	return "[\n  " + strings.Join(rows, ",\n  ") + "]"
}

func genConsts(r *Repo, l *Lean) {
	root := r.Pkg("")
	if root.Err != nil || len(root.Files) == 0 {
		l.Missing("consts_parse", "root package does not parse")
		return
	}
	env := cvNewEnv(r, "")

	// ---- named integer constants with a prefix
	named := func(prefix string) (names []string, vals map[string]int64, bad string) {
		vals = map[string]int64{}
		for n := range env.consts {
			if !strings.HasPrefix(n, prefix) || len(n) == len(prefix) || n[len(prefix)] < 'A' || n[len(prefix)] > 'Z' {
				continue
			}
			c, ok := env.evalName(n)
			if !ok {
				bad = n
				continue
			}
			if c.isStr {
				continue
			}
			names = append(names, n)
			vals[n] = c.i
		}
		sort.Strings(names)
		return
	}
	table := func(fn string, vals map[string]int64, nat bool) (rows []string, def string, why string) {
		fd := root.Func("", fn)
		if fd == nil {
			return nil, "", "function " + fn + " not found (or declared twice)"
		}
		seen := map[int64]bool{}
		var vs []int64
		for _, v := range vals {
			if !seen[v] {
				seen[v] = true
				vs = append(vs, v)
			}
		}
		sort.Slice(vs, func(i, j int) bool { return vs[i] < vs[j] })
		for _, v := range vs {
			c, ok := env.callFunc(fd, cv{i: v})
			if !ok || !c.isStr {
				return nil, "", fmt.Sprintf("%s(%d) could not be evaluated", fn, v)
			}
			if nat {
				rows = append(rows, fmt.Sprintf("(%d, %s)", v, leanStr(c.s)))
			} else {
				rows = append(rows, fmt.Sprintf("(%s, %s)", ccLeanInt(v), leanStr(c.s)))
			}
		}
		// two probes that no constant has
		var probes []int64
		for p := int64(251); len(probes) < 2; p-- {
			if !seen[p] {
				probes = append(probes, p)
			}
		}
		d0, ok0 := env.callFunc(fd, cv{i: probes[0]})
		d1, ok1 := env.callFunc(fd, cv{i: probes[1]})
		if !ok0 || !ok1 || !d0.isStr || d0 != d1 {
			return nil, "", fn + " of an undeclared value could not be evaluated"
		}
		return rows, d0.s, ""
	}

	// message types
	{
		names, vals, bad := named("Type")
		ok := bad == "" && len(names) > 0
		for _, n := range names {
			if vals[n] < 0 || vals[n] > 255 {
				ok = false
			}
		}
		if !ok {
			l.Missing("consts_msg_types", "Type* constants of message.go not evaluated ("+bad+")")
		} else {
			var rows []string
			for _, n := range names {
				rows = append(rows, fmt.Sprintf("(%s, %d)", leanStr(n), vals[n]))
			}
			l.add("consts_msg_types", "(name, value) of the Type* constants of message.go; sorted by name", "List (String × Nat)", ccRows(rows))
			rows, def, why := table("TypeText", vals, true)
			if why != "" {
				l.Missing("consts_type_text", why)
			} else {
				l.add("consts_type_text", "(value, TypeText(value)) for every declared type value (TypeText executed); sorted by value", "List (Nat × String)", ccRows(rows))
				l.add("consts_type_text_default", "TypeText of a value no constant has", "String", leanStr(def))
			}
		}
	}
	// status codes
	var codeVals map[string]int64
	{
		names, vals, bad := named("Code")
		codeVals = vals
		if bad != "" || len(names) == 0 {
			l.Missing("consts_codes", "Code* constants of status.go not evaluated ("+bad+")")
		} else {
			var rows []string
			for _, n := range names {
				rows = append(rows, fmt.Sprintf("(%s, %s)", leanStr(n), ccLeanInt(vals[n])))
			}
			l.add("consts_codes", "(name, value) of the Code* constants of status.go; sorted by name", "List (String × Int)", ccRows(rows))
			rows, def, why := table("CodeText", vals, false)
			if why != "" {
				l.Missing("consts_code_text", why)
			} else {
				l.add("consts_code_text", "(value, CodeText(value)) for every declared code value (CodeText executed); sorted by value", "List (Int × String)", ccRows(rows))
				l.add("consts_code_text_default", "CodeText of a value no constant has", "String", leanStr(def))
			}
		}
	}
	_ = codeVals

	// ---- sentinels
	genConstsSentinels(root, env, l)

	// ---- Meta* keys
	{
		var rows []string
		var names []string
		for n := range env.consts {
			if strings.HasPrefix(n, "Meta") {
				names = append(names, n)
			}
		}
		sort.Strings(names)
		ok := len(names) > 0
		for _, n := range names {
			c, good := env.evalName(n)
			if !good || !c.isStr {
				ok = false
				break
			}
			rows = append(rows, fmt.Sprintf("(%s, %s)", leanStr(n), leanStr(c.s)))
		}
		if !ok {
			l.Missing("consts_meta_keys", "Meta* string constants of message.go not evaluated")
		} else {
			l.add("consts_meta_keys", "(name, value) of the Meta* metadata keys of message.go; sorted by name", "List (String × String)", ccRows(rows))
		}
	}

	genConstsCodecs(r, l)
	genConstsProtos(r, l)
	genConstsLimits(r, l)
}

// ccStatusCall recognises NewStatus(code, msg, cause) / status.New(...) and evaluates it.
func ccCause(env *cvEnv, x ast.Expr) (string, bool) {
	if id, ok := flUnparen(x).(*ast.Ident); ok && id.Name == "nil" {
		return "!nil", true
	}
	c, ok := env.eval(x, 0, nil)
	if !ok || !c.isStr {
		return "", false
	}
	return c.s, true
}

type ccSent struct {
	code       int64
	msg, cause string
}

func genConstsSentinels(root *Pkg, env *cvEnv, l *Lean) {
	var names []string
	for n, x := range env.vars {
		if len(n) > 4 && strings.HasPrefix(n, "stat") && n[4] >= 'A' && n[4] <= 'Z' {
			if _, isCall := x.(*ast.CallExpr); isCall {
				names = append(names, n)
			}
		}
	}
	sort.Strings(names)
	done := map[string]ccSent{}
	var resolve func(n string, depth int) (ccSent, string)
	resolve = func(n string, depth int) (ccSent, string) {
		if s, ok := done[n]; ok {
			return s, ""
		}
		if depth > 4 {
			return ccSent{}, n + ": cyclic"
		}
		x, ok := env.vars[n]
		if !ok {
			return ccSent{}, n + ": not a package-level variable"
		}
		c, ok := x.(*ast.CallExpr)
		if !ok {
			return ccSent{}, n + ": initialiser is not a call"
		}
		switch f := c.Fun.(type) {
		case *ast.Ident, *ast.SelectorExpr:
			name := flRaw(f)
			if name == "NewStatus" || name == "status.New" {
				if len(c.Args) != 3 {
					return ccSent{}, n + ": NewStatus without three arguments"
				}
				code, ok1 := env.eval(c.Args[0], 0, nil)
				msg, ok2 := env.eval(c.Args[1], 0, nil)
				cause, ok3 := ccCause(env, c.Args[2])
				if !ok1 || code.isStr || !ok2 || !msg.isStr || !ok3 {
					return ccSent{}, n + ": arguments of NewStatus not evaluated"
				}
				s := ccSent{code.i, msg.s, cause}
				done[n] = s
				return s, ""
			}
			if sel, ok := c.Fun.(*ast.SelectorExpr); ok && sel.Sel.Name == "Copy" {
				base, ok := sel.X.(*ast.Ident)
				if !ok {
					return ccSent{}, n + ": Copy of something that is not a package-level status"
				}
				b, why := resolve(base.Name, depth+1)
				if why != "" {
					return ccSent{}, why
				}
				switch len(c.Args) {
				case 0:
				case 1:
					cause, ok := ccCause(env, c.Args[0])
					if !ok {
						return ccSent{}, n + ": argument of Copy not evaluated"
					}
					if cause != "!nil" {
						b.cause = cause
					}
				default:
					return ccSent{}, n + ": Copy with several arguments"
				}
				done[n] = b
				return b, ""
			}
		}
		return ccSent{}, n + ": initialiser of unrecognised shape " + flRaw(c.Fun)
	}
	var rows []string
	for _, n := range names {
		s, why := resolve(n, 0)
		if why != "" {
			l.Missing("consts_sentinels", why)
			return
		}
		rows = append(rows, fmt.Sprintf("(%s, %s, %s, %s)", leanStr(n), ccLeanInt(s.code), leanStr(s.msg), leanStr(s.cause)))
	}
	if len(rows) == 0 {
		l.Missing("consts_sentinels", "no package-level stat* status found")
		return
	}
	l.add("consts_sentinels", "(name, code, msg, cause text) of every package-level stat* status of the root package, arguments evaluated; `!nil` = nil cause; sorted by name",
		"List (String × Int × String × String)", ccRows(rows))

	// <sentinel>.Copy("literal") sites
	var copies [][]string
	for _, f := range root.Files {
		for _, d := range f.Decls {
			fd, ok := d.(*ast.FuncDecl)
			if !ok || fd.Body == nil {
				continue
			}
			ast.Inspect(fd.Body, func(nd ast.Node) bool {
				c, ok := nd.(*ast.CallExpr)
				if !ok || len(c.Args) != 1 {
					return true
				}
				sel, ok := c.Fun.(*ast.SelectorExpr)
				if !ok || sel.Sel.Name != "Copy" {
					return true
				}
				base, ok := sel.X.(*ast.Ident)
				if !ok {
					return true
				}
				if _, isSent := done[base.Name]; !isSent {
					return true
				}
				if _, isLit := flUnparen(c.Args[0]).(*ast.BasicLit); !isLit {
					if id, isId := flUnparen(c.Args[0]).(*ast.Ident); !isId || env.consts[id.Name].expr == nil {
						return true
					}
				}
				v, ok := env.eval(c.Args[0], 0, nil)
				if ok && v.isStr {
					copies = append(copies, []string{smFuncName(fd), base.Name, v.s})
				}
				return true
			})
		}
	}
	l.add("consts_copy_texts", "(function, sentinel, text) of every <sentinel>.Copy(\"constant text\") in the root package; sorted set",
		"List (String × String × String)", flSortedRows(copies))
}

// ccConstMethod evaluates the single `return <const>` of a niladic method.
func ccConstMethod(env *cvEnv, p *Pkg, recv, name string) (cv, bool) {
	fd := p.Func(recv, name)
	if fd == nil || len(fd.Body.List) != 1 {
		return cv{}, false
	}
	rs, ok := fd.Body.List[0].(*ast.ReturnStmt)
	if !ok || len(rs.Results) != 1 {
		return cv{}, false
	}
	return env.eval(rs.Results[0], 0, nil)
}

func genConstsCodecs(r *Repo, l *Lean) {
	p := r.Pkg("codec")
	if p.Err != nil || len(p.Files) == 0 {
		l.Missing("consts_codecs", "package codec does not parse")
		return
	}
	env := cvNewEnv(r, "codec")
	// registered types: Reg(new(T)) / Reg(&T{}) / Reg(T{}) inside init functions
	reg := map[string]bool{}
	bad := ""
	for _, f := range p.Files {
		for _, d := range f.Decls {
			fd, ok := d.(*ast.FuncDecl)
			if !ok || fd.Recv != nil || fd.Name.Name != "init" || fd.Body == nil {
				continue
			}
			ast.Inspect(fd.Body, func(n ast.Node) bool {
				c, ok := n.(*ast.CallExpr)
				if !ok || flCalleeName(c) != "Reg" || len(c.Args) != 1 {
					return true
				}
				a := flUnparen(c.Args[0])
				if nc, ok := a.(*ast.CallExpr); ok && flCalleeName(nc) == "new" && len(nc.Args) == 1 {
					reg[flBaseType(nc.Args[0])] = true
				} else if u, ok := a.(*ast.UnaryExpr); ok && u.Op == token.AND {
					if cl, ok := u.X.(*ast.CompositeLit); ok {
						reg[flBaseType(cl.Type)] = true
					} else {
						bad = flRaw(a)
					}
				} else if cl, ok := a.(*ast.CompositeLit); ok {
					reg[flBaseType(cl.Type)] = true
				} else {
					bad = flRaw(a)
				}
				return true
			})
		}
	}
	if bad != "" || len(reg) == 0 {
		l.Missing("consts_codecs", "codec registration of unrecognised shape: "+bad)
		return
	}
	var types []string
	for t := range reg {
		types = append(types, t)
	}
	sort.Strings(types)
	var rows []string
	for _, t := range types {
		id, ok1 := ccConstMethod(env, p, t, "ID")
		nm, ok2 := ccConstMethod(env, p, t, "Name")
		if !ok1 || !ok2 || id.isStr || !nm.isStr || id.i < 0 || id.i > 255 {
			l.Missing("consts_codecs", "ID()/Name() of "+t+" not evaluated")
			return
		}
		rows = append(rows, fmt.Sprintf("(%s, %d, %s)", leanStr(t), id.i, leanStr(nm.s)))
	}
	l.add("consts_codecs", "(type, ID(), Name()) of every codec that an init() of package codec registers; sorted by type", "List (String × Nat × String)", ccRows(rows))
	nid, ok1 := env.evalName("NilCodecID")
	nnm, ok2 := env.evalName("NilCodecName")
	if !ok1 || !ok2 || nid.isStr || !nnm.isStr || nid.i < 0 {
		l.Missing("consts_nil_codec_id", "NilCodecID / NilCodecName not evaluated")
	} else {
		l.Nat("consts_nil_codec_id", "codec.NilCodecID", uint64(nid.i))
		l.add("consts_nil_codec_name", "codec.NilCodecName", "String", leanStr(nnm.s))
	}
	// codec.Get: the format of the unknown-id error
	fmtStr := ""
	if fd := p.Func("", "Get"); fd != nil {
		n := 0
		ast.Inspect(fd.Body, func(nd ast.Node) bool {
			c, ok := nd.(*ast.CallExpr)
			if ok && (flRaw(c.Fun) == "fmt.Errorf" || flRaw(c.Fun) == "errors.New") && len(c.Args) >= 1 {
				if v, ok := env.eval(c.Args[0], 0, nil); ok && v.isStr {
					fmtStr = v.s
					n++
				}
			}
			return true
		})
		if n != 1 {
			fmtStr = ""
		}
	}
	if fmtStr == "" {
		l.Missing("consts_codec_unsupported", "codec.Get: exactly one error with a constant format expected")
	} else {
		l.add("consts_codec_unsupported", "format string of the error codec.Get returns for an unregistered id", "String", leanStr(fmtStr))
	}
}

var ccProtoDirs = []string{"socket", "proto/jsonproto", "proto/pbproto", "proto/httproto", "proto/thriftproto"}

func genConstsProtos(r *Repo, l *Lean) {
	var rows [][]string
	for _, dir := range ccProtoDirs {
		p := r.Pkg(dir)
		if p.Err != nil || len(p.Files) == 0 {
			l.Missing("consts_protos", "package "+dir+" does not parse")
			return
		}
		env := cvNewEnv(r, dir)
		// types with a method Version() that returns <recv>.id, <recv>.name
		found := 0
		for _, f := range p.Files {
			for _, d := range f.Decls {
				fd, ok := d.(*ast.FuncDecl)
				if !ok || fd.Name.Name != "Version" || fd.Recv == nil || fd.Body == nil {
					continue
				}
				t := recvTypeName(fd)
				rv := recvVarName(fd)
				var idF, nameF string
				if len(fd.Body.List) == 1 {
					if rs, ok := fd.Body.List[0].(*ast.ReturnStmt); ok && len(rs.Results) == 2 {
						a, ok1 := rs.Results[0].(*ast.SelectorExpr)
						b, ok2 := rs.Results[1].(*ast.SelectorExpr)
						if ok1 && ok2 && flRaw(a.X) == rv && flRaw(b.X) == rv {
							idF, nameF = a.Sel.Name, b.Sel.Name
						}
					}
				}
				if idF == "" {
					l.Missing("consts_protos", dir+": "+t+".Version of unrecognised shape")
					return
				}
				// composite literals of that type
				n := 0
				for _, f2 := range p.Files {
					ast.Inspect(f2, func(nd ast.Node) bool {
						cl, ok := nd.(*ast.CompositeLit)
						if !ok || cl.Type == nil || flBaseType(cl.Type) != t {
							return true
						}
						var id, nm *cv
						for _, el := range cl.Elts {
							kv, ok := el.(*ast.KeyValueExpr)
							if !ok {
								continue
							}
							k := flRaw(kv.Key)
							if k == idF || k == nameF {
								if v, ok := env.eval(kv.Value, 0, nil); ok {
									vv := v
									if k == idF {
										id = &vv
									} else {
										nm = &vv
									}
								}
							}
						}
						if id != nil && nm != nil && !id.isStr && nm.isStr {
							rows = append(rows, []string{dir + ":" + t, fmt.Sprint(id.i), nm.s})
							n++
						}
						return true
					})
				}
				if n != 1 {
					l.Missing("consts_protos", fmt.Sprintf("%s: %d literals of %s with constant id and name", dir, n, t))
					return
				}
				found++
			}
		}
		if found == 0 {
			l.Missing("consts_protos", dir+": no protocol type with a Version method")
			return
		}
	}
	sort.Slice(rows, func(i, j int) bool { return rows[i][0] < rows[j][0] })
	var out []string
	for _, r := range rows {
		out = append(out, fmt.Sprintf("(%s, %s, %s)", leanStr(r[0]), r[1], leanStr(r[2])))
	}
	l.add("consts_protos", "(package:type, id, name) of the shipped wire protocols, from the literal whose fields Version() returns; sorted", "List (String × Nat × String)", ccRows(out))
}

func genConstsLimits(r *Repo, l *Lean) {
	// socket: default size limit and SetMessageSizeLimit
	{
		env := cvNewEnv(r, "socket")
		d, ok := env.evalName("defaultMessageSizeLimit")
		if !ok || d.isStr || d.i < 0 {
			l.Missing("consts_size_limit_default", "socket.defaultMessageSizeLimit not evaluated")
		} else {
			l.Nat("consts_size_limit_default", "socket.defaultMessageSizeLimit", uint64(d.i))
			// SetMessageSizeLimit(x): the value assigned to messageSizeLimit — executed through a copy of the
			// body in which the assignment is read as a return
			p := r.Pkg("socket")
			fd := p.Func("", "SetMessageSizeLimit")
			var rows []string
			good := fd != nil && fd.Type.Params != nil && len(fd.Type.Params.List) == 1 && len(fd.Type.Params.List[0].Names) == 1
			if good {
				param := fd.Type.Params.List[0].Names[0].Name
				for _, a := range []int64{0, 1, 4096} {
					v, ok := ccAssigned(env, fd.Body.List, "messageSizeLimit", map[string]cv{param: {i: a}})
					if !ok {
						good = false
						break
					}
					rows = append(rows, fmt.Sprintf("(%d, %d)", a, v))
				}
			}
			if !good {
				l.Missing("consts_size_limit_rule", "SetMessageSizeLimit could not be executed")
			} else {
				l.add("consts_size_limit_rule", "(argument, resulting messageSizeLimit) of SetMessageSizeLimit, executed", "List (Nat × Nat)", ccRows(rows))
			}
		}
	}
	// xfer: pipe length limits
	{
		p := r.Pkg("xfer")
		env := cvNewEnv(r, "xfer")
		isLen := func(e ast.Expr) bool {
			found := false
			ast.Inspect(e, func(n ast.Node) bool {
				if c, ok := n.(*ast.CallExpr); ok {
					if nm := flCalleeName(c); nm == "Len" || nm == "len" {
						found = true
					}
				}
				return true
			})
			return found
		}
		var rows []string
		for _, fn := range []string{"check", "AppendFrom"} {
			fd := p.Func("XferPipe", fn)
			if fd == nil {
				l.Missing("consts_len_limits", "XferPipe."+fn+" not found")
				return
			}
			var lims []int64
			ast.Inspect(fd.Body, func(nd ast.Node) bool {
				is, ok := nd.(*ast.IfStmt)
				if !ok {
					return true
				}
				if v, ok := env.cvLimit(is.Cond, isLen); ok {
					lims = append(lims, v)
				}
				return true
			})
			if len(lims) != 1 || lims[0] < 0 {
				l.Missing("consts_len_limits", fmt.Sprintf("XferPipe.%s: %d length comparisons with a constant", fn, len(lims)))
				return
			}
			rows = append(rows, fmt.Sprintf("(%s, %d)", leanStr("XferPipe."+fn), lims[0]))
		}
		l.add("consts_len_limits", "(site, largest accepted pipe length) of the explicit length checks of xfer/xfer.go", "List (String × Nat)", ccRows(rows))
	}
	{
		env := cvNewEnv(r, "xfer/md5")
		d, ok := env.evalName("md5Length")
		if !ok || d.isStr || d.i < 0 {
			l.Missing("consts_md5_length", "xfer/md5 md5Length not evaluated")
		} else {
			l.Nat("consts_md5_length", "xfer/md5 md5Length", uint64(d.i))
		}
	}
}

// ccAssigned executes a statement list made of if/else and assignments and returns the value last
// assigned to the package-level variable `target`.
func ccAssigned(env *cvEnv, list []ast.Stmt, target string, loc map[string]cv) (int64, bool) {
	var val *int64
	var run func(list []ast.Stmt) bool
	run = func(list []ast.Stmt) bool {
		for _, s := range list {
			switch v := s.(type) {
			case *ast.AssignStmt:
				if len(v.Lhs) != 1 || len(v.Rhs) != 1 || flRaw(v.Lhs[0]) != target || v.Tok != token.ASSIGN {
					return false
				}
				c, ok := env.eval(v.Rhs[0], 0, loc)
				if !ok || c.isStr {
					return false
				}
				x := c.i
				val = &x
			case *ast.IfStmt:
				if v.Init != nil {
					return false
				}
				b, ok := env.cond(v.Cond, loc)
				if !ok {
					return false
				}
				if b {
					if !run(v.Body.List) {
						return false
					}
				} else if v.Else != nil {
					switch e := v.Else.(type) {
					case *ast.BlockStmt:
						if !run(e.List) {
							return false
						}
					case *ast.IfStmt:
						if !run([]ast.Stmt{e}) {
							return false
						}
					}
				}
			case *ast.ReturnStmt:
				return true
			default:
				return false
			}
		}
		return true
	}
	if !run(list) || val == nil {
		return 0, false
	}
	return *val, true
}
