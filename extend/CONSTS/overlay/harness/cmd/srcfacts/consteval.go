package main

// consteval.go — constant evaluation for the fact groups Consts / CodecArms / RouterFacts.
//
// cvEnv evaluates the constant expressions of one package directory: integer, character and string
// literals, references to constants of the same package (with `iota` and the implicit repetition of
// the previous expression list), package-level variables that are initialised with a constant
// expression (`var defaultMessageSizeLimit uint32 = (1 << 20) * 1024`), a few standard-library
// constants (math.MaxUint8, gzip.BestCompression, …), constants of other packages of the repository
// (`codec.NilCodecID`), conversions (`int32(x)`, `byte(x)`, `string(rune)`), unary and binary operators.
// It also EXECUTES one-argument "text table" functions (CodeText, TypeText): a body made of `switch`
// (with or without tag, `fallthrough`, `default`), `if`/`else if` chains over comparisons of the
// parameter with constants, and `return <constant expression>`. The facts are therefore value tables and
// do not depend on how the function is spelled (switch or if chain, order of the cases, named or literal
// texts). Anything outside the subset fails (ok = false) and the fact is reported MISSING.

import (
	"go/ast"
	"go/token"
	"strconv"
)

type cv struct {
	isStr bool
	s     string
	i     int64
}

type cvDecl struct {
	expr ast.Expr
	iota int64
}

type cvEnv struct {
	r      *Repo
	dir    string
	pkg    *Pkg
	consts map[string]cvDecl
	vars   map[string]ast.Expr
	imps   map[string]string // import name -> import path
	busy   map[string]bool
	depth  int
}

var cvStd = map[string]int64{
	"math.MaxUint8": 255, "math.MaxUint16": 65535, "math.MaxUint32": 4294967295,
	"math.MaxInt8": 127, "math.MaxInt16": 32767, "math.MaxInt32": 2147483647,
	"gzip.NoCompression": 0, "gzip.BestSpeed": 1, "gzip.BestCompression": 9,
	"gzip.DefaultCompression": -1, "gzip.HuffmanOnly": -2,
}

const cvModule = "github.com/henrylee2cn/erpc/v6"

func cvNewEnv(r *Repo, dir string) *cvEnv {
	p := r.Pkg(dir)
	e := &cvEnv{r: r, dir: dir, pkg: p, consts: map[string]cvDecl{}, vars: map[string]ast.Expr{}, imps: map[string]string{}, busy: map[string]bool{}}
	for _, f := range p.Files {
		for _, im := range f.Imports {
			path, err := strconv.Unquote(im.Path.Value)
			if err != nil {
				continue
			}
			name := path
			for i := len(path) - 1; i >= 0; i-- {
				if path[i] == '/' {
					name = path[i+1:]
					break
				}
			}
			if im.Name != nil {
				name = im.Name.Name
			}
			e.imps[name] = path
		}
		for _, d := range f.Decls {
			gd, ok := d.(*ast.GenDecl)
			if !ok {
				continue
			}
			switch gd.Tok {
			case token.CONST:
				var last []ast.Expr
				for i, s := range gd.Specs {
					vs := s.(*ast.ValueSpec)
					if len(vs.Values) > 0 {
						last = vs.Values
					}
					for j, n := range vs.Names {
						if j < len(last) {
							e.consts[n.Name] = cvDecl{expr: last[j], iota: int64(i)}
						}
					}
				}
			case token.VAR:
				for _, s := range gd.Specs {
					vs := s.(*ast.ValueSpec)
					if len(vs.Values) == len(vs.Names) {
						for j, n := range vs.Names {
							e.vars[n.Name] = vs.Values[j]
						}
					}
				}
			}
		}
	}
	return e
}

func cvInt(i int64) (cv, bool)  { return cv{i: i}, true }
func cvStr(s string) (cv, bool) { return cv{isStr: true, s: s}, true }

// evalName evaluates a package-level constant or constant-initialised variable.
func (e *cvEnv) evalName(name string) (cv, bool) {
	if e.busy[name] {
		return cv{}, false
	}
	e.busy[name] = true
	defer delete(e.busy, name)
	if d, ok := e.consts[name]; ok {
		return e.eval(d.expr, d.iota, nil)
	}
	if x, ok := e.vars[name]; ok {
		return e.eval(x, 0, nil)
	}
	return cv{}, false
}

// eval evaluates expr; loc binds local names (a function parameter) to values.
func (e *cvEnv) eval(x ast.Expr, iota int64, loc map[string]cv) (cv, bool) {
	e.depth++
	defer func() { e.depth-- }()
	if e.depth > 64 {
		return cv{}, false
	}
	switch v := x.(type) {
	case *ast.ParenExpr:
		return e.eval(v.X, iota, loc)
	case *ast.BasicLit:
		switch v.Kind {
		case token.INT:
			n, err := strconv.ParseInt(v.Value, 0, 64)
			if err != nil {
				return cv{}, false
			}
			return cvInt(n)
		case token.CHAR:
			r, _, _, err := strconv.UnquoteChar(v.Value[1:len(v.Value)-1], '\'')
			if err != nil {
				return cv{}, false
			}
			return cvInt(int64(r))
		case token.STRING:
			s, err := strconv.Unquote(v.Value)
			if err != nil {
				return cv{}, false
			}
			return cvStr(s)
		}
		return cv{}, false
	case *ast.Ident:
		if loc != nil {
			if c, ok := loc[v.Name]; ok {
				return c, true
			}
		}
		if v.Name == "iota" {
			return cvInt(iota)
		}
		return e.evalName(v.Name)
	case *ast.SelectorExpr:
		id, ok := v.X.(*ast.Ident)
		if !ok {
			return cv{}, false
		}
		key := id.Name + "." + v.Sel.Name
		if path, ok := e.imps[id.Name]; ok {
			if len(path) > len(cvModule) && path[:len(cvModule)+1] == cvModule+"/" {
				return cvNewEnv(e.r, path[len(cvModule)+1:]).evalName(v.Sel.Name)
			}
			base := path
			for i := len(path) - 1; i >= 0; i-- {
				if path[i] == '/' {
					base = path[i+1:]
					break
				}
			}
			key = base + "." + v.Sel.Name
		}
		if n, ok := cvStd[key]; ok {
			return cvInt(n)
		}
		return cv{}, false
	case *ast.UnaryExpr:
		a, ok := e.eval(v.X, iota, loc)
		if !ok || a.isStr {
			return cv{}, false
		}
		switch v.Op {
		case token.SUB:
			return cvInt(-a.i)
		case token.ADD:
			return cvInt(a.i)
		case token.XOR:
			return cvInt(^a.i)
		}
		return cv{}, false
	case *ast.BinaryExpr:
		a, ok1 := e.eval(v.X, iota, loc)
		b, ok2 := e.eval(v.Y, iota, loc)
		if !ok1 || !ok2 || a.isStr != b.isStr {
			return cv{}, false
		}
		if a.isStr {
			if v.Op == token.ADD {
				return cvStr(a.s + b.s)
			}
			return cv{}, false
		}
		switch v.Op {
		case token.ADD:
			return cvInt(a.i + b.i)
		case token.SUB:
			return cvInt(a.i - b.i)
		case token.MUL:
			return cvInt(a.i * b.i)
		case token.QUO:
			if b.i == 0 {
				return cv{}, false
			}
			return cvInt(a.i / b.i)
		case token.REM:
			if b.i == 0 {
				return cv{}, false
			}
			return cvInt(a.i % b.i)
		case token.SHL:
			if b.i < 0 || b.i > 62 {
				return cv{}, false
			}
			return cvInt(a.i << uint(b.i))
		case token.SHR:
			if b.i < 0 || b.i > 62 {
				return cv{}, false
			}
			return cvInt(a.i >> uint(b.i))
		case token.OR:
			return cvInt(a.i | b.i)
		case token.AND:
			return cvInt(a.i & b.i)
		case token.XOR:
			return cvInt(a.i ^ b.i)
		}
		return cv{}, false
	case *ast.CallExpr:
		if len(v.Args) != 1 {
			return cv{}, false
		}
		fn, ok := v.Fun.(*ast.Ident)
		if !ok {
			return cv{}, false
		}
		a, ok := e.eval(v.Args[0], iota, loc)
		if !ok {
			return cv{}, false
		}
		switch fn.Name {
		case "int", "int8", "int16", "int32", "int64", "uint", "uint8", "uint16", "uint32", "uint64", "byte", "rune":
			if a.isStr {
				return cv{}, false
			}
			return a, true
		case "string":
			if a.isStr {
				return a, true
			}
			return cvStr(string(rune(a.i)))
		case "len":
			if !a.isStr {
				return cv{}, false
			}
			return cvInt(int64(len(a.s)))
		}
		if fd := e.pkg.Func("", fn.Name); fd != nil {
			return e.callFunc(fd, a)
		}
		return cv{}, false
	}
	return cv{}, false
}

// callFunc executes a one-parameter, one-result table function on arg.
func (e *cvEnv) callFunc(fd *ast.FuncDecl, arg cv) (cv, bool) {
	if fd.Type.Params == nil || len(fd.Type.Params.List) != 1 || len(fd.Type.Params.List[0].Names) != 1 ||
		fd.Type.Results == nil || len(fd.Type.Results.List) != 1 {
		return cv{}, false
	}
	loc := map[string]cv{fd.Type.Params.List[0].Names[0].Name: arg}
	res, ret, ok := e.execList(fd.Body.List, loc)
	if !ok || !ret {
		return cv{}, false
	}
	return res, true
}

func (e *cvEnv) execList(list []ast.Stmt, loc map[string]cv) (res cv, returned, ok bool) {
	for _, s := range list {
		res, returned, ok = e.exec(s, loc)
		if !ok || returned {
			return
		}
	}
	return cv{}, false, true
}

func (e *cvEnv) exec(s ast.Stmt, loc map[string]cv) (cv, bool, bool) {
	switch v := s.(type) {
	case *ast.ReturnStmt:
		if len(v.Results) != 1 {
			return cv{}, false, false
		}
		c, ok := e.eval(v.Results[0], 0, loc)
		return c, true, ok
	case *ast.BlockStmt:
		return e.execList(v.List, loc)
	case *ast.IfStmt:
		if v.Init != nil {
			return cv{}, false, false
		}
		b, ok := e.cond(v.Cond, loc)
		if !ok {
			return cv{}, false, false
		}
		if b {
			return e.execList(v.Body.List, loc)
		}
		if v.Else != nil {
			return e.exec(v.Else, loc)
		}
		return cv{}, false, true
	case *ast.SwitchStmt:
		if v.Init != nil {
			return cv{}, false, false
		}
		var tag *cv
		if v.Tag != nil {
			t, ok := e.eval(v.Tag, 0, loc)
			if !ok {
				return cv{}, false, false
			}
			tag = &t
		}
		start, def := -1, -1
		for i, c := range v.Body.List {
			cc := c.(*ast.CaseClause)
			if cc.List == nil {
				def = i
				continue
			}
			if start >= 0 {
				continue
			}
			for _, x := range cc.List {
				if tag != nil {
					c, ok := e.eval(x, 0, loc)
					if !ok {
						return cv{}, false, false
					}
					if c == *tag {
						start = i
						break
					}
				} else {
					b, ok := e.cond(x, loc)
					if !ok {
						return cv{}, false, false
					}
					if b {
						start = i
						break
					}
				}
			}
		}
		if start < 0 {
			start = def
		}
		if start < 0 {
			return cv{}, false, true
		}
		for i := start; i < len(v.Body.List); i++ {
			body := v.Body.List[i].(*ast.CaseClause).Body
			ft := false
			if n := len(body); n > 0 {
				if br, ok := body[n-1].(*ast.BranchStmt); ok && br.Tok == token.FALLTHROUGH {
					ft = true
					body = body[:n-1]
				}
			}
			res, ret, ok := e.execList(body, loc)
			if !ok || ret {
				return res, ret, ok
			}
			if !ft {
				break
			}
		}
		return cv{}, false, true
	}
	return cv{}, false, false
}

func (e *cvEnv) cond(x ast.Expr, loc map[string]cv) (bool, bool) {
	switch v := x.(type) {
	case *ast.ParenExpr:
		return e.cond(v.X, loc)
	case *ast.UnaryExpr:
		if v.Op == token.NOT {
			b, ok := e.cond(v.X, loc)
			return !b, ok
		}
	case *ast.BinaryExpr:
		switch v.Op {
		case token.LAND, token.LOR:
			a, ok1 := e.cond(v.X, loc)
			b, ok2 := e.cond(v.Y, loc)
			if !ok1 || !ok2 {
				return false, false
			}
			if v.Op == token.LAND {
				return a && b, true
			}
			return a || b, true
		case token.EQL, token.NEQ, token.LSS, token.LEQ, token.GTR, token.GEQ:
			a, ok1 := e.eval(v.X, 0, loc)
			b, ok2 := e.eval(v.Y, 0, loc)
			if !ok1 || !ok2 || a.isStr != b.isStr {
				return false, false
			}
			if a.isStr {
				switch v.Op {
				case token.EQL:
					return a.s == b.s, true
				case token.NEQ:
					return a.s != b.s, true
				}
				return false, false
			}
			switch v.Op {
			case token.EQL:
				return a.i == b.i, true
			case token.NEQ:
				return a.i != b.i, true
			case token.LSS:
				return a.i < b.i, true
			case token.LEQ:
				return a.i <= b.i, true
			case token.GTR:
				return a.i > b.i, true
			case token.GEQ:
				return a.i >= b.i, true
			}
		}
	}
	return false, false
}

// cvLimit recognises a comparison of a length expression with a constant and returns the largest
// length that does NOT satisfy it (`len > C` → C, `len >= C` → C-1, `C < len` → C, `!(len <= C)` → C).
// isLen decides which operand is the length.
func (e *cvEnv) cvLimit(x ast.Expr, isLen func(ast.Expr) bool) (int64, bool) {
	x = flUnparen(x)
	if u, ok := x.(*ast.UnaryExpr); ok && u.Op == token.NOT {
		// !(len <= C)  ==  len > C ; !(len < C) == len >= C
		b, ok := flUnparen(u.X).(*ast.BinaryExpr)
		if !ok {
			return 0, false
		}
		inv := map[token.Token]token.Token{token.LEQ: token.GTR, token.LSS: token.GEQ, token.GEQ: token.LSS, token.GTR: token.LEQ}
		op, ok := inv[b.Op]
		if !ok {
			return 0, false
		}
		return e.cvLimit(&ast.BinaryExpr{X: b.X, Op: op, Y: b.Y}, isLen)
	}
	b, ok := x.(*ast.BinaryExpr)
	if !ok {
		return 0, false
	}
	l, r, op := b.X, b.Y, b.Op
	if !isLen(l) && isLen(r) {
		l, r = r, l
		flip := map[token.Token]token.Token{token.LSS: token.GTR, token.LEQ: token.GEQ, token.GTR: token.LSS, token.GEQ: token.LEQ}
		f, ok := flip[op]
		if !ok {
			return 0, false
		}
		op = f
	}
	if !isLen(l) {
		return 0, false
	}
	c, ok := e.eval(r, 0, nil)
	if !ok || c.isStr {
		return 0, false
	}
	switch op {
	case token.GTR:
		return c.i, true
	case token.GEQ:
		return c.i - 1, true
	}
	return 0, false
}
