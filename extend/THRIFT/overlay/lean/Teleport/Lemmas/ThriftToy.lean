import Teleport.Lemmas.ThriftProto
import Teleport.Drv.C05t
/-
Lemmas/ThriftToy — the law assumed of the thrift library (`ThriftP.Lawful`) is satisfiable: the driver's
executable self-delimiting codec `Drv.D05t.toyT` (unary lengths, little-endian base-256 integers) meets
it for every frame with an int32 sequence number.  Used for the non-vacuity of the C05 thrift theorems
and by the driver's `thriftstream` handler (which runs the model's Pack/Unpack over `toyT`).
-/
namespace Teleport.Drv.D05t
open Teleport ThriftP

theorem decNat_one (l : Bytes) : decNat (1 :: l) = (decNat l).map (fun x => (x.1 + 1, x.2)) := by
  unfold decNat
  simp only [List.takeWhile_cons, beq_self_eq_true, if_true, List.length_cons, List.drop_succ_cons]
  split <;> simp_all

theorem decNat_encNat (n : Nat) (r : Bytes) : decNat (encNat n ++ r) = some (n, r) := by
  induction n with
  | zero => simp [encNat, decNat]
  | succ k ih =>
    have : encNat (k + 1) ++ r = 1 :: (encNat k ++ r) := by simp [encNat, List.replicate_succ]
    rw [this, decNat_one, ih]; rfl

theorem decBytes_encBytes (b r : Bytes) : decBytes (encBytes b ++ r) = some (b, r) := by
  unfold decBytes encBytes
  rw [List.append_assoc, decNat_encNat]
  simp

theorem foldr_natBytes (f n : Nat) (h : n < 256 ^ f) :
    (natBytes f n).foldr (fun c acc => c.toNat + 256 * acc) 0 = n := by
  induction f generalizing n with
  | zero => simp at h; simp [natBytes, h]
  | succ k ih =>
    unfold natBytes
    split
    · simp_all
    · have h2 : n / 256 < 256 ^ k := by
        rw [Nat.div_lt_iff_lt_mul (by decide)]; rw [Nat.pow_succ] at h; omega
      have h3 : ((n % 256).toUInt8).toNat = n % 256 := by
        have := Raw.toUInt8_toNat (n % 256) (Nat.mod_lt _ (by decide))
        rwa [Nat.mod_mod] at this
      simp only [List.foldr_cons, ih _ h2, h3]
      omega

theorem decInt_encInt (i : Int) (h : Num.inInt32 i) (r : Bytes) : decInt (encInt i ++ r) = some (i, r) := by
  unfold Num.inInt32 at h
  have hn : i.natAbs < 256 ^ 8 := by
    have : (256 : Nat) ^ 8 = 18446744073709551616 := by decide
    omega
  unfold encInt decInt
  by_cases hi : i < 0
  · simp [hi, decBytes_encBytes, foldr_natBytes 8 _ hn]; omega
  · simp [hi, decBytes_encBytes, foldr_natBytes 8 _ hn]; omega

theorem decPayload_enc (p : Payload) (r : Bytes) : decPayload (encPayload p ++ r) = some (p, r) := by
  cases p <;> simp [encPayload, decPayload, decBytes_encBytes]

theorem decHdrN_enc (h : HMap) (r : Bytes) :
    decHdrN h.length (h.flatMap (fun kv => encBytes kv.1 ++ encBytes kv.2) ++ r) = some (h, r) := by
  induction h with
  | nil => simp [decHdrN]
  | cons kv t ih =>
    simp [decHdrN, decBytes_encBytes, ih]

theorem toyDec_toyEnc (f : TFrame) (rest : Bytes) (hs : Num.inInt32 f.seq) (hp : f.payload ≠ .none) :
    toyDec (asStruct f.payload) (toyEnc f ++ rest) = .ok (f, rest) := by
  obtain ⟨name, ty, seq, pl, hdr⟩ := f
  unfold toyEnc toyDec encHdr
  cases pl with
  | none => exact absurd rfl hp
  | bin b => simp [asStruct, decBytes_encBytes, decNat_encNat, decInt_encInt seq hs, decPayload_enc, decHdrN_enc]
  | struct b => simp [asStruct, decBytes_encBytes, decNat_encNat, decInt_encInt seq hs, decPayload_enc, decHdrN_enc]

theorem toyT_lawful : Lawful toyT (fun f => Num.inInt32 f.seq) :=
  ⟨fun f rest hs hp => ⟨f.hdr, toyDec_toyEnc f rest hs hp, fun _ => rfl⟩⟩

end Teleport.Drv.D05t
