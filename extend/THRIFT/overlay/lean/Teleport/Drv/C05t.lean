import Teleport.Drv.C05
import Teleport.Model.ThriftProto
/-
Drv/C05t — case kinds `thriftpack`, `thriftunpack`, `thriftstream`: the model of
`proto/thriftproto` (Model/ThriftProto) on the line protocol.  The thrift library is a parameter of
the model; the driver instantiates it three ways:
  * `lenT`  — `enc` has the LENGTH the THeader / TBinaryProtocol wire format gives a frame (`wireLen`:
              4 length bytes, 10 bytes of fixed header, the header block padded to 4, message begin,
              payload); used for the sizes `Pack` records. Validated against the real library on every
              `thriftpack` case (size= and written=).
  * `toyT`  — a self-delimiting executable encoding with an exact decoder, used to run whole streams
              through `Pack`/`Unpack` of the model and to show which frame `Pack` handed to the library.
  * the case line's `dec=` — what the real library alone decoded from the bytes of a `thriftunpack`
              case; `pulled=` is the number of bytes it took from the connection doing so.
-/
namespace Teleport.Drv
namespace D05t
open Teleport ThriftP

/-! ### wire lengths of THeader + TBinaryProtocol (strict write) -/

def varintLen (n : Nat) : Nat :=
  if n < 128 then 1 else if n < 16384 then 2 else if n < 2097152 then 3 else if n < 268435456 then 4 else 5

def hdrInfoLen (h : HMap) : Nat :=
  if h.isEmpty then 0
  else 1 + varintLen h.length
    + (h.map (fun kv => varintLen kv.1.length + kv.1.length + varintLen kv.2.length + kv.2.length)).sum

def pad4 (n : Nat) : Nat := (n + 3) / 4 * 4

def payloadLen : Payload → Nat
  | .bin b => 4 + b.length
  | .struct b => 8 + b.length      -- the harness's Blob: field header 3, length 4, stop 1
  | .none => 0

def wireLen (f : TFrame) : Nat :=
  4 + 10 + pad4 (2 + hdrInfoLen f.hdr) + (12 + f.name.length) + payloadLen f.payload

def lenT : THeader := { enc := fun f => List.replicate (wireLen f) 0, dec := fun _ _ => .error "unmodelled" }

/-! ### an executable self-delimiting codec -/

def encNat (n : Nat) : Bytes := List.replicate n 1 ++ [0]
def encBytes (b : Bytes) : Bytes := encNat b.length ++ b
/-- little-endian base-256 digits (8 are enough for every int32 / frame count). -/
def natBytes : Nat → Nat → Bytes
  | 0, _ => []
  | f + 1, n => if n = 0 then [] else (n % 256).toUInt8 :: natBytes f (n / 256)
def encInt (i : Int) : Bytes := (if i < 0 then 1 else 0) :: encBytes (natBytes 8 i.natAbs)
def encPayload : Payload → Bytes
  | .bin b => 0 :: encBytes b
  | .struct b => 1 :: encBytes b
  | .none => [2]
def encHdr (h : HMap) : Bytes := encNat h.length ++ h.flatMap (fun kv => encBytes kv.1 ++ encBytes kv.2)

def toyEnc (f : TFrame) : Bytes :=
  240 :: encBytes f.name ++ encNat f.typeID ++ encInt f.seq ++ encPayload f.payload ++ encHdr f.hdr

def decNat (l : Bytes) : Option (Nat × Bytes) :=
  let n := (l.takeWhile (· == 1)).length
  match l.drop n with
  | 0 :: r => some (n, r)
  | _ => none

def decBytes (l : Bytes) : Option (Bytes × Bytes) := do
  let (n, r) ← decNat l
  if r.length < n then none else some (r.take n, r.drop n)

def decInt : Bytes → Option (Int × Bytes)
  | [] => none
  | s :: l => do
    let (b, r) ← decBytes l
    let n : Nat := b.foldr (fun c acc => c.toNat + 256 * acc) 0
    some (if s = 1 then -(n : Int) else (n : Int), r)

def decPayload : Bytes → Option (Payload × Bytes)
  | 0 :: r => (decBytes r).map (fun x => (.bin x.1, x.2))
  | 1 :: r => (decBytes r).map (fun x => (.struct x.1, x.2))
  | 2 :: r => some (.none, r)
  | _ => none

def decHdrN : Nat → Bytes → Option (HMap × Bytes)
  | 0, l => some ([], l)
  | n + 1, l => do
    let (k, r1) ← decBytes l
    let (v, r2) ← decBytes r1
    let (h, r3) ← decHdrN n r2
    some ((k, v) :: h, r3)

def toyDec (asStruct : Bool) (l : Bytes) : Except String (TFrame × Bytes) :=
  match l with
  | [] => .error "eof"
  | 240 :: r0 =>
    let x : Option (TFrame × Bytes) := do
      let (name, r1) ← decBytes r0
      let (ty, r2) ← decNat r1
      let (seq, r3) ← decInt r2
      let (pl, r4) ← decPayload r3
      let (n, r5) ← decNat r4
      let (h, r6) ← decHdrN n r5
      -- reading a struct where a binary was written (or the reverse) fails in the library
      let okKind := match pl with | .bin _ => !asStruct | .struct _ => asStruct | .none => false
      if okKind then some ({ name, typeID := ty, seq, payload := pl, hdr := h }, r6) else none
    match x with
    | some v => .ok v
    | none => .error "err:thrift"
  | _ => .error "err:thrift"

def toyT : THeader := { enc := toyEnc, dec := toyDec }

/-! ### printing -/

def lexLt : Bytes → Bytes → Bool
  | [], [] => false
  | [], _ :: _ => true
  | _ :: _, [] => false
  | a :: as, b :: bs => if a < b then true else if b < a then false else lexLt as bs

def insertKV (p : Bytes × Bytes) : HMap → HMap
  | [] => [p]
  | q :: r => if lexLt p.1 q.1 then p :: q :: r else q :: insertKV p r

def sortHdr (h : HMap) : HMap := h.foldr insertKV []

def showFrame (f : TFrame) : String :=
  let (k, p) := match f.payload with
    | .bin b => ("b", b)
    | .struct b => ("s", b)
    | .none => ("n", [])
  s!"{hexOr f.name};{f.typeID};{f.seq};{k};{hexOr p};{showKVs (sortHdr f.hdr)}"

def showWritten (w : Bytes) (asStruct : Bool) : String :=
  if w.isEmpty then "-" else
  match w with
  | 240 :: r0 =>
    -- the payload kind is whatever was written
    let x : Option TFrame := do
      let (name, r1) ← decBytes r0
      let (ty, r2) ← decNat r1
      let (seq, r3) ← decInt r2
      let (pl, r4) ← decPayload r3
      let (n, r5) ← decNat r4
      let (h, _) ← decHdrN n r5
      some { name, typeID := ty, seq, payload := pl, hdr := h }
    match x with
    | some f => showFrame f
    | none => "undecodable"
  | _ => if asStruct then "undecodable" else "undecodable"

def errName : PackErr → String
  | .xfer => "xfer" | .size => "size" | .pipe => "pipe" | .codec => "codec" | .notStruct => "notstruct"

def packWith (T : THeader) (proto : String) (lim : Nat) (st : PState) (isStruct : Bool) (m : Msg) : PackRes :=
  if proto == "s" then packStruct T lim st isStruct m else packBinary T testReg lim st m

def unpackWith (T : THeader) (proto : String) (lim pulled : Nat) (isStruct : Bool) (inp : Bytes) : Raw.Out :=
  if proto == "s" then unpackStruct T lim pulled isStruct inp else unpackBinary T testReg lim pulled inp

def parseMsgSemi (l : String) : Option Msg := msgOfFields (parseFields (l.splitOn ";"))

/-- `name;type;seq;kind;payload;hdr` -/
def parseFrame (s : String) : Option TFrame :=
  match s.splitOn ";" with
  | [a, b, c, d, e, f] => do
    let name ← ofHex a; let ty ← b.toNat?; let seq ← c.toInt?; let p ← ofHex e; let h ← parseKVs f
    let pl ← match d with
      | "b" => some (Payload.bin p)
      | "s" => some (Payload.struct p)
      | "x" => some Payload.none
      | _ => none
    pure { name, typeID := ty, seq, payload := pl, hdr := h }
  | _ => none

def showOut (o : Raw.Out) : String :=
  match o with
  | .ok m _ => s!"ok {showMsg m}"
  | .eof => "eof"
  | .size => "size"
  | .reject _ => "reject"

/-- read frames, one `pulled` count each, then once more (the end of the stream). -/
def unpackLoop (proto : String) (lim : Nat) : List Nat → Bytes → List Msg → List Msg × String
  | [], inp, acc =>
    match unpackWith toyT proto lim 0 true inp with
    | .ok _ _ => (acc.reverse, "runaway")
    | .eof => (acc.reverse, "eof")
    | .size => (acc.reverse, "size")
    | .reject _ => (acc.reverse, "reject")
  | p :: ps, inp, acc =>
    match unpackWith toyT proto lim p true inp with
    | .ok m rest => unpackLoop proto lim ps rest (m :: acc)
    | .eof => (acc.reverse, "eof")
    | .size => (acc.reverse, "size")
    | .reject _ => (acc.reverse, "reject")

/-- all messages through ONE protocol object. -/
def packLoop (proto : String) (lim : Nat) : PState → List Msg → Bytes → Option Bytes
  | _, [], acc => some acc
  | st, m :: ms, acc =>
    let r := packWith toyT proto lim st true m
    match r.res with
    | .ok _ => packLoop proto lim r.st ms (acc ++ r.written)
    | .error _ => none

def c05t (kind : String) (f : Fields) : String :=
  match kind with
  | "thriftpack" =>
    match msgOfFields f, f.nat "limit", f.get "proto", f.nat "isstruct", f.get "prev" with
    | some m, some lim, some proto, some isS, some prev =>
      let prevM := if prev == "-" then some none else (parseMsgSemi prev).map some
      match prevM with
      | none => "bad-case"
      | some pm =>
        let stOf (T : THeader) : PState := match pm with
          | none => {}
          | some p => (packWith T proto 1073741824 {} true p).st
        let r := packWith lenT proto lim (stOf lenT) (isS == 1) m
        let rt := packWith toyT proto lim (stOf toyT) (isS == 1) m
        let tail := s!"written={r.written.length} codec={r.codec.toNat} frame={showWritten rt.written (proto == "s")}"
        match r.res with
        | .ok sz => s!"ok size={sz} {tail}"
        | .error e => s!"err:{errName e} {tail}"
    | _, _, _, _, _ => "bad-case"
  | "thriftunpack" =>
    match f.nat "limit", f.get "proto", f.nat "isstruct", f.nat "pulled", f.get "dec" with
    | some lim, some proto, some isS, some pulled, some dec =>
      let entry : Option (Except String (TFrame × Bytes)) :=
        if dec == "E" then some (.error "eof") else if dec == "X" then some (.error "err:thrift")
        else (parseFrame dec).map (fun fr => .ok (fr, []))
      match entry with
      | none => "bad-case"
      | some e =>
        -- a frame of type EXCEPTION is refused whatever follows; `parseFrame` gives it no payload
        showOut (unpackWith { enc := fun _ => [], dec := fun _ _ => e } proto lim pulled (isS == 1) [])
    | _, _, _, _, _ => "bad-case"
  | "thriftstream" =>
    match f.get "msgs", f.nat "limit", f.get "proto", f.get "pulled" with
    | some ms, some lim, some proto, some pulled =>
      let msgs := (ms.splitOn "|").map parseMsgSemi
      if msgs.any Option.isNone then "bad-case" else
      match packLoop proto lim {} (msgs.filterMap id) [] with
      | none => "pack-failed"
      | some stream =>
        let ps := if pulled == "-" then [] else (pulled.splitOn ",").filterMap String.toNat?
        let (ms', endc) := unpackLoop proto lim ps stream []
        s!"n={ms'.length} end={endc} msgs={"|".intercalate (ms'.map (fun m => (showMsg m).replace " " ";"))}"
    | _, _, _, _ => "bad-case"
  | _ => "bad-kind"

end D05t

/-- case kinds served by this module. -/
def handlersC05t : List (String × (Fields → String)) :=
  ["thriftpack", "thriftunpack", "thriftstream"].map (fun k => (k, D05t.c05t k))

end Teleport.Drv
