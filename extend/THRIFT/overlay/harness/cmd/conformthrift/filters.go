package main

import (
	"errors"

	"github.com/henrylee2cn/erpc/v6/xfer"
)

// Three test transfer filters with the semantics of lean/Teleport/Drv/TestFilters.lean.
// They are registered in the real xfer registry so that the real pipe logic runs with
// non-commuting filters whose model is computable.
type tf struct {
	id     byte
	name   string
	pack   func([]byte) ([]byte, error)
	unpack func([]byte) ([]byte, error)
}

func (t *tf) ID() byte                          { return t.id }
func (t *tf) Name() string                      { return t.name }
func (t *tf) OnPack(b []byte) ([]byte, error)   { return t.pack(b) }
func (t *tf) OnUnpack(b []byte) ([]byte, error) { return t.unpack(b) }

var errTF = errors.New("test filter: bad data")

func rev(b []byte) ([]byte, error) {
	o := make([]byte, len(b))
	for i := range b {
		o[len(b)-1-i] = b[i]
	}
	return o, nil
}

var testFiltersDone bool

func regTestFilters() {
	if testFiltersDone {
		return
	}
	testFiltersDone = true
	xfer.Reg(&tf{1, "vrev", rev, rev})
	xfer.Reg(&tf{2, "vxor",
		func(b []byte) ([]byte, error) {
			o := make([]byte, len(b)+1)
			for i := range b {
				o[i] = b[i] ^ 0x5A
			}
			o[len(b)] = 0xEE
			return o, nil
		},
		func(b []byte) ([]byte, error) {
			if len(b) == 0 || b[len(b)-1] != 0xEE {
				return nil, errTF
			}
			o := make([]byte, len(b)-1)
			for i := range o {
				o[i] = b[i] ^ 0x5A
			}
			return o, nil
		}})
	xfer.Reg(&tf{3, "vlen",
		func(b []byte) ([]byte, error) {
			o := make([]byte, 0, len(b)+1)
			o = append(o, byte(len(b)%256))
			return append(o, b...), nil
		},
		func(b []byte) ([]byte, error) {
			if len(b) == 0 || b[0] != byte((len(b)-1)%256) {
				return nil, errTF
			}
			return append([]byte(nil), b[1:]...), nil
		}})
}
