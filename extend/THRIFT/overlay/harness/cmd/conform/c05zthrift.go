package main

import (
	"bufio"
	"fmt"
	"io"
	"os"
	"os/exec"
	"path/filepath"
	"strings"

	"verif/harness/internal/hx"
)

// C05, proto/thriftproto (case kinds thriftpack / thriftunpack / thriftstream; model: Model/ThriftProto,
// driver: Drv/C05t). Importing proto/thriftproto switches the process-wide service-method mapper and
// default body codec in its init, so the cases are generated and run by the separate program
// harness/cmd/conformthrift, which this runner builds (like c14.go builds c14thrift) and drives as a
// child process over its `-serve` line protocol. The case lines are appended after all existing C05
// families, so the existing lines of a seed do not change. A child that cannot be built or dies is a
// harness failure (exit 1), never a silently skipped family.

var (
	c05tCmd *exec.Cmd
	c05tIn  io.WriteCloser
	c05tOut *bufio.Reader
)

func init() {
	p := props["c05"]
	g, r, s, fin := p.Gen, p.Run, p.Setup, p.Finish
	p.Setup = func() {
		if s != nil {
			s()
		}
		c05tStart()
	}
	p.Gen = func(rr *hx.R, tier string, out *hx.Out) []string {
		ls := g(rr, tier, out)
		return append(ls, c05tAsk(fmt.Sprintf("GEN %d %s", 1+rr.Intn(1<<30), tier))...)
	}
	p.Run = func(line string, out *hx.Out) (string, bool) {
		if strings.HasPrefix(line, "thrift") {
			return c05tRunLine(line, out)
		}
		return r(line, out)
	}
	p.Finish = func(out *hx.Out) {
		if fin != nil {
			fin(out)
		}
		if c05tIn != nil {
			c05tIn.Close()
			c05tCmd.Wait()
		}
	}
}

func c05tDie(format string, a ...interface{}) {
	fmt.Fprintf(os.Stderr, "c05t: "+format+"\n", a...)
	os.Exit(1)
}

func c05tStart() {
	work := os.Getenv("VERIF_WORK")
	if work == "" {
		work = filepath.Join(os.TempDir(), "verif-work")
	}
	os.MkdirAll(filepath.Join(work, "bin"), 0o755)
	bin := filepath.Join(work, "bin", "conformthrift")
	tmp := fmt.Sprintf("%s.%d", bin, os.Getpid())
	dir := "."
	if _, err := os.Stat("go.mod"); err != nil {
		dir = filepath.Join(filepath.Dir(work), "harness")
	}
	cmd := exec.Command("go", "build", "-tags", "verif", "-o", tmp, "./cmd/conformthrift")
	cmd.Dir = dir
	cmd.Env = append(os.Environ(), "GOFLAGS=-mod=mod", "GOPROXY=off", "GOSUMDB=off", "GOTOOLCHAIN=local")
	if b, err := cmd.CombinedOutput(); err != nil {
		os.Remove(tmp)
		c05tDie("go build ./cmd/conformthrift failed against the current tree: %v\n%s", err, b)
	}
	if err := os.Rename(tmp, bin); err != nil {
		c05tDie("%v", err)
	}
	c05tCmd = exec.Command(bin, "-serve")
	c05tCmd.Stderr = io.Discard
	var err error
	if c05tIn, err = c05tCmd.StdinPipe(); err != nil {
		c05tDie("%v", err)
	}
	so, err := c05tCmd.StdoutPipe()
	if err != nil {
		c05tDie("%v", err)
	}
	c05tOut = bufio.NewReaderSize(so, 1<<20)
	if err := c05tCmd.Start(); err != nil {
		c05tDie("start conformthrift: %v", err)
	}
}

func c05tReadLine() string {
	l, err := c05tOut.ReadString('\n')
	if err != nil {
		c05tDie("the conformthrift child died (%v)", err)
	}
	return strings.TrimRight(l, "\n")
}

// c05tAsk sends a GEN request and returns the case lines.
func c05tAsk(req string) []string {
	fmt.Fprintln(c05tIn, req)
	var ls []string
	for {
		l := c05tReadLine()
		if l == "." {
			return ls
		}
		ls = append(ls, l)
	}
}

func c05tRunLine(line string, out *hx.Out) (string, bool) {
	fmt.Fprintln(c05tIn, "RUN "+line)
	for {
		l := c05tReadLine()
		switch {
		case strings.HasPrefix(l, "#C "):
			out.Count(l[3:])
		case strings.HasPrefix(l, "#V "):
			t := strings.SplitN(l[3:], "\t", 3)
			if len(t) == 3 {
				out.Violate(line, t[0], t[2], t[1])
			}
		case strings.HasPrefix(l, "="):
			t := strings.SplitN(l[1:], "\t", 2)
			if len(t) != 2 {
				c05tDie("bad answer %q", l)
			}
			return t[1], t[0] == "1"
		default:
			c05tDie("bad answer %q", l)
		}
	}
}
