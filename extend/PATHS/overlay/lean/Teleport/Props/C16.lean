/-
Props/C16 — No handler or message hook runs on a connection that failed authentication.
Property theorems only. The model is Model/Auth: one accepted connection as a transition system
(`step`, `Reach`) whose events are the atomic stages of `ServeConn` / `serveListener`, of the auth
checker's `PostAccept`, of `closeLocked`, of the read loop, of `readDisconnected` and of the handler
goroutines, interleaved with the client (frames or garbage arriving at any time, connection cut,
deadlines firing). The inductive invariant and its preservation are in Lemmas/Auth.

`authPassed` is set exactly when the accept-hook chain returns OK (`Ev.branch`).
`messageHookCount` counts every per-message plugin stage, `PreReadHeader` included.
The connection-level `PostDisconnect` hook (`discHook`) DOES run for a rejected connection
(`closeLocked` calls it unconditionally, see `C16_rejected_closed_unlisted`): it is not a call/push
handler nor a per-message hook, so the property as stated holds; a plugin that pairs PostAccept with
PostDisconnect bookkeeping sees a disconnect without a completed accept (that is property C18's
finding, not a violation of C16).
-/
import Teleport.Lemmas.Auth
import Teleport.Lemmas.SrcPaths
import Teleport.Gen.Transitions
namespace Teleport
namespace C16
open Auth

/-- **No handler and no per-message hook before authentication has passed.** In every reachable
    state of an accepted connection — whatever the client has sent (any frames, malformed bytes,
    nothing), in whatever order the client's traffic, deadlines, cuts and the server's goroutines
    interleave, for any checker function (strict or not), on both accept paths — as long as the
    accept-hook chain has not returned OK: no call/push/unknown handler has run, no per-message hook
    stage has run, the reader goroutine does not exist, no handler goroutine exists, the read loop
    has consumed nothing, the status is not `Ok`, the session is not listed under any id — unless the
    checker function itself renamed it: `session.SetID` enters a session that is being prepared in
    the hub (that listing ends with the rejection, see `C16_rejected_unlisted_any_id`) — and
    everything the server has written is an AUTH_REPLY. -/
theorem C16_no_handler_before_auth (lis strict : Bool) (others : List Nat) (s : St) (r : Reach (init lis strict others) s)
    (h : s.authPassed = false) :
    s.handlerCount = 0 ∧ s.messageHookCount = 0 ∧ s.rd = none ∧ s.hs = [] ∧ s.loopRead = [] ∧
    s.status ≠ .ok ∧ (s.renamed = false → s.inHub = false) ∧ ∀ o ∈ s.out, ∃ c, o = .authReply c := by
  have q := (reach_inv (sinv_init lis strict others) (hinv_init lis strict others) r).quiet h
  simp only [quiet] at q
  refine ⟨q.1, by simp [St.messageHookCount, q.2.1, q.2.2.1], q.2.2.2.1, q.2.2.2.2.1, q.2.2.2.2.2.2.1,
    q.2.2.2.2.2.2.2.2.1, q.2.2.2.2.2.2.2.1, q.2.2.2.2.2.2.2.2.2⟩

/-- the frames of the non-vacuity examples: a valid AUTH_CALL, a CALL to a registered route. -/
def fAuth : Frame := { kind := .authCall, seq := 1 }
def fCall : Frame := { kind := .call, seq := 2 }

/-- non-vacuity: a CALL sent instead of the auth message is consumed by the gate and the connection
    is rejected with nothing run; and handlers do run once authentication passed (the counters are
    not constantly 0). -/
example : ∃ s, Reach (init false true) s ∧ s.authPassed = false ∧ s.preRead = [.frame fCall] ∧
    s.acc = .done 401 := by
  exact ⟨_, run_reach { items := [.frame fCall] }, by decide⟩
example : ∃ s, Reach (init false true) s ∧ s.authPassed = true ∧ s.handlerCount = 1 ∧
    s.messageHookCount = 7 := by
  exact ⟨_, run_reach { items := [.frame fAuth, .frame fCall] }, by decide⟩

/-- **With a strict checker, "passed" means authenticated.** If the checker function returns OK
    only after exactly one successful `RecvOnce`, then whenever the accept chain has passed (in
    particular whenever the status is `Ok`, a handler or a hook has run, or the session is listed),
    the one thing the gate consumed from the client is a well-formed AUTH_CALL frame with OK status:
    whatever else the client sent first (CALL, PUSH, REPLY, wrong type, garbage, nothing, a cut,
    silence until the deadline) the connection cannot pass. -/
theorem C16_passed_means_authenticated (lis : Bool) (others : List Nat) (s : St) (r : Reach (init lis true others) s)
    (h : s.authPassed = true) :
    ∃ f, s.preRead = [.frame f] ∧ f.kind = .authCall ∧ f.stOk = true ∧ s.recvLog = [.ok] := by
  have i := reach_inv (sinv_init lis true others) (hinv_init lis true others) r
  have hs : s.strict = true := (reach_cfg r).1
  have hacc : s.acc.accepting = true := passed_accepting _ (by rw [← i.passed_iff]; exact h)
  have hl := i.strict_ok hs hacc
  obtain ⟨f, h1, h2, h3⟩ := i.log_ok hl
  exact ⟨f, h1, h2, h3, hl⟩

/-- the same, read from the observable side: anything that needs the session machinery implies
    `authPassed`. -/
theorem C16_activity_implies_passed (lis strict : Bool) (others : List Nat) (s : St) (r : Reach (init lis strict others) s)
    (h : s.status = .ok ∨ 0 < s.handlerCount ∨ 0 < s.messageHookCount ∨ (s.inHub = true ∧ s.renamed = false) ∨
         s.rd ≠ none ∨ s.loopRead ≠ []) : s.authPassed = true := by
  cases hp : s.authPassed with
  | true => rfl
  | false =>
    have q := C16_no_handler_before_auth lis strict others s r hp
    rcases h with h | h | h | h | h | h
    · exact absurd h q.2.2.2.2.2.1
    · omega
    · omega
    · simp [q.2.2.2.2.2.2.1 h.2] at h
    · exact absurd q.2.2.1 h
    · exact absurd q.2.2.2.2.1 h

/-- **The exchange happens at most once, and exactly once before `Ok`.** For every checker function
    (it may call `RecvOnce` any number of times): `PreReceive` of the exchange executes at most once
    and consumes at most one unit of client traffic; with a strict checker it has executed exactly
    once whenever the status is `Ok` (or anything else of the session machinery has happened). -/
theorem C16_exchange_once (lis strict : Bool) (others : List Nat) (s : St) (r : Reach (init lis strict others) s) :
    s.exch ≤ 1 ∧ s.preRead.length ≤ 1 ∧ (strict = true → s.status = .ok → s.exch = 1) := by
  have i := reach_inv (sinv_init lis strict others) (hinv_init lis strict others) r
  have he : s.exch ≤ 1 := by have := i.exch_eq; split at this <;> omega
  refine ⟨he, Nat.le_trans i.pre_len he, fun hs hok => ?_⟩
  subst hs
  have hp := C16_activity_implies_passed lis true others s r (.inl hok)
  obtain ⟨f, h1, _, _, _⟩ := C16_passed_means_authenticated lis others s r hp
  have := i.pre_len; rw [h1] at this; simp at this; omega

example : ∃ s, Reach (init false true) s ∧ s.status = .ok ∧ s.exch = 1 := by
  refine ⟨applyEvs (init false true) [.arrive (.frame fAuth), .recvOnce false, .ckReturn .accept,
    .sendReply 0, .branch], applyEvs_reach _ _, ?_⟩
  decide

/-- the once-flag at work: a checker that calls `RecvOnce` three times performs one exchange and gets
    `MultiRecvErr` twice. -/
example : (applyEvs (init false false) [.arrive (.frame fAuth), .arrive (.frame fCall),
    .recvOnce false, .recvOnce false, .recvOnce false]).recvLog = [.ok, .multi, .multi] := by decide

/-- **A rejected connection is closed, unlisted, and nothing ever ran on it.** In every reachable
    state in which the accept path has returned a non-OK status (`ServeConn` returned `(nil, stat)`,
    or the listener goroutine ended) — whichever way it was rejected: checker verdict, wrong first
    frame, malformed bytes, deadline, cut, failed reply write, `MultiRecvErr` — the session status is
    `ActiveClosed`, the socket is closed, the session is not in the hub, no handler and no
    per-message hook has run, no reader exists; only the connection-level disconnect hook has run
    (once). Since this is a statement about all reachable states, it also holds at every later
    time: nothing can revive the connection. -/
theorem C16_rejected_closed_unlisted (lis strict : Bool) (others : List Nat) (s : St) (r : Reach (init lis strict others) s)
    (st : Int) (ha : s.acc = .done st) (hst : st ≠ 0) :
    s.authPassed = false ∧ s.status = .activeClosed ∧ s.sockClosed = true ∧ s.inHub = false ∧
    s.handlerCount = 0 ∧ s.messageHookCount = 0 ∧ s.rd = none ∧ s.discHook = 1 := by
  have i := reach_inv (sinv_init lis strict others) (hinv_init lis strict others) r
  have hp : s.authPassed = false := by
    have h0 : (st == 0) = false := by simpa using hst
    have := i.passed_iff; rw [ha] at this; simpa [APc.passed, h0] using this
  have rj := i.rej hp
  simp only [rejInv, ha] at rj
  have q := C16_no_handler_before_auth lis strict others s r hp
  exact ⟨hp, rj.2.2.1, rj.2.2.2.1, rj.2.2.2.2.2, q.1, q.2.1, q.2.2.1, rj.2.2.2.2.1⟩


/-- **A rejected connection is listed under no id — whatever the checker did with the id.** The
    checker function is handed the session and may rename it any number of times, before or after
    `RecvOnce`, to a fresh id, to its own id or to the id of another live session of the peer
    (`Ev.setId`; a session that is being prepared ENTERS the hub by `SetID`), and read the peer
    (`Ev.peek`), and then accept, reject, return `MultiRecvErr`, panic, or fail because of a
    deadline / a cut / a failed reply write. In every reachable state in which the accept path has
    returned a non-OK status, no hub entry refers to the connection: `GetSession(id)` is not this
    session for ANY id (in particular for every id the connection ever had, `s.ids`), no entry of
    the index (`RangeSession`, `CountSession`) is this session. -/
theorem C16_rejected_unlisted_any_id (lis strict : Bool) (others : List Nat) (s : St)
    (r : Reach (init lis strict others) s) (st : Int) (ha : s.acc = .done st) (hst : st ≠ 0) :
    (∀ id, s.hub.get id ≠ some 0) ∧ (∀ id ∈ s.ids, s.hub.get id ≠ some 0) ∧
    (∀ kv ∈ s.hub, kv.2 ≠ 0) ∧ s.inHub = false := by
  have u := (C16_rejected_closed_unlisted lis strict others s r st ha hst).2.2.2.1
  have m := (inHub_false_iff s).1 u
  have g : ∀ id, s.hub.get id ≠ some 0 := fun id c => m _ (HubL.mem_of_get c) rfl
  exact ⟨g, fun id _ => g id, m, u⟩

/-- non-vacuity: a checker that reads the credentials, names the session after the claimed user
    (id 5) and then rejects: the connection had two ids, it WAS listed (under 5, not under 0) while
    the exchange ran, and it ends rejected with an empty hub. The same when the exchange times out
    after the renaming (silent client), when the checker panics after it, and when the id taken is
    the one of another live session (which is replaced and closed, `kicked`). -/
example : ∃ s, Reach (init false true) s ∧ s.acc = .done 403 ∧ s.ids = [0, 5] ∧ s.renamed = true ∧
    s.hub = [] := by
  exact ⟨_, run_reach { items := [.frame fAuth], script := { verdict := .reject 403, post := [.setId 5] } },
    by decide⟩
example : ∃ s, Reach (init false true) s ∧ s.authPassed = false ∧ s.inHub = true ∧
    s.hub.get 5 = some 0 ∧ s.hub.get 0 = none ∧ s.status = .preparing := by
  refine ⟨applyEvs (init false true) [.arrive (.frame fAuth), .recvOnce false, .setId 5], applyEvs_reach _ _, ?_⟩
  decide
example : (runCase { items := [], fin := .silent, script := { pre := [.setId 5, .peek] } }).acc = .done 102 ∧
    (runCase { items := [], fin := .silent, script := { pre := [.setId 5, .peek] } }).hub = [] ∧
    (runCase { items := [], fin := .silent, script := { pre := [.setId 5, .peek] } }).peeks = [(true, 1)] := by decide
example : (runCase { items := [.frame fAuth], script := { verdict := .panic, post := [.setId 5, .setId 6] } }).acc = .done 500 ∧
    (runCase { items := [.frame fAuth], script := { verdict := .panic, post := [.setId 5, .setId 6] } }).ids = [0, 5, 6] ∧
    (runCase { items := [.frame fAuth], script := { verdict := .panic, post := [.setId 5, .setId 6] } }).hub = [] := by decide
example : (runCase { others := [7, 8], items := [.frame fAuth], script := { verdict := .reject 401, post := [.setId 7] } }).hub = [(8, 2)] ∧
    (runCase { others := [7, 8], items := [.frame fAuth], script := { verdict := .reject 401, post := [.setId 7] } }).kicked = [0] := by decide

/-- **Never listed under a former id** (all states, accepted connections too): whenever
    `GetSession(id)` is this session, `id` is its current id, and the current id is the last of the
    ids it had. Renaming leaves nothing behind under the old id. -/
theorem C16_listed_only_under_current_id (lis strict : Bool) (others : List Nat) (s : St)
    (r : Reach (init lis strict others) s) :
    (∀ id, s.hub.get id = some 0 → id = s.sid) ∧ s.ids.getLast? = some s.sid := by
  have g := reach_hinv (sinv_init lis strict others) (hinv_init lis strict others) r
  exact ⟨fun id c => g.selfAt _ (HubL.mem_of_get c) rfl, g.cur⟩

/-- an accepted connection that the checker renamed is listed under the new id only. -/
example : (runCase { items := [.frame fAuth], fin := .silent, script := { post := [.setId 5] } }).acc = .done 0 ∧
    (applyEvs (init false true) [.arrive (.frame fAuth), .recvOnce false, .setId 5, .ckReturn .accept,
      .sendReply 0, .branch, .accStep, .accStep]).hub = [(5, 0)] := by decide

/-- **The sessions of other connections are left alone** (all states): under every id that this
    connection never had, the hub is what it was when the connection arrived — whatever the
    checker did, whatever the verdict. (Under an id it took, the previous holder is replaced and
    closed by `SessionHub.set`, as for any `SetID`.) -/
theorem C16_other_sessions_untouched (lis strict : Bool) (others : List Nat) (s : St)
    (r : Reach (init lis strict others) s) (id : Nat) (hid : id ∉ s.ids) :
    s.hub.get id = (init lis strict others).hub.get id :=
  (reach_frame (sinv_init lis strict others) (hinv_init lis strict others) r id hid).2

example : ∃ s, Reach (init false true [7, 8]) s ∧ 8 ∉ s.ids ∧ s.ids = [0, 7] ∧ s.hub.get 8 = some 2 := by
  exact ⟨_, run_reach { others := [7, 8], items := [.frame fAuth], script := { verdict := .reject 401, post := [.setId 7] } },
    by decide⟩

/-- a non-OK result of the accept-hook chain always leads to that end: from the decision point the
    accepting goroutine's own steps (`Close()` stages, return) are all enabled — nothing it waits
    for can be outstanding, because no handler exists. -/
theorem C16_rejected_terminates (lis strict : Bool) (others : List Nat) (s : St) (r : Reach (init lis strict others) s)
    (st : Int) (ha : s.acc = .decided st) (hst : st ≠ 0) :
    ∃ t, Reach s t ∧ t.acc = .done st := by
  have i := reach_inv (sinv_init lis strict others) (hinv_init lis strict others) r
  have hp : s.authPassed = false := by
    have := i.passed_iff; rw [ha] at this; simpa [APc.passed] using this
  have rj := i.rej hp
  simp only [rejInv, ha] at rj
  have q := i.quiet hp
  refine ⟨applyEvs s [.branch, .closeStep, .closeStep, .closeStep, .closeStep, .closeStep, .closeStep,
    .accStep], applyEvs_reach _ _, ?_⟩
  simp [applyEvs, step, evBranch, evCloseStep, evAccStep, startClose, ha, hst, rj.1, rj.2.1, q.2.2.2.2.1]

example : ∃ s, Reach (init false true) s ∧ s.acc = .decided 401 := by
  refine ⟨applyEvs (init false true) [.arrive (.frame fCall), .recvOnce false, .ckReturn (.reject 401),
    .sendReply 0], applyEvs_reach _ _, ?_⟩
  decide

/-- **Frames pipelined behind the auth frame are neither lost nor processed early** (all
    schedules). The client's traffic is conserved in order: what has arrived = what the gate's
    single `PreReceive` consumed (at most one unit) ++ what the read loop consumed ++ what is still
    pending; and the read loop consumes only after authentication passed. Hence an application frame
    written in the same packet as the AUTH_CALL stays in the socket's buffer until the status is `Ok`
    and is then the first thing the read loop sees. -/
theorem C16_pipelined_frames_not_lost_or_early (lis strict : Bool) (others : List Nat) (s : St)
    (r : Reach (init lis strict others) s) :
    s.arrived = s.preRead ++ s.loopRead ++ s.pending ∧ s.preRead.length ≤ 1 ∧
    (s.loopRead ≠ [] → s.authPassed = true) := by
  have i := reach_inv (sinv_init lis strict others) (hinv_init lis strict others) r
  exact ⟨i.conserve, (C16_exchange_once lis strict others s r).2.1,
    fun h => C16_activity_implies_passed lis strict others s r (.inr (.inr (.inr (.inr (.inr h)))))⟩

/- Full-strength "and are processed" (progress) statement, for every pipeline `fs` of application
   frames behind a valid AUTH_CALL, under the scheduler that the harness compares with the real code:
     theorem C16_pipelined_processed (fs : List Frame) (h : ∀ f ∈ fs, f.kind = .call ∨ f.kind = .push ∨ f.kind = .reply) :
         (runCase { items := .frame fAuth :: fs.map .frame }).loopRead = fs.map .frame ∧ … .pending = []
   Proved below for concrete pipelines only (`_partial`); the general induction over the scheduler's
   fuel is not done. Progress under arbitrary fair schedules is not stated (no fairness notion in
   the model). -/

/-- concrete pipelines: AUTH_CALL followed in the same write by CALL, PUSH, unknown CALL, REPLY —
    every frame reaches the read loop in order, both handlers run, both calls are answered, nothing
    is left pending; and with a rejecting verdict none of them is touched. -/
theorem C16_pipelined_processed_partial :
    let fs : List Frame := [fCall, { kind := .push, seq := 3 }, { kind := .call, seq := 4, hcode := 404 },
                            { kind := .reply, seq := 5 }]
    let ok := runCase { items := .frame fAuth :: fs.map .frame }
    let no := runCase { items := .frame fAuth :: fs.map .frame, script := { verdict := .reject 403 } }
    ok.loopRead = fs.map .frame ∧ ok.pending = [] ∧ ok.handlerCount = 2 ∧
    ok.out = [.authReply 0, .reply 2 0, .reply 4 404] ∧
    no.loopRead = [] ∧ no.handlerCount = 0 ∧ no.messageHookCount = 0 ∧ no.out = [.authReply 403] ∧
    no.acc = .done 403 := by
  decide

/-! ## bearer (dialing) side -/

/-- **Dial-hook failure ⇒ session not established.** If the dial-hook chain (the bearer's
    `PostDial`) returns a non-OK status, `Dial` returns no session: the status never becomes `Ok`,
    the reader is not started, the session is not listed, and the connection is closed. -/
theorem C16_dial_hook_failure_not_established (hook : Int) (h : hook ≠ 0) :
    (dial hook).established = false ∧ (dial hook).status = .preparing ∧ (dial hook).inHub = false ∧
    (dial hook).readerStarted = false ∧ (dial hook).connClosed = true ∧ (dial hook).code = 105 := by
  simp [dial, h]

/-- the bearer's `SendOnce` returns OK only for a first call whose AUTH_CALL was written and
    whose single `PreReceive` returned a well-formed AUTH_REPLY with OK status; a second call
    returns `MultiSendErr`. -/
theorem C16_bearer_ok_only_on_auth_reply (called : Bool) (wcode : Int) (r : BRecv)
    (hr : ∀ c, r = .fail c → c ≠ 0) (h : (sendOnce called wcode r).2 = 0) :
    called = false ∧ wcode = 0 ∧ ∃ f, r = .frame f ∧ f.kind = .authReply ∧ f.stOk = true := by
  unfold sendOnce at h
  cases called with
  | true => simp at h
  | false =>
    by_cases hw : wcode = 0
    · subst hw
      cases r with
      | fail c => simp at h; exact absurd h (hr c rfl)
      | frame f =>
        refine ⟨rfl, rfl, f, rfl, ?_⟩
        cases hs : f.stOk
        · simp [hs] at h; simp [Frame.stOk, h] at hs
        · by_cases hk : f.kind = .authReply
          · exact ⟨hk, rfl⟩
          · simp [hs, hk] at h
    · simp [hw] at h

example : (sendOnce false 0 (.frame { kind := .authReply })).2 = 0 := by decide
example : (sendOnce true 0 (.frame { kind := .authReply })).2 = 104 := by decide

/-! ## tie A — the accept paths as they are in the source NOW (`Gen/Transitions`)

`Model/Auth` orders the three effects that make a connection live — status Ok, reader started,
session in the hub — after the verdict of the accept hooks (`Ev.branch`), differently for `ServeConn`
and for the accept goroutine of `serveListener`. `srcfacts` regenerates the ordered flows of both;
the theorem compares them with the order in which `Auth.step` produces the effects. -/

section TieA
open SrcFlow

/-- the effects of one model step of the accepting goroutine, as source statements. -/
def accDelta (s t : St) : List String :=
  (if s.status != .ok && t.status == .ok then ["cas:statusOk<-statusPreparing"] else []) ++
  (if s.rd.isNone && t.rd.isSome then ["reader"] else []) ++
  (if !s.inHub && t.inHub then ["call:sessHub.set"] else [])

def accTrace : Nat → St → List String
  | 0, _ => []
  | n + 1, s =>
    match step s .accStep with
    | some t => accDelta s t ++ accTrace n t
    | none => []

/-- the model's order of the three effects after the hooks returned OK. -/
def modelAccept (lis : Bool) : List String :=
  let s0 : St := { init lis true with acc := .decided 0 }
  match step s0 .branch with
  | some s1 => accDelta s0 s1 ++ accTrace 6 s1
  | none => ["?"]

/-- the model after the hooks returned status 7: `Close()` runs to its end, the goroutine returns. -/
def modelReject (lis : Bool) : Option St :=
  let s0 : St := { init lis true with acc := .decided 7 }
  (step s0 .branch).bind fun s1 => (List.replicate 6 Auth.Ev.closeStep).foldlM step s1 |>.bind (step · .accStep)

open SrcPaths in
def acceptKey (e : PEv) : Option String :=
  if e.is "cas" "statusOk<-statusPreparing" then some "cas:statusOk<-statusPreparing"
  else if e.is "spawn" "startReadAndHandle" || e.is "run" "startReadAndHandle" then some "reader"
  else if e.is "call" "sessHub.set" then some "call:sessHub.set"
  else none

open SrcPaths in
def isPostAccept (e : PEv) : Bool := e.is "stage" "postAccept"
open SrcPaths in
def isCasOk (e : PEv) : Bool := e.is "cas" "statusOk<-statusPreparing"

open SrcPaths in
/-- on every control-flow path: nothing that makes the connection live before the `postAccept` call
    (nor on a path without one); at most one stage call, `postAccept` on the global container, its
    verdict tested on the path; verdict not OK → `sess.Close()`, return, nothing else; verdict OK →
    the step to Ok is the compare-and-swap, tested on the path; won → the three effects in the order
    `model`; lost → `lost`, return. -/
def acceptShape (ps : List Path) (model lost : List String) : Bool :=
  ps.all (fun p =>
    (pre isPostAccept p).filterMap acceptKey == [] &&
    (p.filter fun e => e.kind == "stage").length ≤ 1 &&
    (p.all fun e => e.kind != "stage" || (isPostAccept e && e.detail == "global" && e.out != "")) &&
    (p.all fun e => !isCasOk e || e.out != "") &&
    (!(p.any fun e => isPostAccept e && e.out == "fail") || (rest isPostAccept p).map PEv.key == ["call:sess.Close", "return:"]) &&
    (!(p.any fun e => isPostAccept e && e.out == "ok") || ((rest isPostAccept p).filter isCasOk).length == 1) &&
    (!(p.any fun e => isCasOk e && e.out == "ok") || (rest isPostAccept p).filterMap acceptKey == model) &&
    (!(p.any fun e => isCasOk e && e.out == "fail") || (rest isCasOk p).map PEv.key == lost ++ ["return:"])) &&
  ps.any (fun p => p.any fun e => isCasOk e && e.out == "ok") &&
  ps.any (fun p => p.any fun e => isCasOk e && e.out == "fail") &&
  ps.any (fun p => p.any fun e => isPostAccept e && e.out == "fail")

/-- **The accept hooks come first on both accept paths; a refusal closes the session and returns
    (tie A).** On EVERY control-flow path of `ServeConn` and of the accept goroutine of `serveListener`
    as they are now (`Gen.tpaths_*`: helpers inlined — also one that returns the verdict or the
    session — conditions normalised): `postAccept` is called at most once, on the peer's global
    container, and its verdict is tested; on the path where it is not OK what follows is
    `sess.Close()` and `return` — nothing else; nothing that makes the connection live (status Ok,
    reader start, `sessHub.set`) precedes the call; after an OK verdict they come in the order in which
    `Auth.step` produces them — `ServeConn`: compare-and-swap Preparing → Ok, reader spawned, hub;
    listener: hub, compare-and-swap, reader run in place — and the step to Ok is the compare-and-swap
    whose losing path returns (listener: after taking the session out of the hub again). In the
    model a refused connection gets none of the three effects: its `Close()` runs to the end and the
    goroutine returns. Starting the reader, entering the hub or setting Ok before the hooks, or
    continuing after a refusal, changes the regenerated paths and this theorem no longer checks. -/
theorem C16_accept_order :
    Gen.tpaths_peer_ServeConn_missing = [] ∧ Gen.tpaths_peer_serveListener_accept_missing = [] ∧
    acceptShape Gen.tpaths_peer_ServeConn (modelAccept false) [] = true ∧
    acceptShape Gen.tpaths_peer_serveListener_accept (modelAccept true) ["call:sessHub.delete"] = true ∧
    (modelAccept false).length = 3 ∧ (modelAccept true).length = 3 ∧
    (Gen.tpaths_peer_ServeConn.any fun p => p.any fun (e : SrcPaths.PEv) => e.is "spawn" "startReadAndHandle") = true ∧
    (Gen.tpaths_peer_ServeConn.all fun p => p.all fun (e : SrcPaths.PEv) => !e.is "run" "startReadAndHandle") = true ∧
    (Gen.tpaths_peer_serveListener_accept.any fun p => p.any fun (e : SrcPaths.PEv) => e.is "run" "startReadAndHandle") = true ∧
    [false, true].all (fun lis => match modelReject lis with
      | some s => s.acc == .done 7 && s.status == .activeClosed && s.rd.isNone && !s.inHub && s.sockClosed && !s.authPassed
      | none => false) = true := by
  decide

/-- non-vacuity: the model's two orders, spelled out. -/
example : modelAccept false = ["cas:statusOk<-statusPreparing", "reader", "call:sessHub.set"] := by decide
example : modelAccept true = ["call:sessHub.set", "cas:statusOk<-statusPreparing", "reader"] := by decide

end TieA

/-! ## tie A — the two hub sites the rejection relies on, as they are in the source NOW

`SetID` is the second site (besides the accept paths) that enters a session in the hub, and it does so
for a session that is still being prepared; `closeLocked` — what the reject branch runs — is the site
that takes it out again. The model's `evSetId` / `evCloseStep` are compared with the regenerated
flows of both functions. -/

section TieHub
open SrcFlow (sameSet without)
open SrcPaths

def closerKey : CPc → String
  | .hubdel => "call:sessHub.delete" | .notify => "call:notifyClosed" | .waitCtx => "wg:ctx.Wait"
  | .setClosed => "store:statusActiveClosed" | .sockClose => "call:socket.Close" | .hook => "stage:postDisconnect"

/-- the stages the model's closer goes through after its compare-and-swap, in order. -/
def closerTrace : Nat → St → List String
  | 0, _ => []
  | n + 1, s =>
    match s.closer, step s .closeStep with
    | some c, some t => closerKey c :: closerTrace n t
    | _, _ => []

def modelCloserKeys : List String := closerTrace 8 (startClose (init false true))

def statName : SStat → String
  | .preparing => "statusPreparing" | .ok => "statusOk" | .activeClosing => "statusActiveClosing"
  | .activeClosed => "statusActiveClosed" | .passiveClosing => "statusPassiveClosing"
  | .passiveClosed => "statusPassiveClosed"

def allStats : List SStat := [.preparing, .ok, .activeClosing, .activeClosed, .passiveClosing, .passiveClosed]

/-- statuses from which the model's `Close()` proceeds (`startClose`). -/
def closeFromModel : List SStat :=
  allStats.filter fun st => (startClose { init false true with status := st }).closer.isSome

/-- statuses in which the model's `SetID` enters the session in the hub. -/
def setIdRegisters : List SStat :=
  allStats.filter fun st =>
    match evSetId { init false true with status := st } 5 with
    | some t => t.hub.get 5 == some 0
    | none => false

def names (l : List SStat) : String := ",".intercalate (l.map statName)

/-- **`Close()` takes the session out of the hub unconditionally; `SetID` enters a session that is
    being prepared (tie A).** In `session.closeLocked` as it is now: the compare-and-swap to
    `ActiveClosing` from exactly the statuses from which the model's close proceeds (Ok, Preparing),
    its failing branch returns, and then — in the model's order, none of them under any condition —
    `sessHub.delete(s.ID(), s)`, `notifyClosed`, the waits, the store of `ActiveClosed`,
    `socket.Close`, the disconnect hook. In `session.SetID` as it is now: return on an unchanged id;
    one status check (exactly the statuses in which the model's `SetID` registers: Preparing, Ok)
    whose failing branch returns; then `sessHub.set(s)` and `sessHub.delete(oldID, s)`
    unconditionally; a second check of the same statuses guards the extra
    `sessHub.delete(newID, s)`. Making the removal in `closeLocked` depend on anything (the status
    before the close, a "registered" flag), dropping it, or changing the statuses in which `SetID`
    registers, changes the regenerated path sets and this theorem no longer checks. (Both functions
    are compared as SETS OF CONTROL-FLOW PATHS: `closeLocked` has exactly the losing path and the
    winning path with the model's order; `SetID` exactly the four paths listed.) -/
theorem C16_close_unlists_setid_registers :
    Gen.tpaths_session_closeLocked_missing = [] ∧ Gen.tpaths_session_SetID_missing = [] ∧
    sameSet (Gen.tpaths_session_closeLocked.map fun p => without ["wg:call.Wait"] (tags p))
      [["cas:statusActiveClosing<-" ++ names [.ok, .preparing] ++ "=fail"],
       ("cas:statusActiveClosing<-" ++ names [.ok, .preparing] ++ "=ok") :: modelCloserKeys] = true ∧
    sameSet [SStat.ok, SStat.preparing] closeFromModel = true ∧
    modelCloserKeys.length = 6 ∧
    Gen.tpaths_session_closeLocked.all (fun p => p.all fun (e : PEv) => !e.is "call" "sessHub.delete" || e.detail == "argc=2") = true ∧
    sameSet (Gen.tpaths_session_SetID.map tags)
      [[],
       ["check:" ++ names setIdRegisters ++ "=fail"],
       ["check:" ++ names setIdRegisters ++ "=ok", "call:sessHub.set", "call:sessHub.delete", "check:" ++ names setIdRegisters ++ "=ok"],
       ["check:" ++ names setIdRegisters ++ "=ok", "call:sessHub.set", "call:sessHub.delete", "check:" ++ names setIdRegisters ++ "=fail",
        "call:sessHub.delete"]] = true ∧
    Gen.tpaths_session_SetID.all (fun p => p.all fun (e : PEv) =>
      (!e.is "call" "sessHub.delete" || e.detail == "argc=2") && (!e.is "call" "sessHub.set" || e.detail == "argc=1")) = true ∧
    setIdRegisters = [.preparing, .ok] := by
  decide

/-- non-vacuity: the model's closer order, spelled out. -/
example : modelCloserKeys = ["call:sessHub.delete", "call:notifyClosed", "wg:ctx.Wait",
    "store:statusActiveClosed", "call:socket.Close", "stage:postDisconnect"] := by decide

end TieHub

end C16
end Teleport
