/-
Lemmas/SrcPaths — vocabulary for the regenerated PATH facts of `srcfacts` (tie A;
`harness/cmd/srcfacts/paths.go`).

A path fact of a Go function is the sorted set of its acyclic control-flow paths; a path is the
ordered list of the tracked events on it, each `(kind, name, detail, outcome)`:
  kind/name  as in Lemmas/SrcFlow (`stage`/<fn>, `store`/<const>, `cas`/`<to><-<from,…>`, `check`, `load`,
             `cmp`/`==<const>`, `case`, `call`/<named call>, `wg`, `lock`, `spawn`/`run`, `setcont`,
             `flag`/`set`|`is`, `assign`, `return`) plus `goto`/`back`, `loop`/`back`|`next`|`break`, `exit`,
             and for the stage functions `range`, `assert`/<interface>, `invoke`/<method>
  detail     container class of a stage call, `argc=N`, the value of a flag assignment, the rendered
             operands of a `return` (a tracked result as `<event>()`)
  outcome    what THIS path decided about the event's result: `ok` | `fail` (verdict OK / not OK,
             status OK / not, compare-and-swap won / lost, error nil / not), `true` | `false`
             (comparison of a loaded status, test of the reply-written flag), `` = never tested
Helpers are inlined, conditions are normalised, statements without tracked events do not appear:
a behaviour-preserving rewrite (inverted condition with swapped branches, extracted helper that
returns the verdict, else-nesting instead of early return, switch instead of if-chain) leaves the
set of paths unchanged. Everything here is computable by `decide`. Core Lean only.
-/
import Teleport.Lemmas.SrcFlow

namespace Teleport.SrcPaths
open SrcFlow (after upto dedup)

abbrev PEv := String × String × String × String
abbrev Path := List PEv

namespace PEv
def kind (e : PEv) : String := e.1
def name (e : PEv) : String := e.2.1
def detail (e : PEv) : String := e.2.2.1
def out (e : PEv) : String := e.2.2.2
def key (e : PEv) : String := e.1 ++ ":" ++ e.2.1
def is (e : PEv) (kind name : String) : Bool := e.1 == kind && e.2.1 == name
/-- `kind:name=outcome` (no `=` when the path does not decide the event). -/
def tag (e : PEv) : String := if e.2.2.2 == "" then e.1 ++ ":" ++ e.2.1 else e.1 ++ ":" ++ e.2.1 ++ "=" ++ e.2.2.2
/-- like `tag`, a `return` with what it returns. -/
def rtag (e : PEv) : String := if e.1 == "return" then "return:" ++ e.2.2.1 else tag e
/-- the event without its outcome. -/
def strip (e : PEv) : PEv := (e.1, e.2.1, e.2.2.1, "")
end PEv

/-- the path without `return` events. -/
def body (p : Path) : Path := p.filter fun e => e.kind != "return"
def keys (p : Path) : List String := (body p).map PEv.key
def tags (p : Path) : List String := (body p).map PEv.tag
def rtags (p : Path) : List String := p.map PEv.rtag

/-- paths that do not end in `exit` (a panic / Fatalf of an argument check). -/
def live (ps : List Path) : List Path := ps.filter fun p => !(p.any fun e => e.kind == "exit")

/-- project every path on the events that satisfy `keep`; set of projected paths. -/
def proj (keep : PEv → Bool) (ps : List Path) : List Path := dedup (ps.map fun p => p.filter keep)

/-- every event that satisfies `b` has an event that satisfies `a` somewhere before it. -/
def precededBy (a b : PEv → Bool) : Path → Bool
  | [] => true
  | e :: r => if a e then true else (!b e) && precededBy a b r

/-- no event that satisfies `b` after the first one that satisfies `a`. -/
def noneAfter (a b : PEv → Bool) (p : Path) : Bool :=
  match after a p with
  | some r => !(r.any b)
  | none => true

/-- the event right after the first one that satisfies `a` (none if `a` does not occur or is last). -/
def nextAfter (a : PEv → Bool) (p : Path) : Option PEv := (after a p).bind List.head?

/-- the events strictly after the first one that satisfies `a` (`[]` if it does not occur). -/
def rest (a : PEv → Bool) (p : Path) : Path := (after a p).getD []

/-- the events strictly before the first one that satisfies `a` (the whole path if it does not occur). -/
def pre (a : PEv → Bool) (p : Path) : Path := (upto a p).getD p

/-- the events strictly before the first one that satisfies `a` (`[]` if it does not occur). -/
def upTo (a : PEv → Bool) (p : Path) : Path := (upto a p).getD []

def isSubseq [BEq α] : List α → List α → Bool
  | [], _ => true
  | _ :: _, [] => false
  | a :: r, b :: s => if a == b then isSubseq r s else isSubseq (a :: r) s

/-- stage calls and container switches of a path, outcomes removed. -/
def stageEvs (p : Path) : Path := (p.filter fun e => e.kind == "stage" || e.kind == "setcont").map PEv.strip

/-- the longest stage / container sequence among the paths. -/
def spine (ps : List Path) : Path :=
  (ps.map stageEvs).foldl (fun best q => if q.length > best.length then q else best) []

/-- every path runs a sub-sequence of the spine: the stage calls of the function are totally
    ordered, a path can only skip some. -/
def spineCovers (ps : List Path) : Bool := (ps.map stageEvs).all fun q => isSubseq q (spine ps)

/-- some path tests the verdict of the stage call. -/
def decided (ps : List Path) (stage : String) : Bool :=
  ps.any fun p => p.any fun e => e.is "stage" stage && e.out != ""

/-- every path that runs the stage tests its verdict. -/
def alwaysDecided (ps : List Path) (stage : String) : Bool :=
  ps.all fun p => p.all fun e => !(e.is "stage" stage) || e.out != ""

def isFail (e : PEv) : Bool := e.out == "fail"
def isStageFail (e : PEv) : Bool := e.kind == "stage" && e.out == "fail"

/-- the spine, each stage call with "is its verdict tested on some path". -/
def annot (ps : List Path) : List (PEv × Bool) := (spine ps).map fun e => (e, decided ps e.name)

end Teleport.SrcPaths
