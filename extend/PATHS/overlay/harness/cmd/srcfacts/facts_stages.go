package main

// Fact group `Stages` (property C09, plugin hooks; C03 for the reply-written flag of handleCall).
//
// Emits into Gen/Stages.lean
//
//	stage_funcs            names of the stage functions of plugin.go (methods `pre*`/`post*` of
//	                       pluginSingleContainer / PluginContainer); set
//	stage_loop_paths       for each of them the control-flow paths of the function (paths.go, stage-function mode:
//	                       the loop run for zero or one plugin): `range:<list>`, `assert:<interface>` (outcome ok / fail =
//	                       the plugin implements it or not; detail `rangeval` = asserted on the loop variable),
//	                       `invoke:<method>` (outcome = the plugin's verdict), `loop:next` / `loop:break`, `return`
//	                       (detail: the operand; `<Method>()` = the verdict itself), `exit` (Fatalf)
//	stage_recover          (function, `recover` | `none`): a deferred recover() is installed
//	spaths_<root>          the control-flow PATHS (see paths.go) of each watched function projected on the kinds
//	                       stage, setcont, flag, return, goto, exit, loop:back and the calls writeReply, write, ReadMessage,
//	                       handleFunc, unknownHandleFunc, bind*, handle*, done, sess.Close; with `spaths_<root>_missing`
//	                       (what could not be placed in THAT root: a consumer depends only on the roots it reads)
//	spaths_handlerCtx_handleCall_recover   the paths of handleCall's deferred recover() literal with a panic pending
//	stage_unwatched_sites  (function, stage) of every stage call in the root package that no watched
//	                       root reaches (directly or through an inlined helper); set
//
// Watched roots: session.AsyncCall, Push, startReadAndHandle; handlerCtx.binding, bindCall, bindPush, bindReply,
// handleCall, handlePush, handleReply; peer.ServeConn, the accept literal of peer.serveListener, peer.Dial
// (without the redial literal), the redial literal of peer.Dial; session.closeLocked, readDisconnected.

import (
	"go/ast"
	"sort"
	"strings"
)

func init() {
	register(Group{
		Name: "Stages",
		Doc:  "PATH-SENSITIVE: the control-flow paths of every function that runs message or connection hooks, each path the ordered stage calls (container class, verdict as decided on that path) with the handler / write / flag events between them; the paths of every stage function of plugin.go; the paths of handleCall's deferred recover. Per-root `_missing` lists. Consumed by Teleport.Props.C09 (C09_callsite_order, C09_stage_loops, C09_veto_sites) and Teleport.Props.C03 (C03_writed_before_postwrite).",
		Gen:  genStages,
	})
}

var stagesRoots = map[string]bool{
	"session.AsyncCall": true, "session.Push": true, "session.startReadAndHandle": true,
	"handlerCtx.binding": true, "handlerCtx.bindCall": true, "handlerCtx.bindPush": true, "handlerCtx.bindReply": true,
	"handlerCtx.handleCall": true, "handlerCtx.handlePush": true, "handlerCtx.handleReply": true,
	"peer.ServeConn": true, "peer.serveListener#accept": true, "peer.Dial": true, "peer.Dial#redial": true,
	"session.closeLocked": true, "session.readDisconnected": true,
}

var stagesCalls = map[string]bool{
	"call:writeReply": true, "call:write": true, "call:ReadMessage": true, "call:handleFunc": true, "call:unknownHandleFunc": true,
	"call:bindCall": true, "call:bindPush": true, "call:bindReply": true, "call:handleCall": true, "call:handlePush": true,
	"call:handleReply": true, "call:done": true, "call:sess.Close": true,
}

func stagesKeepPath(kind, name string) bool {
	switch kind {
	case "stage", "setcont", "flag", "return", "goto", "exit":
		return true
	case "loop":
		return name == "back"
	}
	return stagesCalls[kind+":"+name]
}

func genStages(r *Repo, l *Lean) {
	p := r.Pkg("")
	if p.Err != nil || len(p.Files) == 0 {
		l.Missing("stages_parse", "root package does not parse")
		return
	}
	x := flNewPkg(p)

	// ---- stage functions and their loops
	var fns []string
	for n := range x.stages {
		fns = append(fns, n)
	}
	sort.Strings(fns)
	if len(fns) == 0 {
		l.Missing("stage_funcs", "no pre*/post* method of pluginSingleContainer / PluginContainer found")
	} else {
		l.StrSet("stage_funcs", "names of the stage functions of plugin.go", fns)
	}
	var loopRows, recRows []string
	for _, n := range fns {
		decls := x.byName[n]
		var fd *ast.FuncDecl
		cnt := 0
		for _, d := range decls {
			if rt := recvTypeName(d); rt == "pluginSingleContainer" || rt == "PluginContainer" {
				fd = d
				cnt++
			}
		}
		if cnt != 1 {
			loopRows = append(loopRows, "("+leanStr(n)+", [[(\"?\", \"declared "+stItoa(cnt)+" times\", \"\", \"\")]])")
			continue
		}
		paths, missing := x.pathsOfRoot(flRoot{Name: n, fd: fd, body: fd.Body}, nil, true)
		paths = pProject(paths, func(kind, _ string) bool {
			switch kind {
			case "range", "assert", "invoke", "loop", "return", "exit", "goto":
				return true
			}
			return false
		})
		if len(missing) > 0 {
			paths = append(paths, pPath{{"?", strings.Join(missing, "; "), "", ""}})
		}
		loopRows = append(loopRows, "("+leanStr(n)+", "+strings.ReplaceAll(pPathsLean(paths), "\n  ", "\n    ")+")")
		rec := "none"
		for _, st := range fd.Body.List {
			if d, ok := st.(*ast.DeferStmt); ok {
				has := false
				ast.Inspect(d, func(m ast.Node) bool {
					if c, ok := m.(*ast.CallExpr); ok && flCalleeName(c) == "recover" {
						has = true
					}
					return true
				})
				if has {
					rec = "recover"
				} else {
					rec = "?defer without recover"
				}
			}
		}
		recRows = append(recRows, "("+leanStr(n)+", "+leanStr(rec)+")")
	}
	l.add("stage_loop_paths", "(function, paths) of every stage function: the paths through the function with the loop run for zero or one plugin — `range:<list>`, `assert:<interface>` (outcome: does the plugin implement it), `invoke:<method>` (outcome: its verdict), `loop:next` / `loop:break`, `return` (detail: what is returned; `<Method>()` = the verdict); sorted by function",
		"List (String × "+pPathsType+")", "[\n  "+strings.Join(loopRows, ",\n  ")+"]")
	l.add("stage_recover", "(function, `recover` | `none`) : does the stage function install a deferred recover(); sorted by function",
		"List (String × String)", "[\n  "+strings.Join(recRows, ",\n  ")+"]")

	// ---- paths (see paths.go): per root, projected on the vocabulary of this group
	consts := transStatusConstsQuiet(p)
	for _, root := range x.standardRoots() {
		if !stagesRoots[root.Name] {
			continue
		}
		name := "spaths_" + flLeanName(root.Name)
		if root.why != "" {
			l.missingPaths(name, root.why)
			continue
		}
		paths, missing := x.pathsOfRoot(root, consts, false)
		l.addPaths(name, "paths of "+root.Name+" over stage / setcont / flag / return events and the calls writeReply, write, ReadMessage, handleFunc, unknownHandleFunc, bind*, handle*, done, sess.Close",
			pProject(paths, stagesKeepPath), missing)
		if root.Name == "handlerCtx.handleCall" {
			rp, rm := x.recoverPathsOfRoot(root, consts)
			l.addPaths(name+"_recover", "paths of the deferred recover() literal(s) of "+root.Name+" when a panic is being recovered (nothing known about the locals: `flag:is` = the test of the reply-written flag)",
				pProject(rp, stagesKeepPath), rm)
		}
	}

	// ---- stage calls that no watched flow reaches
	var unw [][]string
	for _, f := range p.Files {
		for _, d := range f.Decls {
			fd, ok := d.(*ast.FuncDecl)
			if !ok || fd.Body == nil {
				continue
			}
			ast.Inspect(fd.Body, func(n ast.Node) bool {
				c, ok := n.(*ast.CallExpr)
				if !ok {
					return true
				}
				if _, isSel := flUnparen(c.Fun).(*ast.SelectorExpr); isSel && x.stages[flCalleeName(c)] && !x.visited[c] {
					unw = append(unw, []string{smFuncName(fd), flCalleeName(c)})
				}
				return true
			})
		}
	}
	l.add("stage_unwatched_sites", "(function, stage) of every stage call of the root package outside the watched flows; sorted set",
		"List (String × String)", flSortedRows(unw))
}

func stItoa(n int) string {
	if n == 0 {
		return "0"
	}
	s := ""
	for n > 0 {
		s = string(rune('0'+n%10)) + s
		n /= 10
	}
	return s
}
