/-
Model/JsonProto — `proto/jsonproto/jsonproto.go`.

Repo-owned code modelled line by line: the hand-written JSON text of `Pack` (`msg1..msg8`,
`strconv.FormatInt`, `strconv.Quote`, `escapeBody`) and the field reads of `Unpack`; the transfer
pipe over the WHOLE text and the outer frame `{size}{pipe length}{pipe ids}{filtered text}` are
Model/Frame2 (shared with pbproto) instantiated with this payload.

Third-party code modelled (validated case by case against the real library by the correspondence
kinds `jsonget` / `jsonunpack`): `gjson.Get(text, key)` of tidwall/gjson v1.2.2 for a plain key on a
document whose first bracket is `{` (`parseObject`, `parseString`, `parseNumber`, `parseLiteral`,
`parseSquash`, `unescape`, `Result.String`, `Result.Int`) and `strconv.Quote` on ASCII strings.
Outside the modelled domain the functions answer `none` (never a made-up value):
  * `goQuote` on a byte ≥ 0x80 (needs UTF-8 validity and the Unicode `IsPrint` tables);
  * `jget` on a document whose first bracket is `[` (gjson's array path);
  * `JVal.toInt` / `JVal.toStr` of a number token that is neither plain decimal nor certainly
    unparsable (`strconv.ParseFloat` / `FormatFloat` are not modelled).
Core Lean only.
-/
import Teleport.Model.Frame2
namespace Teleport
namespace JsonP
open Bytes

/-! ### `strconv.Quote` on ASCII -/

/-- `"0123456789abcdef"[n]` -/
def hexLower (n : UInt8) : UInt8 := if n < 10 then 48 + n else 87 + n

/-- bytes that `strconv.Quote` copies unchanged: printable ASCII except `"` and `\`. -/
def plainByte (c : UInt8) : Bool := 32 ≤ c && c < 127 && c != 34 && c != 92

/-- `appendEscapedRune(buf, rune(c), '"', false, false)` for one ASCII byte (Go 1.23:
    `\a \b \f \n \r \t \v`, other control bytes and 0x7f as `\xNN`); `none` for c ≥ 0x80. -/
def quoteByte (c : UInt8) : Option Bytes :=
  if c ≥ 128 then none
  else if c == 34 then some [92, 34]
  else if c == 92 then some [92, 92]
  else if 32 ≤ c && c < 127 then some [c]
  else if c == 7 then some [92, 97]
  else if c == 8 then some [92, 98]
  else if c == 12 then some [92, 102]
  else if c == 10 then some [92, 110]
  else if c == 13 then some [92, 114]
  else if c == 9 then some [92, 116]
  else if c == 11 then some [92, 118]
  else some [92, 120, hexLower (c >>> 4), hexLower (c &&& 15)]

def quoteBody : Bytes → Option Bytes
  | [] => some []
  | c :: cs =>
    match quoteByte c, quoteBody cs with
    | some a, some b => some (a ++ b)
    | _, _ => none

/-- `strconv.Quote(s)` for an ASCII string. -/
def goQuote (s : Bytes) : Option Bytes := (quoteBody s).map (fun b => 34 :: b ++ [34])

/-! ### `escapeBody` -/

/-- `bytes.Replace(b, []byte{c}, r, -1)` for a one-byte pattern. -/
def replace1 (c : UInt8) (r : Bytes) (b : Bytes) : Bytes := b.flatMap (fun x => if x == c then r else [x])

/-- what `escapeBody` appends for one byte: `\` and `"` get a backslash, a control byte (< 0x20)
    becomes `\u00XX` (lower-case hex), every other byte (incl. ≥ 0x80) is copied. -/
def escByte (c : UInt8) : Bytes :=
  if c == 92 || c == 34 then [92, c]
  else if c < 32 then [92, 117, 48, 48, hexLower (c >>> 4), hexLower (c &&& 15)]
  else [c]

/-- `escapeBody` (one pass over the body; fix C05c). -/
def escapeBody (b : Bytes) : Bytes := b.flatMap escByte

/-- `escapeBody` between fix 39f2b8b and fix C05c: two `bytes.Replace` passes, the backslash
    first, then the double quote; control bytes were copied raw. -/
def escapeBodyOld2 (b : Bytes) : Bytes := replace1 34 [92, 34] (replace1 92 [92, 92] b)

/-- `escapeBody` before fix 39f2b8b: only `"` was escaped. -/
def escapeBodyOld (b : Bytes) : Bytes := replace1 34 [92, 34] b

/-- the low byte of four hex digits (0 for a non-digit, like gjson's `runeit`). -/
def hexByte (a b c d : UInt8) : UInt8 :=
  let v (x : UInt8) : Nat :=
    if 48 ≤ x && x ≤ 57 then x.toNat - 48 else if 97 ≤ x && x ≤ 102 then x.toNat - 87
    else if 65 ≤ x && x ≤ 70 then x.toNat - 55 else 0
  (((v a * 16 + v b) * 16 + v c) * 16 + v d).toUInt8

/-- the inverse the escaping is designed for: `\uXXXX` is the byte with that code, any other
    byte behind a backslash is literal. -/
def unescapeBody : Bytes → Bytes
  | [] => []
  | c :: r =>
    if c != 92 then c :: unescapeBody r
    else
      match r with
      | [] => [c]
      | d :: r1 =>
        if d != 117 then d :: unescapeBody r1
        else
          match r1 with
          | h1 :: h2 :: h3 :: h4 :: r2 => hexByte h1 h2 h3 h4 :: unescapeBody r2
          | r1' => d :: unescapeBody r1'

/-! ### the JSON text written by `Pack` -/

def kSeq : Bytes := [115, 101, 113]                                                   -- seq
def kMtype : Bytes := [109, 116, 121, 112, 101]                                       -- mtype
def kMethod : Bytes := [115, 101, 114, 118, 105, 99, 101, 77, 101, 116, 104, 111, 100] -- serviceMethod
def kStatus : Bytes := [115, 116, 97, 116, 117, 115]                                  -- status
def kMeta : Bytes := [109, 101, 116, 97]                                              -- meta
def kCodec : Bytes := [98, 111, 100, 121, 67, 111, 100, 101, 99]                      -- bodyCodec
def kBody : Bytes := [98, 111, 100, 121]                                              -- body

/-- `"key":value` -/
def member (k v : Bytes) : Bytes := 34 :: k ++ 34 :: 58 :: v

/-- `msg1 .. msg8` with the seven values in place (`qm qs qe` are the three Go-quoted strings). -/
def render (seq mtype qm qs qe codec body : Bytes) : Bytes :=
  123 :: member kSeq seq ++ 44 :: member kMtype mtype ++ 44 :: member kMethod qm
    ++ 44 :: member kStatus qs ++ 44 :: member kMeta qe ++ 44 :: member kCodec codec
    ++ 44 :: member kBody (34 :: body ++ [34]) ++ [125]

/-- the text before the transfer pipe; `none` = the service method is outside the modelled domain
    of `strconv.Quote` (status and metadata query strings never are: `Lemmas/JsonProto`). -/
def text (m : Msg) : Option Bytes :=
  (goQuote m.method).bind fun qm =>
  (goQuote m.status.encode).bind fun qs =>
  (goQuote (Args.query m.md)).map fun qe =>
    render (Num.formatInt 8 m.seq) (Num.formatNat 8 m.mtype.toNat) qm qs qe
      (Num.formatNat 8 m.codec.toNat) (escapeBody m.body)

/-! ### `gjson.Get(text, key)` -/

/-- gjson `Result` as far as `String()` / `Int()` look at it. -/
inductive JVal
  | absent                 -- zero Result (key not found, or the literal `null`: Type Null)
  | str (s : Bytes)        -- Type String, `Str`
  | num (raw : Bytes)      -- Type Number, `Raw`
  | json (raw : Bytes)     -- Type JSON, `Raw`
  | tru | fals
deriving DecidableEq, Repr

/-- the rest of a string after its opening quote: (raw content, input after the closing quote).
    `odd` = an odd number of backslashes immediately precedes (gjson counts them backwards).
    `none` = unterminated. -/
def strEnd : Bool → Bytes → Option (Bytes × Bytes)
  | _, [] => none
  | odd, c :: cs =>
    if c == 34 && !odd then some ([], cs)
    else (strEnd (c == 92 && !odd) cs).map (fun p => (c :: p.1, p.2))

def hexDig (c : UInt8) : Option Nat :=
  if 48 ≤ c && c ≤ 57 then some (c.toNat - 48)
  else if 97 ≤ c && c ≤ 102 then some (c.toNat - 87)
  else if 65 ≤ c && c ≤ 70 then some (c.toNat - 55)
  else none

/-- `runeit`: `strconv.ParseUint(json[:4], 16, 64)`, 0 on a syntax error. -/
def hex4 (a b c d : UInt8) : Nat :=
  match hexDig a, hexDig b, hexDig c, hexDig d with
  | some w, some x, some y, some z => ((w * 16 + x) * 16 + y) * 16 + z
  | _, _, _, _ => 0

/-- `utf8.EncodeRune` -/
def utf8 (r : Nat) : Bytes :=
  if r < 128 then [r.toUInt8]
  else if r < 2048 then [(192 + r / 64).toUInt8, (128 + r % 64).toUInt8]
  else if 55296 ≤ r && r < 57344 then [239, 191, 189]
  else if r < 65536 then [(224 + r / 4096).toUInt8, (128 + r / 64 % 64).toUInt8, (128 + r % 64).toUInt8]
  else if r < 1114112 then
    [(240 + r / 262144).toUInt8, (128 + r / 4096 % 64).toUInt8, (128 + r / 64 % 64).toUInt8, (128 + r % 64).toUInt8]
  else [239, 191, 189]

def isSurr (r : Nat) : Bool := 55296 ≤ r && r < 57344

/-- `utf16.DecodeRune` -/
def decSurr (r1 r2 : Nat) : Nat :=
  if 55296 ≤ r1 && r1 < 56320 && 56320 ≤ r2 && r2 < 57344 then (r1 - 55296) * 1024 + (r2 - 56320) + 65536
  else 65533

/-- gjson `unescape`: stops (returns what it has) at a control byte, at an unknown escape and at a
    truncated escape. -/
def unesc : Bytes → Bytes
  | [] => []
  | c :: cs =>
    if c < 32 then []
    else if c != 92 then c :: unesc cs
    else
      match cs with
      | [] => []
      | e :: r =>
        if e == 92 then 92 :: unesc r
        else if e == 47 then 47 :: unesc r
        else if e == 98 then 8 :: unesc r
        else if e == 102 then 12 :: unesc r
        else if e == 110 then 10 :: unesc r
        else if e == 114 then 13 :: unesc r
        else if e == 116 then 9 :: unesc r
        else if e == 34 then 34 :: unesc r
        else if e == 117 then
          match r with
          | h1 :: h2 :: h3 :: h4 :: r2 =>
            let r1 := hex4 h1 h2 h3 h4
            if isSurr r1 then
              match _hr2 : r2 with
              | b1 :: u1 :: g1 :: g2 :: g3 :: g4 :: r3 =>
                if b1 == 92 && u1 == 117 then utf8 (decSurr r1 (hex4 g1 g2 g3 g4)) ++ unesc r3
                else utf8 r1 ++ unesc r2
              | _ => utf8 r1 ++ unesc r2
            else utf8 r1 ++ unesc r2
          | _ => []
        else []
termination_by l => l.length
decreasing_by all_goals (subst_vars; simp only [List.length_cons]; omega)

/-- value of a string token: `unescape` only when the raw text contains a backslash. -/
def strVal (raw : Bytes) : Bytes := if raw.contains 92 then unesc raw else raw

/-- take bytes until the first one satisfying `stop` (which stays in the rest). -/
def untilB (stop : UInt8 → Bool) : Bytes → Bytes × Bytes
  | [] => ([], [])
  | c :: cs => if stop c then ([], c :: cs) else ((c :: (untilB stop cs).1), (untilB stop cs).2)

/-- `parseNumber` stops at: byte ≤ ' ', `,`, `]`, `}`. -/
def numStop (c : UInt8) : Bool := c ≤ 32 || c == 44 || c == 93 || c == 125
/-- `parseLiteral` stops at anything but `a..z`. -/
def litStop (c : UInt8) : Bool := c < 97 || c > 122

/-- `parseSquash` after the opening bracket: (consumed text incl. the closing bracket, rest).
    `d` = depth, `inStr`/`odd` = inside a string / odd backslash run. Any closing bracket closes
    any opening one, exactly like the Go code. -/
def squash : Nat → Bool → Bool → Bytes → Bytes × Bytes
  | _, _, _, [] => ([], [])
  | d, true, odd, c :: cs =>
    if c == 34 && !odd then (c :: (squash d false false cs).1, (squash d false false cs).2)
    else (c :: (squash d true (c == 92 && !odd) cs).1, (squash d true (c == 92 && !odd) cs).2)
  | d, false, _, c :: cs =>
    if c == 34 then (c :: (squash d true false cs).1, (squash d true false cs).2)
    else if c == 123 || c == 91 then (c :: (squash (d + 1) false false cs).1, (squash (d + 1) false false cs).2)
    else if c == 125 || c == 93 then
      (if d ≤ 1 then ([c], cs) else (c :: (squash (d - 1) false false cs).1, (squash (d - 1) false false cs).2))
    else (c :: (squash d false false cs).1, (squash d false false cs).2)

def isDigit (c : UInt8) : Bool := 48 ≤ c && c ≤ 57

/-- the value loop of `parseObject`: skip to the first byte that starts a value and parse it.
    `none` = input exhausted or unterminated string (the search ends without a result). -/
def value : Bytes → Option (JVal × Bytes)
  | [] => none
  | c :: cs =>
    if c == 34 then (strEnd false cs).map (fun p => (.str (strVal p.1), p.2))
    else if c == 123 || c == 91 then some (.json (c :: (squash 1 false false cs).1), (squash 1 false false cs).2)
    else if c == 45 || isDigit c then some (.num (c :: (untilB numStop cs).1), (untilB numStop cs).2)
    else if c == 116 then some (.tru, (untilB litStop cs).2)
    else if c == 102 then some (.fals, (untilB litStop cs).2)
    else if c == 110 then some (.absent, (untilB litStop cs).2)
    else value cs

/-- the key loop of `parseObject`: input after the opening quote of the next key; `none` = `}` or
    the end of the input came first. -/
def skipToKey : Bytes → Option Bytes
  | [] => none
  | c :: cs => if c == 34 then some cs else if c == 125 then none else skipToKey cs

/-- `parseObject(c, i, key)` for a plain key (no `. * ? | \`); fuel ≥ input length suffices. -/
def obj (key : Bytes) : Nat → Bytes → JVal
  | 0, _ => .absent
  | f + 1, d =>
    match skipToKey d with
    | none => .absent
    | some d1 =>
      match strEnd false d1 with
      | none => .absent
      | some (k, d2) =>
        match value d2 with
        | none => .absent
        | some (v, d3) => if strVal k == key then v else obj key f d3

/-- first bracket of the document: (is `{`, input after it). -/
def openAt : Bytes → Option (Bool × Bytes)
  | [] => none
  | c :: cs => if c == 123 then some (true, cs) else if c == 91 then some (false, cs) else openAt cs

/-- `gjson.Get(doc, key)`; `none` = the document starts with `[` (not modelled). -/
def jget (doc key : Bytes) : Option JVal :=
  match openAt doc with
  | none => some .absent
  | some (true, r) => some (obj key (r.length + 1) r)
  | some (false, _) => none

/-- `-?[0-9]+` → its value (gjson `parseInt`, exact; the int64 wrap-around is subsumed by the
    int32 / byte conversion of the caller). -/
def decInt (raw : Bytes) : Option Int :=
  match raw with
  | [] => none
  | c :: cs =>
    if c == 45 then (if cs.isEmpty then none else (Num.parseDigits 10 cs 0).map (fun (n : Nat) => -(n : Int)))
    else (Num.parseDigits 10 raw 0).map (fun (n : Nat) => (n : Int))

/-- bytes that can occur in something `strconv.ParseFloat` accepts. -/
def floatByte (c : UInt8) : Bool :=
  isDigit c || c == 43 || c == 45 || c == 46 || c == 95 ||
  [101, 69, 120, 88, 112, 80, 105, 73, 110, 78, 102, 70, 97, 65, 116, 84, 121, 89].contains c

/-- `Result.Int()`; `none` = depends on `strconv.ParseFloat` (not modelled). -/
def JVal.toInt : JVal → Option Int
  | .absent => some 0
  | .str s => some ((decInt s).getD 0)
  | .num raw =>
    match decInt raw with
    | some v => some v
    | none => if raw.all floatByte then none else some 0
  | .json _ => some 0
  | .tru => some 1
  | .fals => some 0

/-- `Result.String()`; `none` = depends on `strconv.FormatFloat` (not modelled). -/
def JVal.toStr : JVal → Option Bytes
  | .absent => some []
  | .str s => some s
  | .num raw =>
    match raw with
    | [] => none
    | c :: cs =>
      if (if c == 45 then cs else raw).all isDigit then some raw
      else if raw.all floatByte then none else some [48]
  | .json raw => some raw
  | .tru => some [116, 114, 117, 101]
  | .fals => some [102, 97, 108, 115, 101]

/-! ### `Unpack` -/

/-- `int32(x)` of an int64 -/
def wrap32 (i : Int) : Int := (i + 2147483648) % 4294967296 - 2147483648
/-- `byte(x)` of an int64 -/
def byteOf (i : Int) : UInt8 := (i % 256).toNat.toUInt8

def getInt (s key : Bytes) : Except String Int :=
  match (jget s key).bind JVal.toInt with
  | none => .error "unmodelled"
  | some v => .ok v

def getStr (s key : Bytes) : Except String Bytes :=
  match (jget s key).bind JVal.toStr with
  | none => .error "unmodelled"
  | some v => .ok v

/-- "read other" + "read body" of `Unpack` on the un-filtered text. `panic:statusquote` = goutil's
    status decoder indexes its 255-entry hex table out of range (recovered by the caller). -/
def parseText (size : Nat) (pipe : List UInt8) (s : Bytes) : Except String Msg :=
  (getInt s kSeq).bind fun seq =>
  (getInt s kMtype).bind fun mt =>
  (getStr s kMethod).bind fun method =>
  (getStr s kStatus).bind fun st =>
  (getStr s kMeta).bind fun me =>
  (getInt s kCodec).bind fun co =>
  (getStr s kBody).bind fun body =>
  (Raw.ofOpt "panic:statusquote" (Status.decode st)).bind fun status =>
  (Raw.ofOpt "panic:metaquote" (Args.parse me)).bind fun md =>
  .ok { seq := wrap32 seq, mtype := byteOf mt, method, status, md, codec := byteOf co, body, pipe, size }

/-- jsonproto's payload: the hand-written JSON text and the gjson field reads. -/
def payload : Frame2.Payload := { ser := text, de := parseText }

/-- `jsonproto.Pack`: the bytes of the single `Write` and the size recorded in the message
    (`.ser` is not a Go error: the model does not cover that service method). -/
def pack (reg : Registry) (limit : Nat) (m : Msg) : Except Frame2.PackErr (Bytes × Nat) :=
  Frame2.pack payload reg limit m

/-- `jsonproto.Unpack` on the input `inp` (everything that will ever arrive). -/
def unpack (reg : Registry) (limit : Nat) (inp : Bytes) : Raw.Out := Frame2.unpack payload reg limit inp

/-- read exactly `n` back-to-back frames. -/
def unpackN (reg : Registry) (limit : Nat) (n : Nat) (inp : Bytes) : Option (List Msg × Bytes) :=
  Frame2.unpackN payload reg limit n inp

end JsonP
end Teleport
