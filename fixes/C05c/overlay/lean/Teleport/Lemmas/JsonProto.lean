import Teleport.Model.JsonProto
import Teleport.Lemmas.Frame2
/-
Lemmas/JsonProto — helper lemmas for the jsonproto part of C05: the body escaping and its
inverse, `strconv.Quote` on the strings that occur, the gjson scanner on the documents `Pack`
writes, and the frame round trip.
-/
namespace Teleport
namespace JsonP
open Bytes

/-! ### body escaping -/

theorem escapeBody_nil : escapeBody [] = [] := rfl

theorem escapeBody_cons (c : UInt8) (b : Bytes) : escapeBody (c :: b) = escByte c ++ escapeBody b := by
  simp [escapeBody]

/-- per-byte facts behind the `\u00XX` form of a control byte: the two hex digits are neither `"`
    nor `\`, gjson's `runeit` + `utf8.EncodeRune` give the byte back, and so does `hexByte`. -/
def ctlOK (c : UInt8) : Bool :=
  let h := hexLower (c >>> 4)
  let l := hexLower (c &&& 15)
  !(c < 32) ||
    (h != 34 && h != 92 && l != 34 && l != 92 && !isSurr (hex4 48 48 h l) && utf8 (hex4 48 48 h l) == [c]
      && hexByte 48 48 h l == c)

theorem ctlOK_all : ∀ c, ctlOK c = true := by
  apply forall_u8
  decide +kernel

theorem ctl_facts (c : UInt8) (hc : c < 32) :
    hexLower (c >>> 4) ≠ 34 ∧ hexLower (c >>> 4) ≠ 92 ∧ hexLower (c &&& 15) ≠ 34 ∧ hexLower (c &&& 15) ≠ 92 ∧
    isSurr (hex4 48 48 (hexLower (c >>> 4)) (hexLower (c &&& 15))) = false ∧
    utf8 (hex4 48 48 (hexLower (c >>> 4)) (hexLower (c &&& 15))) = [c] ∧
    hexByte 48 48 (hexLower (c >>> 4)) (hexLower (c &&& 15)) = c := by
  have h := ctlOK_all c
  unfold ctlOK at h
  simpa [hc, and_assoc] using h

theorem escByte_bs : escByte 92 = [92, 92] := by decide
theorem escByte_quote : escByte 34 = [92, 34] := by decide

theorem ctl_ne (c : UInt8) (hc : c < 32) : c ≠ 92 ∧ c ≠ 34 := by
  constructor <;> (intro h; subst h; exact absurd hc (by decide))

theorem escByte_ctl (c : UInt8) (hc : c < 32) :
    escByte c = [92, 117, 48, 48, hexLower (c >>> 4), hexLower (c &&& 15)] := by
  obtain ⟨h1, h2⟩ := ctl_ne c hc
  simp [escByte, h1, h2, hc]

theorem escByte_plain (c : UInt8) (h0 : ¬ c < 32) (h1 : c ≠ 92) (h2 : c ≠ 34) : escByte c = [c] := by
  simp [escByte, h1, h2, h0]

/-- the four shapes of `escByte c`. -/
theorem escByte_cases (c : UInt8) :
    (c = 92 ∧ escByte c = [92, 92]) ∨ (c = 34 ∧ escByte c = [92, 34]) ∨
    (c < 32 ∧ escByte c = [92, 117, 48, 48, hexLower (c >>> 4), hexLower (c &&& 15)]) ∨
    (¬ c < 32 ∧ c ≠ 92 ∧ c ≠ 34 ∧ escByte c = [c]) := by
  by_cases h1 : c = 92
  · subst h1; exact Or.inl ⟨rfl, escByte_bs⟩
  · by_cases h2 : c = 34
    · subst h2; exact Or.inr (Or.inl ⟨rfl, escByte_quote⟩)
    · by_cases h0 : c < 32
      · exact Or.inr (Or.inr (Or.inl ⟨h0, escByte_ctl c h0⟩))
      · exact Or.inr (Or.inr (Or.inr ⟨h0, h1, h2, escByte_plain c h0 h1 h2⟩))

theorem unescapeBody_plain (c : UInt8) (r : Bytes) (h : c ≠ 92) :
    unescapeBody (c :: r) = c :: unescapeBody r := by
  rw [unescapeBody.eq_def]
  simp [h]

theorem unescapeBody_esc (d : UInt8) (r : Bytes) (h : d ≠ 117) :
    unescapeBody (92 :: d :: r) = d :: unescapeBody r := by
  rw [unescapeBody.eq_def]
  simp [h]

theorem unescapeBody_u (h1 h2 h3 h4 : UInt8) (r : Bytes) :
    unescapeBody (92 :: 117 :: h1 :: h2 :: h3 :: h4 :: r) = hexByte h1 h2 h3 h4 :: unescapeBody r := by
  rw [unescapeBody.eq_def]
  simp

theorem unescapeBody_escByte (c : UInt8) (r : Bytes) : unescapeBody (escByte c ++ r) = c :: unescapeBody r := by
  rcases escByte_cases c with ⟨rfl, e⟩ | ⟨rfl, e⟩ | ⟨hc, e⟩ | ⟨_, h1, _, e⟩ <;> rw [e]
  · exact unescapeBody_esc 92 r (by decide)
  · exact unescapeBody_esc 34 r (by decide)
  · simp only [List.cons_append, List.nil_append]
    rw [unescapeBody_u, (ctl_facts c hc).2.2.2.2.2.2]
  · exact unescapeBody_plain c r h1

/-- the inverse of the escaping restores every byte string. -/
theorem unescapeBody_escapeBody (b : Bytes) : unescapeBody (escapeBody b) = b := by
  induction b with
  | nil => rfl
  | cons c b ih => rw [escapeBody_cons, unescapeBody_escByte, ih]

/-- a body of bytes ≥ 0x20 without `"` and `\` is embedded unchanged. -/
theorem escapeBody_plain (b : Bytes) (h : ∀ c ∈ b, ¬ c < 32 ∧ c ≠ 34 ∧ c ≠ 92) : escapeBody b = b := by
  induction b with
  | nil => rfl
  | cons c b ih =>
    have hc := h c (by simp)
    rw [escapeBody_cons, ih (fun x hx => h x (by simp [hx])), escByte_plain c hc.1 hc.2.2 hc.2.1]
    rfl

theorem strEnd_esc (d : UInt8) (t : Bytes) :
    strEnd false (92 :: d :: t) = (strEnd false t).map (fun p => (92 :: d :: p.1, p.2)) := by
  simp [strEnd, Option.map_map, Function.comp_def]

theorem strEnd_plain1 (c : UInt8) (t : Bytes) (h1 : c ≠ 34) (h2 : c ≠ 92) :
    strEnd false (c :: t) = (strEnd false t).map (fun p => (c :: p.1, p.2)) := by
  have e : (c == 92) = false := by simp [h2]
  simp [strEnd, h1, e]

/-- the scanner steps over the escaped form of one byte without ending the string. -/
theorem strEnd_escByte (c : UInt8) (t : Bytes) :
    strEnd false (escByte c ++ t) = (strEnd false t).map (fun p => (escByte c ++ p.1, p.2)) := by
  rcases escByte_cases c with ⟨rfl, e⟩ | ⟨rfl, e⟩ | ⟨hc, e⟩ | ⟨_, h1, h2, e⟩ <;> rw [e]
  · exact strEnd_esc 92 t
  · exact strEnd_esc 34 t
  · obtain ⟨a1, a2, a3, a4, _⟩ := ctl_facts c hc
    simp only [List.cons_append, List.nil_append]
    rw [strEnd_esc, strEnd_plain1 48 _ (by decide) (by decide), strEnd_plain1 48 _ (by decide) (by decide),
      strEnd_plain1 _ _ a1 a2, strEnd_plain1 _ _ a3 a4]
    simp [Option.map_map, Function.comp_def]
  · exact strEnd_plain1 c t h2 h1

/-- the closing quote of the embedded body is the first un-escaped quote: the scanner finds the
    end of the string exactly behind the escaped body, whatever the body. -/
theorem strEnd_escapeBody (b r : Bytes) : strEnd false (escapeBody b ++ 34 :: r) = some (escapeBody b, r) := by
  induction b with
  | nil => simp [escapeBody_nil, strEnd]
  | cons c b ih =>
    rw [escapeBody_cons, List.append_assoc, strEnd_escByte, ih]
    rfl

theorem strEnd_plain (s r : Bytes) (h : ∀ c ∈ s, c ≠ 34 ∧ c ≠ 92) : strEnd false (s ++ 34 :: r) = some (s, r) := by
  induction s with
  | nil => simp [strEnd]
  | cons c s ih =>
    have hc := h c (by simp)
    rw [List.cons_append, strEnd_plain1 c _ hc.1 hc.2, ih (fun x hx => h x (by simp [hx]))]
    rfl

theorem strVal_plain (s : Bytes) (h : ∀ c ∈ s, c ≠ 92) : strVal s = s := by
  unfold strVal
  have : s.contains 92 = false := by
    cases hc : s.contains 92 with
    | false => rfl
    | true => simp only [List.contains_iff_mem] at hc; exact absurd rfl (h 92 hc)
  simp only [this, Bool.false_eq_true, if_false]

theorem unesc_nil : unesc [] = [] := by rw [unesc.eq_def]

theorem unesc_plain (c : UInt8) (r : Bytes) (h1 : 32 ≤ c) (h2 : c ≠ 92) : unesc (c :: r) = c :: unesc r := by
  rw [unesc.eq_def]
  have : ¬ c < 32 := by simpa using h1
  simp only [this, if_false, bne_iff_ne, ne_eq, h2, not_false_eq_true, if_true]

theorem unesc_bs (r : Bytes) : unesc (92 :: 92 :: r) = 92 :: unesc r := by
  rw [unesc.eq_def]
  simp only [show ¬ ((92:UInt8) < 32) by decide, if_false, show ((92:UInt8) != 92) = false by decide, Bool.false_eq_true,
    beq_self_eq_true, if_true]

theorem unesc_quote (r : Bytes) : unesc (92 :: 34 :: r) = 34 :: unesc r := by
  rw [unesc.eq_def]
  simp only [show ¬ ((92:UInt8) < 32) by decide, if_false, show ((92:UInt8) != 92) = false by decide, Bool.false_eq_true,
    show ((34:UInt8) == 92) = false by decide, show ((34:UInt8) == 47) = false by decide, show ((34:UInt8) == 98) = false by decide,
    show ((34:UInt8) == 102) = false by decide, show ((34:UInt8) == 110) = false by decide, show ((34:UInt8) == 114) = false by decide,
    show ((34:UInt8) == 116) = false by decide, beq_self_eq_true, if_true]

/-- gjson's `unescape` on `\uXXXX` for a code outside the surrogate range: the UTF-8 encoding. -/
theorem unesc_u (h1 h2 h3 h4 : UInt8) (r : Bytes) (hs : isSurr (hex4 h1 h2 h3 h4) = false) :
    unesc (92 :: 117 :: h1 :: h2 :: h3 :: h4 :: r) = utf8 (hex4 h1 h2 h3 h4) ++ unesc r := by
  rw [unesc.eq_def]
  simp only [show ¬ ((92:UInt8) < 32) by decide, if_false, show ((92:UInt8) != 92) = false by decide, Bool.false_eq_true,
    show ((117:UInt8) == 92) = false by decide, show ((117:UInt8) == 47) = false by decide, show ((117:UInt8) == 98) = false by decide,
    show ((117:UInt8) == 102) = false by decide, show ((117:UInt8) == 110) = false by decide, show ((117:UInt8) == 114) = false by decide,
    show ((117:UInt8) == 116) = false by decide, show ((117:UInt8) == 34) = false by decide, beq_self_eq_true, if_true, hs]

/-- gjson's `unescape` undoes the escaped form of one byte, whatever the byte. -/
theorem unesc_escByte (c : UInt8) (r : Bytes) : unesc (escByte c ++ r) = c :: unesc r := by
  rcases escByte_cases c with ⟨rfl, e⟩ | ⟨rfl, e⟩ | ⟨hc, e⟩ | ⟨h0, h1, _, e⟩ <;> rw [e]
  · exact unesc_bs r
  · exact unesc_quote r
  · obtain ⟨_, _, _, _, a5, a6, _⟩ := ctl_facts c hc
    simp only [List.cons_append, List.nil_append]
    rw [unesc_u _ _ _ _ r a5, a6]
    rfl
  · exact unesc_plain c r (by simpa using h0) h1

/-- gjson's `unescape` undoes the escaping of EVERY body (fix C05c: no raw control byte is left
    in the escaped text, so it never stops early). -/
theorem unesc_escapeBody (b : Bytes) : unesc (escapeBody b) = b := by
  induction b with
  | nil => simp [escapeBody_nil, unesc_nil]
  | cons c b ih => rw [escapeBody_cons, unesc_escByte, ih]

theorem escByte_id_or_bs (c : UInt8) : escByte c = [c] ∨ 92 ∈ escByte c := by
  rcases escByte_cases c with ⟨_, e⟩ | ⟨_, e⟩ | ⟨_, e⟩ | ⟨_, _, _, e⟩
  · right; rw [e]; simp
  · right; rw [e]; simp
  · right; rw [e]; simp
  · left; exact e

/-- either nothing was escaped, or the escaped text contains a backslash (and gjson un-escapes). -/
theorem escapeBody_id_or_bs (b : Bytes) : escapeBody b = b ∨ 92 ∈ escapeBody b := by
  induction b with
  | nil => left; rfl
  | cons c b ih =>
    rw [escapeBody_cons]
    rcases escByte_id_or_bs c with h | h
    · rcases ih with ih | ih
      · left; rw [h, ih]; rfl
      · right; exact List.mem_append_right _ ih
    · right; exact List.mem_append_left _ h

/-- the value gjson returns for the embedded body is the body, for EVERY body. -/
theorem strVal_escapeBody (b : Bytes) : strVal (escapeBody b) = b := by
  unfold strVal
  by_cases hc : (escapeBody b).contains 92 = true
  · simp only [hc, if_true]
    exact unesc_escapeBody b
  · rcases escapeBody_id_or_bs b with h | h
    · simp only [hc, Bool.false_eq_true, if_false]
      exact h
    · exact absurd (by simpa using h) hc

/-! ### `strconv.Quote` on the strings that occur -/

theorem quoteByte_plain : ∀ c, plainByte c = true → quoteByte c = some [c] := by
  apply forall_u8
  decide +kernel

theorem quoteBody_plain (s : Bytes) (h : ∀ c ∈ s, plainByte c = true) : quoteBody s = some s := by
  induction s with
  | nil => rfl
  | cons c s ih =>
    simp [quoteBody, quoteByte_plain c (h c (by simp)), ih (fun x hx => h x (by simp [hx]))]

/-- `strconv.Quote` of printable ASCII without `"` and `\` only adds the surrounding quotes. -/
theorem goQuote_plain (s : Bytes) (h : ∀ c ∈ s, plainByte c = true) : goQuote s = some (34 :: s ++ [34]) := by
  simp [goQuote, quoteBody_plain s h]

theorem plainByte_ne : ∀ c, plainByte c = true → c ≠ 34 ∧ c ≠ 92 := by
  apply forall_u8
  decide +kernel

theorem unreserved_plain : ∀ c, unreserved c = true → plainByte c = true := by
  apply forall_u8
  decide +kernel

def quotedPlainOK (c : UInt8) : Bool :=
  plainByte (hexUpper (c >>> 4)) && plainByte (hexUpper (c &&& 15))

theorem quotedPlainOK_all : ∀ c, quotedPlainOK c = true := by
  apply forall_u8
  decide +kernel

/-- the `%XX` quoting of `utils/bytesconv.go` produces only bytes that `strconv.Quote` copies. -/
theorem quote_plain (s : Bytes) : ∀ c ∈ quote s, plainByte c = true := by
  induction s with
  | nil => simp [quote]
  | cons a as ih =>
    intro c hc
    unfold quote at hc
    split at hc
    · rename_i hu
      rcases List.mem_cons.mp hc with h | h
      · subst h; exact unreserved_plain _ hu
      · exact ih c h
    · have hb := quotedPlainOK_all a
      unfold quotedPlainOK at hb
      simp only [Bool.and_eq_true] at hb
      simp only [List.mem_cons] at hc
      rcases hc with h | h | h | h
      · subst h; decide
      · subst h; exact hb.1
      · subst h; exact hb.2
      · exact ih c h

theorem formatInt10_plain (i : Int) : ∀ c ∈ Num.formatInt 8 i, plainByte c = true :=
  fun c hc => unreserved_plain c (Status.formatInt10_unres i c hc)

/-- the status query string is copied by `strconv.Quote`. -/
theorem encode_plain (s : Status) : ∀ c ∈ s.encode, plainByte c = true := by
  obtain ⟨code, msg, cause⟩ := s
  have hk1 : ∀ c ∈ Status.kCode, plainByte c = true := by decide
  have hk2 : ∀ c ∈ Status.kMsg, plainByte c = true := by decide
  have hk3 : ∀ c ∈ Status.kCause, plainByte c = true := by decide
  intro c hc
  unfold Status.encode at hc
  simp only [List.mem_append, List.mem_cons] at hc
  rcases hc with ((h | h | h) | h) | h
  · exact hk1 c h
  · subst h; decide
  · exact formatInt10_plain _ c h
  · by_cases hm : msg.isEmpty = true
    · rw [if_pos hm] at h; simp at h
    · rw [if_neg hm] at h
      simp only [List.mem_cons, List.mem_append] at h
      rcases h with (h | h) | (h | h)
      · subst h; decide
      · exact hk2 c h
      · subst h; decide
      · exact quote_plain _ c h
  · cases cause with
    | none => simp at h
    | some cs =>
      simp only [List.mem_cons, List.mem_append] at h
      rcases h with (h | h) | (h | h)
      · subst h; decide
      · exact hk3 c h
      · subst h; decide
      · exact quote_plain _ c h

theorem seg_plain (kv : Args.KV) : ∀ c ∈ Args.seg kv, plainByte c = true := by
  intro c hc
  unfold Args.seg at hc
  rcases List.mem_append.mp hc with h | h
  · exact quote_plain _ c h
  · split at h
    · simp at h
    · rcases List.mem_cons.mp h with h | h
      · subst h; decide
      · exact quote_plain _ c h

/-- the metadata query string is copied by `strconv.Quote`. -/
theorem query_plain (l : List Args.KV) : ∀ c ∈ Args.query l, plainByte c = true := by
  induction l with
  | nil => simp [Args.query]
  | cons kv rest ih =>
    cases rest with
    | nil => rw [Args.query_single]; exact seg_plain kv
    | cons kv2 rest =>
      rw [Args.query_cons2]
      intro c hc
      rcases List.mem_append.mp hc with h | h
      · exact seg_plain kv c h
      · rcases List.mem_cons.mp h with h | h
        · subst h; decide
        · exact ih c h

/-! ### the gjson scanner on the documents `Pack` writes -/

theorem untilB_append (stop : UInt8 → Bool) (a : Bytes) (c : UInt8) (r : Bytes)
    (ha : ∀ x ∈ a, stop x = false) (hc : stop c = true) : untilB stop (a ++ c :: r) = (a, c :: r) := by
  induction a with
  | nil => simp [untilB, hc]
  | cons x a ih =>
    have hx := ha x (by simp)
    simp [untilB, hx, ih (fun y hy => ha y (by simp [hy]))]

/-- bytes of a decimal number token. -/
def numByte (c : UInt8) : Bool := c == 45 || isDigit c

theorem numByte_facts : ∀ c, numByte c = true →
    (c == 34) = false ∧ (c == 123 || c == 91) = false ∧ numStop c = false := by
  apply forall_u8
  decide +kernel

/-- a non-empty run of `-`/digits: what `strconv.FormatInt(_, 10)` produces. -/
def NumTok (t : Bytes) : Prop := t ≠ [] ∧ ∀ c ∈ t, numByte c = true

theorem value_colon (d : Bytes) : value (58 :: d) = value d := by
  rw [value]; simp [isDigit]

/-- a number member: the value loop returns the token and stops in front of the delimiter. -/
theorem value_num (t : Bytes) (h : NumTok t) (c : UInt8) (r : Bytes) (hc : numStop c = true) :
    value (58 :: t ++ c :: r) = some (.num t, c :: r) := by
  obtain ⟨hne, hall⟩ := h
  cases t with
  | nil => exact absurd rfl hne
  | cons c0 t =>
    have h0 := hall c0 (by simp)
    obtain ⟨e1, e2, _⟩ := numByte_facts c0 h0
    have e3 : (c0 == 45 || isDigit c0) = true := h0
    rw [List.cons_append, value_colon, List.cons_append, value]
    simp only [e1, e2, e3, Bool.false_eq_true, if_false, if_true]
    rw [untilB_append numStop t c r (fun x hx => (numByte_facts x (hall x (by simp [hx]))).2.2) hc]

/-- a string member whose raw text `s` ends at its closing quote. -/
theorem value_str (s : Bytes) (r : Bytes) (h : strEnd false (s ++ 34 :: r) = some (s, r)) :
    value (58 :: (34 :: s ++ [34]) ++ r) = some (.str (strVal s), r) := by
  rw [List.cons_append, value_colon]
  simp only [List.cons_append, List.append_assoc, List.nil_append]
  rw [value]
  simp [h]

theorem skipToKey_quote (d : Bytes) : skipToKey (34 :: d) = some d := by simp [skipToKey]
theorem skipToKey_comma (d : Bytes) : skipToKey (44 :: d) = skipToKey d := by simp [skipToKey]
theorem skipToKey_close (d : Bytes) : skipToKey (125 :: d) = none := by simp [skipToKey]

theorem obj_comma (key : Bytes) (f : Nat) (d : Bytes) : obj key f (44 :: d) = obj key f d := by
  cases f with
  | zero => rfl
  | succ f => simp [obj, skipToKey_comma]

/-- one member of an object as `Pack` writes it: key, raw value text, the value gjson sees. -/
structure Mem where
  k : Bytes
  raw : Bytes
  v : JVal

/-- the key needs no escaping and the value loop reads exactly the raw text. -/
def Mem.ok (m : Mem) : Prop :=
  (∀ c ∈ m.k, c ≠ 34 ∧ c ≠ 92) ∧
  ∀ c r, (c = 44 ∨ c = 125) → value (58 :: m.raw ++ c :: r) = some (m.v, c :: r)

/-- `,"k1":raw1,"k2":raw2 ... }` -/
def mems : List Mem → Bytes
  | [] => [125]
  | m :: ms => 44 :: member m.k m.raw ++ mems ms

def lookup (key : Bytes) : List Mem → JVal
  | [] => .absent
  | m :: ms => if m.k == key then m.v else lookup key ms

theorem mems_head (ms : List Mem) : ∃ c r, mems ms = c :: r ∧ (c = 44 ∨ c = 125) := by
  cases ms with
  | nil => exact ⟨125, [], rfl, Or.inr rfl⟩
  | cons m ms => exact ⟨44, _, rfl, Or.inl rfl⟩

/-- the object loop finds the first member with the requested key (all members well formed). -/
theorem obj_mems (key : Bytes) (ms : List Mem) (hok : ∀ m ∈ ms, m.ok) :
    ∀ f, ms.length < f → obj key f (mems ms) = lookup key ms := by
  induction ms with
  | nil =>
    intro f hf
    cases f with
    | zero => rfl
    | succ f => simp [obj, mems, skipToKey_close, lookup]
  | cons m ms ih =>
    intro f hf
    cases f with
    | zero => simp at hf
    | succ f =>
      obtain ⟨hk, hv⟩ := hok m (by simp)
      obtain ⟨c, r, hcr, hc⟩ := mems_head ms
      have h1 : skipToKey (mems (m :: ms)) = some (m.k ++ 34 :: (58 :: m.raw ++ mems ms)) := by
        simp [mems, member, skipToKey_comma, skipToKey_quote]
      have h2 := strEnd_plain m.k (58 :: m.raw ++ mems ms) hk
      have h3 : value (58 :: m.raw ++ mems ms) = some (m.v, mems ms) := by
        rw [hcr]; exact hv c r hc
      have h4 : strVal m.k = m.k := strVal_plain m.k (fun c hc => (hk c hc).2)
      rw [obj]
      simp only [h1, h2, h3, h4, lookup]
      rw [ih (fun x hx => hok x (by simp [hx])) f (by simp at hf; omega)]

/-- `gjson.Get` on `{"k1":raw1,...}`. -/
theorem jget_mems (key : Bytes) (m : Mem) (ms : List Mem) (hok : ∀ x ∈ m :: ms, x.ok) :
    jget (123 :: member m.k m.raw ++ mems ms) key = some (lookup key (m :: ms)) := by
  have hlen : (m :: ms).length < (member m.k m.raw ++ mems ms).length + 1 := by
    have : ∀ l : List Mem, l.length < (mems l).length + 1 := by
      intro l
      induction l with
      | nil => simp [mems]
      | cons a l ih => simp [mems, member]; omega
    have := this ms
    simp [member]; omega
  have := obj_mems key (m :: ms) hok _ hlen
  have ho : openAt (123 :: (member m.k m.raw ++ mems ms)) = some (true, member m.k m.raw ++ mems ms) := by
    simp [openAt]
  rw [← this]
  simp only [jget, List.cons_append, ho, mems, obj_comma]

/-! ### decimal tokens -/

theorem digitChar10_numByte : ∀ d, d < 10 → numByte (Num.digitChar d) = true := by decide

theorem formatNat10_bytes (n : Nat) : ∀ c ∈ Num.formatNat 8 n, numByte c = true := by
  intro c hc
  unfold Num.formatNat at hc
  obtain ⟨d, hd, rfl⟩ := List.mem_map.mp hc
  have := Num.digitsRev_lt 8 n d (List.mem_reverse.mp hd)
  exact digitChar10_numByte d (by omega)

theorem formatNat10_ne_nil (n : Nat) : Num.formatNat 8 n ≠ [] := by
  unfold Num.formatNat
  simp [Num.digitsRev_ne_nil]

theorem formatNat10_numTok (n : Nat) : NumTok (Num.formatNat 8 n) := ⟨formatNat10_ne_nil n, formatNat10_bytes n⟩

theorem formatInt10_numTok (i : Int) : NumTok (Num.formatInt 8 i) := by
  unfold Num.formatInt
  split
  · refine ⟨by simp, ?_⟩
    intro c hc
    rcases List.mem_cons.mp hc with h | h
    · subst h; decide
    · exact formatNat10_bytes _ c h
  · exact formatNat10_numTok _

theorem decInt_formatNat (n : Nat) (hn : n < 2 ^ 64) : decInt (Num.formatNat 8 n) = some (n : Int) := by
  obtain ⟨c, cs, hcs, _, h45⟩ := Num.formatNat_head 8 (by omega) n
  have hp := Num.parseDigits_formatNat 8 (by omega) n hn
  rw [hcs] at hp ⊢
  have e : (c == 45) = false := by simp [h45]
  simp only [decInt, e, Bool.false_eq_true, if_false]
  have : (8 : Nat) + 2 = 10 := rfl
  rw [this] at hp
  simp [hp]

theorem decInt_formatInt (i : Int) (hi : i.natAbs < 2 ^ 64) : decInt (Num.formatInt 8 i) = some i := by
  unfold Num.formatInt
  by_cases hneg : i < 0
  · simp only [hneg, if_true]
    have hp := Num.parseDigits_formatNat 8 (by omega) i.natAbs hi
    have : (8 : Nat) + 2 = 10 := rfl
    rw [this] at hp
    have hne := formatNat10_ne_nil i.natAbs
    have e : (Num.formatNat 8 i.natAbs).isEmpty = false := by
      cases h : Num.formatNat 8 i.natAbs with
      | nil => exact absurd h hne
      | cons a b => rfl
    simp only [decInt, beq_self_eq_true, if_true, e, Bool.false_eq_true, if_false, hp, Option.map_some]
    congr 1; omega
  · simp only [hneg, if_false]
    rw [decInt_formatNat _ hi]
    congr 1; omega

theorem wrap32_id (i : Int) (h : Num.inInt32 i) : wrap32 i = i := by
  unfold Num.inInt32 at h
  unfold wrap32
  omega

theorem byteOf_toNat (c : UInt8) : byteOf (c.toNat : Int) = c := by
  unfold byteOf
  have h := c.toNat_lt
  have : ((c.toNat : Int) % 256).toNat = c.toNat := by omega
  rw [this]
  simp [Nat.toUInt8]

/-! ### the supported field set and the text round trip -/

/-- jsonproto's documented limits and supported field set (DESIGN §5 C05 table): int32 sequence
    number and status code; service method of printable ASCII without `"` and `\` (what
    `strconv.Quote` copies and gjson returns unchanged); EVERY body (since fix C05c); no
    (empty, empty) metadata pair; at most 255 filters. -/
def WFj (m : Msg) : Prop :=
  Num.inInt32 m.seq ∧ Num.inInt32 m.status.code ∧ m.method.all plainByte = true ∧
  Args.WF m.md ∧ m.pipe.length ≤ 255

instance (m : Msg) : Decidable (WFj m) := by unfold WFj Args.WF; infer_instance

theorem key_facts :
    (∀ c ∈ kSeq, c ≠ 34 ∧ c ≠ 92) ∧ (∀ c ∈ kMtype, c ≠ 34 ∧ c ≠ 92) ∧ (∀ c ∈ kMethod, c ≠ 34 ∧ c ≠ 92) ∧
    (∀ c ∈ kStatus, c ≠ 34 ∧ c ≠ 92) ∧ (∀ c ∈ kMeta, c ≠ 34 ∧ c ≠ 92) ∧ (∀ c ∈ kCodec, c ≠ 34 ∧ c ≠ 92) ∧
    (∀ c ∈ kBody, c ≠ 34 ∧ c ≠ 92) := by decide

theorem memOk_num (k t : Bytes) (hk : ∀ c ∈ k, c ≠ 34 ∧ c ≠ 92) (ht : NumTok t) : (Mem.mk k t (.num t)).ok := by
  refine ⟨hk, ?_⟩
  intro c r hc
  apply value_num t ht c r
  rcases hc with rfl | rfl <;> decide

theorem memOk_str (k s : Bytes) (hk : ∀ c ∈ k, c ≠ 34 ∧ c ≠ 92)
    (hs : ∀ r, strEnd false (s ++ 34 :: r) = some (s, r)) : (Mem.mk k (34 :: s ++ [34]) (.str (strVal s))).ok := by
  refine ⟨hk, ?_⟩
  intro c r _
  exact value_str s (c :: r) (hs _)

/-- what `gjson.Get` returns for each of the seven keys on a document written by `Pack`. -/
theorem jget_render (seq mt me st md co body : Bytes) (h1 : NumTok seq) (h2 : NumTok mt) (h6 : NumTok co)
    (h3 : ∀ c ∈ me, c ≠ 34 ∧ c ≠ 92) (h4 : ∀ c ∈ st, c ≠ 34 ∧ c ≠ 92) (h5 : ∀ c ∈ md, c ≠ 34 ∧ c ≠ 92)
    (doc : Bytes)
    (hd : doc = render seq mt (34 :: me ++ [34]) (34 :: st ++ [34]) (34 :: md ++ [34]) co (escapeBody body)) :
    jget doc kSeq = some (.num seq) ∧ jget doc kMtype = some (.num mt) ∧ jget doc kMethod = some (.str me) ∧
    jget doc kStatus = some (.str st) ∧ jget doc kMeta = some (.str md) ∧ jget doc kCodec = some (.num co) ∧
    jget doc kBody = some (.str (strVal (escapeBody body))) := by
  obtain ⟨k1, k2, k3, k4, k5, k6, k7⟩ := key_facts
  let m1 : Mem := ⟨kSeq, seq, .num seq⟩
  let ms : List Mem := [⟨kMtype, mt, .num mt⟩, ⟨kMethod, 34 :: me ++ [34], .str (strVal me)⟩,
    ⟨kStatus, 34 :: st ++ [34], .str (strVal st)⟩, ⟨kMeta, 34 :: md ++ [34], .str (strVal md)⟩,
    ⟨kCodec, co, .num co⟩, ⟨kBody, 34 :: escapeBody body ++ [34], .str (strVal (escapeBody body))⟩]
  have hok : ∀ x ∈ m1 :: ms, x.ok := by
    intro x hx
    simp only [m1, ms, List.mem_cons, List.mem_nil_iff, or_false] at hx
    rcases hx with rfl | rfl | rfl | rfl | rfl | rfl | rfl
    · exact memOk_num _ _ k1 h1
    · exact memOk_num _ _ k2 h2
    · exact memOk_str _ _ k3 (fun r => strEnd_plain me r h3)
    · exact memOk_str _ _ k4 (fun r => strEnd_plain st r h4)
    · exact memOk_str _ _ k5 (fun r => strEnd_plain md r h5)
    · exact memOk_num _ _ k6 h6
    · exact memOk_str _ _ k7 (fun r => strEnd_escapeBody body r)
  have hdoc : doc = 123 :: member m1.k m1.raw ++ mems ms := by
    rw [hd]
    simp only [render, mems, member, m1, ms, List.append_assoc, List.cons_append, List.nil_append]
  have hg := fun key => jget_mems key m1 ms hok
  rw [← hdoc] at hg
  have e3 := strVal_plain me (fun c hc => (h3 c hc).2)
  have e4 := strVal_plain st (fun c hc => (h4 c hc).2)
  have e5 := strVal_plain md (fun c hc => (h5 c hc).2)
  refine ⟨?_, ?_, ?_, ?_, ?_, ?_, ?_⟩
  · rw [hg]; rfl
  · rw [hg]; rfl
  · rw [hg, ← e3]; rfl
  · rw [hg, ← e4]; rfl
  · rw [hg, ← e5]; rfl
  · rw [hg]; rfl
  · rw [hg]; rfl

theorem all_plain (s : Bytes) (h : s.all plainByte = true) : ∀ c ∈ s, plainByte c = true :=
  fun c hc => List.all_eq_true.mp h c hc

/-- inside `WFj` the three Go-quoted strings are the plain strings between quotes. -/
theorem text_wf (m : Msg) (hw : WFj m) :
    text m = some (render (Num.formatInt 8 m.seq) (Num.formatNat 8 m.mtype.toNat) (34 :: m.method ++ [34])
      (34 :: m.status.encode ++ [34]) (34 :: Args.query m.md ++ [34]) (Num.formatNat 8 m.codec.toNat)
      (escapeBody m.body)) := by
  obtain ⟨_, _, hm, _, _⟩ := hw
  unfold text
  rw [goQuote_plain _ (all_plain _ hm), goQuote_plain _ (encode_plain _), goQuote_plain _ (query_plain _)]
  rfl

theorem toInt_num (t : Bytes) (v : Int) (h : decInt t = some v) : (JVal.num t).toInt = some v := by
  simp [JVal.toInt, h]

theorem getInt_of {s k t : Bytes} {v : Int} (h : jget s k = some (.num t)) (hd : decInt t = some v) :
    getInt s k = .ok v := by
  simp [getInt, h, JVal.toInt, hd]

theorem getStr_of {s k x : Bytes} (h : jget s k = some (.str x)) : getStr s k = .ok x := by
  simp [getStr, h, JVal.toStr]

/-- field reads of `Unpack` on the text `Pack` wrote: every field comes back. -/
theorem parseText_text (m : Msg) (hw : WFj m) (t : Bytes) (ht : text m = some t) (size : Nat) (pipe : List UInt8) :
    parseText size pipe t = .ok { m with pipe := pipe, size := size } := by
  rw [text_wf m hw] at ht
  have hd := (Option.some.inj ht).symm
  obtain ⟨hseq, hcode, hm, hmd, _⟩ := hw
  have pm := fun c hc => plainByte_ne c (all_plain _ hm c hc)
  have ps := fun c hc => plainByte_ne c (encode_plain m.status c hc)
  have pe := fun c hc => plainByte_ne c (query_plain m.md c hc)
  obtain ⟨g1, g2, g3, g4, g5, g6, g7⟩ := jget_render _ _ _ _ _ _ m.body (formatInt10_numTok m.seq)
    (formatNat10_numTok _) (formatNat10_numTok _) pm ps pe t hd
  have d1 : decInt (Num.formatInt 8 m.seq) = some m.seq := by
    apply decInt_formatInt
    unfold Num.inInt32 at hseq
    have : (2:Nat) ^ 64 = 18446744073709551616 := by decide
    omega
  have d2 : decInt (Num.formatNat 8 m.mtype.toNat) = some (m.mtype.toNat : Int) := by
    apply decInt_formatNat
    have := m.mtype.toNat_lt
    have : (2:Nat) ^ 64 = 18446744073709551616 := by decide
    omega
  have d6 : decInt (Num.formatNat 8 m.codec.toNat) = some (m.codec.toNat : Int) := by
    apply decInt_formatNat
    have := m.codec.toNat_lt
    have : (2:Nat) ^ 64 = 18446744073709551616 := by decide
    omega
  unfold parseText
  rw [getInt_of g1 d1, getInt_of g2 d2, getStr_of g3, getStr_of g4, getStr_of g5, getInt_of g6 d6, getStr_of g7]
  simp only [Raw.bind_ok]
  rw [Status.decode_encode m.status hcode, Args.parse_query_wf m.md hmd]
  simp only [Raw.ofOpt, Raw.bind_ok]
  rw [strVal_escapeBody m.body, wrap32_id m.seq hseq, byteOf_toNat, byteOf_toNat]

/-- jsonproto's decoder inverts its encoder on every message of the supported field set. -/
theorem inverts_wf (m : Msg) (hw : WFj m) : Frame2.Inverts payload m :=
  fun t ht size pipe => parseText_text m hw t ht size pipe

/-- one frame: `Unpack` of what `Pack` wrote, followed by anything, gives the message back (size =
    frame length without the four length bytes) and leaves exactly the rest. -/
theorem unpack_pack (reg : Registry) (limit : Nat) (m : Msg) (bs rest : Bytes) (sz : Nat)
    (hw : WFj m) (hl : ∀ i ∈ m.pipe, ∃ f, reg i = some f ∧ Xfer.Lawful f)
    (hp : pack reg limit m = .ok (bs, sz)) (hlt : bs.length < 4294967296) :
    unpack reg limit (bs ++ rest) = .ok { m with size := sz } rest ∧ sz + 4 = bs.length :=
  Frame2.unpack_pack payload reg limit m bs rest sz (inverts_wf m hw) hw.2.2.2.2 hl hp hlt

end JsonP
end Teleport
