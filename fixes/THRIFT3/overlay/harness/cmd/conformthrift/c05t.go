package main

import (
	"bytes"
	"context"
	"errors"
	"fmt"
	"io"
	"sort"
	"strconv"
	"strings"

	"git.apache.org/thrift.git/lib/go/thrift"
	erpc "github.com/henrylee2cn/erpc/v6"
	"github.com/henrylee2cn/erpc/v6/proto/thriftproto"
	"github.com/henrylee2cn/erpc/v6/socket"
	"github.com/henrylee2cn/goutil/status"

	"verif/harness/internal/hx"
)

// C05 for proto/thriftproto against Model/ThriftProto (driver: Drv/C05t). Case kinds:
//
//	thriftpack    one Pack (after an optional earlier Pack on the same protocol object): the frame handed
//	              to the thrift library — read back with the library alone: name, type, seq, payload,
//	              header map — the size recorded, the number of bytes written, the codec afterwards,
//	              the error class; oracles: size = bytes written, size independent of the object's
//	              history, a failing Pack writes nothing, round trip through a fresh Unpack
//	thriftunpack  one Unpack of a frame built with the thrift library alone (all header-map shapes:
//	              missing / extra / empty / badly quoted values, unregistered filters, every message
//	              type incl. EXCEPTION, truncations, garbage); the case line carries what the library
//	              alone decodes from those bytes (dec=) and how many bytes it pulls (pulled=)
//	thriftstream  several messages packed by ONE protocol object back to back, unpacked by another
//	              through the four chunkings; oracles: frame sync (same number, same fields, in order),
//	              size recorded on the read side = length of that frame
//
// The thrift library is a parameter of the model: what it decodes / how much it reads ahead is measured
// here with the library alone (never through thriftproto) and written into the case line.

func c05tSetup() {
	erpc.SetLoggerLevel("OFF")
	regTestFilters()
}

// ---- message description (same fields and line format as cmd/conform/msgutil.go) ----------------------

type M struct {
	Seq      int32
	Mtype    byte
	Method   []byte
	Code     int32
	Msg      []byte
	Cause    []byte
	HasCause bool
	Meta     [][2][]byte
	Codec    byte
	Body     []byte
	Pipe     []byte
	Size     uint32
}

func (m *M) Line() string {
	cause := "nil"
	if m.HasCause {
		cause = hx.Hex(m.Cause)
	}
	return fmt.Sprintf("seq=%d mtype=%d method=%s code=%d msg=%s cause=%s meta=%s codec=%d body=%s pipe=%s",
		m.Seq, m.Mtype, hx.Hex(m.Method), m.Code, hx.Hex(m.Msg), cause, hx.KVs(m.Meta), m.Codec, hx.Hex(m.Body), hx.Hex(m.Pipe))
}

func (m *M) Show() string { return m.Line() + fmt.Sprintf(" size=%d", m.Size) }

func parseM(f map[string]string) *M {
	m := &M{}
	seq, _ := strconv.ParseInt(f["seq"], 10, 64)
	m.Seq = int32(seq)
	mt, _ := strconv.Atoi(f["mtype"])
	m.Mtype = byte(mt)
	m.Method = hx.UnHex(f["method"])
	code, _ := strconv.ParseInt(f["code"], 10, 64)
	m.Code = int32(code)
	m.Msg = hx.UnHex(f["msg"])
	if f["cause"] != "nil" {
		m.HasCause = true
		m.Cause = hx.UnHex(f["cause"])
	}
	m.Meta = hx.ParseKVs(f["meta"])
	c, _ := strconv.Atoi(f["codec"])
	m.Codec = byte(c)
	m.Body = hx.UnHex(f["body"])
	m.Pipe = hx.UnHex(f["pipe"])
	return m
}

type strErr string

func (e strErr) Error() string { return string(e) }

// Blob is the harness's thrift.TStruct: one binary field.
type Blob struct{ B []byte }

func (b *Blob) Write(p thrift.TProtocol) error {
	if err := p.WriteStructBegin("Blob"); err != nil {
		return err
	}
	if err := p.WriteFieldBegin("b", thrift.STRING, 1); err != nil {
		return err
	}
	if err := p.WriteBinary(b.B); err != nil {
		return err
	}
	if err := p.WriteFieldEnd(); err != nil {
		return err
	}
	if err := p.WriteFieldStop(); err != nil {
		return err
	}
	return p.WriteStructEnd()
}

func (b *Blob) Read(p thrift.TProtocol) error {
	if _, err := p.ReadStructBegin(); err != nil {
		return err
	}
	for {
		_, t, id, err := p.ReadFieldBegin()
		if err != nil {
			return err
		}
		if t == thrift.STOP {
			break
		}
		if id == 1 && t == thrift.STRING {
			v, err := p.ReadBinary()
			if err != nil {
				return err
			}
			b.B = v
		} else if err := p.Skip(t); err != nil {
			return err
		}
		if err := p.ReadFieldEnd(); err != nil {
			return err
		}
	}
	return p.ReadStructEnd()
}

func (b *Blob) String() string { return fmt.Sprintf("Blob(%x)", b.B) }

// toMessage builds the real message; asStruct: the body is a *Blob (thrift.TStruct), else *[]byte.
func (m *M) toMessage(asStruct bool) (socket.Message, error) {
	msg := socket.NewMessage()
	msg.SetSeq(m.Seq)
	msg.SetMtype(m.Mtype)
	msg.SetServiceMethod(string(m.Method))
	if m.Code != 0 || len(m.Msg) > 0 || m.HasCause {
		var st *status.Status
		if m.HasCause {
			st = status.New(m.Code, string(m.Msg), strErr(m.Cause))
		} else {
			st = status.New(m.Code, string(m.Msg))
		}
		msg.SetStatus(st)
	}
	for _, kv := range m.Meta {
		msg.Meta().AddBytesKV(kv[0], kv[1])
	}
	msg.SetBodyCodec(m.Codec)
	if asStruct {
		msg.SetBody(&Blob{append([]byte(nil), m.Body...)})
	} else {
		b := append([]byte{}, m.Body...)
		msg.SetBody(&b)
	}
	if err := msg.XferPipe().Append(m.Pipe...); err != nil {
		return nil, err
	}
	return msg, nil
}

func unq(s string) []byte {
	var o []byte
	for i := 0; i < len(s); i++ {
		if s[i] == '%' && i+2 < len(s) {
			v, err := strconv.ParseUint(s[i+1:i+3], 16, 8)
			if err == nil {
				o = append(o, byte(v))
				i += 2
				continue
			}
		}
		o = append(o, s[i])
	}
	return o
}

func fromMessage(msg socket.Message) *M {
	m := &M{Seq: msg.Seq(), Mtype: msg.Mtype(), Method: []byte(msg.ServiceMethod()), Codec: msg.BodyCodec(), Size: msg.Size()}
	if st := msg.Status(); st != nil {
		for _, part := range strings.Split(string(st.EncodeQuery()), "&") {
			switch {
			case strings.HasPrefix(part, "code="):
				c, _ := strconv.ParseInt(part[5:], 10, 64)
				m.Code = int32(c)
			case strings.HasPrefix(part, "msg="):
				m.Msg = unq(part[4:])
			case strings.HasPrefix(part, "cause="):
				m.HasCause = true
				m.Cause = unq(part[6:])
			}
		}
	}
	msg.Meta().VisitAll(func(k, v []byte) {
		m.Meta = append(m.Meta, [2][]byte{append([]byte(nil), k...), append([]byte(nil), v...)})
	})
	switch b := msg.Body().(type) {
	case *[]byte:
		if b != nil {
			m.Body = append([]byte(nil), *b...)
		}
	case []byte:
		m.Body = append([]byte(nil), b...)
	case *Blob:
		m.Body = append([]byte(nil), b.B...)
	}
	m.Pipe = msg.XferPipe().IDs()
	return m
}

// ---- connections ---------------------------------------------------------------------------------------

// chunkReader: as in cmd/conform/msgutil.go (mode 0 whole, 1 one byte, 2 random 1..9, 3 seven).
type chunkReader struct {
	data  []byte
	pos   int
	r     *hx.R
	mode  int
	given int // bytes handed out so far
}

func newChunkReader(data []byte, mode int, seed int64) *chunkReader {
	return &chunkReader{data: data, mode: mode, r: hx.NewR(seed)}
}

func (c *chunkReader) Read(p []byte) (int, error) {
	if c.pos >= len(c.data) {
		return 0, io.EOF
	}
	if len(p) == 0 {
		return 0, nil
	}
	n := len(p)
	switch c.mode {
	case 1:
		n = 1
	case 2:
		n = 1 + c.r.Intn(9)
	case 3:
		n = 7
	}
	if n > len(p) {
		n = len(p)
	}
	if n > len(c.data)-c.pos {
		n = len(c.data) - c.pos
	}
	copy(p, c.data[c.pos:c.pos+n])
	c.pos += n
	c.given += n
	return n, nil
}

type conn struct {
	r      io.Reader
	w      bytes.Buffer
	writes int
}

func (c *conn) Read(p []byte) (int, error) {
	if c.r == nil {
		return 0, io.EOF
	}
	return c.r.Read(p)
}
func (c *conn) Write(p []byte) (int, error) { c.writes++; return c.w.Write(p) }

// rawTrans: an unbuffered thrift.TTransport over a reader (what BaseTTransport is for thriftproto).
type rawTrans struct{ r io.Reader }

func (t *rawTrans) Read(p []byte) (int, error)  { return t.r.Read(p) }
func (t *rawTrans) Write(p []byte) (int, error) { return 0, errors.New("read only") }
func (t *rawTrans) Open() error                 { return nil }
func (t *rawTrans) IsOpen() bool                { return true }
func (t *rawTrans) Close() error                { return nil }
func (t *rawTrans) Flush(context.Context) error { return nil }
func (t *rawTrans) RemainingBytes() uint64      { return ^uint64(0) }

// ---- frames as the thrift library sees them ---------------------------------------------------------------

// TF: name;type;seq;kind;payload;hdr   kind: b (binary) s (struct) n (nothing) x (exception struct)
type TF struct {
	Name    []byte
	Type    int
	Seq     int32
	Kind    string
	Payload []byte
	Hdr     map[string]string
}

func (f *TF) String() string {
	keys := make([]string, 0, len(f.Hdr))
	for k := range f.Hdr {
		keys = append(keys, k)
	}
	sort.Strings(keys)
	kv := make([][2][]byte, 0, len(keys))
	for _, k := range keys {
		kv = append(kv, [2][]byte{[]byte(k), []byte(f.Hdr[k])})
	}
	return fmt.Sprintf("%s;%d;%d;%s;%s;%s", hx.Hex(f.Name), f.Type, f.Seq, f.Kind, hx.Hex(f.Payload), hx.KVs(kv))
}

// encodeFrame writes one frame with the thrift library alone.
func encodeFrame(f *TF) []byte {
	mb := thrift.NewTMemoryBuffer()
	p := thrift.NewTHeaderProtocol(mb)
	p.WriteMessageBegin(string(f.Name), thrift.TMessageType(f.Type), f.Seq)
	switch f.Kind {
	case "b":
		p.WriteBinary(f.Payload)
	case "s":
		(&Blob{f.Payload}).Write(p)
	case "x":
		thrift.NewTApplicationException(thrift.UNKNOWN_METHOD, string(f.Payload)).Write(p)
	}
	p.ClearWriteHeaders()
	for k, v := range f.Hdr {
		p.SetWriteHeader(k, v)
	}
	p.WriteMessageEnd()
	return append([]byte(nil), mb.Bytes()...)
}

func isEOF(err error) bool {
	return err != nil && (err == io.EOF || err == io.ErrUnexpectedEOF || strings.Contains(err.Error(), "EOF"))
}

// libReader reads messages with the thrift library alone over the given connection reader.
type libReader struct {
	p *thrift.THeaderProtocol
}

func newLibReader(r io.Reader) *libReader {
	return &libReader{thrift.NewTHeaderProtocol(&rawTrans{r})}
}

// next: the next message as the library decodes it; "E" = EOF class, "X" = any other error.
func (l *libReader) next(asStruct bool) (tf *TF, class string) {
	defer func() {
		if recover() != nil {
			tf, class = nil, "X"
		}
	}()
	name, typ, seq, err := l.p.ReadMessageBegin()
	if err != nil {
		if isEOF(err) {
			return nil, "E"
		}
		return nil, "X"
	}
	f := &TF{Name: []byte(name), Type: int(typ), Seq: seq, Hdr: map[string]string{}}
	for k, v := range l.p.GetReadHeaders() {
		f.Hdr[k] = v
	}
	if typ == thrift.EXCEPTION {
		// readMessageBegin reads the TApplicationException and returns it - or the error of reading it
		if err := thrift.NewTApplicationException(thrift.UNKNOWN_APPLICATION_EXCEPTION, "").Read(l.p); err != nil {
			if isEOF(err) {
				return nil, "E"
			}
			return nil, "X"
		}
		f.Kind = "x"
		return f, ""
	}
	if asStruct {
		b := &Blob{}
		if err := b.Read(l.p); err != nil {
			if isEOF(err) {
				return nil, "E"
			}
			return nil, "X"
		}
		f.Kind, f.Payload = "s", b.B
	} else {
		b, err := l.p.ReadBinary()
		if err != nil {
			if isEOF(err) {
				return nil, "E"
			}
			return nil, "X"
		}
		f.Kind, f.Payload = "b", b
	}
	if err := l.p.ReadMessageEnd(); err != nil {
		return nil, "X"
	}
	return f, ""
}

// decodeWritten reads back what one Pack wrote (one frame, nothing behind it): a frame whose payload
// is missing is reported with kind n.
func decodeWritten(b []byte, asStruct bool) string {
	if len(b) == 0 {
		return "-"
	}
	p := thrift.NewTHeaderProtocol(&rawTrans{bytes.NewReader(b)})
	name, typ, seq, err := p.ReadMessageBegin()
	if err != nil {
		return "undecodable"
	}
	f := &TF{Name: []byte(name), Type: int(typ), Seq: seq, Hdr: map[string]string{}, Kind: "n"}
	for k, v := range p.GetReadHeaders() {
		f.Hdr[k] = v
	}
	if asStruct {
		bl := &Blob{}
		if err := bl.Read(p); err == nil {
			f.Kind, f.Payload = "s", bl.B
		}
	} else {
		if v, err := p.ReadBinary(); err == nil {
			f.Kind, f.Payload = "b", v
		}
	}
	return f.String()
}

// ---- generator -------------------------------------------------------------------------------------------

func genLen(r *hx.R, small int, bounds ...int) int {
	if r.Intn(8) == 0 && len(bounds) > 0 {
		return bounds[r.Intn(len(bounds))]
	}
	return r.Intn(small + 1)
}

func genSeq(r *hx.R) int32 {
	switch r.Intn(8) {
	case 0:
		return 0
	case 1:
		return -1
	case 2:
		return -2147483648
	case 3:
		return 2147483647
	}
	return int32(r.Uint32())
}

var ownKeys = []string{thriftproto.HeaderStatus, thriftproto.HeaderMeta, thriftproto.HeaderBodyCodec, thriftproto.HeaderXferPipe}

// genMsg: wf keeps the message inside the supported field set of the given protocol variant.
func genMsg(r *hx.R, proto string, wf bool) *M {
	m := &M{Seq: genSeq(r)}
	m.Mtype = byte(1 + r.Intn(3))
	if !wf && r.Intn(3) == 0 {
		m.Mtype = byte(r.Pick(0, 4, 5, 255, r.Intn(256)))
	}
	m.Method = r.AnyBytes(genLen(r, 24, 0, 1, 255, 300))
	if r.Intn(2) == 0 {
		switch r.Intn(5) {
		case 0:
			m.Code = int32(r.Pick(1, -1, 102, 404, 500, 2147483647, -2147483648))
		default:
			m.Code = int32(r.Uint32())
		}
		m.Msg = r.AnyBytes(genLen(r, 20, 0, 1, 255, 256))
		if r.Intn(2) == 0 {
			m.HasCause = true
			m.Cause = r.AnyBytes(genLen(r, 20, 0, 1, 255, 256))
		}
	}
	np := r.Intn(5)
	for i := 0; i < np; i++ {
		k := r.AnyBytes(genLen(r, 8, 0, 1))
		v := r.AnyBytes(genLen(r, 12, 0, 1, 255))
		if r.Intn(6) == 0 { // a metadata key equal to one of the protocol's own header names
			k = []byte(ownKeys[r.Intn(4)])
		}
		if r.Intn(5) == 0 && len(m.Meta) > 0 { // repeated key: ordered multimap
			k = m.Meta[r.Intn(len(m.Meta))][0]
		}
		if len(k) == 0 && len(v) == 0 && (wf || r.Intn(2) == 0) {
			k = []byte{byte(r.Intn(256))}
		}
		m.Meta = append(m.Meta, [2][]byte{k, v})
	}
	m.Body = r.AnyBytes(genLen(r, 60, 0, 1, 255, 256, 4000, 4096, 9000))
	if proto == "s" {
		m.Codec = byte(r.Pick(0, 't'))
		if !wf && r.Intn(3) == 0 {
			m.Codec = byte(r.Pick('j', 1, 200))
		}
		if !wf && r.Intn(4) == 0 {
			m.Pipe = []byte{byte(1 + r.Intn(3))}
		}
		return m
	}
	// every id 0..255 is inside the supported field set since fix THRIFT3 (Intn(256) draws as much from
	// the generator as the former Intn(128): the other fields of a seed's cases are unchanged)
	m.Codec = byte(r.Pick(0, 'j', 'p', 's', 'f', 'x', 't', 127, r.Intn(256)))
	if !wf && r.Intn(3) == 0 {
		m.Codec = byte(128 + r.Intn(128))
	}
	pl := r.Pick(0, 0, 0, 1, 2, 3, 4)
	if r.Intn(40) == 0 {
		pl = r.Pick(200, 255)
	}
	for i := 0; i < pl; i++ {
		m.Pipe = append(m.Pipe, byte(1+r.Intn(3)))
	}
	return m
}

func wfT(m *M, proto string) bool {
	if m.Mtype < 1 || m.Mtype > 3 || len(m.Pipe) > 255 {
		return false
	}
	for _, kv := range m.Meta {
		if len(kv[0]) == 0 && len(kv[1]) == 0 {
			return false
		}
	}
	if proto == "s" {
		return (m.Codec == 0 || m.Codec == 't') && len(m.Pipe) == 0
	}
	return true // any body codec id (ThriftP.WFt has no codec clause since fix THRIFT3)
}

// fieldsSig: the signature of a round-trip difference - the body codec alone (every other field came
// back) keeps its own signature.
func fieldsSig(want, got *M, other string) string {
	w := *want
	w.Codec = got.Codec
	if want.Codec != got.Codec && w.Line() == got.Line() {
		return "c05:thrift-codec-utf8"
	}
	return other
}

func protoFunc(proto string) erpc.ProtoFunc {
	if proto == "s" {
		return thriftproto.NewStructProtoFunc()
	}
	return thriftproto.NewBinaryProtoFunc()
}

func semi(s string) string { return strings.ReplaceAll(s, " ", ";") }

// genHdr: a header map for a foreign frame: the protocol's keys with valid / odd values, missing, extra.
func genHdr(r *hx.R) map[string]string {
	h := map[string]string{}
	if r.Intn(8) != 0 {
		switch r.Intn(6) {
		case 0:
			h[thriftproto.HeaderStatus] = ""
		case 1:
			h[thriftproto.HeaderStatus] = string(r.Bytes(genLen(r, 12), 2)) // nasty: %, &, =, 0xff
		case 2:
			h[thriftproto.HeaderStatus] = "code=" + strconv.Itoa(r.Pick(0, 1, -5, 404, 99999999999)) + "&msg=a%20b&cause=x&code=7"
		default:
			h[thriftproto.HeaderStatus] = "code=" + strconv.Itoa(int(int32(r.Uint32()))) + "&msg=" + string(r.Bytes(r.Intn(6), 1))
		}
	}
	if r.Intn(6) != 0 {
		switch r.Intn(4) {
		case 0:
			h[thriftproto.HeaderMeta] = string(r.Bytes(genLen(r, 16), 2))
		case 1:
			h[thriftproto.HeaderMeta] = ""
		default:
			h[thriftproto.HeaderMeta] = "a=1&a=2&&=&b&%41=%zz&" + string(r.Bytes(r.Intn(5), 1))
		}
	}
	if r.Intn(4) != 0 {
		h[thriftproto.HeaderBodyCodec] = string(r.Bytes(r.Pick(0, 1, 1, 1, 2, 3), 0))
	}
	if r.Intn(3) != 0 {
		n := r.Pick(0, 0, 1, 2, 3)
		var ids []byte
		for i := 0; i < n; i++ {
			ids = append(ids, byte(1+r.Intn(3)))
		}
		if r.Intn(8) == 0 {
			ids = append(ids, byte(r.Pick(0, 9, 200)))
		}
		if r.Intn(60) == 0 {
			ids = bytes.Repeat([]byte{1}, r.Pick(255, 256))
		}
		h[thriftproto.HeaderXferPipe] = string(ids)
	}
	for i := r.Intn(3); i > 0; i-- {
		h[string(r.Bytes(1+r.Intn(6), 1))] = string(r.AnyBytes(r.Intn(8)))
	}
	return h
}

// applyPipe: the body as the transfer pipe of the test filters would pack it (ids 1..3), so that
// foreign frames mostly carry a body the announced pipe accepts.
func applyPipe(ids []byte, b []byte) []byte {
	for i := len(ids) - 1; i >= 0; i-- {
		switch ids[i] {
		case 1:
			b, _ = rev(b)
		case 2:
			o := make([]byte, len(b)+1)
			for j := range b {
				o[j] = b[j] ^ 0x5A
			}
			o[len(b)] = 0xEE
			b = o
		case 3:
			b = append([]byte{byte(len(b) % 256)}, b...)
		}
	}
	return b
}

func c05tGen(r *hx.R, tier string) []string {
	n := 1200
	if tier == "thorough" {
		n = 12000
	}
	var ls []string
	for i := 0; i < n; i++ {
		proto := "b"
		if r.Intn(4) == 0 {
			proto = "s"
		}
		switch k := r.Intn(10); {
		case k < 4: // pack
			wf := r.Intn(4) != 0
			m := genMsg(r, proto, wf)
			limit := 1 << 30
			if r.Intn(10) == 0 {
				limit = r.Pick(16, 64, 300)
			}
			isStruct := 1
			if proto == "s" && r.Intn(5) == 0 {
				isStruct = 0
			}
			prev := "-"
			if r.Intn(2) == 0 {
				prev = semi(genMsg(r, proto, true).Line())
			}
			ls = append(ls, fmt.Sprintf("thriftpack proto=%s limit=%d isstruct=%d prev=%s %s", proto, limit, isStruct, prev, m.Line()))
		case k < 7: // unpack of a foreign frame
			ls = append(ls, genUnpack(r, proto))
		default: // stream
			ls = append(ls, genStream(r, proto))
		}
	}
	return ls
}

func genUnpack(r *hx.R, proto string) string {
	f := &TF{Name: r.AnyBytes(genLen(r, 16, 0, 1, 300)), Seq: genSeq(r), Hdr: genHdr(r)}
	f.Type = r.Pick(1, 2, 4, 1, 2, 4, 0, 3, 5, 7, 255)
	body := r.AnyBytes(genLen(r, 40, 0, 1, 255, 4090, 5000))
	f.Kind = "b"
	if proto == "s" {
		f.Kind = "s"
	} else if ids, ok := f.Hdr[thriftproto.HeaderXferPipe]; ok && r.Intn(6) != 0 {
		body = applyPipe([]byte(ids), body)
	}
	f.Payload = body
	if f.Type == 3 {
		f.Kind, f.Payload = "x", []byte("boom")
	}
	if r.Intn(25) == 0 { // the other variant's payload
		if f.Kind == "b" {
			f.Kind = "s"
		} else if f.Kind == "s" {
			f.Kind = "b"
		}
	}
	b := encodeFrame(f)
	switch r.Intn(12) {
	case 0: // truncated
		b = b[:r.Intn(len(b))]
	case 1: // a low bit changed near the end (body bytes, or the last length field read short).
		// NOT anywhere: TBinaryProtocol.ReadBinary / ReadString allocate the announced length
		// (up to 2 GiB) before reading - a changed length byte costs seconds and gigabytes (C06 note).
		k := 3
		if len(b) < k {
			k = len(b)
		}
		b[len(b)-1-r.Intn(k)] ^= byte(1 << uint(r.Intn(3)))
	case 2: // garbage
		b = r.AnyBytes(r.Intn(40))
	case 3: // something behind the frame
		b = append(b, encodeFrame(&TF{Name: []byte("/next"), Type: 1, Seq: 1, Kind: f.Kind, Hdr: map[string]string{}})...)
	}
	mode := r.Intn(4)
	cseed := int64(1 + r.Intn(1<<20))
	limit := 1 << 30
	if r.Intn(8) == 0 {
		limit = r.Pick(16, 64, 300, 4096)
	}
	// what the library alone decodes, and how many bytes it pulls from the connection doing so
	cr := newChunkReader(b, mode, cseed)
	lr := newLibReader(cr)
	tf, class := lr.next(proto == "s")
	dec := class
	if tf != nil {
		dec = tf.String()
	}
	isStruct := 1
	if proto == "s" && tf != nil && r.Intn(8) == 0 { // the receiving message's body is no TStruct
		isStruct = 0
	}
	return fmt.Sprintf("thriftunpack proto=%s limit=%d isstruct=%d mode=%d cseed=%d pulled=%d dec=%s bytes=%s",
		proto, limit, isStruct, mode, cseed, cr.given, dec, hx.Hex(b))
}

func genStream(r *hx.R, proto string) string {
	k := 1 + r.Intn(6)
	if r.Intn(10) == 0 {
		k = 10 + r.Intn(30)
	}
	var ms []string
	var mm []*M
	for i := 0; i < k; i++ {
		m := genMsg(r, proto, r.Intn(12) != 0)
		if len(m.Body) > 300 && r.Intn(3) != 0 {
			m.Body = m.Body[:r.Intn(300)]
		}
		mm = append(mm, m)
		ms = append(ms, semi(m.Line()))
	}
	mode := r.Intn(4)
	cseed := int64(1 + r.Intn(1<<20))
	// pack with the real protocol to learn the frame lengths (they depend on the message only); the
	// library alone then tells how many bytes each read pulls under this chunking
	stream, _, ok := packStream(proto, mm)
	pulled := "-"
	if ok {
		cr := newChunkReader(stream, mode, cseed)
		lr := newLibReader(cr)
		var ps []string
		last := 0
		for i := 0; i < k; i++ {
			if tf, _ := lr.next(proto == "s"); tf == nil {
				break
			}
			ps = append(ps, strconv.Itoa(cr.given-last))
			last = cr.given
		}
		if len(ps) > 0 {
			pulled = strings.Join(ps, ",")
		}
	}
	return fmt.Sprintf("thriftstream proto=%s limit=%d mode=%d cseed=%d pulled=%s msgs=%s", proto, 1<<30, mode, cseed, pulled, strings.Join(ms, "|"))
}

// packStream packs all messages with ONE protocol object; ok=false when some Pack failed (then the
// stream holds what was written up to there).
func packStream(proto string, mm []*M) (stream []byte, lens []int, ok bool) {
	c := &conn{}
	p := protoFunc(proto)(c)
	for _, m := range mm {
		msg, err := m.toMessage(proto == "s")
		if err != nil {
			return c.w.Bytes(), lens, false
		}
		n0 := c.w.Len()
		if err := safePack(p, msg); err != nil {
			return c.w.Bytes(), lens, false
		}
		lens = append(lens, c.w.Len()-n0)
	}
	return c.w.Bytes(), lens, true
}

// ---- runner ------------------------------------------------------------------------------------------------

func safePack(p erpc.Proto, m socket.Message) (err error) {
	defer func() {
		if x := recover(); x != nil {
			err = fmt.Errorf("panic: %v", x)
		}
	}()
	return p.Pack(m)
}

func safeUnpack(p erpc.Proto, m socket.Message) (err error) {
	defer func() {
		if x := recover(); x != nil {
			err = fmt.Errorf("panic: %v", x)
		}
	}()
	return p.Unpack(m)
}

func packErrClass(err error) string {
	s := err.Error()
	switch {
	case err == socket.ErrExceedMessageSizeLimit:
		return "size"
	case strings.Contains(s, "unsupport transfer pipe"):
		return "pipe"
	case strings.Contains(s, "body codec must be thrift"):
		return "codec"
	case strings.Contains(s, "does not implement thrift.TStruct"):
		return "notstruct"
	case strings.HasPrefix(s, "panic"):
		return "panic"
	}
	return "xfer"
}

func unpackClass(err error) string {
	switch {
	case err == nil:
		return "ok"
	case err == socket.ErrExceedMessageSizeLimit:
		return "size"
	case strings.HasPrefix(err.Error(), "panic"):
		return "reject"
	case isEOF(err):
		return "eof"
	}
	return "reject"
}

func newRecvMessage(proto string, isStruct bool) socket.Message {
	return socket.NewMessage(socket.WithNewBody(func(socket.Header) interface{} {
		if proto == "s" && isStruct {
			return new(Blob)
		}
		return new([]byte)
	}))
}

func withLimit(limit int, f func()) {
	old := socket.MessageSizeLimit()
	socket.SetMessageSizeLimit(uint32(limit))
	defer socket.SetMessageSizeLimit(old)
	f()
}

func c05tRun(line string, out *sinkT) (obs string, nt bool) {
	kind, f := hx.Fields(line)
	defer func() {
		if x := recover(); x != nil {
			obs, nt = fmt.Sprintf("harness-panic:%v", x), false
		}
	}()
	limit, _ := strconv.Atoi(f["limit"])
	proto := f["proto"]
	withLimit(limit, func() {
		switch kind {
		case "thriftpack":
			obs, nt = runPack(line, f, proto, out)
		case "thriftunpack":
			obs, nt = runUnpack(line, f, proto, out)
		case "thriftstream":
			obs, nt = runStream(line, f, proto, out)
		default:
			obs = "bad-kind"
		}
	})
	return
}

func runPack(line string, f map[string]string, proto string, out *sinkT) (string, bool) {
	m := parseM(f)
	isStruct := f["isstruct"] == "1"
	c := &conn{}
	p := protoFunc(proto)(c)
	if f["prev"] != "-" {
		_, pf := hx.Fields("x " + strings.ReplaceAll(f["prev"], ";", " "))
		pm, err := parseM(pf).toMessage(proto == "s")
		if err != nil {
			return "bad-case", false
		}
		var perr error
		withLimit(1<<30, func() { perr = safePack(p, pm) })
		if perr != nil {
			return "bad-case", false
		}
	}
	n0, w0 := c.w.Len(), c.writes
	msg, err := m.toMessage(proto == "s" && isStruct)
	if err != nil {
		return "bad-case", false
	}
	err = safePack(p, msg)
	written := append([]byte(nil), c.w.Bytes()[n0:]...)
	frame := decodeWritten(written, proto == "s")
	wf := wfT(m, proto) && (proto != "s" || isStruct)
	out.Count("thriftpack:" + proto)
	if err != nil {
		cl := packErrClass(err)
		out.Count("thriftpack:err:" + cl)
		// a Pack that fails must leave the connection alone (the size limit is checked after the
		// flush: tie A `C05_pack_size_checked` names that; everything else is a frame-sync hazard)
		if cl != "size" && len(written) > 0 {
			out.Violate("thrift-failed-pack-emits", fmt.Sprintf("Pack returned %q and wrote %d bytes (%s) on the connection", err.Error(), len(written), frame), "c05:thrift-failed-pack-emits")
		}
		return fmt.Sprintf("err:%s written=%d codec=%d frame=%s", cl, len(written), msg.BodyCodec(), frame), true
	}
	// oracle: the size recorded is the number of bytes this Pack put on the connection
	if int(msg.Size()) != len(written) {
		out.Violate("thrift-pack-size", fmt.Sprintf("size %d, %d bytes written", msg.Size(), len(written)), "c05:thrift-pack-size")
	}
	if c.writes-w0 != 2 {
		out.Count("thriftpack:writes:" + strconv.Itoa(c.writes-w0))
	}
	// oracle: the same message on a fresh protocol object records the same size
	{
		c2 := &conn{}
		m2, _ := m.toMessage(proto == "s" && isStruct)
		if e2 := safePack(protoFunc(proto)(c2), m2); e2 != nil || m2.Size() != msg.Size() {
			out.Violate("thrift-size-state", fmt.Sprintf("size %d after an earlier Pack, %d (err %v) on a fresh protocol object", msg.Size(), m2.Size(), e2), "c05:thrift-size-state")
		}
	}
	// oracle: round trip through a fresh Unpack (inside the supported field set)
	if wf {
		back := newRecvMessage(proto, true)
		var uerr error
		withLimit(1<<30, func() {
			uerr = safeUnpack(protoFunc(proto)(&conn{r: bytes.NewReader(written)}), back)
		})
		want := *m
		if proto == "s" {
			want.Codec = 't'
		}
		got := fromMessage(back)
		if uerr != nil {
			out.Violate("thrift-roundtrip", "Unpack of what Pack wrote failed: "+uerr.Error(), "c05:thrift-roundtrip-error")
		} else if want.Line() != got.Line() {
			if sig := fieldsSig(&want, got, "c05:thrift-roundtrip"); sig == "c05:thrift-codec-utf8" {
				out.Violate("thrift-codec", fmt.Sprintf("body codec %d comes back as %d", want.Codec, got.Codec), sig)
			} else {
				out.Violate("thrift-roundtrip", "want "+want.Line()+" got "+got.Line(), sig)
			}
		}
		out.Count("thriftpack:roundtrip")
		if proto == "b" && m.Codec >= 128 {
			out.Count("thriftpack:codec-high")
		}
	} else if proto == "b" && m.Codec >= 128 && m.Mtype >= 1 && m.Mtype <= 3 {
		// a codec id >= 128 in a message outside the supported field set for another reason (an
		// (empty, empty) metadata pair): the codec id must still come back
		back := newRecvMessage(proto, true)
		var uerr error
		withLimit(1<<30, func() {
			uerr = safeUnpack(protoFunc(proto)(&conn{r: bytes.NewReader(written)}), back)
		})
		if uerr == nil && back.BodyCodec() != m.Codec {
			out.Violate("thrift-codec", fmt.Sprintf("body codec %d comes back as %d", m.Codec, back.BodyCodec()), "c05:thrift-codec-utf8")
		}
		out.Count("thriftpack:codec-high")
	}
	return fmt.Sprintf("ok size=%d written=%d codec=%d frame=%s", msg.Size(), len(written), msg.BodyCodec(), frame), true
}

func runUnpack(line string, f map[string]string, proto string, out *sinkT) (string, bool) {
	b := hx.UnHex(f["bytes"])
	mode, _ := strconv.Atoi(f["mode"])
	cseed, _ := strconv.ParseInt(f["cseed"], 10, 64)
	isStruct := f["isstruct"] == "1"
	cr := newChunkReader(b, mode, cseed)
	p := protoFunc(proto)(&conn{r: cr})
	msg := newRecvMessage(proto, isStruct)
	err := safeUnpack(p, msg)
	cl := unpackClass(err)
	out.Count("thriftunpack:" + proto + ":" + cl)
	if err != nil && strings.HasPrefix(err.Error(), "panic") {
		out.Count("thriftunpack:panic")
	}
	if cl != "ok" {
		return cl, f["dec"] != "E" && f["dec"] != "X"
	}
	return "ok " + fromMessage(msg).Show(), true
}

func runStream(line string, f map[string]string, proto string, out *sinkT) (string, bool) {
	var mm []*M
	for _, l := range strings.Split(f["msgs"], "|") {
		_, mf := hx.Fields("x " + strings.ReplaceAll(l, ";", " "))
		mm = append(mm, parseM(mf))
	}
	mode, _ := strconv.Atoi(f["mode"])
	cseed, _ := strconv.ParseInt(f["cseed"], 10, 64)
	stream, lens, ok := packStream(proto, mm)
	out.Count("thriftstream:" + proto + ":mode" + f["mode"])
	if !ok {
		out.Count("thriftstream:pack-failed")
		return "pack-failed", false
	}
	cr := newChunkReader(stream, mode, cseed)
	p := protoFunc(proto)(&conn{r: cr})
	var got []*M
	end := "runaway"
	for i := 0; i < len(mm)+2; i++ {
		msg := newRecvMessage(proto, true)
		err := safeUnpack(p, msg)
		if err != nil {
			end = unpackClass(err)
			break
		}
		got = append(got, fromMessage(msg))
	}
	// oracle: frame sync — as many messages as were sent, the same fields in the same order
	allWF := true
	for _, m := range mm {
		if !wfT(m, proto) {
			allWF = false
		}
	}
	if len(got) != len(mm) || end != "eof" {
		out.Violate("thrift-stream-sync", fmt.Sprintf("%d messages sent back to back, %d read, end=%s (mode %d)", len(mm), len(got), end, mode), "c05:thrift-stream-sync")
	} else if allWF {
		for i := range mm {
			want := *mm[i]
			if proto == "s" {
				want.Codec = 't'
			}
			if want.Line() != got[i].Line() {
				out.Violate("thrift-stream-sync", fmt.Sprintf("message %d of %d: want %s got %s", i, len(mm), want.Line(), got[i].Line()), fieldsSig(&want, got[i], "c05:thrift-stream-fields"))
				break
			}
		}
	}
	// oracle: the size recorded for a received message is the length of its frame
	if len(got) == len(lens) {
		for i := range got {
			if int(got[i].Size) != lens[i] {
				out.Violate("thrift-unpack-size", fmt.Sprintf("message %d of %d: frame of %d bytes, Unpack recorded size %d (chunk mode %d; sizes of the whole stream: %s)",
					i, len(got), lens[i], got[i].Size, mode, showSizes(got)), "c05:thrift-unpack-size-readahead")
				out.Count("thriftstream:size-differs")
				break
			}
		}
	}
	// oracle (what does hold, C05_thrift_unpack_size_partial): read to the end of the stream, the
	// recorded sizes add up to the bytes on the wire - nothing is counted twice or dropped
	if len(got) == len(lens) && end == "eof" {
		sum := 0
		for _, g := range got {
			sum += int(g.Size)
		}
		if sum != len(stream) {
			out.Violate("thrift-unpack-size-sum", fmt.Sprintf("%d frames, %d bytes on the wire, the recorded sizes add up to %d (%s; chunk mode %d)",
				len(got), len(stream), sum, showSizes(got), mode), "c05:thrift-unpack-size-sum")
		}
	}
	var shown []string
	for _, g := range got {
		shown = append(shown, semi(g.Show()))
	}
	return fmt.Sprintf("n=%d end=%s msgs=%s", len(got), end, strings.Join(shown, "|")), len(mm) > 1
}

func showSizes(ms []*M) string {
	var s []string
	for _, m := range ms {
		s = append(s, strconv.Itoa(int(m.Size)))
	}
	return strings.Join(s, ",")
}
