/-
Model/ThriftProto — `proto/thriftproto/binary_proto.go` (`tBinaryProto.binaryPack/binaryUnpack`,
`writeMessageBegin`, `readMessageBegin`) and `proto/thriftproto/struct_proto.go`
(`tStructProto.structPack/structUnpack`) over the shared base (`BaseTTransport` =
`utils.ReadWriteCounter`), as coded.

What is repo-owned and modelled here:
  * which message fields travel where: service method, message type and sequence number in the thrift
    message begin (`typeOf` / `mtypeOf`: CALL, REPLY, ONEWAY; anything else is written as type 0 and read
    back as PUSH); status, metadata, body codec and transfer pipe in the THeader key/value headers under
    the four keys `Tp-Status`, `Tp-Meta`, `Tp-BodyCodec`, `Tp-XferPipe` (`binHdr`; the struct variant
    sets only the first two, `structHdr`); the body as one thrift binary (after the transfer pipe) or,
    in the struct variant, written by the body value itself (`thrift.TStruct`);
  * `string([]byte{m.BodyCodec()})` — the ONE-BYTE string holding the codec id (`codecStr`; fix THRIFT3)
    — and `byte(codecID[0])` on the way back (`codecOf`); THeader key/value headers are length-prefixed
    byte strings, so any byte travels.  Before the fix the value was `string(m.BodyCodec())`, a Go
    conversion of a BYTE TO A STRING, i.e. the UTF-8 encoding of the code point (`codecStrOld`: two
    bytes for ids ≥ 128, of which `codecOf` takes the lead byte 0xC2 / 0xC3);
  * the write headers are a Go map that `ClearWriteHeaders` replaces and `SetWriteHeader` assigns into
    (`setHdr`), the read headers a map indexed with a missing key giving `""` (`getHdr`);
  * the counters: `Pack` zeroes the WRITE counter, the transport writes of the flush add to it and the
    size recorded is `uint32(Writed())`, checked against the limit only AFTER the frame has been
    written (`SetSize` last); `Unpack` zeroes the READ counter (fix a5c585e; before it zeroed the write
    counter — `unpackOld`) and records `uint32(Readed())`: the bytes the library pulled from the
    connection during this `Unpack` (`pulled`, see `ReadAhead` below), checked last;
  * the struct variant's requirements (empty pipe, codec 0 or 't', body implements `thrift.TStruct`)
    and what each error path leaves on the connection: all three are decided, in this order, BEFORE
    the pack lock is taken and before `writeMessageBegin` puts anything into the library's frame
    buffer (fix THRIFT2), so the `Transport().Close()` of `Pack`'s error path — which FLUSHES that
    buffer — finds it empty: a `Pack` that fails emits nothing (`packStruct`).  Before the fix the
    `TStruct` test came after `writeMessageBegin`: a frame without payload, carrying the headers of the
    previous message (`ClearWriteHeaders` had not run yet), was emitted by the failing `Pack`
    (`packStructOld`).

Apache thrift's `THeaderProtocol` / `THeaderTransport` / `TBinaryProtocol` are a PARAMETER (`THeader`):
`enc` = the bytes one flush emits for a buffered message + the write-header map (the map is iterated
in Go's random order, so the bytes are not a function of the frame in reality; every theorem holds
for every `enc`), `dec` = `ReadMessageBegin` + `ReadBinary` (or the struct's `Read`) +
`ReadMessageEnd` + `GetReadHeaders`.  Their law (`Lawful`) is stated in Lemmas/ThriftProto.
Core Lean only.
-/
import Teleport.Model.RawProto
namespace Teleport
namespace ThriftP
open Bytes

/-- "Tp-Status" -/
def kStatus : Bytes := [84, 112, 45, 83, 116, 97, 116, 117, 115]
/-- "Tp-Meta" -/
def kMeta : Bytes := [84, 112, 45, 77, 101, 116, 97]
/-- "Tp-BodyCodec" -/
def kCodec : Bytes := [84, 112, 45, 66, 111, 100, 121, 67, 111, 100, 101, 99]
/-- "Tp-XferPipe" -/
def kPipe : Bytes := [84, 112, 45, 88, 102, 101, 114, 80, 105, 112, 101]

/-- `thrift.THeaderMap` (a Go `map[string]string`): association list with distinct keys. -/
abbrev HMap := List (Bytes × Bytes)

/-- `headers[key] = value` -/
def setHdr : HMap → Bytes → Bytes → HMap
  | [], k, v => [(k, v)]
  | (k', v') :: r, k, v => if k' = k then (k, v) :: r else (k', v') :: setHdr r k v

/-- `headers[key]` (missing key = empty string) -/
def getHdr : HMap → Bytes → Bytes
  | [], _ => []
  | (k', v) :: r, k => if k' = k then v else getHdr r k

/-- what follows the message begin inside one frame. -/
inductive Payload
  | bin (b : Bytes)      -- `WriteBinary(b)` / `ReadBinary()`
  | struct (b : Bytes)   -- written / read by the body value itself (`thrift.TStruct`), the value
                         -- being identified with the byte string `b` it stands for
  | none                 -- nothing (a frame flushed before its payload was written)
deriving DecidableEq, Repr

/-- what thriftproto hands to (gets from) the thrift library for one message. -/
structure TFrame where
  name    : Bytes       -- service method
  typeID  : Nat         -- thrift.TMessageType: 1 CALL, 2 REPLY, 3 EXCEPTION, 4 ONEWAY (0 = none of them)
  seq     : Int
  payload : Payload
  hdr     : HMap
deriving DecidableEq, Repr

/-- the thrift library as a parameter. `dec asStruct inp`: read one message from the input (everything
    that will ever arrive); the error text `"eof"` stands for `io.EOF` / `io.ErrUnexpectedEOF`. -/
structure THeader where
  enc : TFrame → Bytes
  dec : Bool → Bytes → Except String (TFrame × Bytes)

/-- `writeMessageBegin`'s switch: `typeID` keeps its zero value for any other message type. -/
def typeOf (mtype : UInt8) : Nat :=
  if mtype = 1 then 1 else if mtype = 2 then 2 else if mtype = 3 then 4 else 0

/-- `readMessageBegin`'s switch (EXCEPTION is handled before): CALL, REPLY, ONEWAY and `default` → PUSH. -/
def mtypeOf (t : Nat) : UInt8 := if t = 1 then 1 else if t = 2 then 2 else 3

/-- Go `string([]byte{b})`: the one-byte string. -/
def codecStr (c : UInt8) : Bytes := [c]

/-- before fix THRIFT3: Go `string(b)` for a byte `b`, the UTF-8 encoding of the code point U+00bb. -/
def codecStrOld (c : UInt8) : Bytes :=
  if c < 128 then [c] else [(192 : UInt8) ||| (c >>> 6), (128 : UInt8) ||| (c &&& 63)]

/-- `if codecID := headers[HeaderBodyCodec]; codecID != "" { m.SetBodyCodec(byte(codecID[0])) }`
    on a fresh message (codec 0). -/
def codecOf : Bytes → UInt8
  | [] => 0
  | c :: _ => c

/-- `ClearWriteHeaders` + the four `SetWriteHeader` calls of `binaryPack`. -/
def binHdr (m : Msg) : HMap :=
  setHdr (setHdr (setHdr (setHdr [] kStatus m.status.encode) kMeta (Args.query m.md)) kCodec (codecStr m.codec)) kPipe m.pipe

/-- `ClearWriteHeaders` + the two `SetWriteHeader` calls of `structPack`. -/
def structHdr (m : Msg) : HMap :=
  setHdr (setHdr [] kStatus m.status.encode) kMeta (Args.query m.md)

/-- the frame `binaryPack` builds; `b` = body after the transfer pipe. -/
def binFrame (m : Msg) (b : Bytes) : TFrame :=
  { name := m.method, typeID := typeOf m.mtype, seq := m.seq, payload := .bin b, hdr := binHdr m }

def structFrame (m : Msg) : TFrame :=
  { name := m.method, typeID := typeOf m.mtype, seq := m.seq, payload := .struct m.body, hdr := structHdr m }

/-- the protocol object's state that outlives one call: the two counters of `utils.ReadWriteCounter`
    and the library's write-header map. -/
structure PState where
  wcount : Nat := 0
  rcount : Nat := 0
  whdr   : HMap := []
deriving DecidableEq, Repr

inductive PackErr | xfer | size | pipe | codec | notStruct deriving DecidableEq, Repr

/-- result of one `Pack`: the state afterwards, the bytes that reached the connection, the error or
    the size recorded in the message, and the message's body codec afterwards (`structPack` sets it). -/
structure PackRes where
  st      : PState
  written : Bytes
  res     : Except PackErr Nat
  codec   : UInt8

/-- `SetSize(uint32(count))` as the last statement. -/
def sizeRes (limit count : Nat) : Except PackErr Nat :=
  if count % 4294967296 > limit then .error .size else .ok (count % 4294967296)

/-- `tBinaryProto.Pack`. Errors of `MarshalBody` / `OnPack` come before anything is buffered; after
    that nothing fails until `SetSize`, whose error is returned although the frame is out
    (`Transport().Close()` then flushes an empty buffer: nothing). -/
def packBinary (T : THeader) (reg : Registry) (limit : Nat) (st : PState) (m : Msg) : PackRes :=
  match Xfer.onPack reg m.pipe m.body with
  | none => ⟨st, [], .error .xfer, m.codec⟩
  | some b =>
    let bs := T.enc (binFrame m b)
    ⟨{ st with wcount := 0 + bs.length, whdr := binHdr m }, bs, sizeRes limit (0 + bs.length), m.codec⟩

/-- `tStructProto.Pack`; `isStruct` = the body value implements `thrift.TStruct`.  The three
    requirements are checked in the order pipe, codec (`SetBodyCodec('t')` for codec 0 happens here),
    `TStruct` — all before the lock, `WriteCounter.Zero()` and `writeMessageBegin`: the protocol
    object's state is untouched and nothing is buffered when one of them fails. -/
def packStruct (T : THeader) (limit : Nat) (st : PState) (isStruct : Bool) (m : Msg) : PackRes :=
  if m.pipe.length > 0 then ⟨st, [], .error .pipe, m.codec⟩
  else if m.codec ≠ 0 ∧ m.codec ≠ 116 then ⟨st, [], .error .codec, m.codec⟩
  else if !isStruct then ⟨st, [], .error .notStruct, 116⟩
  else
    let bs := T.enc (structFrame m)
    ⟨{ st with wcount := 0 + bs.length, whdr := structHdr m }, bs, sizeRes limit (0 + bs.length), 116⟩

/-- the `tStructProto.Pack` before fix THRIFT2: the `TStruct` test came AFTER `writeMessageBegin`. -/
def packStructOld (T : THeader) (limit : Nat) (st : PState) (isStruct : Bool) (m : Msg) : PackRes :=
  if m.pipe.length > 0 then ⟨st, [], .error .pipe, m.codec⟩
  else if m.codec ≠ 0 ∧ m.codec ≠ 116 then ⟨st, [], .error .codec, m.codec⟩
  else if !isStruct then
    -- message begin buffered, headers not yet replaced; `Close()` flushes it
    let junk := T.enc { name := m.method, typeID := typeOf m.mtype, seq := m.seq, payload := .none, hdr := st.whdr }
    ⟨{ st with wcount := 0 + junk.length }, junk, .error .notStruct, 116⟩
  else
    let bs := T.enc (structFrame m)
    ⟨{ st with wcount := 0 + bs.length, whdr := structHdr m }, bs, sizeRes limit (0 + bs.length), 116⟩

/-- header part of `binaryUnpack` after the three library reads. -/
def ofFrameBinary (reg : Registry) (f : TFrame) (b : Bytes) : Except String Msg :=
  (Raw.ofOpt "panic:statusquote" (Status.decode (getHdr f.hdr kStatus))).bind fun status =>
  (Raw.ofOpt "panic:metaquote" (Args.parse (getHdr f.hdr kMeta))).bind fun md =>
  (Raw.ofOpt "err:filter" (Xfer.append reg [] (getHdr f.hdr kPipe))).bind fun pipe =>
  (Raw.ofOpt "err:xfer" (Xfer.onUnpack reg pipe b)).bind fun body =>
  .ok { seq := f.seq, mtype := mtypeOf f.typeID, method := f.name, status, md,
        codec := codecOf (getHdr f.hdr kCodec), body, pipe }

/-- header part of `structUnpack`: codec fixed to 't', pipe untouched. -/
def ofFrameStruct (f : TFrame) (b : Bytes) : Except String Msg :=
  (Raw.ofOpt "panic:statusquote" (Status.decode (getHdr f.hdr kStatus))).bind fun status =>
  (Raw.ofOpt "panic:metaquote" (Args.parse (getHdr f.hdr kMeta))).bind fun md =>
  .ok { seq := f.seq, mtype := mtypeOf f.typeID, method := f.name, status, md, codec := 116, body := b, pipe := [] }

/-- `SetSize(uint32(count))` as the last statement of `Unpack`. -/
def finish (limit count : Nat) (rest : Bytes) : Except String Msg → Raw.Out
  | .error e => .reject e
  | .ok m => if count % 4294967296 > limit then .size else .ok { m with size := count % 4294967296 } rest

def decErr (e : String) : Raw.Out := if e == "eof" then .eof else .reject e

/-- `tBinaryProto.Unpack` on the input `inp`; `pulled` = the number of bytes the library's reader took
    from the connection during this call (the read counter after `ReadCounter.Zero()`). -/
def unpackBinary (T : THeader) (reg : Registry) (limit pulled : Nat) (inp : Bytes) : Raw.Out :=
  match T.dec false inp with
  | .error e => decErr e
  | .ok (f, rest) =>
    if f.typeID = 3 then .reject "err:exception" else
    match f.payload with
    | .bin b => finish limit pulled rest (ofFrameBinary reg f b)
    | _ => .reject "err:thrift"

/-- `tStructProto.Unpack`; `isStruct` = the body made by the message's `newBodyFunc` implements `TStruct`. -/
def unpackStruct (T : THeader) (limit pulled : Nat) (isStruct : Bool) (inp : Bytes) : Raw.Out :=
  match T.dec true inp with
  | .error e => decErr e
  | .ok (f, rest) =>
    if f.typeID = 3 then .reject "err:exception" else
    if !isStruct then .reject "err:notstruct" else
    match f.payload with
    | .struct b => finish limit pulled rest (ofFrameStruct f b)
    | _ => .reject "err:thrift"

/-- the pre-a5c585e `Unpack`: the WRITE counter was zeroed, the read counter never; the size recorded
    was everything read on the connection so far (`st.rcount` = reads before this call). -/
def unpackBinaryOld (T : THeader) (reg : Registry) (limit : Nat) (st : PState) (pulled : Nat) (inp : Bytes) : Raw.Out × PState :=
  (unpackBinary T reg limit (st.rcount + pulled) inp, { st with wcount := 0, rcount := st.rcount + pulled })

/-- the current `Unpack` with the counter state explicit. -/
def unpackBinarySt (T : THeader) (reg : Registry) (limit : Nat) (st : PState) (pulled : Nat) (inp : Bytes) : Raw.Out × PState :=
  (unpackBinary T reg limit (0 + pulled) inp, { st with rcount := 0 + pulled })

/-- all frames of a list of messages packed one after the other by ONE protocol object (the state is
    threaded): the bytes on the connection and the messages with the recorded sizes. -/
def packAllBinary (T : THeader) (reg : Registry) (limit : Nat) : PState → List Msg → Option (Bytes × List Msg)
  | _, [] => some ([], [])
  | st, m :: ms =>
    match (packBinary T reg limit st m).res, packAllBinary T reg limit (packBinary T reg limit st m).st ms with
    | .ok sz, some (r, out) => some ((packBinary T reg limit st m).written ++ r, { m with size := sz } :: out)
    | _, _ => none

/-- read back-to-back frames, one `pulled` count per `Unpack`. -/
def unpackNBinary (T : THeader) (reg : Registry) (limit : Nat) : List Nat → Bytes → Option (List Msg × Bytes)
  | [], inp => some ([], inp)
  | p :: ps, inp =>
    match unpackBinary T reg limit p inp with
    | .ok m rest => (unpackNBinary T reg limit ps rest).map (fun r => (m :: r.1, r.2))
    | _ => none

/-! ### Read-ahead: what `Readed()` counts

`THeaderTransport` reads the connection through its own `bufio.Reader` (4096 bytes): a fill takes
whatever one `Read` of the connection delivers, which may reach beyond the current frame. The bytes
beyond it stay buffered for the next `Unpack` — but they were COUNTED during this one. `ahead` = bytes
buffered beyond the frames consumed so far. One `Unpack` of a frame of `len` bytes that pulls `p`
bytes is possible iff `ahead + p ≥ len` (and the library pulls nothing when the frame is already
buffered); the size it records is `p`. -/

/-- one `Unpack`: `none` = impossible (the frame is not complete after pulling `p`). -/
def raStep (ahead len p : Nat) : Option Nat :=
  if ahead + p < len then none else if len ≤ ahead ∧ p ≠ 0 then none else some (ahead + p - len)

/-- a run over several frames (lengths and pulled counts pairwise): the final `ahead`. -/
def raRun : Nat → List (Nat × Nat) → Option Nat
  | a, [] => some a
  | a, (len, p) :: r => (raStep a len p).bind (fun a' => raRun a' r)

end ThriftP
end Teleport
