/-
Props/C05 — Wire protocols round-trip every message and never lose frame sync (raw protocol,
byte-exact, fully in-repo).  Property theorems only; helper lemmas live in Lemmas/.
-/
import Teleport.Lemmas.Raw
import Teleport.Gen.Frames
import Teleport.Lemmas.Reader
import Teleport.Lemmas.JsonProto
import Teleport.Lemmas.PbProto
import Teleport.Lemmas.WsSubProto
import Teleport.Lemmas.HttpStatus
import Teleport.Lemmas.HttpWF
import Teleport.Drv.TestFilters
import Teleport.Gen.Consts
import Teleport.Lemmas.ThriftProto
import Teleport.Drv.C05t
import Teleport.Lemmas.ThriftToy
namespace Teleport
namespace C05
open Bytes

/-- `decodeArg(AppendQuotedArg(s)) = s` for every byte string (with or without `+` decoding), with
    the 256-entry hex table of `utils/bytesconv.go` and with the 255-entry copy in goutil's status
    package; in particular the latter never reaches its out-of-range table index on quoted input. -/
theorem C05_quote_roundtrip (t : HexTab) (plus : Bool) (s : Bytes) : unquote t plus (quote s) = some s :=
  unquote_quote t plus s

/-- Metadata parsing (`utils.Args.ParseBytes`, run on the metadata field of every received frame)
    returns on EVERY byte string: with the 256-entry `hex2intTable` the decoder has no panic point
    (before the repair `%` followed within two bytes by `0xff` indexed a 255-entry table out of range). -/
theorem C05_args_parse_total : ∀ b : Bytes, (Args.parse b).isSome = true := Args.parse_total

/-- the former panic input now decodes: `%\xff\x00` is not an escape, the three bytes are the key. -/
theorem C05_args_parse_ff : Args.parse [37, 255, 0] = some [([37, 255, 0], [])] := by
  simp [Args.parse, Args.scanAll, Args.scanOne, Args.decodeSeg, Args.splitAmp, Args.splitEq, unquote, hexValT,
    hexValFixed]

/-- goutil's status decoder is outside this repository and keeps its 255-entry table: the same
    bytes in the status field still panic (recovered by the read loop: the frame is rejected). -/
theorem C05_status_decode_ff_panics : Status.decode [37, 255, 0] = none := by
  simp [Status.decode, Args.scanAll, Args.scanOne, Args.decodeSeg, Args.splitAmp, Args.splitEq, unquote, hexValT,
    hexVal]

/-- Metadata is an ordered multimap of arbitrary byte strings: parsing the query string of any
    list of pairs gives back exactly the pairs that are not (empty key, empty value), in order. -/
theorem C05_args_parse_query (l : List Args.KV) :
    Args.parse (Args.query l) = some (l.filter Args.nonEmptyKV) := Args.parse_query l

/-- ... hence every well-formed metadata list round-trips unchanged. -/
theorem C05_args_roundtrip (l : List Args.KV) (h : Args.WF l) : Args.parse (Args.query l) = some l :=
  Args.parse_query_wf l h

/-- Status (code, message, cause text) round-trips for every int32 code and all byte strings. -/
theorem C05_status_roundtrip (s : Status) (h : Num.inInt32 s.code) :
    Status.decode (Status.encode s) = some s := Status.decode_encode s h

/-- Sequence numbers: base-36 text round-trips for every int32, negative and extreme included. -/
theorem C05_seq36_roundtrip (i : Int) (h : Num.inInt32 i) :
    Num.parseInt32? 36 (Num.formatInt 34 i) = some i := Num.parseInt32?_formatInt 34 (by omega) i h

/-- One frame: unpacking what was packed, followed by any further bytes `rest`, yields the same
    message (all eight fields, the size being the frame length), consumes exactly the frame and
    leaves `rest` — frames are self-delimiting. -/
theorem C05_raw_roundtrip (reg : Registry) (limit : Nat) (m : Msg) (bs rest : Bytes) (sz : Nat)
    (hw : Raw.WF reg m) (hp : Raw.pack reg limit m = .ok (bs, sz)) (hlt : bs.length < 4294967296) :
    (Raw.unpack reg limit (bs ++ rest)).out = .ok { m with size := sz } rest
    ∧ (Raw.unpack reg limit (bs ++ rest)).consumed = bs.length
    ∧ sz = bs.length := by
  have := Raw.unpack_pack reg limit m bs rest sz hw hp hlt
  rw [this.1]; exact ⟨rfl, rfl, this.2⟩

/-- all frames of a list of messages, packed back to back. -/
def packAll (reg : Registry) (limit : Nat) : List Msg → Option (Bytes × List Msg)
  | [] => some ([], [])
  | m :: ms =>
    match Raw.pack reg limit m, packAll reg limit ms with
    | .ok (bs, sz), some (r, out) => some (bs ++ r, { m with size := sz } :: out)
    | _, _ => none

/-- Any number of back-to-back frames decodes to the same frame sequence (sizes = frame lengths),
    leaving exactly the trailing bytes. `hfit`: no single frame reaches 4 GiB (the length prefix is
    a `uint32`; beyond that the Go code wraps). -/
theorem C05_raw_stream (reg : Registry) (limit : Nat) (ms : List Msg) (tail : Bytes)
    (hw : ∀ m ∈ ms, Raw.WF reg m)
    (hfit : ∀ m ∈ ms, ∀ bs sz, Raw.pack reg limit m = .ok (bs, sz) → bs.length < 4294967296)
    (stream : Bytes) (out : List Msg)
    (hp : packAll reg limit ms = some (stream, out)) :
    Raw.unpackN reg limit ms.length (stream ++ tail) = some (out, tail) := by
  induction ms generalizing stream out with
  | nil => simp [packAll] at hp; simp [Raw.unpackN, hp]
  | cons m ms ih =>
    simp only [packAll] at hp
    cases h1 : Raw.pack reg limit m with
    | error e => simp [h1] at hp
    | ok r =>
      obtain ⟨bs, sz⟩ := r
      cases h2 : packAll reg limit ms with
      | none => simp [h1, h2] at hp
      | some r2 =>
        obtain ⟨r, o⟩ := r2
        simp only [h1, h2, Option.some.injEq, Prod.mk.injEq] at hp
        obtain ⟨hs, ho⟩ := hp
        have hlt := hfit m (by simp) bs sz h1
        have h3 := Raw.unpack_pack reg limit m bs (r ++ tail) sz (hw m (by simp)) h1 hlt
        have h4 := ih (fun x hx => hw x (by simp [hx])) (fun x hx => hfit x (by simp [hx])) r o h2
        rw [← hs, ← ho, List.append_assoc]
        simp only [List.length_cons, Raw.unpackN, h3.1, h4, Option.map_some]

/-- The size reported for a message depends on that message alone: `pack` is a function of the
    message (and the registry/limit configuration) with no protocol-object state, and the size it
    records is the length of the frame it writes. -/
theorem C05_size_depends_on_message_only (reg : Registry) (limit : Nat) (m : Msg) (bs : Bytes) (sz : Nat)
    (hp : Raw.pack reg limit m = .ok (bs, sz)) (hlt : bs.length < 4294967296) : sz = bs.length := by
  unfold Raw.pack at hp
  split at hp
  · simp at hp
  · cases hx : Xfer.onPack reg m.pipe (Raw.payload m) with
    | none => simp [hx] at hp
    | some p =>
      simp only [hx] at hp
      split at hp
      · simp at hp
      · simp only [Except.ok.injEq, Prod.mk.injEq] at hp
        obtain ⟨h1, h2⟩ := hp
        have : bs.length = 4 + 1 + m.pipe.length + p.length := by
          rw [← h1]; simp [be32]; omega
        omega

/-! ### Non-vacuity: a concrete non-trivial message meets `WF` and packs. -/

def exMsg : Msg :=
  { seq := -2147483648, mtype := 1, method := [47, 97, 0, 255], status := ⟨404, [78, 111, 116, 32, 37], some []⟩,
    md := [([], [1]), ([37, 38], []), ([37, 38], [61, 43, 255])], codec := 106, body := [123, 125],
    pipe := [1, 2, 3, 1] }

theorem lawful_testReg : ∀ i f, Drv.testReg i = some f → Xfer.Lawful f := by
  intro i f h
  unfold Drv.testReg at h
  split at h
  · cases h; intro x y hxy; simp [Drv.fRev] at hxy ⊢; subst hxy; simp
  · split at h
    · cases h; intro x y hxy
      simp only [Drv.fXor, Option.some.injEq] at hxy ⊢
      subst hxy
      simp [List.map_map]
      have : ((fun x : UInt8 => x ^^^ 90) ∘ fun x => x ^^^ 90) = id := by
        funext b; simp [UInt8.xor_assoc]
      rw [this]; simp
    · split at h
      · cases h; intro x y hxy
        simp only [Drv.fLen, Option.some.injEq] at hxy ⊢
        subst hxy; simp
      · simp at h

instance (l : List Args.KV) : Decidable (Args.WF l) := by unfold Args.WF; infer_instance

example : Raw.WF Drv.testReg exMsg := by
  refine { seq := by decide, code := by decide, method := by decide, status := by decide,
           md := by decide, mdwf := by decide, pipeLen := by decide, pipeReg := ?_ }
  intro i hi
  simp only [exMsg, List.mem_cons, List.mem_nil_iff, or_false] at hi
  rcases hi with h | h | h | h <;> subst h
  · exact ⟨Drv.fRev, rfl, lawful_testReg 1 _ rfl⟩
  · exact ⟨Drv.fXor, rfl, lawful_testReg 2 _ rfl⟩
  · exact ⟨Drv.fLen, rfl, lawful_testReg 3 _ rfl⟩
  · exact ⟨Drv.fRev, rfl, lawful_testReg 1 _ rfl⟩

example : (Raw.pack Drv.testReg 65536 exMsg).toOption.isSome = true := by decide

/-! ## tie A: how each protocol hands a frame to the connection (`Teleport.Gen.Frames`, regenerated from
the protocol packages on every run by `srcfacts`). -/

/-- **One frame = one emit on the connection, and nothing touches the connection after it.**
    `Raw.pack` returns "the bytes handed to the single `Write`"; `C05_raw_stream` reads back-to-back
    frames as the concatenation of those byte strings; Model/Calls appends one whole frame per `write`
    step (C01). That is justified iff every shipped protocol's `Pack` (with the same-receiver helpers it
    calls) performs exactly ONE emit on its connection field — `Write` for raw / json / pb / http and the
    two websocket sub-protocols, `Flush` of the THeader protocol object for the two thrift protocols
    (everything before it only fills the library's frame buffer) —, not in a loop or closure, touches the
    connection in no other way before it and — except thrift's `Transport().Close()` on the error path —
    not after it. -/
theorem C05_frames_single_write :
    Gen.frames_missing = [] ∧
    Gen.frames_protocols = ["raw", "json", "pb", "http", "thrift-binary", "thrift-struct", "ws-json", "ws-pb"] ∧
    Gen.frames_pack_emits = [
      ("raw", "Write", "", ""),
      ("json", "Write", "", ""),
      ("pb", "Write", "", ""),
      ("http", "Write", "", ""),
      ("thrift-binary", "Flush", "", "Transport().Close"),
      ("thrift-struct", "Flush", "", "Transport().Close"),
      ("ws-json", "Write", "", ""),
      ("ws-pb", "Write", "", "")] := by
  decide

/-- **The size recorded in the message is the length of the frame that is written, or `Pack` fails**
    (`Raw.pack`: `if total > limit then .error .size`; `C05_size_depends_on_message_only`; fix b9b2141).
    Justified iff `Pack` returns the error of `m.SetSize(..)` before the emit (raw, json, pb, both websocket
    sub-protocols) or as its result after the flush (thrift). `httproto.Pack` ignores it — visible here as
    the one exception: it writes `bb.B` itself, never a buffer sized from `m.Size()`. -/
theorem C05_pack_size_checked :
    Gen.frames_missing = [] ∧
    Gen.frames_pack_setsize = [
      ("raw", "returned", "before-emit"),
      ("json", "returned", "before-emit"),
      ("pb", "returned", "before-emit"),
      ("http", "ignored", "before-emit"),
      ("thrift-binary", "returned", "after-emit"),
      ("thrift-struct", "returned", "after-emit"),
      ("ws-json", "returned", "before-emit"),
      ("ws-pb", "returned", "before-emit")] := by
  decide

/-- widths (bytes) of the length fields as `Raw.payload` / `Raw.pack` write them; `placeholder` is the
    zero size written first and overwritten by `size`. -/
def rawModelWidths : List (String × Nat) :=
  [("meta", 2), ("method", 1), ("placeholder", 4), ("seq", 1), ("size", 4), ("status", 2), ("xfer", 1)]

def widthOf (f : String) : Nat := (rawModelWidths.lookup f).getD 0

/-- a length written in `w` bytes, big endian, truncated like the Go conversion. -/
def lenField (w n : Nat) : Bytes :=
  if w = 1 then [(n % 256).toUInt8] else if w = 2 then be16 (n % 65536) else if w = 4 then be32 (n % 4294967296) else []

/-- the table above IS what the model does: `Raw.payload` and the frame of `Raw.pack`, rewritten with
    every length prefix produced by `lenField (widthOf <field>)`. -/
theorem C05_raw_model_widths (m : Msg) :
    Raw.payload m =
      lenField (widthOf "seq") (Num.formatInt 34 m.seq).length ++ Num.formatInt 34 m.seq
      ++ m.mtype :: (lenField (widthOf "method") m.method.length ++ m.method)
      ++ lenField (widthOf "status") m.status.encode.length ++ m.status.encode
      ++ lenField (widthOf "meta") (Args.query m.md).length ++ Args.query m.md
      ++ m.codec :: m.body ∧
    ∀ (reg : Registry) (limit : Nat) (bs : Bytes) (sz : Nat), Raw.pack reg limit m = .ok (bs, sz) →
      m.method.length ≤ 255 ∧
      bs.take 4 = lenField (widthOf "size") sz ∧
      (bs.drop 4).take 1 = lenField (widthOf "xfer") m.pipe.length := by
  have w1 : widthOf "seq" = 1 := by decide
  have w2 : widthOf "method" = 1 := by decide
  have w3 : widthOf "status" = 2 := by decide
  have w4 : widthOf "meta" = 2 := by decide
  have w5 : widthOf "size" = 4 := by decide
  have w6 : widthOf "xfer" = 1 := by decide
  refine ⟨?_, ?_⟩
  · simp [Raw.payload, lenField, w1, w2, w3, w4]
  · intro reg limit bs sz h
    unfold Raw.pack at h
    split at h
    · cases h
    · rename_i hm
      split at h
      · cases h
      · simp only [] at h
        split at h
        · cases h
        · injection h with h
          injection h with hb hs
          subst hb; subst hs
          refine ⟨by omega, ?_, ?_⟩
          · simp [lenField, w5, be32]
          · simp [lenField, w6, be32]

/-- **The raw frame's length fields have the widths the model uses** (1, 1, 2, 2 bytes for seq, method,
    status, metadata; 1 for the transfer-pipe length; 4 for the size and its placeholder), **and the
    only field that is refused instead of truncated is the method** (`if m.method.length > 255 then
    .error .method` ↔ `serviceMethodLength > math.MaxUint8` before the byte is written). The left side is
    extracted from the casts `byte(len(..))`, `uint16(len(..))`, `uint32(..)`, `PutUint32` in
    `rawProto.Pack` / `writeHeader`; the right side is `rawModelWidths`, which `C05_raw_model_widths`
    ties to `Raw.payload` / `Raw.pack`. -/
theorem C05_raw_field_widths :
    Gen.frames_missing = [] ∧
    Gen.frames_raw_widths = rawModelWidths ∧
    Gen.frames_raw_method_check = ["method>255:return-error:before-write"] := by
  decide
/-! ### Arbitrary read chunk sizes

`Raw.unpack` consumes the whole input as one byte list; the real `readMessage` gets it through
`io.ReadFull` on a connection that delivers it in pieces. Model/Reader has the pieces (`Reader` = list of
chunks, empty chunks allowed), one `Read` (`Reader.read`), the `io.ReadFull` loop (`Reader.readFull`) and
`rawProto.Unpack` written with those reads (`Reader.unpackChunked`). -/

/-- `io.ReadFull` sees the concatenation only: over EVERY chunking `r` of the input (any number of
    chunks of any sizes, empty ones included) a request for `n` bytes returns the first `n` bytes of the
    concatenation (all of it when there are fewer), succeeds iff at least `n` bytes exist, and then leaves
    a reader whose concatenation is exactly the rest. -/
theorem C05_readfull_chunking (n : Nat) (r : Reader) :
    ∃ r' : Reader, Reader.readFull n r = (r.flatten.take n, decide (n ≤ r.flatten.length), r') ∧
      (n ≤ r.flatten.length → r'.flatten = r.flatten.drop n) :=
  Reader.readFull_flatten n r

/-- `Reader.readFull` is the loop of `io.ReadFull` / `io.ReadAtLeast` over single `Read` calls: one
    `Read` (at most the rest of the current chunk, at most what is missing); buffer full → done; else the
    same again for what is missing on the reader that `Read` left. -/
theorem C05_readfull_is_read_loop (n : Nat) (r : Reader) (hn : 0 < n) (hr : r ≠ []) :
    Reader.readFull n r =
      (if (Reader.read n r).1.length = n then ((Reader.read n r).1, true, (Reader.read n r).2)
       else ((Reader.read n r).1 ++ (Reader.readFull (n - (Reader.read n r).1.length) (Reader.read n r).2).1,
             (Reader.readFull (n - (Reader.read n r).1.length) (Reader.read n r).2).2.1,
             (Reader.readFull (n - (Reader.read n r).1.length) (Reader.read n r).2).2.2)) :=
  Reader.readFull_loop n r hn hr

/-- non-vacuity: a concrete reader with an empty chunk; a 4-byte `ReadFull` crosses three chunks and
    stops inside the fourth; a 6-byte one fails with everything read. -/
example : Reader.readFull 4 [[1], [], [2, 3], [4, 5]] = ([1, 2, 3, 4], true, [[5]]) ∧
    Reader.readFull 6 [[1], [], [2, 3], [4, 5]] = ([1, 2, 3, 4, 5], false, []) ∧
    Reader.read 4 [[1], [], [2, 3], [4, 5]] = ([1], [[], [2, 3], [4, 5]]) := by decide

/-- Read chunk sizes are irrelevant for one frame: reading one frame through `io.ReadFull` from EVERY
    chunking `r` of the input gives what `Raw.unpack` gives on the concatenation `r.flatten` — the same
    message with the same eight fields and what is left of the reader is a chunking of the same rest,
    or the same classification (eof / above the limit / rejected, same reason) —, consumes the same
    number of bytes, requests the same largest buffer and asks the connection for the same largest read. -/
theorem C05_chunking_irrelevant (reg : Registry) (limit : Nat) (r : Reader) :
    (Reader.unpackChunked reg limit r).out.flat = (Raw.unpack reg limit r.flatten).out ∧
    (Reader.unpackChunked reg limit r).consumed = (Raw.unpack reg limit r.flatten).consumed ∧
    (Reader.unpackChunked reg limit r).alloc = (Raw.unpack reg limit r.flatten).alloc ∧
    (Reader.unpackChunked reg limit r).maxReq = (Raw.unpack reg limit r.flatten).maxReq := by
  have h := Reader.unpackChunked_flat reg limit r
  rw [← h]
  exact ⟨rfl, rfl, rfl, rfl⟩

/-- Two chunkings of the same bytes decode alike. -/
theorem C05_chunkings_agree (reg : Registry) (limit : Nat) (r r' : Reader) (h : r.flatten = r'.flatten) :
    (Reader.unpackChunked reg limit r).flat = (Reader.unpackChunked reg limit r').flat := by
  rw [Reader.unpackChunked_flat, Reader.unpackChunked_flat, h]

/-- The property itself: a byte stream carrying any number of back-to-back frames, delivered in
    ARBITRARY read chunk sizes, decodes to the same frame sequence. `r` is any chunking of the packed
    frames of `ms` followed by any trailing bytes `tail`; reading `ms.length` frames from it through
    `io.ReadFull` yields exactly the messages (sizes = frame lengths) and leaves a reader holding
    exactly `tail`. Hypotheses as in `C05_raw_stream`. -/
theorem C05_raw_stream_chunked (reg : Registry) (limit : Nat) (ms : List Msg) (tail : Bytes)
    (hw : ∀ m ∈ ms, Raw.WF reg m)
    (hfit : ∀ m ∈ ms, ∀ bs sz, Raw.pack reg limit m = .ok (bs, sz) → bs.length < 4294967296)
    (stream : Bytes) (out : List Msg)
    (hp : packAll reg limit ms = some (stream, out))
    (r : Reader) (hr : r.flatten = stream ++ tail) :
    ∃ r' : Reader, Reader.unpackNChunked reg limit ms.length r = some (out, r') ∧ r'.flatten = tail := by
  have h := Reader.unpackNChunked_flat reg limit ms.length r
  rw [hr, C05_raw_stream reg limit ms tail hw hfit stream out hp] at h
  cases hx : Reader.unpackNChunked reg limit ms.length r with
  | none => rw [hx] at h; simp at h
  | some p =>
    rw [hx] at h
    simp only [Option.map_some, Option.some.injEq, Prod.mk.injEq] at h
    exact ⟨p.2, by rw [← h.1], h.2⟩

/-- non-vacuity of the chunking hypothesis: EVERY list of cut positions (zeros give empty chunks) is a
    chunking of the same bytes; a concrete one. -/
example (ks : List Nat) (b : Bytes) : (Reader.chunk ks b).flatten = b := Reader.chunk_flatten ks b

example : Reader.chunk [1, 0, 2] [1, 2, 3, 4, 5] = [[1], [], [2, 3], [4, 5]] := by decide

/-- the packed frame of `exMsg` (metadata, status, a four-filter pipe). -/
def exFrame : Bytes := match Raw.pack Drv.testReg 65536 exMsg with | .ok (bs, _) => bs | _ => []

/-- non-vacuity of `C05_chunking_irrelevant` on the `ok` path: the frame of `exMsg` followed by two more
    bytes, cut into chunks of sizes 1, 0, 2, 3, 0, 7, 1, 30 and the rest (the 4-byte size field spans three
    chunks and an empty one), decodes to `exMsg` with its size, leaving exactly the two bytes; cut off
    three bytes before its end it is `eof` with every byte consumed. -/
example :
    (match (Reader.unpackChunked Drv.testReg 65536 (Reader.chunk [1, 0, 2, 3, 0, 7, 1, 30] (exFrame ++ [9, 9]))).out with
     | .ok m rest => decide (m = { exMsg with size := exFrame.length }) && decide (rest.flatten = [9, 9])
     | _ => false) = true ∧
    (match Reader.unpackChunked Drv.testReg 65536 (Reader.chunk [1, 0, 2, 3, 0, 7, 1, 30] (exFrame.take (exFrame.length - 3))) with
     | ⟨.eof, consumed, _, _⟩ => decide (consumed = exFrame.length - 3)
     | _ => false) = true := by decide +kernel
-- BEGIN json framing
/-! ### jsonproto (`proto/jsonproto/jsonproto.go`): body escaping, Go quoting, the hand-written JSON
text, the outer frame.  The model (Model/JsonProto) covers the repo-owned `Pack`/`Unpack` and a
scanner for `gjson.Get` that the correspondence check validates against the real library; the
theorems below are about that model, for every registry and every pipe of lawful filters. -/

/-- `escapeBody` (backslash before `\` and `"`, `\u00XX` for a control byte; fixes 39f2b8b and
    C05c) is invertible on EVERY byte string (`unescapeBody` = "`\uXXXX` is the byte with that
    code, any other byte behind a backslash is literal"). -/
theorem C05_json_escape_roundtrip (b : Bytes) : JsonP.unescapeBody (JsonP.escapeBody b) = b :=
  JsonP.unescapeBody_escapeBody b

/-- ... and for EVERY body the embedded string ends exactly at the quote `Pack` writes behind it
    (gjson's backward count of backslashes), so the rest of the document is never swallowed. -/
theorem C05_json_escape_delimits (b r : Bytes) :
    JsonP.strEnd false (JsonP.escapeBody b ++ 34 :: r) = some (JsonP.escapeBody b, r) :=
  JsonP.strEnd_escapeBody b r

/-- The value gjson returns for the embedded body is the body, for EVERY body: control bytes,
    `"`, `\`, bytes ≥ 0x80 in any combination (gjson un-escapes only when it saw a backslash and
    stops at a raw control byte - the escaped text contains none). -/
theorem C05_json_body_value (b : Bytes) : JsonP.strVal (JsonP.escapeBody b) = b :=
  JsonP.strVal_escapeBody b

/-- Before fix 39f2b8b only `"` was escaped: the body `\\` (two backslashes) came back as one, and
    the body `\` swallowed the closing quote (the string, hence the frame's JSON, no longer ends). -/
theorem C05_json_escape_old_witness :
    JsonP.unescapeBody (JsonP.escapeBodyOld [92, 92]) ≠ [92, 92] ∧
    JsonP.strVal (JsonP.escapeBodyOld [92, 92]) = [92] ∧
    JsonP.strEnd false (JsonP.escapeBodyOld [92] ++ [34, 125]) = none := by
  refine ⟨by decide, ?_, by decide⟩
  have : JsonP.escapeBodyOld [92, 92] = [92, 92] := by decide
  rw [this]
  have hc : ([92, 92] : Bytes).contains 92 = true := by decide
  simp only [JsonP.strVal, hc, if_true]
  rw [JsonP.unesc_bs, JsonP.unesc_nil]

/-- Between fix 39f2b8b and fix C05c control bytes were embedded raw: a body with a control byte
    together with something to escape lost data, because gjson's `unescape` stops at the control
    byte: `"` LF came back as `"` (known finding `c05:wsjson:filtered-body-not-json-safe`: every
    gzip-filtered body of the websocket sub-protocol is such a body). The repaired function
    returns it whole. -/
theorem C05_json_body_ctl_old_witness :
    JsonP.strVal (JsonP.escapeBodyOld2 [34, 10]) = [34] ∧ JsonP.strVal (JsonP.escapeBody [34, 10]) = [34, 10] := by
  refine ⟨?_, JsonP.strVal_escapeBody _⟩
  have : JsonP.escapeBodyOld2 [34, 10] = [92, 34, 10] := by decide
  rw [this]
  have hc : ([92, 34, 10] : Bytes).contains 92 = true := by decide
  simp only [JsonP.strVal, hc, if_true]
  rw [JsonP.unesc_quote, JsonP.unesc.eq_def]
  simp

/-- `strconv.Quote` of printable ASCII without `"` and `\` only adds the surrounding quotes ... -/
theorem C05_json_quote_identity (s : Bytes) (h : ∀ c ∈ s, JsonP.plainByte c = true) :
    JsonP.goQuote s = some (34 :: s ++ [34]) := JsonP.goQuote_plain s h

/-- ... which is the case for the status query string of EVERY status and the metadata query
    string of EVERY metadata list (`%XX` quoting leaves only `[A-Za-z0-9*-._%=&]`). -/
theorem C05_json_quote_status_meta (st : Status) (md : List Args.KV) :
    JsonP.goQuote st.encode = some (34 :: st.encode ++ [34]) ∧
    JsonP.goQuote (Args.query md) = some (34 :: Args.query md ++ [34]) :=
  ⟨JsonP.goQuote_plain _ (JsonP.encode_plain st), JsonP.goQuote_plain _ (JsonP.query_plain md)⟩

/-- The law of the gjson model on the documents `Pack` writes: for decimal tokens `seq mt co`,
    string contents `me st md` without `"` and `\`, and ANY body, `gjson.Get` returns the token
    resp. the string of each of the seven keys. -/
theorem C05_json_get_law (seq mt me st md co body : Bytes)
    (h1 : JsonP.NumTok seq) (h2 : JsonP.NumTok mt) (h6 : JsonP.NumTok co)
    (h3 : ∀ c ∈ me, c ≠ 34 ∧ c ≠ 92) (h4 : ∀ c ∈ st, c ≠ 34 ∧ c ≠ 92) (h5 : ∀ c ∈ md, c ≠ 34 ∧ c ≠ 92) :
    let doc := JsonP.render seq mt (34 :: me ++ [34]) (34 :: st ++ [34]) (34 :: md ++ [34]) co (JsonP.escapeBody body)
    JsonP.jget doc JsonP.kSeq = some (.num seq) ∧ JsonP.jget doc JsonP.kMtype = some (.num mt) ∧
    JsonP.jget doc JsonP.kMethod = some (.str me) ∧ JsonP.jget doc JsonP.kStatus = some (.str st) ∧
    JsonP.jget doc JsonP.kMeta = some (.str md) ∧ JsonP.jget doc JsonP.kCodec = some (.num co) ∧
    JsonP.jget doc JsonP.kBody = some (.str (JsonP.strVal (JsonP.escapeBody body))) :=
  JsonP.jget_render seq mt me st md co body h1 h2 h6 h3 h4 h5 _ rfl

/-- One frame: inside jsonproto's supported field set `WFj`, unpacking what was packed, followed
    by any further bytes, yields the same sequence number, type, service method, status, metadata,
    body codec, body and filter list; the size is the frame length without its four length bytes;
    exactly `rest` is left (frames are self-delimiting). Any registry, any lawful pipe. -/
theorem C05_json_roundtrip (reg : Registry) (limit : Nat) (m : Msg) (bs rest : Bytes) (sz : Nat)
    (hw : JsonP.WFj m) (hl : ∀ i ∈ m.pipe, ∃ f, reg i = some f ∧ Xfer.Lawful f)
    (hp : JsonP.pack reg limit m = .ok (bs, sz)) (hlt : bs.length < 4294967296) :
    JsonP.unpack reg limit (bs ++ rest) = .ok { m with size := sz } rest ∧ sz + 4 = bs.length :=
  JsonP.unpack_pack reg limit m bs rest sz hw hl hp hlt

/-- Any number of back-to-back frames (`Frame2.packAll`: every message packed, sizes recorded)
    decodes to the same frame sequence, leaving exactly the trailing bytes. `hfit`: no single
    frame reaches 4 GiB. -/
theorem C05_json_stream (reg : Registry) (limit : Nat) (ms : List Msg) (tail : Bytes)
    (hw : ∀ m ∈ ms, JsonP.WFj m ∧ ∀ i ∈ m.pipe, ∃ f, reg i = some f ∧ Xfer.Lawful f)
    (hfit : ∀ m ∈ ms, ∀ bs sz, JsonP.pack reg limit m = .ok (bs, sz) → bs.length < 4294967296)
    (stream : Bytes) (out : List Msg)
    (hp : Frame2.packAll JsonP.payload reg limit ms = some (stream, out)) :
    JsonP.unpackN reg limit ms.length (stream ++ tail) = some (out, tail) :=
  Frame2.unpackN_packAll JsonP.payload reg limit ms tail
    (fun m hm => ⟨JsonP.inverts_wf m (hw m hm).1, (hw m hm).1.2.2.2.2, (hw m hm).2⟩) hfit stream out hp

/-- The size reported for a message depends on that message alone: `pack` is a function of the
    message (and the registry/limit configuration) with no protocol-object state, and the size it
    records is the frame length minus the four length bytes (1 + pipe + filtered text). -/
theorem C05_json_size_depends_on_message_only (reg : Registry) (limit : Nat) (m : Msg) (bs : Bytes) (sz : Nat)
    (hp : JsonP.pack reg limit m = .ok (bs, sz)) (hlt : bs.length < 4294967296) : sz + 4 = bs.length :=
  Frame2.pack_size JsonP.payload reg limit m bs sz hp hlt

/-- The outer frame that jsonproto and pbproto share, for ANY payload encoder/decoder pair: if the
    decoder restores the message from what the encoder wrote, one frame round-trips, is
    self-delimiting, and reports a size that depends on the message alone. -/
theorem C05_frame2_roundtrip (P : Frame2.Payload) (reg : Registry) (limit : Nat) (m : Msg) (bs rest : Bytes) (sz : Nat)
    (hi : Frame2.Inverts P m) (hpl : m.pipe.length ≤ 255)
    (hl : ∀ i ∈ m.pipe, ∃ f, reg i = some f ∧ Xfer.Lawful f)
    (hp : Frame2.pack P reg limit m = .ok (bs, sz)) (hlt : bs.length < 4294967296) :
    Frame2.unpack P reg limit (bs ++ rest) = .ok { m with size := sz } rest ∧ sz + 4 = bs.length :=
  Frame2.unpack_pack P reg limit m bs rest sz hi hpl hl hp hlt

/-- pbproto: with the protobuf serializer a parameter `(ser, de)` whose decoder inverts its
    encoder, unpacking what was packed yields the same eight fields for every message of pbproto's
    supported field set `WFp`, leaves exactly the following bytes, and size + 4 = frame length. -/
theorem C05_pb_roundtrip (ser : PbP.Rec → Option Bytes) (de : Bytes → Option PbP.Rec)
    (hsd : ∀ r t, ser r = some t → de t = some r)
    (reg : Registry) (limit : Nat) (m : Msg) (bs rest : Bytes) (sz : Nat)
    (hw : PbP.WFp m) (hl : ∀ i ∈ m.pipe, ∃ f, reg i = some f ∧ Xfer.Lawful f)
    (hp : Frame2.pack (PbP.payload ser de) reg limit m = .ok (bs, sz)) (hlt : bs.length < 4294967296) :
    Frame2.unpack (PbP.payload ser de) reg limit (bs ++ rest) = .ok { m with size := sz } rest ∧ sz + 4 = bs.length :=
  Frame2.unpack_pack _ reg limit m bs rest sz (PbP.inverts_wf ser de hsd m hw) hw.2.2 hl hp hlt

/-- pbproto, any number of back-to-back frames. -/
theorem C05_pb_stream (ser : PbP.Rec → Option Bytes) (de : Bytes → Option PbP.Rec)
    (hsd : ∀ r t, ser r = some t → de t = some r)
    (reg : Registry) (limit : Nat) (ms : List Msg) (tail : Bytes)
    (hw : ∀ m ∈ ms, PbP.WFp m ∧ ∀ i ∈ m.pipe, ∃ f, reg i = some f ∧ Xfer.Lawful f)
    (hfit : ∀ m ∈ ms, ∀ bs sz, Frame2.pack (PbP.payload ser de) reg limit m = .ok (bs, sz) → bs.length < 4294967296)
    (stream : Bytes) (out : List Msg)
    (hp : Frame2.packAll (PbP.payload ser de) reg limit ms = some (stream, out)) :
    Frame2.unpackN (PbP.payload ser de) reg limit ms.length (stream ++ tail) = some (out, tail) :=
  Frame2.unpackN_packAll _ reg limit ms tail
    (fun m hm => ⟨PbP.inverts_wf ser de hsd m (hw m hm).1, (hw m hm).1.2.2, (hw m hm).2⟩) hfit stream out hp

/-! Non-vacuity: a concrete non-trivial message meets `WFj`, its pipe is lawful, and it packs. -/

def exMsgJ : Msg :=
  { seq := -2147483648, mtype := 3, method := [47, 97, 47, 98, 32, 126], status := ⟨404, [78, 111, 116, 32, 37, 0, 255], some []⟩,
    md := [([], [1]), ([37, 38], []), ([37, 38], [61, 43, 255, 34, 92])], codec := 106,
    body := [31, 139, 8, 0, 34, 92, 10, 255, 123, 34, 107, 34, 58, 34, 92, 110, 92, 92, 195, 169, 34, 125], pipe := [1, 2, 3, 1] }

example : JsonP.WFj exMsgJ := by decide

example : ∀ i ∈ exMsgJ.pipe, ∃ f, Drv.testReg i = some f ∧ Xfer.Lawful f := by
  intro i hi
  simp only [exMsgJ, List.mem_cons, List.mem_nil_iff, or_false] at hi
  rcases hi with h | h | h | h <;> subst h
  · exact ⟨Drv.fRev, rfl, lawful_testReg 1 _ rfl⟩
  · exact ⟨Drv.fXor, rfl, lawful_testReg 2 _ rfl⟩
  · exact ⟨Drv.fLen, rfl, lawful_testReg 3 _ rfl⟩
  · exact ⟨Drv.fRev, rfl, lawful_testReg 1 _ rfl⟩

example : (JsonP.pack Drv.testReg 65536 exMsgJ).toOption.isSome = true := by decide +kernel

example : JsonP.NumTok [45, 49, 50] := ⟨by decide, by decide⟩

example : PbP.WFp exMsg := by decide
-- END json framing

-- BEGIN http framing
/-! ## httproto (`proto/httproto/httproto.go`, modelled in Model/HttpProto)

`HttpP.pack` writes exactly what `Pack` writes (request / status line, the header block in the sorted
order of `http.Header.Write`, blank line, entity); `HttpP.unpack` is `Unpack` (line reader, first line,
header loop, limit check, body, transfer pipe, status entity). The environment `env` holds what is
registered (filters, their names) and the two library functions that are not modelled (the gzip
filter, `encoding/json` on a status entity): the theorems hold for every environment that meets the
stated conditions (`GzOK`: the filter is a gzip filter registered under a clean name, its unpack inverts
its pack). `WFh` is the decidable supported field set; its boundary was found by running the real code
(the `_witness` theorems show what happens just outside it). -/

/-- **Round trip.** Every message of the supported field set `WFh` is packed, and unpacking the frame
    (followed by any bytes `rest`, with any read limit that admits the frame) yields the same
    sequence number, type, service method, status, body codec, body and transfer-filter list and
    leaves exactly `rest` unread; the metadata comes back as a permutation of the message's pairs plus
    the protocol's own header lines (`Arrives`: metadata maps onto HTTP headers, which `Header.Write`
    sorts), and the size `Unpack` reports is the frame length minus the line ends. For a status that
    is not OK the hypothesis `hsj` says that the JSON decoder reads the entity `MarshalJSON` wrote
    (`C05_http_status_entity_ascii` proves it for ASCII texts, for every environment). -/
theorem C05_http_roundtrip (env : HttpP.Env) (lim plim : Nat) (m : Msg) (rest : Bytes) (hwf : HttpP.WFh m = true)
    (hgz : ∀ g ∈ m.pipe, HttpP.GzOK env g)
    (hsj : m.status.code = 0 ∨ HttpP.statusOfJSON env (HttpP.statusJSON m.status) = .ok m.status) :
    ∃ b, HttpP.pack env plim m = .ok b (HttpP.sizeSet plim b.length) ∧
      (b.length ≤ lim → b.length < 4294967296 →
        ∃ o, (HttpP.unpack env lim (b ++ rest)).out = .ok o rest ∧ (HttpP.unpack env lim (b ++ rest)).left = rest ∧
          HttpP.Arrives m o b.length) :=
  HttpP.unpack_pack env lim plim m rest hwf hgz hsj

/-- **The status entity of an error response.** `Status.UnmarshalJSON` reads back exactly the status
    `Status.MarshalJSON` wrote, for every status with an int32 code whose message and cause are ASCII
    (every byte below 0x80: control bytes travel as `\u00XY`, quotes and backslashes escaped) and whose
    cause, if present, is not empty — in EVERY environment (the strict decoder of the model answers;
    non-ASCII text is left to `encoding/json`, i.e. to the hypothesis `hsj` of `C05_http_roundtrip`). -/
theorem C05_http_status_entity_ascii (env : HttpP.Env) (s : Status) (h : HttpP.asciiStatus s = true) :
    HttpP.statusOfJSON env (HttpP.statusJSON s) = .ok s :=
  HttpP.statusOfJSON_ascii env s h

example : HttpP.asciiStatus ⟨404, [110, 34, 92, 10, 0, 127], some [120]⟩ = true := by decide

/-- the round trip without any assumption on the JSON decoder: ASCII status texts. -/
theorem C05_http_roundtrip_ascii (env : HttpP.Env) (lim plim : Nat) (m : Msg) (rest : Bytes) (hwf : HttpP.WFh m = true)
    (hgz : ∀ g ∈ m.pipe, HttpP.GzOK env g) (hst : HttpP.asciiStatus m.status = true) :
    ∃ b, HttpP.pack env plim m = .ok b (HttpP.sizeSet plim b.length) ∧
      (b.length ≤ lim → b.length < 4294967296 →
        ∃ o, (HttpP.unpack env lim (b ++ rest)).out = .ok o rest ∧ (HttpP.unpack env lim (b ++ rest)).left = rest ∧
          HttpP.Arrives m o b.length) :=
  HttpP.unpack_pack env lim plim m rest hwf hgz (Or.inr (HttpP.statusOfJSON_ascii env m.status hst))

/-- **Frame sync.** Any number of frames of supported messages, back to back and followed by anything,
    decode to the same sequence of messages and leave exactly what followed (the chunking of the
    stream is not visible to `Unpack`, which reads through `io.ReadFull`: C05_chunking_irrelevant). -/
theorem C05_http_stream (env : HttpP.Env) (lim plim : Nat) (ms : List Msg) (hall : HttpP.AllOK env ms) :
    ∃ frames, HttpP.packAll env plim ms = some frames ∧ frames.length = ms.length ∧
      ((∀ b ∈ frames, b.length ≤ lim ∧ b.length < 4294967296) → ∀ tail,
        ∃ outs, HttpP.unpackN env lim ms.length (frames.flatten ++ tail) = some (outs, tail) ∧
          HttpP.ArrivesAll ms frames outs) :=
  HttpP.unpackN_packAll env lim plim ms hall

/-- **Size.** For EVERY message `Pack` accepts (inside or outside `WFh`) the recorded size is the
    length of the frame it wrote — a function of the message alone — unless the limit refuses that
    size (`SetSize`'s error is dropped by the code: the size stays 0). `Unpack` reports the frame
    length minus two bytes per line (last conjunct of `Arrives`): the two sizes of one message differ
    by the line ends, each depends on the message alone. -/
theorem C05_http_size (env : HttpP.Env) (plim : Nat) (m : Msg) (b : Bytes) (sz : Nat)
    (h : HttpP.pack env plim m = .ok b sz) : sz = HttpP.sizeSet plim b.length :=
  HttpP.pack_size env plim m b sz h

/-! Non-vacuity of `C05_http_size`: an OK response is packed and the frame length recorded; under a
limit of 16 the same frame is written and the size stays 0. -/
example : (match HttpP.pack HttpP.envNone 4096 { seq := 2147483647, mtype := 5, method := [], status := Status.zero, md := [], codec := 120, body := [1], pipe := [] } with
    | .ok b sz => sz == b.length && decide (b.length > 60)
    | _ => false) = true := by
  decide +kernel
example : (match HttpP.pack HttpP.envNone 16 { seq := 2147483647, mtype := 5, method := [], status := Status.zero, md := [], codec := 120, body := [1], pipe := [] } with
    | .ok b sz => sz == 0 && decide (b.length > 60)
    | _ => false) = true := by
  decide +kernel

/-! Non-vacuity: a request with metadata and the gzip pipe, an OK response, an error response, the
empty service method; the toy environment meets `GzOK`. -/
def exReqH : Msg :=
  { seq := -7, mtype := 1, method := [47, 97, 47, 98], status := Status.zero,
    md := [([70, 111, 111], [98, 97, 114, 32, 120]), ([88, 45, 65, 98, 99], [])], codec := 112, body := [0, 255, 10, 13], pipe := [103] }
def exRespH : Msg :=
  { seq := 2147483647, mtype := 5, method := [], status := Status.zero, md := [], codec := 120, body := [1], pipe := [] }
def exBizH : Msg :=
  { seq := 9, mtype := 2, method := [], status := ⟨404, [110, 102], some [120]⟩, md := [], codec := 106, body := [], pipe := [] }
example : HttpP.WFh exReqH = true := by decide
example : HttpP.WFh exRespH = true := by decide
example : HttpP.WFh exBizH = true := by decide
example : HttpP.WFh { exReqH with method := [], pipe := [] } = true := by decide
example : ∀ g ∈ exReqH.pipe, HttpP.GzOK HttpP.envToy g := by
  intro g hg; simp only [exReqH, List.mem_singleton] at hg; subst hg; exact HttpP.envToy_gz
example : HttpP.AllOK HttpP.envToy [exReqH, exRespH] := by
  intro m hm
  simp only [List.mem_cons, List.not_mem_nil, or_false] at hm
  rcases hm with rfl | rfl
  · exact ⟨by decide, by intro g hg; simp only [exReqH, List.mem_singleton] at hg; subst hg; exact HttpP.envToy_gz, Or.inl rfl⟩
  · exact ⟨by decide, (by intro g hg; cases hg), Or.inl rfl⟩
example : HttpP.statusOfJSON HttpP.envToy (HttpP.statusJSON exBizH.status) = .ok exBizH.status := by decide

/-- **Outside the supported set: CR/LF in a metadata value** — `Header.Write` replaces them by spaces:
    the value `a CR LF b` arrives as `a`, two spaces, `b` (the frame stays in sync). -/
theorem C05_http_value_crlf_witness :
    HttpP.pairOK ([70, 111, 111], [97, 13, 10, 98]) = false ∧
    (HttpP.outMsg (HttpP.unpack HttpP.envNone 4096
      (match HttpP.pack HttpP.envNone 4096 { exRespH with md := [([70, 111, 111], [97, 13, 10, 98])] } with
       | .ok b _ => b | _ => [])).out).map (·.md) = some [([70, 111, 111], [97, 32, 32, 98])] := by
  decide +kernel

/-- **Outside the supported set: a metadata key that is one of the protocol's own header names** —
    `X-Seq: 7` added after the real one overrides the sequence number 5 of the message. -/
theorem C05_http_reserved_key_witness :
    HttpP.pairOK ([88, 45, 83, 101, 113], [55]) = false ∧
    (HttpP.outMsg (HttpP.unpack HttpP.envNone 4096
      (match HttpP.pack HttpP.envNone 4096 { exRespH with seq := 5, md := [([88, 45, 83, 101, 113], [55])] } with
       | .ok b _ => b | _ => [])).out).map (·.seq) = some 7 := by
  decide +kernel

/-- **Outside the supported set: a service method with a space** — the request line is split at
    spaces: `/a b` arrives as `/a`. And a body codec without a Content-Type (`0`) arrives as `s`. -/
theorem C05_http_method_space_witness :
    HttpP.methodOK [47, 97, 32, 98] = false ∧
    (HttpP.outMsg (HttpP.unpack HttpP.envNone 4096
      (match HttpP.pack HttpP.envNone 4096 { exReqH with method := [47, 97, 32, 98], md := [], pipe := [], codec := 0 } with
       | .ok b _ => b | _ => [])).out).map (fun o => (o.method, o.codec)) = some ([47, 97], 115) := by
  decide +kernel

/-- **Outside the supported set: two filters** — `Pack` applies both and names one in
    `X-Content-Encoding`: the body arrives still filtered once, with a pipe of one. -/
theorem C05_http_two_filters_witness :
    (HttpP.outMsg (HttpP.unpack HttpP.envToy 4096
      (match HttpP.pack HttpP.envToy 4096 { exRespH with body := [1], pipe := [103, 103] } with
       | .ok b _ => b | _ => [])).out).map (fun o => (o.body, o.pipe)) = some ([31, 1], [103]) := by
  decide +kernel

/-- **Outside the supported set, a crash on the sending side**: an error response whose metadata
    holds `X-Content-Encoding` with a name that is not registered makes `packResponse` call `OnPack`
    on the nil filter `GetByName` returned: `Pack` panics instead of returning an error. -/
theorem C05_http_pack_panic_witness :
    HttpP.pack HttpP.envNone 4096
      { exBizH with md := [([88, 45, 67, 111, 110, 116, 101, 110, 116, 45, 69, 110, 99, 111, 100, 105, 110, 103], [110, 111])] } = .panic := by
  decide +kernel
-- END http framing


/-! ### tie A — limits and codec ids used by the frame models (fact group `Consts`) -/

/-- id of the registered codec called `name` (codec/*.go, regenerated). -/
def genCodecId (name : String) : Option UInt8 :=
  (Gen.consts_codecs.find? (·.2.2 == name)).map (·.2.1.toUInt8)

/-- **C05 tie A, size limit**: the default read limit of socket/message.go is 1 GiB, fits the 4-byte
    length field (`Raw.pack` writes `total % 2^32`), `SetMessageSizeLimit(0)` restores it and any other
    argument is taken as is (the function EXECUTED on 0, 1, 4096); running `Raw.unpack` under the default
    limit, a frame that announces limit+1 bytes is refused with the size error before anything is read and
    one that announces exactly the limit is not refused for its size. The method-length limit 255 of
    `Raw.pack` is tied by `C05_raw_field_widths` (`Gen.frames_raw_method_check`). -/
theorem C05_consts_limits :
    Gen.consts_missing = [] ∧
    Gen.consts_size_limit_default = 1073741824 ∧ Gen.consts_size_limit_default < 4294967296 ∧
    Gen.consts_size_limit_rule = [(0, Gen.consts_size_limit_default), (1, 1), (4096, 4096)] ∧
    (match (Raw.unpack Drv.testReg Gen.consts_size_limit_default (be32 (Gen.consts_size_limit_default + 1))).out with
      | .size => true | _ => false) = true ∧
    (match (Raw.unpack Drv.testReg Gen.consts_size_limit_default (be32 Gen.consts_size_limit_default)).out with
      | .size => false | _ => true) = true := by
  decide +kernel

/-- **C05 tie A, codec ids of the http mapping**: `HttpP.contentType` / `HttpP.bodyCodec` use the ids that
    codec/*.go declares now for protobuf, json, form, plain and xml (running both on every one of them:
    content type of the id, and back), and the nil codec id is what an unknown content type maps to. -/
theorem C05_consts_http_codec_ids :
    Gen.consts_missing = [] ∧
    [genCodecId "protobuf", genCodecId "json", genCodecId "form", genCodecId "plain", genCodecId "xml"].map
      (fun o => o.map fun i => (HttpP.contentType i [], HttpP.bodyCodec (HttpP.contentType i []) == i)) =
      [some (HttpP.ctPb ++ HttpP.charset, true), some (HttpP.ctJson ++ HttpP.charset, true),
       some (HttpP.ctForm ++ HttpP.charset, true), some (HttpP.ctPlain ++ HttpP.charset, true),
       some (HttpP.ctXml ++ HttpP.charset, true)] ∧
    HttpP.bodyCodec [120] = Gen.consts_nil_codec_id.toUInt8 ∧
    (genCodecId "thrift").map (fun i => HttpP.contentType i [1]) = some [1] := by
  decide +kernel


-- BEGIN websocket sub-protocols
/-! ## The websocket sub-protocols (`mixer/websocket/jsonSubProto`, `mixer/websocket/pbSubProto`,
modelled in Model/WsSubProto)

One websocket message = one document: no outer length frame, `Unpack` takes everything `ReadAll`
returns. `WsP.packJson` / `WsP.packPb` write exactly what `Pack` writes (transfer pipe over the BODY
only, filter ids inside the document); `WsP.unpackJson` / `WsP.unpackPb` are `Unpack` as coded:
`SetSize` with its error dropped, the ids appended one by one with `Append`'s error dropped (unknown
ids and every id beyond the 255th vanish), `OnUnpack`'s error returned with only size, pipe and body
codec set. The supported field set of jsonSubProto is jsonproto's `WFj` (found the same way: by
running the real code); pbSubProto's is `WFwp`, and its record has no status field. -/

/-- **jsonSubProto round trip.** For every message of the supported field set `WFj` and every pipe of
    registered lawful filters, unpacking the document `Pack` wrote yields the same sequence number,
    type, service method, STATUS (since fix d2190d3), metadata, body codec, body and filter list,
    with the size `Pack` recorded. Any registry, any limit that admitted the document. -/
theorem C05_wsjson_roundtrip (reg : Registry) (limit : Nat) (m : Msg) (bs : Bytes) (sz : Nat)
    (hw : JsonP.WFj m) (hl : ∀ i ∈ m.pipe, ∃ f, reg i = some f ∧ Xfer.Lawful f)
    (hp : WsP.packJson reg limit m = .ok (bs, sz)) (hlt : bs.length < 4294967296) :
    WsP.unpackJson reg limit bs = .ok { m with size := sz } :=
  (WsP.unpackJson_packJson reg limit m bs sz hw hl hp hlt).1

/-- **jsonSubProto size.** For EVERY message `Pack` accepts (inside or outside `WFj`) the recorded
    size is the length of the document it wrote (as a uint32) and is within the limit; and for EVERY
    document — written by `Pack` or not — a message `Unpack` delivers carries the document length,
    or 0 when that length is above the read limit (`SetSize`'s error is dropped: the document is
    decoded all the same). Both are functions of the one message alone. -/
theorem C05_wsjson_size (reg : Registry) (limit : Nat) :
    (∀ m bs sz, WsP.packJson reg limit m = .ok (bs, sz) → sz = WsP.u32 bs.length ∧ sz ≤ limit) ∧
    (∀ b m, WsP.unpackJson reg limit b = .ok m → m.size = WsP.sizeSet limit b.length) :=
  ⟨fun m bs sz h => WsP.packJson_size reg limit m bs sz h, fun b m h => WsP.unpackJson_size reg limit b m h⟩

/-- **jsonSubProto, any document:** the filter list of a delivered message holds registered ids
    only and at most 255 of them — ids the receiver does not know and ids beyond the 255th are
    dropped silently (`Append`'s error is ignored), they never reach `OnUnpack`. -/
theorem C05_wsjson_pipe_registered (reg : Registry) (limit : Nat) (b : Bytes) (m : Msg)
    (h : WsP.unpackJson reg limit b = .ok m) : m.pipe.length ≤ 255 ∧ ∀ i ∈ m.pipe, (reg i).isSome = true :=
  WsP.unpackJson_pipe reg limit b m h

/-- **pbSubProto round trip**, the protobuf serializer a parameter `(ser, de)` whose decoder inverts
    its encoder: for every message of `WFwp` and every pipe of registered lawful filters, unpacking
    the document `Pack` wrote yields the same sequence number, type, service method, metadata, body
    codec, body and filter list and the recorded size = the document length — and the ZERO status,
    whatever status was packed (the record has no field for it). For a message without a status
    this is the full round trip (`C05_wspb_roundtrip_nostatus`). -/
theorem C05_wspb_roundtrip (ser : WsP.PRec → Option Bytes) (de : Bytes → Except String WsP.PRec)
    (hsd : ∀ r t, ser r = some t → de t = .ok r)
    (reg : Registry) (limit : Nat) (m : Msg) (bs : Bytes) (sz : Nat)
    (hw : WsP.WFwp m) (hl : ∀ i ∈ m.pipe, ∃ f, reg i = some f ∧ Xfer.Lawful f)
    (hp : WsP.packPb ser reg limit m = .ok (bs, sz)) (hlt : bs.length < 4294967296) :
    WsP.unpackPb de reg limit bs = .ok { m with status := Status.zero, size := sz } ∧ sz = bs.length :=
  WsP.unpackPb_packPb ser de hsd reg limit m bs sz hw hl hp hlt

/-- pbSubProto inside its supported field set (no status): every field comes back. -/
theorem C05_wspb_roundtrip_nostatus (ser : WsP.PRec → Option Bytes) (de : Bytes → Except String WsP.PRec)
    (hsd : ∀ r t, ser r = some t → de t = .ok r)
    (reg : Registry) (limit : Nat) (m : Msg) (bs : Bytes) (sz : Nat)
    (hw : WsP.WFwp m) (hst : m.status = Status.zero) (hl : ∀ i ∈ m.pipe, ∃ f, reg i = some f ∧ Xfer.Lawful f)
    (hp : WsP.packPb ser reg limit m = .ok (bs, sz)) (hlt : bs.length < 4294967296) :
    WsP.unpackPb de reg limit bs = .ok { m with size := sz } := by
  have h := (WsP.unpackPb_packPb ser de hsd reg limit m bs sz hw hl hp hlt).1
  rw [h]
  cases m
  simp only at hst
  subst hst
  rfl

/-- the message of the examples below: a REPLY with status (404, "Not Found"), metadata, a body
    with control bytes, quotes and backslashes, and three filters. -/
def exMsgW : Msg :=
  { seq := -2147483648, mtype := 2, method := [47, 97, 47, 98], status := ⟨404, [78, 111, 116, 32, 70, 111, 117, 110, 100], none⟩,
    md := [([107], [118, 37, 38]), ([107], [])], codec := 106, body := [0, 34, 92, 10, 255, 123, 125], pipe := [3, 2, 1] }

/-- the record pbSubProto.Pack builds for `exMsgW` (body filtered by the three test filters). -/
def exRecW : WsP.PRec := WsP.toPRec exMsgW ((Xfer.onPack Drv.testReg exMsgW.pipe exMsgW.body).getD [])

/-- **What pbSubProto loses (known finding c04:ws-subproto-drops-status:pb).** A concrete REPLY
    with status (404, "Not Found"), packed with a serializer whose decoder inverts its encoder, is
    delivered — every other field intact — with the zero status, i.e. as OK. -/
theorem C05_wspb_status_lost_witness :
    (∀ r t, WsP.toySer exRecW r = some t → WsP.toyDe exRecW t = .ok r) ∧
    (match WsP.packPb (WsP.toySer exRecW) Drv.testReg 65536 exMsgW with
     | .ok (bs, sz) =>
       (WsP.unpackPb (WsP.toyDe exRecW) Drv.testReg 65536 bs).msg? == some { exMsgW with status := Status.zero, size := sz }
     | _ => false) = true ∧
    exMsgW.status.ok = false ∧ Status.zero.ok = true := by
  refine ⟨WsP.toy_inverts _, by decide +kernel, by decide, by decide⟩

/-! Non-vacuity: the example message meets `WFj` and `WFwp`, its pipe is lawful, jsonSubProto packs
it (the document starts with `{"seq":-2147483648,` and ends with `"xferPipe":[3,2,1]}`) and the
real round trip is computed by the kernel. -/
example : JsonP.WFj exMsgW := by decide
example : WsP.WFwp exMsgW := by decide
example : ∀ i ∈ exMsgW.pipe, ∃ f, Drv.testReg i = some f ∧ Xfer.Lawful f := by
  intro i hi
  simp only [exMsgW, List.mem_cons, List.mem_nil_iff, or_false] at hi
  rcases hi with h | h | h <;> subst h
  · exact ⟨Drv.fLen, rfl, lawful_testReg 3 _ rfl⟩
  · exact ⟨Drv.fXor, rfl, lawful_testReg 2 _ rfl⟩
  · exact ⟨Drv.fRev, rfl, lawful_testReg 1 _ rfl⟩
example : (match WsP.packJson Drv.testReg 65536 exMsgW with
    | .ok (bs, sz) => sz == bs.length && bs.take 19 == [123, 34, 115, 101, 113, 34, 58, 45, 50, 49, 52, 55, 52, 56, 51, 54, 52, 56, 44]
        && bs.drop (bs.length - 19) == [34, 120, 102, 101, 114, 80, 105, 112, 101, 34, 58, 91, 51, 44, 50, 44, 49, 93, 125]
    | _ => false) = true := by decide +kernel

/-- **Outside what `Pack` writes: ids the receiver does not know are dropped.** The document
    `{"body":"ab","xferPipe":[1,9,"1",true,300]}` is delivered with the pipe `[1,1,1]` (9 and
    300 mod 256 = 44 are not registered; the string `"1"` and `true` count as 1) and the body `ba`. -/
theorem C05_wsjson_unknown_ids_witness :
    (WsP.unpackJson Drv.testReg 65536
      [123, 34, 98, 111, 100, 121, 34, 58, 34, 97, 98, 34, 44, 34, 120, 102, 101, 114, 80, 105, 112, 101, 34, 58,
       91, 49, 44, 57, 44, 34, 49, 34, 44, 116, 114, 117, 101, 44, 51, 48, 48, 93, 125]).msg?.map (fun m => (m.pipe, m.body))
      = some ([1, 1, 1], [98, 97]) := by
  decide +kernel
-- END websocket sub-protocols

-- BEGIN thrift framing
/-! ## thriftproto (`proto/thriftproto/{binary_proto,struct_proto}.go`, modelled in Model/ThriftProto)

Apache thrift's `THeaderProtocol` is a parameter `T` with the law `ThriftP.Lawful T fits` (what one flush
emitted, followed by anything, is read back as the same message begin, payload and header-map lookups,
leaving exactly the rest; `fits` = the frames inside the library's own limits).  Everything thriftproto
itself does — which field goes where, the one-byte string of the codec id, the header keys,
the counters and when `SetSize` is checked, the struct variant's requirements and what a failing `Pack`
leaves on the connection — is concrete. -/

/-- thrift-binary, one frame: for every lawful library, registry, limits, prior protocol-object state
    and every message of the supported field set `WFt` (message type CALL/REPLY/PUSH, int32 status code,
    metadata an ordered multimap without an (empty, empty) pair, ≤ 255 lawful filters; ANY method,
    status text, metadata bytes — also keys equal to the protocol's own header names — body and
    body codec id 0..255), `Unpack` of what `Pack` wrote, followed by any bytes, yields the same eight fields and
    leaves exactly those bytes.  The size recorded on the read side is `pulled` (see below). -/
theorem C05_thrift_roundtrip (T : ThriftP.THeader) (fits : ThriftP.TFrame → Prop) (hT : ThriftP.Lawful T fits)
    (reg : Registry) (limit limit' : Nat) (st : ThriftP.PState) (m : Msg) (rest : Bytes) (sz pulled : Nat)
    (hw : ThriftP.WFt m) (hl : ∀ i ∈ m.pipe, ∃ f, reg i = some f ∧ Xfer.Lawful f)
    (hfit : ∀ b, Xfer.onPack reg m.pipe m.body = some b → fits (ThriftP.binFrame m b))
    (hp : (ThriftP.packBinary T reg limit st m).res = .ok sz) (hlim : pulled % 4294967296 ≤ limit') :
    ThriftP.unpackBinary T reg limit' pulled ((ThriftP.packBinary T reg limit st m).written ++ rest)
      = .ok { m with size := pulled % 4294967296 } rest :=
  ThriftP.unpack_pack_binary T fits hT reg limit limit' st m rest sz pulled hw hl hfit hp hlim

/-- thrift-struct, one frame: supported field set `WFs` (no filters, codec 0 or 't', body a `TStruct`);
    the codec comes back as 't'. -/
theorem C05_thrift_struct_roundtrip (T : ThriftP.THeader) (fits : ThriftP.TFrame → Prop) (hT : ThriftP.Lawful T fits)
    (limit limit' : Nat) (st : ThriftP.PState) (m : Msg) (rest : Bytes) (sz pulled : Nat)
    (hw : ThriftP.WFs m) (hfit : fits (ThriftP.structFrame m))
    (hp : (ThriftP.packStruct T limit st true m).res = .ok sz) (hlim : pulled % 4294967296 ≤ limit') :
    ThriftP.unpackStruct T limit' pulled true ((ThriftP.packStruct T limit st true m).written ++ rest)
      = .ok { m with codec := 116, size := pulled % 4294967296 } rest := by
  have h := ThriftP.unpack_pack_struct T fits hT limit limit' st m rest sz pulled hw hfit hp hlim
  rw [h.1]; exact h.2

/-- thrift-binary, frame sync: any number of messages packed back to back by ONE protocol object (its
    state threaded through) and read by another, one `Unpack` each: the same messages in the same
    order, and exactly the trailing bytes remain. -/
theorem C05_thrift_stream (T : ThriftP.THeader) (fits : ThriftP.TFrame → Prop) (hT : ThriftP.Lawful T fits)
    (reg : Registry) (limit limit' : Nat) (ms : List Msg) (tail : Bytes)
    (hw : ∀ m ∈ ms, ThriftP.WFt m ∧ (∀ i ∈ m.pipe, ∃ f, reg i = some f ∧ Xfer.Lawful f) ∧
      ∀ b, Xfer.onPack reg m.pipe m.body = some b → fits (ThriftP.binFrame m b))
    (st : ThriftP.PState) (stream : Bytes) (out : List Msg)
    (hp : ThriftP.packAllBinary T reg limit st ms = some (stream, out))
    (ps : List Nat) (hlen : ps.length = ms.length) (hps : ∀ p ∈ ps, p % 4294967296 ≤ limit') :
    ThriftP.unpackNBinary T reg limit' ps (stream ++ tail)
      = some ((ms.zip ps).map (fun mp => { mp.1 with size := mp.2 % 4294967296 }), tail) :=
  ThriftP.unpackN_packAll_binary T fits hT reg limit limit' ms tail hw st stream out hp ps hlen hps

/-- WRITE side: the size `Pack` records depends on the message alone — for any two prior states of the
    protocol object (counters, previous write headers) the bytes written and the result are the same,
    and a recorded size is the number of bytes this `Pack` put on the connection (as a `uint32`). -/
theorem C05_thrift_size_depends_on_message_only (T : ThriftP.THeader) (reg : Registry) (limit : Nat)
    (st st' : ThriftP.PState) (m : Msg) :
    (ThriftP.packBinary T reg limit st m).written = (ThriftP.packBinary T reg limit st' m).written ∧
    (ThriftP.packBinary T reg limit st m).res = (ThriftP.packBinary T reg limit st' m).res ∧
    ∀ sz, (ThriftP.packBinary T reg limit st m).res = .ok sz →
      sz = (ThriftP.packBinary T reg limit st m).written.length % 4294967296 ∧ sz ≤ limit := by
  refine ⟨(ThriftP.packBinary_state_irrelevant T reg limit st st' m).1,
    (ThriftP.packBinary_state_irrelevant T reg limit st st' m).2, ?_⟩
  intro sz hp
  obtain ⟨b, _, hwr, hsz, hle⟩ := ThriftP.packBinary_ok T reg limit st m sz hp
  rw [hwr]; exact ⟨hsz, hle⟩

/-- the same for the struct variant, whether or not the body implements `thrift.TStruct` (since fix
    THRIFT2 a failing `Pack` no longer flushes the previous message's write headers). -/
theorem C05_thrift_struct_size_depends_on_message_only (T : ThriftP.THeader) (limit : Nat)
    (st st' : ThriftP.PState) (isStruct : Bool) (m : Msg) :
    (ThriftP.packStruct T limit st isStruct m).written = (ThriftP.packStruct T limit st' isStruct m).written ∧
    (ThriftP.packStruct T limit st isStruct m).res = (ThriftP.packStruct T limit st' isStruct m).res :=
  ThriftP.packStruct_state_irrelevant T limit st st' isStruct m

/-- READ side (fix a5c585e): the size `Unpack` records is the read counter after `ReadCounter.Zero()`,
    i.e. the number of bytes the library pulled from the connection during THIS call — whatever was
    read on the connection before (`st.rcount`) plays no role. -/
theorem C05_thrift_unpack_size_is_pulled (T : ThriftP.THeader) (reg : Registry) (limit : Nat)
    (st st' : ThriftP.PState) (pulled : Nat) (inp : Bytes) :
    (ThriftP.unpackBinarySt T reg limit st pulled inp).1 = (ThriftP.unpackBinarySt T reg limit st' pulled inp).1 ∧
    ∀ m rest, (ThriftP.unpackBinarySt T reg limit st pulled inp).1 = .ok m rest → m.size = pulled % 4294967296 := by
  refine ⟨rfl, ?_⟩
  intro m rest h
  simp only [ThriftP.unpackBinarySt, ThriftP.unpackBinary, Nat.zero_add] at h
  split at h
  · simp only [ThriftP.decErr] at h; split at h <;> simp at h
  · split at h
    · simp at h
    · split at h
      · simp only [ThriftP.finish] at h
        split at h
        · simp at h
        · split at h
          · simp at h
          · simp only [Raw.Out.ok.injEq] at h; rw [← h.1]
      · simp at h

/-- the pre-a5c585e `Unpack` (write counter zeroed, read counter never): the size recorded was
    everything read on the connection so far. -/
theorem C05_thrift_unpack_old_witness (T : ThriftP.THeader) (reg : Registry) (limit : Nat)
    (st : ThriftP.PState) (pulled : Nat) (inp : Bytes) :
    (ThriftP.unpackBinaryOld T reg limit st pulled inp).1 = ThriftP.unpackBinary T reg limit (st.rcount + pulled) inp ∧
    (ThriftP.unpackBinaryOld T reg limit st pulled inp).2.rcount = st.rcount + pulled ∧
    (ThriftP.unpackBinaryOld T reg limit st pulled inp).2.wcount = 0 := ⟨rfl, rfl, rfl⟩

/-- full statement that does NOT hold for the read side: "the size recorded for a received message is
    the length of its frame".  The library reads the connection through a 4096-byte `bufio.Reader`;
    bytes of FOLLOWING frames that arrive with the current one are counted now and not later.  What
    does hold, for every possible run (`raRun`): the recorded sizes add up to the frame lengths plus
    the change of the read-ahead, and a reader that never runs ahead records exactly the frame length. -/
theorem C05_thrift_unpack_size_partial (a : Nat) (l : List (Nat × Nat)) (a' : Nat) (h : ThriftP.raRun a l = some a') :
    a + (l.map (·.2)).sum = (l.map (·.1)).sum + a' ∧
    (∀ len p, ThriftP.raStep 0 len p = some 0 → p = len) :=
  ⟨ThriftP.raRun_sum a l a' h, ThriftP.raStep_aligned⟩

/-- witness (observed on the real code: three 139-byte frames delivered in one chunk are recorded as
    417, 0, 0; delivered 7 bytes at a time as 140, 140, 137): both are possible runs, none records 139. -/
theorem C05_thrift_unpack_size_readahead_witness :
    ThriftP.raRun 0 [(139, 417), (139, 0), (139, 0)] = some 0 ∧
    ThriftP.raRun 0 [(139, 140), (139, 140), (139, 137)] = some 0 ∧
    ThriftP.raRun 0 [(139, 139), (139, 139), (139, 139)] = some 0 := by decide

/-- the body codec id (fix THRIFT3): `Pack` writes it as the one-byte string
    `string([]byte{m.BodyCodec()})`, `Unpack` takes byte 0 of the header value — EVERY id 0..255 comes
    back unchanged (`WFt` no longer restricts the codec, so `C05_thrift_roundtrip` and
    `C05_thrift_stream` cover all of them). -/
theorem C05_thrift_codec_roundtrip (c : UInt8) :
    ThriftP.codecOf (ThriftP.codecStr c) = c ∧
    ∀ m : Msg, m.codec = c → ThriftP.codecOf (ThriftP.getHdr (ThriftP.binHdr m) ThriftP.kCodec) = c := by
  refine ⟨ThriftP.codecOf_codecStr c, ?_⟩
  intro m h
  rw [ThriftP.binHdr_codec, ThriftP.codecOf_codecStr, h]

/-- before fix THRIFT3 the value was `string(m.BodyCodec())` (`ThriftP.codecStrOld`), a UTF-8 encoding:
    a codec id ≥ 128 came back as the lead byte 0xC2 / 0xC3 (id 200 as 195); ids < 128 unchanged. -/
theorem C05_thrift_codec_high_old_witness :
    ThriftP.codecOf (ThriftP.codecStrOld 200) = 195 ∧
    (∀ c : UInt8, ¬ c < 128 → ThriftP.codecOf (ThriftP.codecStrOld c) = (192 : UInt8) ||| (c >>> 6)) ∧
    (∀ c : UInt8, c < 128 → ThriftP.codecOf (ThriftP.codecStrOld c) = c) :=
  ⟨by decide, ThriftP.codecOf_codecStrOld_high, ThriftP.codecOf_codecStrOld⟩

/-- a message type other than CALL / REPLY / PUSH is written as thrift type 0 and read back as PUSH. -/
theorem C05_thrift_mtype_other_witness (t : UInt8) (h : ¬ (t = 1 ∨ t = 2 ∨ t = 3)) :
    ThriftP.mtypeOf (ThriftP.typeOf t) = 3 := by
  have h1 : ¬ t = 1 := fun e => h (Or.inl e)
  have h2 : ¬ t = 2 := fun e => h (Or.inr (Or.inl e))
  have h3 : ¬ t = 3 := fun e => h (Or.inr (Or.inr e))
  simp [ThriftP.typeOf, ThriftP.mtypeOf, h1, h2, h3]

/-- thrift-binary: a `Pack` that fails for any reason but the size limit has written nothing (the size
    limit is checked after the flush: tie A `C05_pack_size_checked`). -/
theorem C05_thrift_binary_failed_pack_silent (T : ThriftP.THeader) (reg : Registry) (limit : Nat)
    (st : ThriftP.PState) (m : Msg) (e : ThriftP.PackErr)
    (hp : (ThriftP.packBinary T reg limit st m).res = .error e) (hne : e ≠ .size) :
    (ThriftP.packBinary T reg limit st m).written = [] :=
  ThriftP.packBinary_err_silent T reg limit st m e hp hne

/-- thrift-struct (full statement, fix THRIFT2): a `Pack` that returns an error other than the size
    limit — transfer pipe not empty, body codec neither 0 nor 't', body not a `thrift.TStruct` — leaves
    the connection untouched and the protocol object's state (counters, write headers) as it was:
    every requirement is decided before `writeMessageBegin` buffers anything, so the
    `Transport().Close()` of `Pack`'s error path has nothing to flush.  For every library, limit,
    prior state, body kind and message. -/
theorem C05_thrift_struct_failed_pack_silent (T : ThriftP.THeader) (limit : Nat) (st : ThriftP.PState)
    (isStruct : Bool) (m : Msg) (e : ThriftP.PackErr)
    (hp : (ThriftP.packStruct T limit st isStruct m).res = .error e) (hne : e ≠ .size) :
    (ThriftP.packStruct T limit st isStruct m).written = [] ∧
    (ThriftP.packStruct T limit st isStruct m).st = st :=
  ThriftP.packStruct_err_silent T limit st isStruct m e hp hne

/-- the `structPack` before fix THRIFT2 (`ThriftP.packStructOld`: the `TStruct` test after
    `writeMessageBegin`): a body that does not implement `thrift.TStruct` (empty pipe, codec 0 or 't')
    made `Pack` return the error AND emit a frame without payload carrying the PREVIOUS message's
    headers — the receiver then read into the next frame. -/
theorem C05_thrift_struct_failed_pack_old_witness (T : ThriftP.THeader) (limit : Nat) (st : ThriftP.PState) (m : Msg)
    (hp : m.pipe = []) (hc : m.codec = 0 ∨ m.codec = 116) :
    (ThriftP.packStructOld T limit st false m).res = .error .notStruct ∧
    (ThriftP.packStructOld T limit st false m).written
      = T.enc { name := m.method, typeID := ThriftP.typeOf m.mtype, seq := m.seq, payload := .none, hdr := st.whdr } := by
  have hp0 : ¬ (m.pipe.length > 0) := by rw [hp]; simp
  have hc0 : ¬ (m.codec ≠ 0 ∧ m.codec ≠ 116) := by rcases hc with h | h <;> simp [h]
  unfold ThriftP.packStructOld
  simp [hp0, hc0]

/-- the header keys: `Pack` sets exactly the four (two) keys on a cleared map, whatever was there. -/
theorem C05_thrift_header_keys (m : Msg) :
    (ThriftP.binHdr m).map (·.1) = [ThriftP.kStatus, ThriftP.kMeta, ThriftP.kCodec, ThriftP.kPipe] ∧
    (ThriftP.structHdr m).map (·.1) = [ThriftP.kStatus, ThriftP.kMeta] :=
  ⟨ThriftP.binHdr_keys m, ThriftP.structHdr_keys m⟩

/-- the law assumed of the thrift library is satisfiable: the driver's executable codec `toyT` meets it
    for every frame with an int32 sequence number (so the theorems above are not vacuous in `hT`). -/
theorem C05_thrift_law_satisfiable : ThriftP.Lawful Drv.D05t.toyT (fun f => Num.inInt32 f.seq) :=
  Drv.D05t.toyT_lawful

/-! Non-vacuity: a concrete non-trivial message (a metadata key equal to the protocol's own header name
    `Tp-Status`, a repeated key, bytes 0 / 255 / `%` / `&` / `=` everywhere, codec id 200, a three-filter pipe) is in
    `WFt`, packs, and the model's executable library instance round-trips it. -/

def exMsgT : Msg :=
  { seq := -2147483648, mtype := 3, method := [47, 97, 0, 255, 37], status := ⟨404, [78, 37, 0, 255, 38, 61], some []⟩,
    md := [(ThriftP.kStatus, [99, 111, 100, 101, 61, 55]), ([107], [1]), ([107], []), ([], [61, 38, 255])], codec := 200,
    body := [31, 139, 8, 0, 255, 37, 38], pipe := [1, 2, 3] }

example : ThriftP.WFt exMsgT := by decide
example : ThriftP.WFs { exMsgT with codec := 0, pipe := [] } := by decide

/-- the hypotheses of `C05_thrift_struct_failed_pack_silent` are met: a body that is no `TStruct` (empty
    pipe, codec 0) fails with `notStruct`, one with a filter with `pipe`. -/
example : (match (ThriftP.packStruct Drv.D05t.toyT 65536 {} false { exMsgT with codec := 0, pipe := [] }).res,
      (ThriftP.packStruct Drv.D05t.toyT 65536 {} true exMsgT).res with
    | .error .notStruct, .error .pipe => true | _, _ => false) = true := by decide +kernel

example : (match (ThriftP.packBinary Drv.D05t.lenT Drv.testReg 65536 {} exMsgT).res with
    | .ok sz => sz == 172 | _ => false) = true := by decide +kernel

example : (match ThriftP.unpackBinary Drv.D05t.toyT Drv.testReg 65536 4096
      ((ThriftP.packBinary Drv.D05t.toyT Drv.testReg 65536 {} { exMsgT with seq := -7 }).written ++ [1, 2, 3]) with
    | .ok m rest => decide (m = { exMsgT with seq := -7, size := 4096 }) && rest == [1, 2, 3]
    | _ => false) = true := by decide +kernel
-- END thrift framing

end C05
end Teleport
