package main

// C19 — proxy plugin (plugin/proxy) is transparent: proxied outcome == direct outcome.
//
// Real peers in one process, all over in-memory connections:
//
//	client peer ──(link c19cK)──► proxy peer (proxy.NewPlugin) ──forwarder session (client peer with
//	      │                        default codec d, link c19f…)──► backend peer A (or B)
//	      └──(direct link, same caller address c19cK-a:1)────────► backend peer A (or B)
//
// The backends serve every method with an unknown-call / unknown-push handler driven by the
// script of the current case (body transform, reply metadata incl. repeated keys, reply codec,
// status), plus one typed handler (/c19_typed) that decodes its argument with the request codec.
// Every backend invocation is recorded (method, body, codec, metadata in order, RealIP(), IP()).
//
// Case kinds (model side: Drv/C19.lean):
//
//	pxcall  one request sent directly and through the proxy; observation = both caller-side
//	        outcomes, both backend views, the forward count and the forwarder label.
//	pxpush  same for a push (no reply): backend views and count.
//	pxtyped the typed backend handler, direct vs proxied (status code and body only).
//	pxown   a method the proxy serves itself is not forwarded.
//	pxfail  a history of operations with backend failures before / during / after forwarding
//	        (k kill A, r reconnect A, c/p proxied call/push to A, d proxied call whose backend
//	        connection is cut while the handler runs, b proxied call to the healthy backend B,
//	        x a call on an unrelated, already closed session).
//
// pxfail cases run in a CHILD PROCESS each (this binary re-executed with C19_WORKER=1): with the
// backend down the status object the forwarder returns is the process-wide connection-closed
// sentinel of the framework. A plugin that rewrites the returned status in place (as it did before
// fix C19a) changes what every later case observes — the oracle that detects exactly that must not
// be fed by an earlier case. One fresh process per case: nothing is shared, nothing has to be
// restored.
//
// The status the plugin's PUSH handler returns goes nowhere but the framework's log. To observe it
// the plugin is installed through c19Tap: its PostNewPeer runs against an EarlyPeer whose
// SetUnknownPush wraps the plugin's own handler function with a recorder (the handler itself is the
// real proxy code, unchanged).

import (
	"bufio"
	"bytes"
	"fmt"
	"os"
	"os/exec"
	"strconv"
	"strings"
	"sync"
	"time"

	erpc "github.com/henrylee2cn/erpc/v6"
	"github.com/henrylee2cn/erpc/v6/codec"
	"github.com/henrylee2cn/erpc/v6/plugin/proxy"

	"verif/harness/internal/hx"
)

func init() {
	if os.Getenv("C19_WORKER") == "1" {
		c19Worker()
		os.Exit(0)
	}
	props["c19"] = &Prop{Setup: c19Setup, Gen: c19Gen, Run: c19Run}
}

// ---- script, recorder ---------------------------------------------------------------------------

type c19Script struct {
	code  int32
	msg   string
	cause *string // nil = no cause
	rm    [][2][]byte
	rc    byte // reply codec set by the handler (0 = not set)
	xf    int  // body transform
	cut   bool // "during": cut the forwarder link while the handler runs
}

type c19Seen struct {
	backend int
	push    bool
	method  string
	body    []byte
	codec   byte
	md      [][2][]byte
	rip, ip string
}

type c19Label struct{ sid, rip, method string }

type c19World struct {
	mu      sync.Mutex
	scr     c19Script
	seen    []c19Seen
	labels  []c19Label
	fwdSt   []*erpc.Status // statuses returned by the forwarder (as returned, before the plugin touches them)
	fwdC0   []int32        // their codes at return time
	pushRet []string       // statuses returned by the plugin's push handler (query form), in order

	back    [2]erpc.Peer
	proxy   erpc.Peer
	cli     erpc.Peer
	fwdPeer map[string]erpc.Peer // "<backend><codec>" -> forwarder peer (one per backend: sessions are indexed by remote address)
	flink   map[string]*link     // "<backend><codec>" -> forwarder link
	clinks  []*link              // client -> proxy
	dlinks  [][2]*link           // client -> backend A/B directly, same caller address as clinks[i]
	curD    byte                 // forwarder default codec of the current case
	curB    int                  // backend of the current case
	nB      int
}

const (
	c19RealIP = "X-Real-IP"
	c19NCli   = 3
)

var c19DfltCodecs = []byte{'j', 'p', 's'}
var c19CodecName = map[byte]string{'j': "json", 'p': "protobuf", 's': "plain"}

func c19xform(xf int, method string, codecID byte, rip string, body []byte) []byte {
	switch xf {
	case 1:
		o := make([]byte, len(body))
		for i, c := range body {
			o[len(body)-1-i] = c
		}
		return o
	case 2:
		return append(append([]byte(method), 0), body...)
	case 3:
		return append([]byte{codecID}, body...)
	case 4:
		return []byte{}
	case 5:
		return []byte(rip)
	}
	return append([]byte{}, body...)
}

func (w *c19World) record(b int, push bool, ctx interface {
	ServiceMethod() string
	VisitMeta(func(k, v []byte))
	GetBodyCodec() byte
	InputBodyBytes() []byte
	RealIP() string
	IP() string
}) c19Seen {
	s := c19Seen{backend: b, push: push, method: ctx.ServiceMethod(), body: append([]byte{}, ctx.InputBodyBytes()...),
		codec: ctx.GetBodyCodec(), rip: ctx.RealIP(), ip: ctx.IP()}
	ctx.VisitMeta(func(k, v []byte) {
		s.md = append(s.md, [2][]byte{append([]byte{}, k...), append([]byte{}, v...)})
	})
	w.mu.Lock()
	w.seen = append(w.seen, s)
	w.mu.Unlock()
	return s
}

func (w *c19World) backCall(b int) func(erpc.UnknownCallCtx) (interface{}, *erpc.Status) {
	return func(ctx erpc.UnknownCallCtx) (interface{}, *erpc.Status) {
		s := w.record(b, false, ctx)
		w.mu.Lock()
		scr := w.scr
		w.mu.Unlock()
		if scr.cut && strings.HasPrefix(s.ip, "c19f") {
			// backend failure during forwarding: the connection dies while the handler runs
			w.flinkOf(b, w.curD).CB.Break(nil)
		}
		for _, kv := range scr.rm {
			ctx.AddMeta(string(kv[0]), string(kv[1]))
		}
		if scr.rc != 0 {
			ctx.SetBodyCodec(scr.rc)
		}
		var st *erpc.Status
		if scr.code != 0 || scr.msg != "" || scr.cause != nil {
			if scr.cause != nil {
				st = erpc.NewStatus(scr.code, scr.msg, *scr.cause)
			} else {
				st = erpc.NewStatus(scr.code, scr.msg)
			}
		}
		return c19xform(scr.xf, s.method, s.codec, s.rip, s.body), st
	}
}

func (w *c19World) backPush(b int) func(erpc.UnknownPushCtx) *erpc.Status {
	return func(ctx erpc.UnknownPushCtx) *erpc.Status {
		w.record(b, true, ctx)
		return nil
	}
}

// C19Typed is the typed backend handler (service method /c19_typed).
func C19Typed(ctx erpc.CallCtx, arg *map[string]string) (map[string]string, *erpc.Status) {
	return *arg, nil
}

// C19Own is served by the proxy peer itself (service method /c19_own).
func C19Own(ctx erpc.CallCtx, arg *[]byte) ([]byte, *erpc.Status) {
	return append([]byte("own:"), *arg...), nil
}

// c19Fwd is the forwarder handed to the plugin: the session to the chosen backend, recording what
// it returned.
type c19Fwd struct {
	w *c19World
	s erpc.Session
}

func (f *c19Fwd) Call(uri string, arg interface{}, result interface{}, setting ...erpc.MessageSetting) erpc.CallCmd {
	cmd := f.s.Call(uri, arg, result, setting...)
	st := cmd.Status()
	f.w.mu.Lock()
	f.w.fwdSt = append(f.w.fwdSt, st)
	f.w.fwdC0 = append(f.w.fwdC0, st.Code())
	f.w.mu.Unlock()
	return cmd
}

func (f *c19Fwd) Push(uri string, arg interface{}, setting ...erpc.MessageSetting) *erpc.Status {
	st := f.s.Push(uri, arg, setting...)
	f.w.mu.Lock()
	f.w.fwdSt = append(f.w.fwdSt, st)
	f.w.fwdC0 = append(f.w.fwdC0, st.Code())
	f.w.mu.Unlock()
	return st
}

// c19Tap installs the proxy plugin with a recorder around its unknown-push handler.
type c19Tap struct {
	inner erpc.Plugin
	w     *c19World
}

func (t *c19Tap) Name() string { return t.inner.Name() }

func (t *c19Tap) PostNewPeer(p erpc.EarlyPeer) error {
	return t.inner.(erpc.PostNewPeerPlugin).PostNewPeer(c19TapPeer{p, t.w})
}

type c19TapPeer struct {
	erpc.EarlyPeer
	w *c19World
}

func (e c19TapPeer) SetUnknownPush(fn func(erpc.UnknownPushCtx) *erpc.Status, plugin ...erpc.Plugin) {
	e.EarlyPeer.SetUnknownPush(func(ctx erpc.UnknownPushCtx) *erpc.Status {
		st := fn(ctx)
		q := c19Query(st)
		e.w.mu.Lock()
		e.w.pushRet = append(e.w.pushRet, q)
		e.w.mu.Unlock()
		return st
	}, plugin...)
}

func (w *c19World) flinkOf(b int, d byte) *link { return w.flink[fmt.Sprintf("%d%c", b, d)] }

func (w *c19World) connectFwd(b int, d byte) {
	// the forwarder's address as the backend sees it: c19f<d>-a:1
	key := fmt.Sprintf("%d%c", b, d)
	w.flink[key] = connect(w.fwdPeer[key], w.back[b], fmt.Sprintf("c19f%c", d))
}

func c19NewWorld(nBackends int) *c19World {
	w := &c19World{fwdPeer: map[string]erpc.Peer{}, flink: map[string]*link{}, nB: nBackends, curD: 'j'}
	for b := 0; b < nBackends; b++ {
		p := erpc.NewPeer(erpc.PeerConfig{})
		p.SetUnknownCall(w.backCall(b))
		p.SetUnknownPush(w.backPush(b))
		p.RouteCallFunc(C19Typed)
		w.back[b] = p
	}
	for _, d := range c19DfltCodecs {
		for b := 0; b < nBackends; b++ {
			w.fwdPeer[fmt.Sprintf("%d%c", b, d)] = erpc.NewPeer(erpc.PeerConfig{DefaultBodyCodec: c19CodecName[d]})
			w.connectFwd(b, d)
		}
	}
	w.proxy = erpc.NewPeer(erpc.PeerConfig{}, &c19Tap{proxy.NewPlugin(func(l *proxy.Label) proxy.Forwarder {
		w.mu.Lock()
		w.labels = append(w.labels, c19Label{l.SessionID, l.RealIP, l.ServiceMethod})
		w.mu.Unlock()
		return &c19Fwd{w, w.flinkOf(w.curB, w.curD).A}
	}), w})
	w.proxy.RouteCallFunc(C19Own)
	w.cli = erpc.NewPeer(erpc.PeerConfig{})
	for i := 0; i < c19NCli; i++ {
		name := fmt.Sprintf("c19c%d", i)
		w.clinks = append(w.clinks, connect(w.cli, w.proxy, name))
		var d [2]*link
		for b := 0; b < nBackends; b++ {
			// one client peer per direct link: the client peer indexes sessions by remote address
			d[b] = connect(erpc.NewPeer(erpc.PeerConfig{}), w.back[b], name)
		}
		w.dlinks = append(w.dlinks, d)
	}
	return w
}

func (w *c19World) reset(scr c19Script, d byte, b int) {
	w.mu.Lock()
	w.scr, w.seen, w.labels, w.fwdSt, w.fwdC0, w.pushRet = scr, nil, nil, nil, nil, nil
	w.curD, w.curB = d, b
	w.mu.Unlock()
}

func (w *c19World) nSeen() int {
	w.mu.Lock()
	defer w.mu.Unlock()
	return len(w.seen)
}

func (w *c19World) takeSeen() []c19Seen {
	w.mu.Lock()
	defer w.mu.Unlock()
	s := w.seen
	w.seen = nil
	return s
}

// ---- case parsing -------------------------------------------------------------------------------

type c19Case struct {
	method string
	body   []byte
	codec  byte
	md     [][2][]byte
	ci     int // client index; caller address = c19c<ci>-a:1
	d      byte
	scr    c19Script
	ops    []string
}

func c19Parse(f map[string]string) (c *c19Case, err error) {
	defer func() {
		if p := recover(); p != nil {
			err = fmt.Errorf("bad case: %v", p)
		}
	}()
	c = &c19Case{}
	c.method = string(hx.UnHex(f["m"]))
	c.body = hx.UnHex(f["b"])
	n, _ := strconv.Atoi(f["c"])
	c.codec = byte(n)
	c.md = hx.ParseKVs(f["md"])
	ca := string(hx.UnHex(f["ca"]))
	c.ci = -1
	for i := 0; i < c19NCli; i++ {
		if ca == fmt.Sprintf("c19c%d-a:1", i) {
			c.ci = i
		}
	}
	n, _ = strconv.Atoi(f["d"])
	c.d = byte(n)
	if c.ci < 0 || c19CodecName[c.d] == "" || string(hx.UnHex(f["pa"])) != fmt.Sprintf("c19f%c-a:1", c.d) {
		return nil, fmt.Errorf("bad case: caller / forwarder address")
	}
	n, _ = strconv.Atoi(f["sc"])
	c.scr.code = int32(n)
	c.scr.msg = string(hx.UnHex(f["sm"]))
	if f["sk"] != "nil" && f["sk"] != "" {
		s := string(hx.UnHex(f["sk"]))
		c.scr.cause = &s
	}
	c.scr.rm = hx.ParseKVs(f["rm"])
	n, _ = strconv.Atoi(f["rc"])
	c.scr.rc = byte(n)
	c.scr.xf, _ = strconv.Atoi(f["xf"])
	if f["ops"] != "" {
		c.ops = strings.Split(f["ops"], ",")
	}
	if f["reg"] != c19Reg() {
		return nil, fmt.Errorf("bad case: registered codec set is %s", c19Reg())
	}
	return c, nil
}

var c19RegOnce sync.Once
var c19RegStr string

// c19Reg lists the registered body codec ids (hex): the model takes the set from the case line.
func c19Reg() string {
	c19RegOnce.Do(func() {
		var ids []byte
		for i := 1; i < 256; i++ {
			if _, err := codec.Get(byte(i)); err == nil {
				ids = append(ids, byte(i))
			}
		}
		c19RegStr = hx.Hex(ids)
	})
	return c19RegStr
}

func (c *c19Case) settings() []erpc.MessageSetting {
	s := []erpc.MessageSetting{erpc.WithBodyCodec(c.codec)}
	for _, kv := range c.md {
		s = append(s, erpc.WithAddMeta(string(kv[0]), string(kv[1])))
	}
	return s
}

// ---- canonical rendering ------------------------------------------------------------------------

type c19Resp struct {
	body  []byte
	codec byte
	code  int32
	msg   string
	cause string // Cause().Error() (goutil falls back to msg when the cause is nil), for messages only
	q     string // the status as (*Status).EncodeQuery renders it: code, msg if non-empty, cause if non-nil
	md    [][2][]byte
}

// c19Query is the canonical form of a status: its query encoding (nil status = "code=0").
func c19Query(st *erpc.Status) string {
	if st == nil {
		return "code=0"
	}
	return string(st.EncodeQuery())
}

func (r *c19Resp) String() string {
	return fmt.Sprintf("b=%s,c=%d,st=%s,md=%s", hx.Hex(r.body), r.codec, hx.Hex([]byte(r.q)), c19KVs(r.md))
}

// c19KVs: like hx.KVs but `;`-separated so that it can sit inside a comma-separated record.
func c19KVs(kv [][2][]byte) string {
	if len(kv) == 0 {
		return "-"
	}
	p := make([]string, len(kv))
	for i, e := range kv {
		p[i] = hx.Hex(e[0]) + ":" + hx.Hex(e[1])
	}
	return strings.Join(p, ";")
}

func (s *c19Seen) String() string {
	return fmt.Sprintf("m=%s,b=%s,c=%d,md=%s,rip=%s,ip=%s", hx.Hex([]byte(s.method)), hx.Hex(s.body), s.codec,
		c19KVs(s.md), hx.Hex([]byte(s.rip)), hx.Hex([]byte(s.ip)))
}

func c19Seens(ss []c19Seen) string {
	if len(ss) == 0 {
		return "none"
	}
	p := make([]string, len(ss))
	for i := range ss {
		p[i] = ss[i].String()
	}
	return strings.Join(p, "+")
}

func c19DoCall(s erpc.Session, c *c19Case) *c19Resp {
	var result []byte
	cmd := s.Call(c.method, c.body, &result, c.settings()...)
	r := &c19Resp{body: result}
	st := cmd.Status()
	r.code, r.msg, r.q = st.Code(), st.Msg(), c19Query(st)
	if e := st.Cause(); e != nil {
		r.cause = e.Error()
	}
	if m := cmd.InputMeta(); m != nil {
		r.codec = cmd.InputBodyCodec()
		m.VisitAll(func(k, v []byte) {
			r.md = append(r.md, [2][]byte{append([]byte{}, k...), append([]byte{}, v...)})
		})
	}
	return r
}

func c19Last(md [][2][]byte) map[string]string {
	m := map[string]string{}
	for _, kv := range md {
		m[string(kv[0])] = string(kv[1])
	}
	return m
}

func c19Peek(md [][2][]byte, key string) (string, bool) {
	for _, kv := range md {
		if string(kv[0]) == key {
			return string(kv[1]), true
		}
	}
	return "", false
}

func c19SameMap(a, b map[string]string) bool {
	if len(a) != len(b) {
		return false
	}
	for k, v := range a {
		if w, ok := b[k]; !ok || w != v {
			return false
		}
	}
	return true
}

// ---- oracles on the real code ------------------------------------------------------------------

type c19Sink interface {
	Violate(oracle, detail, sig string)
	Count(key string)
}

type c19OutSink struct {
	out  *hx.Out
	line string
}

func (s c19OutSink) Violate(oracle, detail, sig string) { s.out.Violate(s.line, oracle, detail, sig) }
func (s c19OutSink) Count(key string)                   { s.out.Count(key) }

func c19ShortLine(c *c19Case) string {
	return fmt.Sprintf("method=%q body=%dB codec=%d md=%s fwd-default-codec=%d script{code=%d msg=%q rm=%s rc=%d xf=%d}",
		c.method, len(c.body), c.codec, c19KVs(c.md), c.d, c.scr.code, c.scr.msg, c19KVs(c.scr.rm), c.scr.rc, c.scr.xf)
}

// c19FwdOracle checks what the backend saw through the proxy against the request: forwarded exactly
// once, same method / body / codec / metadata, real-IP rule.
func c19FwdOracle(c *c19Case, caller string, dSeen, pSeen []c19Seen, sink c19Sink) {
	if len(pSeen) != 1 {
		sink.Violate("forward-once", fmt.Sprintf("backend invoked %d times for one proxied message; %s", len(pSeen), c19ShortLine(c)),
			fmt.Sprintf("c19:forwarded-%d-times", len(pSeen)))
		return
	}
	p := pSeen[0]
	if p.method != c.method {
		sink.Violate("forwarded-request", fmt.Sprintf("backend saw method %q; %s", p.method, c19ShortLine(c)), "c19:not-transparent:fwd-method")
	}
	if !bytes.Equal(p.body, c.body) {
		sink.Violate("forwarded-request", fmt.Sprintf("backend saw body %s; %s", hx.Hex(p.body), c19ShortLine(c)), "c19:not-transparent:fwd-body")
	}
	if p.codec != c.codec {
		sink.Count("finding:reqcodec")
		sink.Violate("forwarded-request", fmt.Sprintf("request sent with body codec id %d reaches the backend with codec id %d (the forwarder peer's default) through the proxy, %d directly; %s",
			c.codec, p.codec, c.codec, c19ShortLine(c)), "c19:not-transparent:reqcodec")
	}
	// metadata: the request's pairs in order; a request without a real IP (key absent, or first value
	// empty) carries the caller's address: appended as one pair when the key is absent, filled into
	// the first (empty) pair when it is present
	want := c.md
	first, has := c19Peek(c.md, c19RealIP)
	if first == "" {
		want = append([][2][]byte{}, c.md...)
		if has {
			for i := range want {
				if string(want[i][0]) == c19RealIP {
					want[i] = [2][]byte{want[i][0], []byte(caller)}
					break
				}
			}
		} else {
			want = append(want, [2][]byte{[]byte(c19RealIP), []byte(caller)})
		}
	}
	if c19KVs(want) != c19KVs(p.md) {
		sink.Violate("forwarded-request", fmt.Sprintf("backend saw metadata %s, want %s; %s", c19KVs(p.md), c19KVs(want), c19ShortLine(c)), "c19:not-transparent:fwd-meta")
	}
	wantRIP := caller
	if first != "" {
		wantRIP = first
	}
	if p.rip != wantRIP {
		if has && first == "" {
			sink.Count("finding:realip-empty-shadow")
			sink.Violate("real-ip", fmt.Sprintf("request carries %s with an empty value: the proxy appends a second pair, the backend's RealIP() reads the first (empty) one and falls back to the proxy's own address %q instead of the caller %q; %s",
				c19RealIP, p.rip, caller, c19ShortLine(c)), "c19:realip:empty-value-shadows")
		} else {
			sink.Violate("real-ip", fmt.Sprintf("backend RealIP()=%q want %q; %s", p.rip, wantRIP, c19ShortLine(c)), "c19:realip")
		}
	}
	if len(dSeen) == 1 && dSeen[0].rip != wantRIP && !(has && first == "") {
		sink.Violate("real-ip", fmt.Sprintf("direct RealIP()=%q want %q", dSeen[0].rip, wantRIP), "c19:realip:direct")
	}
}

// c19RipDiffers: the backend invoked through the proxy computed another RealIP() than a directly
// called backend does (the request's first non-empty X-Real-IP value, else the caller's address).
func c19RipDiffers(c *c19Case, caller string, pSeen []c19Seen) bool {
	want := caller
	if first, _ := c19Peek(c.md, c19RealIP); first != "" {
		want = first
	}
	return len(pSeen) == 1 && pSeen[0].rip != want
}

// c19RespOracle is the metamorphic oracle: proxied outcome == direct outcome.
func c19RespOracle(c *c19Case, d, p *c19Resp, codecDiffers, ripDiffers bool, sink c19Sink) {
	if codecDiffers && c.scr.xf == 3 {
		return // the scripted backend is codec-sensitive and saw another codec: reported as reqcodec
	}
	if ripDiffers && c.scr.xf == 5 {
		return // the scripted backend echoes RealIP() and saw another address than the caller's: reported by the real-ip oracle
	}
	if !bytes.Equal(d.body, p.body) {
		sink.Violate("transparent", fmt.Sprintf("body direct=%s proxied=%s; %s", hx.Hex(d.body), hx.Hex(p.body), c19ShortLine(c)), "c19:not-transparent:body")
	}
	ds, ps := d.q, p.q
	if ds != ps {
		if d.code > 99 && d.code < 200 && p.code == erpc.CodeBadGateway {
			sink.Count("finding:status-1xx")
			sink.Violate("transparent", fmt.Sprintf("backend handler status %s arrives as %s through the proxy (every code in 100..199 is rewritten to 502 Bad Gateway); %s", ds, ps, c19ShortLine(c)),
				"c19:not-transparent:status-1xx")
		} else {
			sink.Violate("transparent", fmt.Sprintf("status direct=%s proxied=%s; %s", ds, ps, c19ShortLine(c)), "c19:not-transparent:status")
		}
	}
	if !c19SameMap(c19Last(d.md), c19Last(p.md)) {
		sink.Violate("transparent", fmt.Sprintf("reply metadata (last value per key) direct=%s proxied=%s; %s", c19KVs(d.md), c19KVs(p.md), c19ShortLine(c)), "c19:not-transparent:meta")
	}
	if len(c19Last(p.md)) != len(p.md) {
		sink.Violate("transparent", fmt.Sprintf("proxied reply metadata has a repeated key: %s", c19KVs(p.md)), "c19:not-transparent:meta-repeated")
	}
	if d.codec != p.codec {
		sink.Count("finding:replycodec")
		sink.Violate("transparent", fmt.Sprintf("reply body codec id direct=%d proxied=%d (the backend handler chose codec %d; the proxy relabels the reply with the caller's accept/request codec); %s",
			d.codec, p.codec, c.scr.rc, c19ShortLine(c)), "c19:not-transparent:replycodec")
	}
}

// ---- in-process kinds ---------------------------------------------------------------------------

var c19W *c19World

func c19Setup() {
	erpc.SetLoggerLevel("OFF")
	c19W = c19NewWorld(1)
}

func c19Run(line string, out *hx.Out) (obs string, nontrivial bool) {
	kind, f := hx.Fields(line)
	defer func() {
		if p := recover(); p != nil {
			obs, nontrivial = fmt.Sprintf("harness-panic %v", p), false
		}
	}()
	c, err := c19Parse(f)
	if err != nil {
		return err.Error(), false
	}
	sink := c19OutSink{out, line}
	switch kind {
	case "pxcall":
		return c19RunCall(c19W, c, sink), true
	case "pxpush":
		return c19RunPush(c19W, c, sink), true
	case "pxtyped":
		return c19RunTyped(c19W, c, sink), true
	case "pxown":
		return c19RunOwn(c19W, c, sink), true
	case "pxfail":
		return c19RunFailParent(line, sink)
	}
	return "bad-kind", false
}

func c19Caller(i int) string { return fmt.Sprintf("c19c%d-a:1", i) }

func c19RunCall(w *c19World, c *c19Case, sink c19Sink) string {
	w.reset(c.scr, c.d, 0)
	d := c19DoCall(w.dlinks[c.ci][0].A, c)
	dSeen := w.takeSeen()
	p := c19DoCall(w.clinks[c.ci].A, c)
	pSeen := w.takeSeen()
	w.mu.Lock()
	labels := w.labels
	w.mu.Unlock()
	lab := "none"
	if len(labels) == 1 {
		lab = fmt.Sprintf("%s,%s,%s", hx.Hex([]byte(labels[0].sid)), hx.Hex([]byte(labels[0].rip)), hx.Hex([]byte(labels[0].method)))
	} else if len(labels) > 1 {
		lab = fmt.Sprintf("many:%d", len(labels))
	}
	sink.Count("call:codec=" + c19CodecClass(c.codec))
	sink.Count(fmt.Sprintf("call:fwd-default=%c", c.d))
	sink.Count(fmt.Sprintf("call:xf=%d", c.scr.xf))
	switch {
	case c.scr.code == 0:
		sink.Count("call:status=ok")
	case c.scr.code > 99 && c.scr.code < 200:
		sink.Count("call:status=1xx")
	default:
		sink.Count("call:status=other")
	}
	sink.Count("call:bodylen=" + c19LenClass(len(c.body)))
	if len(c19Last(c.scr.rm)) != len(c.scr.rm) {
		sink.Count("call:replymeta=repeated-key")
	}
	if _, has := c19Peek(c.md, c19RealIP); has {
		sink.Count("call:req-has-realip")
	}
	if _, has := c19Peek(c.md, erpc.MetaAcceptBodyCodec); has {
		sink.Count("call:req-has-accept-codec")
	}
	if c.method == "" {
		sink.Count("call:empty-method")
		if len(pSeen) != 0 || len(dSeen) != 0 {
			sink.Violate("forward-once", "empty method reached a backend", "c19:empty-method-forwarded")
		}
	} else {
		c19FwdOracle(c, c19Caller(c.ci), dSeen, pSeen, sink)
	}
	codecDiffers := len(pSeen) == 1 && pSeen[0].codec != c.codec
	c19RespOracle(c, d, p, codecDiffers, c19RipDiffers(c, c19Caller(c.ci), pSeen), sink)
	return fmt.Sprintf("D[%s] DB[%s] P[%s] PB[%s] L[%s]", d, c19Seens(dSeen), p, c19Seens(pSeen), lab)
}

func c19CodecClass(c byte) string {
	if _, err := codec.Get(c); err == nil {
		return string([]byte{c})
	}
	return "unregistered"
}

func c19LenClass(n int) string {
	switch {
	case n == 0:
		return "0"
	case n < 16:
		return "1-15"
	case n < 256:
		return "16-255"
	case n < 4096:
		return "256-4095"
	}
	return "4096+"
}

// waitSeen waits until the backend has recorded n invocations, then a grace period to catch a
// duplicate delivery (a round trip on the same path plus a short sleep).
func (w *c19World) waitSeen(n int) {
	waitUntil(2*time.Second, func() bool { return w.nSeen() >= n })
}

func c19RunPush(w *c19World, c *c19Case, sink c19Sink) string {
	w.reset(c.scr, c.d, 0)
	st := w.dlinks[c.ci][0].A.Push(c.method, c.body, c.settings()...)
	if c.method != "" {
		w.waitSeen(1)
	}
	time.Sleep(300 * time.Microsecond)
	dSeen := w.takeSeen()
	st2 := w.clinks[c.ci].A.Push(c.method, c.body, c.settings()...)
	if c.method != "" {
		w.waitSeen(1)
	}
	// a full proxied round trip after the push, then look again: exactly one delivery
	var tmp []byte
	w.mu.Lock()
	w.scr = c19Script{}
	w.mu.Unlock()
	w.clinks[c.ci].A.Call("/c19/sync", []byte{}, &tmp)
	time.Sleep(300 * time.Microsecond)
	all := w.takeSeen()
	var pSeen []c19Seen
	for _, s := range all {
		if s.push {
			pSeen = append(pSeen, s)
		}
	}
	sink.Count("push:codec=" + c19CodecClass(c.codec))
	sink.Count(fmt.Sprintf("push:fwd-default=%c", c.d))
	if c.method == "" {
		if len(pSeen) != 0 || len(dSeen) != 0 {
			sink.Violate("forward-once", "empty method reached a backend", "c19:empty-method-forwarded")
		}
	} else {
		c19FwdOracle(c, c19Caller(c.ci), dSeen, pSeen, sink)
	}
	return fmt.Sprintf("S[%d,%d] DB[%s] PB[%s]", st.Code(), st2.Code(), c19Seens(dSeen), c19Seens(pSeen))
}

const c19TypedBody = `{"a":"b"}`

func c19RunTyped(w *c19World, c *c19Case, sink c19Sink) string {
	w.reset(c19Script{}, c.d, 0)
	c.method, c.body, c.codec, c.md = "/c19_typed", []byte(c19TypedBody), 'j', nil
	d := c19DoCall(w.dlinks[c.ci][0].A, c)
	p := c19DoCall(w.clinks[c.ci].A, c)
	sink.Count(fmt.Sprintf("typed:fwd-default=%c", c.d))
	if d.code != p.code || !bytes.Equal(d.body, p.body) {
		sink.Count("finding:reqcodec")
		sink.Violate("transparent", fmt.Sprintf("typed backend handler /c19_typed, JSON argument %s sent with codec json: direct status %d body %q, through the proxy (forwarder default codec %q) status %d body %q",
			c19TypedBody, d.code, d.body, c19CodecName[c.d], p.code, p.body), "c19:not-transparent:reqcodec")
	}
	return fmt.Sprintf("D[%d,%s] P[%d,%s]", d.code, hx.Hex(d.body), p.code, hx.Hex(p.body))
}

func c19RunOwn(w *c19World, c *c19Case, sink c19Sink) string {
	w.reset(c19Script{}, c.d, 0)
	c.method, c.md = "/c19_own", nil
	p := c19DoCall(w.clinks[c.ci].A, c)
	time.Sleep(200 * time.Microsecond)
	n := len(w.takeSeen())
	if n != 0 {
		sink.Violate("own-not-forwarded", fmt.Sprintf("a method served by the proxy peer itself reached the backend %d times", n), "c19:own-forwarded")
	}
	sink.Count("own")
	return fmt.Sprintf("P[%d,%s] n=%d", p.code, hx.Hex(p.body), n)
}

// ---- failure histories (child process) -----------------------------------------------------------

// c19FailResult is what one worker process reported for one pxfail case.
type c19FailResult struct {
	obs    string
	ok     bool
	viols  [][3]string // oracle, sig, detail
	counts []string
}

var (
	c19FailMu    sync.Mutex
	c19FailCache = map[string]chan c19FailResult{}
)

// c19Prefetch starts the worker processes of the generated pxfail cases ahead of time, a few in
// parallel (process start-up dominates their cost); Run picks the results up in case order.
func c19Prefetch(lines []string) {
	sem := make(chan struct{}, 6)
	c19FailMu.Lock()
	defer c19FailMu.Unlock()
	for _, l := range lines {
		if _, dup := c19FailCache[l]; dup {
			continue
		}
		ch := make(chan c19FailResult, 1)
		c19FailCache[l] = ch
		go func(l string) {
			sem <- struct{}{}
			ch <- c19SpawnFail(l)
			<-sem
		}(l)
	}
}

func c19RunFailParent(line string, sink c19Sink) (string, bool) {
	c19FailMu.Lock()
	ch := c19FailCache[line]
	delete(c19FailCache, line)
	c19FailMu.Unlock()
	var r c19FailResult
	if ch != nil {
		r = <-ch
	} else {
		r = c19SpawnFail(line)
	}
	for _, k := range r.counts {
		sink.Count(k)
	}
	for _, v := range r.viols {
		sink.Violate(v[0], v[2], v[1])
	}
	return r.obs, r.ok
}

// c19SpawnFail runs one pxfail case in a fresh child process.
func c19SpawnFail(line string) (res c19FailResult) {
	cmd := exec.Command(os.Args[0])
	cmd.Env = append(os.Environ(), "C19_WORKER=1", "GOMAXPROCS=4")
	cmd.Stdin = strings.NewReader(line + "\n")
	var stdout, stderr bytes.Buffer
	cmd.Stdout, cmd.Stderr = &stdout, &stderr
	done := make(chan error, 1)
	if err := cmd.Start(); err != nil {
		res.obs = "worker-start-failed " + err.Error()
		return
	}
	go func() { done <- cmd.Wait() }()
	select {
	case err := <-done:
		if err != nil {
			res.obs = fmt.Sprintf("worker-failed %v %s", err, c19Tail(stderr.String()))
			return
		}
	case <-time.After(90 * time.Second):
		cmd.Process.Kill()
		res.obs = "worker-timeout " + c19Tail(stdout.String())
		return
	}
	res.obs, res.ok = "worker-no-obs", true
	sc := bufio.NewScanner(&stdout)
	sc.Buffer(make([]byte, 1<<20), 1<<26)
	for sc.Scan() {
		t := sc.Text()
		switch {
		case strings.HasPrefix(t, "OBS "):
			res.obs = t[4:]
		case strings.HasPrefix(t, "CNT "):
			res.counts = append(res.counts, t[4:])
		case strings.HasPrefix(t, "VIOL "):
			p := strings.SplitN(t[5:], "\t", 3)
			if len(p) == 3 {
				res.viols = append(res.viols, [3]string{p[0], p[1], p[2]})
			}
		}
	}
	return
}

func c19Tail(s string) string {
	s = strings.ReplaceAll(s, "\n", " | ")
	if len(s) > 600 {
		s = s[len(s)-600:]
	}
	return s
}

type c19WorkerSink struct{ w *bufio.Writer }

func (s c19WorkerSink) Violate(oracle, detail, sig string) {
	fmt.Fprintf(s.w, "VIOL %s\t%s\t%s\n", oracle, sig, strings.ReplaceAll(detail, "\n", " "))
}
func (s c19WorkerSink) Count(key string) { fmt.Fprintf(s.w, "CNT %s\n", key) }

func c19Worker() {
	erpc.SetLoggerLevel("OFF")
	in := bufio.NewScanner(os.Stdin)
	in.Buffer(make([]byte, 1<<20), 1<<26)
	wr := bufio.NewWriter(os.Stdout)
	defer wr.Flush()
	if !in.Scan() {
		return
	}
	_, f := hx.Fields(in.Text())
	c, err := c19Parse(f)
	if err != nil {
		fmt.Fprintf(wr, "OBS %s\n", err.Error())
		return
	}
	obs := func() (o string) {
		defer func() {
			if p := recover(); p != nil {
				o = fmt.Sprintf("harness-panic %v", p)
			}
		}()
		return c19RunFail(c, c19WorkerSink{wr})
	}()
	fmt.Fprintf(wr, "OBS %s\n", obs)
}

// c19RunFail replays one failure history in this (fresh) process.
func c19RunFail(c *c19Case, sink c19Sink) string {
	w := c19NewWorld(2)
	sentinel := erpc.VerifSentinels()["statConnClosed"]
	// the unrelated closed session: a direct client of backend B, closed before anything else happens
	xl := connect(erpc.NewPeer(erpc.PeerConfig{}), w.back[1], "c19x")
	xl.A.Close()
	waitUntil(2*time.Second, func() bool { return !xl.A.Health() })
	aUp := true
	var parts []string
	var xCodes []int32
	failed := false // a backend failure has happened in this history
	for i, op := range c.ops {
		scr := c.scr
		switch op {
		case "x":
			var r []byte
			st := xl.A.Call("/c19/x", []byte("x"), &r).Status()
			xCodes = append(xCodes, st.Code())
			parts = append(parts, "x:"+hx.Hex([]byte(c19Query(st))))
			sink.Count("fail:op=x")
		case "k":
			l := w.flinkOf(0, c.d)
			l.B.Close()
			waitUntil(2*time.Second, func() bool { return !l.A.Health() })
			aUp = false
			parts = append(parts, "k")
			sink.Count("fail:op=k")
		case "r":
			if !aUp {
				w.connectFwd(0, c.d)
				aUp = true
			}
			parts = append(parts, "r")
			sink.Count("fail:op=r")
		case "c", "d", "b":
			bk := 0
			if op == "b" {
				bk = 1
			}
			scr.cut = op == "d" && aUp
			w.reset(scr, c.d, bk)
			var dres *c19Resp
			if op == "b" || aUp {
				// the direct reference outcome (direct links are never cut)
				sd := scr
				sd.cut = false
				w.mu.Lock()
				w.scr = sd
				w.mu.Unlock()
				dres = c19DoCall(w.dlinks[c.ci][bk].A, c)
				w.takeSeen()
				w.mu.Lock()
				w.scr = scr
				w.mu.Unlock()
			}
			p := c19DoCall(w.clinks[c.ci].A, c)
			if scr.cut {
				l := w.flinkOf(0, c.d)
				waitUntil(2*time.Second, func() bool { return !l.A.Health() })
			}
			seen := w.takeSeen()
			w.mu.Lock()
			fst, fc0 := w.fwdSt, w.fwdC0
			w.mu.Unlock()
			fwd := "none"
			if len(fst) == 1 {
				fwd = fmt.Sprintf("%d>%d", fc0[0], fst[0].Code())
				if fst[0] == sentinel {
					fwd += "S"
				}
			}
			down := (op != "b") && (!aUp || scr.cut)
			when := "up"
			if down {
				when = "before"
				if scr.cut {
					when = "during"
				}
				failed = true
				sink.Count("fail:call-" + when)
				if p.code != erpc.CodeBadGateway {
					sink.Count("finding:backend-down-not-502")
					cause := p.cause
					sink.Violate("bad-gateway", fmt.Sprintf("history %s, op %d (%s): backend connection failed %s forwarding (forwarder returned code %d); the proxied call's status is %d %q cause %q, want 502 Bad Gateway",
						strings.Join(c.ops, ","), i, op, when, fc0Of(fc0), p.code, p.msg, cause), "c19:backend-down-not-502")
				}
				wantSeen := 0
				if scr.cut {
					wantSeen = 1
				}
				if len(seen) != wantSeen {
					sink.Violate("forward-once", fmt.Sprintf("backend failure %s forwarding: backend invoked %d times, want %d", when, len(seen), wantSeen),
						fmt.Sprintf("c19:forwarded-%d-times", len(seen)))
				}
			} else {
				sink.Count("fail:call-up")
				if failed {
					sink.Count("fail:call-up-after-failure")
				}
				c19FwdOracle(c, c19Caller(c.ci), nil, seen, sink)
				codecDiffers := len(seen) == 1 && seen[0].codec != c.codec
				c19RespOracle(c, dres, p, codecDiffers, c19RipDiffers(c, c19Caller(c.ci), seen), sink)
			}
			if scr.cut {
				aUp = false
			}
			parts = append(parts, fmt.Sprintf("%s:%s:n=%d:f=%s:P[%s]", op, when, len(seen), fwd, p))
		case "p":
			w.reset(scr, c.d, 0)
			st := w.clinks[c.ci].A.Push(c.method, c.body, c.settings()...)
			// the plugin's push handler has returned (the forwarder returned before that)
			waitUntil(2*time.Second, func() bool {
				w.mu.Lock()
				defer w.mu.Unlock()
				return len(w.pushRet) >= 1
			})
			if aUp {
				w.waitSeen(1)
			}
			time.Sleep(300 * time.Microsecond)
			seen := w.takeSeen()
			w.mu.Lock()
			fst, fc0, pret := w.fwdSt, w.fwdC0, w.pushRet
			w.mu.Unlock()
			fwd := "none"
			if len(fst) == 1 {
				fwd = fmt.Sprintf("%d>%d", fc0[0], fst[0].Code())
				if fst[0] == sentinel {
					fwd += "S"
				}
			}
			hret := "none"
			if len(pret) == 1 {
				hret = hx.Hex([]byte(pret[0]))
			} else if len(pret) > 1 {
				hret = fmt.Sprintf("many:%d", len(pret))
			}
			when := "up"
			if !aUp {
				when = "before"
				failed = true
				sink.Count("fail:push-before")
				if len(seen) != 0 {
					sink.Violate("forward-once", fmt.Sprintf("backend down: push reached a backend %d times", len(seen)), fmt.Sprintf("c19:forwarded-%d-times", len(seen)))
				}
				if len(pret) != 1 || !strings.HasPrefix(pret[0], fmt.Sprintf("code=%d&", erpc.CodeBadGateway)) {
					sink.Violate("bad-gateway", fmt.Sprintf("proxied push with the backend down: the plugin's push handler returned %q, want 502 Bad Gateway", pret), "c19:backend-down-not-502:push")
				}
			} else {
				sink.Count("fail:push-up")
				c19FwdOracle(c, c19Caller(c.ci), nil, seen, sink)
			}
			// the shared sentinel must read after the plugin's handler what it read when it was returned
			if len(fst) == 1 && fst[0] == sentinel && fst[0].Code() != fc0[0] {
				sink.Count("finding:badgateway-mutates-shared-status")
				sink.Violate("bad-gateway-only-that-call", fmt.Sprintf("history %s, op %d (p): the forwarder returned the framework sentinel statConnClosed; it read code %d when it was returned and reads %d %q after the plugin's push handler finished",
					strings.Join(c.ops, ","), i, fc0[0], fst[0].Code(), fst[0].Msg()), "c19:badgateway-mutates-shared-status")
			}
			parts = append(parts, fmt.Sprintf("p:%s:n=%d:f=%s:H[%s]:S[%d]", when, len(seen), fwd, hret, st.Code()))
		default:
			return "bad-op " + op
		}
	}
	// "on that proxied call only": the unrelated closed session must read the same status before and
	// after the failures.
	xReported := false
	for i := 1; i < len(xCodes); i++ {
		if xCodes[i] != xCodes[0] {
			xReported = true
			sink.Count("finding:badgateway-mutates-shared-status")
			sink.Violate("bad-gateway-only-that-call", fmt.Sprintf("history %s: a call on an unrelated, already closed session returned status code %d before the backend failure and %d after it; framework sentinel statConnClosed now reads %d %q (the proxy rewrote the status object returned by the forwarder in place)",
				strings.Join(c.ops, ","), xCodes[0], xCodes[i], sentinel.Code(), sentinel.Msg()), "c19:badgateway-mutates-shared-status")
			break
		}
	}
	if sentinel.Code() != erpc.CodeConnClosed && !xReported {
		sink.Count("finding:badgateway-mutates-shared-status")
		sink.Violate("bad-gateway-only-that-call", fmt.Sprintf("history %s: framework sentinel statConnClosed reads %d %q at the end of the history", strings.Join(c.ops, ","), sentinel.Code(), sentinel.Msg()),
			"c19:badgateway-mutates-shared-status")
	}
	parts = append(parts, "end:"+hx.Hex([]byte(c19Query(sentinel))))
	return strings.Join(parts, " ")
}

func fc0Of(c []int32) int32 {
	if len(c) == 0 {
		return -999
	}
	return c[0]
}

// ---- generation -----------------------------------------------------------------------------------

func c19GenMethod(r *hx.R) string {
	switch r.Intn(12) {
	case 0:
		return "/" + string(r.Bytes(1+r.Intn(6), 0))
	case 1:
		return string(r.Bytes(1+r.Intn(8), 0))
	case 2:
		return "/" + strings.Repeat("m", 200+r.Intn(55)) // rawproto carries at most 255 bytes of service method
	case 3:
		return "/c19_typedx"
	default:
		segs := []string{"a", "b", "home", "math", "add", "v1", "Echo", "x_y"}
		n := 1 + r.Intn(3)
		s := ""
		for i := 0; i < n; i++ {
			s += "/" + segs[r.Intn(len(segs))]
		}
		return s
	}
}

func c19GenBody(r *hx.R, tier string) []byte {
	switch r.Intn(14) {
	case 0:
		return nil
	case 1:
		b := make([]byte, 256)
		for i := range b {
			b[i] = byte(i)
		}
		return b
	case 2:
		n := 3000 + r.Intn(3000)
		if tier == "thorough" && r.Intn(3) == 0 {
			n = 20000 + r.Intn(30000)
		}
		return r.Bytes(n, 0)
	case 3:
		return []byte(`{"a":"b","n":[1,2,3]}`)
	case 4:
		return r.Bytes(1, 0)
	default:
		return r.AnyBytes(1 + r.Intn(40))
	}
}

func c19GenKey(r *hx.R) []byte {
	pool := []string{"k", "K", "a", "trace-id", "x", "X-Real-Ip", "k k", "a=b", "a&b", "%41"}
	if r.Intn(5) == 0 {
		return r.AnyBytes(1 + r.Intn(5))
	}
	return []byte(pool[r.Intn(len(pool))])
}

func c19GenVal(r *hx.R) []byte {
	switch r.Intn(6) {
	case 0:
		return nil
	case 1:
		return r.Bytes(1+r.Intn(12), 0)
	default:
		return r.AnyBytes(1 + r.Intn(8))
	}
}

func c19GenMeta(r *hx.R, reply bool) [][2][]byte {
	var md [][2][]byte
	n := r.Pick(0, 0, 1, 1, 2, 3, 5)
	for i := 0; i < n; i++ {
		k := c19GenKey(r)
		if len(md) > 0 && r.Intn(3) == 0 {
			k = md[r.Intn(len(md))][0] // repeated key
		}
		md = append(md, [2][]byte{k, c19GenVal(r)})
	}
	if !reply {
		switch r.Intn(10) {
		case 0, 1:
			md = c19Insert(r, md, [2][]byte{[]byte(c19RealIP), []byte("203.0.113." + strconv.Itoa(r.Intn(256)))})
		case 2:
			md = c19Insert(r, md, [2][]byte{[]byte(c19RealIP), r.AnyBytes(1 + r.Intn(6))})
		case 3:
			if r.Intn(3) == 0 {
				md = c19Insert(r, md, [2][]byte{[]byte(c19RealIP), nil})
			}
		}
		switch r.Intn(8) {
		case 0:
			ids := []string{"106", "112", "115", "120", "102", "0", "7", "256", "999", "1x", "+12", "012", "0106", "", "255"}
			md = c19Insert(r, md, [2][]byte{[]byte(erpc.MetaAcceptBodyCodec), []byte(ids[r.Intn(len(ids))])})
		}
	} else if r.Intn(12) == 0 {
		md = c19Insert(r, md, [2][]byte{[]byte(c19RealIP), []byte("198.51.100.7")})
	}
	return md
}

func c19Insert(r *hx.R, md [][2][]byte, kv [2][]byte) [][2][]byte {
	i := r.Intn(len(md) + 1)
	out := append([][2][]byte{}, md[:i]...)
	out = append(out, kv)
	return append(out, md[i:]...)
}

func c19GenCodec(r *hx.R) byte {
	switch r.Intn(6) {
	case 0:
		return byte(1 + r.Intn(255))
	default:
		return []byte{'j', 'j', 'p', 's', 'x', 'f'}[r.Intn(6)]
	}
}

func c19GenScript(r *hx.R) (code int32, msg, cause string) {
	cause = "nil"
	switch r.Intn(10) {
	case 0, 1, 2:
		return 0, "-", "nil"
	case 3:
		// an OK status that carries text: the framework sends no status for code 0
		if r.Intn(2) == 0 {
			return 0, hx.Hex(r.AnyBytes(1 + r.Intn(6))), "nil"
		}
		return 0, "-", hx.Hex(r.AnyBytes(r.Intn(6)))
	case 4:
		code = int32([]int{100, 102, 104, 105, 150, 199}[r.Intn(6)])
	case 5:
		code = int32([]int{99, 200, 400, 404, 500, 502, -1, 1, 2147483647, -2147483648}[r.Intn(10)])
	default:
		code = int32(1000 + r.Intn(100000))
		if r.Intn(4) == 0 {
			code = -code
		}
	}
	msg = hx.Hex(r.AnyBytes(r.Intn(12)))
	if r.Intn(2) == 0 {
		cause = hx.Hex(r.AnyBytes(r.Intn(12))) // "-" = a non-nil cause with empty text
	}
	return
}

func c19GenBase(r *hx.R, tier string) string {
	ci := r.Intn(c19NCli)
	d := c19DfltCodecs[r.Pick(0, 0, 0, 1, 2)]
	cc := c19GenCodec(r)
	if r.Intn(2) == 0 {
		cc = d
	}
	code, msg, cause := c19GenScript(r)
	rc := 0
	if r.Intn(6) == 0 {
		rc = int([]byte{'j', 'p', 's', 'x', 9}[r.Intn(5)])
	}
	return fmt.Sprintf("m=%s b=%s c=%d md=%s ca=%s pa=%s d=%d sc=%d sm=%s sk=%s rm=%s rc=%d xf=%d reg=%s",
		hx.Hex([]byte(c19GenMethod(r))), hx.Hex(c19GenBody(r, tier)), cc, hx.KVs(c19GenMeta(r, false)),
		hx.Hex([]byte(c19Caller(ci))), hx.Hex([]byte(fmt.Sprintf("c19f%c-a:1", d))), d,
		code, msg, cause, hx.KVs(c19GenMeta(r, true)), rc, r.Pick(0, 0, 0, 1, 2, 3, 4, 5), c19Reg())
}

// c19Fixed: a few hand-written cases (same-codec plain echo, the pre-study histories).
func c19Fixed() []string {
	base := func(extra string) string {
		return fmt.Sprintf("m=%s b=%s c=106 md=- ca=%s pa=%s d=106 sc=0 sm=- sk=nil rm=- rc=0 xf=0 reg=%s%s",
			hx.Hex([]byte("/a/b")), hx.Hex([]byte("hello")), hx.Hex([]byte(c19Caller(0))), hx.Hex([]byte("c19fj-a:1")), c19Reg(), extra)
	}
	return []string{
		"pxcall " + base(""),
		"pxpush " + base(""),
		"pxown " + base(""),
		"pxfail " + base(" ops=x,c,x"),
		"pxfail " + base(" ops=x,k,c,x"),
		"pxfail " + base(" ops=x,d,x,b"),
		"pxfail " + base(" ops=x,k,p,x,b"),
		"pxfail " + base(" ops=c,k,c,r,c,x"),
	}
}

func c19Gen(r *hx.R, tier string, out *hx.Out) []string {
	nCall, nPush, nFail := 1500, 250, 50
	if tier == "thorough" {
		nCall, nPush, nFail = 12000, 1500, 400
	}
	lines := c19Fixed()
	for _, d := range c19DfltCodecs {
		lines = append(lines, fmt.Sprintf("pxtyped m=- b=- c=106 md=- ca=%s pa=%s d=%d sc=0 sm=- sk=nil rm=- rc=0 xf=0 reg=%s",
			hx.Hex([]byte(c19Caller(0))), hx.Hex([]byte(fmt.Sprintf("c19f%c-a:1", d))), d, c19Reg()))
	}
	for i := 0; i < nCall; i++ {
		l := c19GenBase(r, tier)
		if r.Intn(60) == 0 {
			l = "m=- " + strings.SplitN(l, " ", 2)[1]
		}
		lines = append(lines, "pxcall "+l)
	}
	for i := 0; i < nPush; i++ {
		lines = append(lines, "pxpush "+c19GenBase(r, tier))
	}
	for i := 0; i < 5; i++ {
		lines = append(lines, "pxown "+c19GenBase(r, tier))
	}
	opPool := []string{"x", "x", "k", "r", "c", "c", "d", "b", "p", "p"}
	for i := 0; i < nFail; i++ {
		n := 2 + r.Intn(7)
		ops := make([]string, n)
		for j := range ops {
			ops[j] = opPool[r.Intn(len(opPool))]
		}
		if r.Intn(2) == 0 {
			ops = append([]string{"x"}, append(ops, "x")...)
		}
		l := c19GenBase(r, "quick")
		if strings.HasPrefix(l, "m=- ") {
			l = "m=2f61 " + l[4:]
		}
		lines = append(lines, "pxfail "+l+" ops="+strings.Join(ops, ","))
	}
	var fails []string
	for _, l := range lines {
		if strings.HasPrefix(l, "pxfail ") {
			fails = append(fails, l)
		}
	}
	c19Prefetch(fails)
	return lines
}
