/-
Props/C11 — Body codecs round-trip their value domain and fail cleanly on garbage.
Property theorems only (about Model/Codec); helper lemmas live in Lemmas/Codec.
-/
import Teleport.Lemmas.Codec
namespace Teleport
namespace C11
open Codec

/-! ## plain codec -/

/-- **Round trip, plain codec.** For every value of the codec's supported domain (bool; int, int8 …
    int64 and uint … uint64 anywhere in their range, extremes included; strings and `[]byte` over
    all byte values) `Unmarshal(Marshal(v), &d)` succeeds and leaves exactly `v` in `d`, for every
    destination `d` of the same type, whatever it held before. -/
theorem C11_plain_roundtrip (v d : Val) (hv : InPlainDomain v) (hd : d.sameTy v = true) :
    ∃ b, plainEncode v = some b ∧ plainDecode b (.ptr d) = .ok (.ptr v) :=
  plain_roundtrip v d hv hd

example : InPlainDomain (.sc (.int 64 (-9223372036854775808))) := by unfold InPlainDomain; decide
example : InPlainDomain (.sc (.uint 8 255)) := by unfold InPlainDomain; decide
example : InPlainDomain (.sc (.str [0, 255, 37, 38])) := trivial

/-- **Decoder totality, plain codec.** For every byte string and every destination,
    `PlainCodec.Unmarshal` returns (ok or error) — it panics exactly when the destination is a typed
    nil `*string` or `*[]byte` (no destination value exists; `*s = …` dereferences nil). In
    particular no byte string makes it panic on a non-nil destination. -/
theorem C11_plain_decode_total (data : Bytes) (d : PDest) :
    plainDecode data d = .panic ↔ (d = .nilPtr .str false ∨ d = .nilPtr .bytes false) := by
  constructor
  · intro h
    unfold plainDecode at h
    split at h <;> simp_all
    split at h <;> simp_all
  · rintro (h | h) <;> subst h <;> rfl

/-- **Writes stay inside the destination, plain codec.** A successful decode through a pointer
    yields a value of the destination's own type (same kind and width); a `[]byte` passed by
    value keeps its length (`copy` never grows it). -/
theorem C11_plain_decode_shape (data : Bytes) (cur : Val) (d' : PDest) :
    (plainDecode data (.ptr cur) = .ok d' → ∃ v, d' = .ptr v ∧ v.sameTy cur = true) ∧
    (∀ c, plainDecode data (.byVal (.sc (.bytes c)) false) = .ok d' →
      ∃ r, d' = .byVal (.sc (.bytes r)) false ∧ r.length = c.length) := by
  constructor
  · intro h
    simp only [plainDecode] at h
    cases hp : parseProper data cur with
    | none => simp [hp] at h
    | some v =>
      simp only [hp, Outcome.ok.injEq] at h
      exact ⟨v, h.symm, parseProper_sameTy data cur v hp⟩
  · intro c h
    simp only [plainDecode, Outcome.ok.injEq] at h
    refine ⟨_, h.symm, ?_⟩
    simp only [List.length_append, List.length_take, List.length_drop]
    omega

/-! ## form codec -/

/-- **Round trip, form codec, element order included.** For every struct whose fields are exported
    and are booleans, integers of any width in range, strings (all bytes), `[]byte`, slices and
    fixed arrays of those (any length, 0 included), or untagged nested structs of the same shape
    (any depth), with pairwise distinct form keys after flattening: `Marshal` succeeds, the result
    always parses, and `Unmarshal` into a fresh value of the same type yields exactly the value —
    every slice, array and `[]byte` with its elements in the original order. -/
theorem C11_form_roundtrip (v : Val) (h : InFormDomain v) :
    ∃ b, formEncode v = some b ∧ formDecode b (.ptr v.zero) = .ok (.ptr v) :=
  form_roundtrip v h

/-- `struct{ V []int32 "form:v" }{V: [1,2,3]}` -/
def exOrder : Val :=
  .scons [86] [118] true (.slice (.int 32) [.int 32 1, .int 32 2, .int 32 3]) .snil

/-- a nested value with every kind of field and sequences of length 0, 1, 2 and 3 that are not
    palindromes -/
def exNested : Val :=
  .scons [65] [] true (.sc (.int 8 (-128)))
    (.scons [73, 110] [] true
      (.scons [88] [120, 32, 38] true (.sc (.str [0, 37, 255, 38, 61]))
        (.scons [89] [] true (.slice (.uint 64) [.uint 64 18446744073709551615, .uint 64 0]) .snil))
      (.scons [90] [] true (.array .bool [.bool true, .bool false, .bool false])
        (.scons [87] [] true (.sc (.bytes [7, 0, 255])) (.scons [69] [] true (.slice .str []) .snil))))

example : InFormDomain exOrder := by
  refine ⟨rfl, ?_, by decide⟩
  simp [exOrder, StructOK, FieldOK, ScDom, Sc.kind, Val.isStruct, goodBits, width]

example : InFormDomain exNested := by
  refine ⟨rfl, ?_, by decide⟩
  simp [exNested, StructOK, FieldOK, ScDom, Sc.kind, Val.isStruct, goodBits, width]

/-- the former counterexample: `{V: [1,2,3]}` now encodes to `v=1&v=2&v=3`. -/
example : formEncode exOrder = some [118, 61, 49, 38, 118, 61, 50, 38, 118, 61, 51] := by decide

/-- **Decoder totality, form codec: the only panic is the unguarded array index.** For EVERY byte
    string and every destination, `FormCodec.Unmarshal` returns ok or an error, except in one
    situation, which this theorem pins down: the bytes parse as a query string, the destination
    is a struct, and some exported (after flattening) **fixed-array** field has a key in the
    query for which the array arm panics — by `C11_form_array_panic_iff` that means strictly
    more values than array slots, all values that do have a slot being acceptable. No other
    input (bad escapes, `;`, bad numbers, unknown kinds, empty values, any bytes at all) and no
    other destination type can make it panic. -/
theorem C11_form_decode_total (data : Bytes) (d : FDest) (h : formDecode data d = .panic) :
    ∃ cur form k ek slots vals, d = .ptr cur ∧ parseQuery data = some form ∧
      (k, Val.array ek slots) ∈ sleaves cur ∧ fget form k = some vals ∧
      slots.length < vals.length ∧ ∀ p ∈ vals.zip slots, ∃ s', setScalar ek p.1 p.2 = .ok s' := by
  obtain ⟨cur, form, k, ek, slots, vals, h1, h2, h3, h4, h5⟩ := formDecode_panic data d h
  exact ⟨cur, form, k, ek, slots, vals, h1, h2, h3, h4, (setArray_panic_iff ek vals slots).mp h5⟩

/-- **Exactly when the array arm panics** (`structField.Index(i)` with `i ≥ Len()`): iff there are
    more values than slots and every value that still has a slot is accepted. -/
theorem C11_form_array_panic_iff (ek : Kind) (vals : List Bytes) (slots : List Sc) :
    setArray ek vals slots = .panic ↔
      (slots.length < vals.length ∧ ∀ p ∈ vals.zip slots, ∃ s', setScalar ek p.1 p.2 = .ok s') :=
  setArray_panic_iff ek vals slots

/-- Consequently a destination without fixed-array fields never panics, whatever the bytes. -/
theorem C11_form_decode_no_array_no_panic (data : Bytes) (cur : Val)
    (h : ∀ k ek slots, (k, Val.array ek slots) ∉ sleaves cur) : formDecode data (.ptr cur) ≠ .panic := by
  intro hp
  obtain ⟨cur', _, k, ek, slots, _, h1, _, h3, _⟩ := formDecode_panic data _ hp
  cases h1
  exact h k ek slots h3

/-- **Writes stay inside the destination, form codec.** Whatever the bytes, a successful decode
    into a struct yields a value of exactly the destination's type — same fields, tags, element
    kinds and fixed-array lengths (slices are replaced by fresh ones): the model never produces
    anything outside the destination value. (On the real code this is what the guard bytes
    around the destination check.) -/
theorem C11_form_decode_shape (data : Bytes) (cur : Val) (d' : FDest)
    (h : formDecode data (.ptr cur) = .ok d') : ∃ v', d' = .ptr v' ∧ v'.sameTy cur = true := by
  unfold formDecode at h
  cases hp : parseQuery data with
  | none => simp [hp] at h
  | some form =>
    simp only [hp] at h
    split at h
    · obtain ⟨a, ha, hr⟩ := map_eq_ok _ _ _ h
      exact ⟨a, hr.symm, decStruct_sameTy cur form a ha⟩
    · cases h

/-- `struct{ P [2]int32 "form:p"; Q [3]uint8 }{}` -/
def exArr : Val :=
  .scons [80] [112] true (.array (.int 32) [.int 32 0, .int 32 0])
    (.scons [81] [] true (.array (.uint 8) [.uint 8 0, .uint 8 0, .uint 8 0]) .snil)

/-- **More values than array slots panics out of `Unmarshal` (finding).** Decoding `p=1&p=2&p=3`
    into `struct{ P [2]int32 "form:p"; … }` panics (`reflect: array index out of range`), while
    two values decode fine and a bad first value is an ordinary error. -/
theorem C11_form_array_overflow_witness :
    formDecode [112, 61, 49, 38, 112, 61, 50, 38, 112, 61, 51] (.ptr exArr) = .panic ∧
    formDecode [112, 61, 49, 38, 112, 61, 50] (.ptr exArr) =
      .ok (.ptr (.scons [80] [112] true (.array (.int 32) [.int 32 1, .int 32 2])
        (.scons [81] [] true (.array (.uint 8) [.uint 8 0, .uint 8 0, .uint 8 0]) .snil))) ∧
    formDecode [112, 61, 120, 38, 112, 61, 50, 38, 112, 61, 51] (.ptr exArr) = .err := by
  refine ⟨by decide, by decide, by decide⟩

/-! ## library-backed codecs and the message body -/

/-- **Wrapper dispatch (protobuf, thrift).** The wrappers add nothing to the library except the
    listed arms: a message goes to `lib.marshal` / `lib.unmarshal` unchanged; `nil`, `struct{}` and
    `*struct{}` marshal as the library's empty message and unmarshal as a no-op; anything else is
    an error. Hence, **under the library law** `hlaw` (assumed, measured by the harness as a
    test), the codec round-trips every message. JSON and XML have no switch at all
    (`directMarshal = lib.marshal`). -/
theorem C11_wrapper_dispatch {M : Type} (lib : Lib M)
    (hlaw : ∀ m d b, lib.marshal m = some b → lib.unmarshal b d = some m) :
    (∀ m, wrapMarshal lib (.msg m) = lib.marshal m) ∧
    (∀ data m, wrapUnmarshal lib data (.msg m) = (lib.unmarshal data m).map .msg) ∧
    (wrapMarshal lib .empty = lib.marshal lib.emptyMsg) ∧
    (∀ data, wrapUnmarshal lib data .empty = some .empty) ∧
    (wrapMarshal lib .other = none ∧ ∀ data, wrapUnmarshal lib data .other = none) ∧
    (∀ m d b, wrapMarshal lib (.msg m) = some b → wrapUnmarshal lib b (.msg d) = some (.msg m)) ∧
    (∀ m d b, directMarshal lib m = some b → directUnmarshal lib b d = some m) := by
  refine ⟨fun _ => rfl, fun _ _ => rfl, rfl, fun _ => rfl, ⟨rfl, fun _ => rfl⟩, ?_, ?_⟩
  · intro m d b h
    simp only [wrapMarshal] at h
    simp [wrapUnmarshal, hlaw m d b h]
  · intro m d b h
    exact hlaw m d b h

/-- the hypothesis of `C11_wrapper_dispatch` is satisfiable (identity library on byte strings). -/
example : ∃ lib : Lib Bytes, ∀ m d b, lib.marshal m = some b → lib.unmarshal b d = some m :=
  ⟨{ marshal := some, unmarshal := fun b _ => some b, emptyMsg := [] }, by
    intro m d b h; simp at h; simp [h]⟩

/-- **Byte-slice bodies bypass the codecs.** `MarshalBody` returns a `[]byte` or `*[]byte` body
    itself, whatever the body codec id is (registered or not); `UnmarshalBody` stores non-empty
    received bytes into a non-nil `*[]byte` body verbatim without consulting any codec. (As coded,
    zero received bytes leave the body untouched, and a `[]byte` body that is not a pointer goes
    to the codec on the receiving side.) -/
theorem C11_bytes_bypass {V : Type} (codec : V → Option Bytes)
    (codecB : Bytes → Bytes → Option Bytes) (codecV : Bytes → V → Option V) (b cur data : Bytes) :
    marshalBody codec (.bytes b) = some b ∧
    marshalBody codec (.bytesPtr b) = some b ∧
    (data ≠ [] → unmarshalBody codecB codecV data (.bytesPtr cur) = .ok (.bytesPtr data)) ∧
    unmarshalBody codecB codecV [] (.bytesPtr cur) = .ok (.bytesPtr cur) := by
  refine ⟨rfl, rfl, ?_, rfl⟩
  intro h
  cases data with
  | nil => exact absurd rfl h
  | cons c cs => rfl

/-- the registry resolves exactly the six built-in ids, to distinct codecs. -/
theorem C11_registry : (builtinIds.map (·.1)).Nodup ∧ (builtinIds.map (·.2)).Nodup ∧
    regGet builtinIds 0 = none := by decide

end C11
end Teleport
