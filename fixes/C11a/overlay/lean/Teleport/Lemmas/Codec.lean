import Teleport.Model.Codec
import Teleport.Lemmas.Num
import Teleport.Lemmas.Args
namespace Teleport
namespace Codec
open Num

/-! ### strconv -/

theorem width_pos (bits : Nat) : 1 ≤ width bits := by unfold width; split <;> omega

def goodBits (bits : Nat) : Prop := bits = 0 ∨ bits = 8 ∨ bits = 16 ∨ bits = 32 ∨ bits = 64
instance (b : Nat) : Decidable (goodBits b) := by unfold goodBits; infer_instance

theorem width_le (bits : Nat) (h : goodBits bits) : width bits ≤ 64 := by
  unfold width; rcases h with h | h | h | h | h <;> subst h <;> decide

theorem pow_le_64 (w : Nat) (h : w ≤ 64) : 2 ^ w ≤ 2 ^ 64 := Nat.pow_le_pow_right (by decide) h

theorem fmtUint_ne_nil (n : Nat) : (fmtUint n).isEmpty = false := by
  obtain ⟨c, cs, h, _⟩ := formatNat_head 8 (by decide) n
  unfold fmtUint; rw [h]; rfl

theorem parseUint_fmtUint (bits n : Nat) (hw : width bits ≤ 64) (hn : n < 2 ^ width bits) :
    parseUint bits (fmtUint n) = some n := by
  have h64 : n < 2 ^ 64 := Nat.lt_of_lt_of_le hn (pow_le_64 _ hw)
  unfold parseUint
  rw [fmtUint_ne_nil]
  have := parseDigits_formatNat 8 (by decide) n h64
  unfold fmtUint
  simp only [Nat.reduceAdd] at this
  simp [this, hn]

theorem parseInt_fmtInt (bits : Nat) (i : Int) (hw : width bits ≤ 64)
    (hlo : -(2 ^ (width bits - 1) : Int) ≤ i) (hhi : i < (2 ^ (width bits - 1) : Int)) :
    parseInt bits (fmtInt i) = some i := by
  have hwp := width_pos bits
  have hp : (2 : Nat) ^ (width bits - 1) ≤ 2 ^ 63 := Nat.pow_le_pow_right (by decide) (by omega)
  have hcast : ((2 ^ (width bits - 1) : Nat) : Int) = (2 : Int) ^ (width bits - 1) := by simp
  have habs : i.natAbs ≤ 2 ^ (width bits - 1) := by omega
  have h64 : i.natAbs < 2 ^ 64 := by
    have : (2 : Nat) ^ 63 < 2 ^ 64 := by decide
    omega
  obtain ⟨c, cs, hcs, h43, h45⟩ := formatNat_head 8 (by decide) i.natAbs
  have hpd := parseDigits_formatNat 8 (by decide) i.natAbs h64
  simp only [Nat.reduceAdd] at hpd
  unfold fmtInt formatInt
  by_cases hneg : i < 0
  · simp only [hneg, if_true]
    unfold parseInt
    simp only [beq_self_eq_true, Bool.or_true, if_true]
    rw [hcs] at hpd ⊢
    simp only [List.isEmpty_cons, Bool.false_eq_true, if_false, hpd, habs, if_true]
    congr 1; omega
  · simp only [hneg, if_false]
    rw [hcs] at hpd ⊢
    unfold parseInt
    have e43 : (c == 43) = false := by simp [h43]
    have e45 : (c == 45) = false := by simp [h45]
    simp only [e43, e45, Bool.or_self, Bool.false_eq_true, if_false, List.isEmpty_cons, hpd]
    have : i.natAbs < 2 ^ (width bits - 1) := by omega
    simp only [this, if_true]
    congr 1; omega

theorem parseBool_fmtBool (b : Bool) : parseBool (fmtBool b) = some b := by
  cases b <;> decide

theorem two_pow_width (bits : Nat) : (2 : Int) ^ width bits = 2 * 2 ^ (width bits - 1) := by
  have h := width_pos bits
  have : width bits = (width bits - 1) + 1 := by omega
  conv => lhs; rw [this, Int.pow_succ]
  omega

theorem wrapInt_id (bits : Nat) (i : Int)
    (hlo : -(2 ^ (width bits - 1) : Int) ≤ i) (hhi : i < (2 ^ (width bits - 1) : Int)) :
    wrapInt bits i = i := by
  unfold wrapInt
  rw [two_pow_width]
  rw [Int.emod_eq_of_lt (by omega) (by omega)]
  omega

theorem wrapUint_id (bits n : Nat) (h : n < 2 ^ width bits) : wrapUint bits n = n :=
  Nat.mod_eq_of_lt h

/-! ### plain codec -/

/-- the plain codec's supported domain: booleans, integers of every Go width inside their range,
    strings and byte slices over all byte values. -/
def InPlainDomain : Val → Prop
  | .sc (.bool _) => True
  | .sc (.int bits i) => goodBits bits ∧ -(2 ^ (width bits - 1) : Int) ≤ i ∧ i < (2 ^ (width bits - 1) : Int)
  | .sc (.uint bits n) => goodBits bits ∧ n < 2 ^ width bits
  | .sc (.str _) => True
  | .sc (.bytes _) => True
  | _ => False

theorem plain_roundtrip (v d : Val) (hv : InPlainDomain v) (hd : d.sameTy v = true) :
    ∃ b, plainEncode v = some b ∧ plainDecode b (.ptr d) = .ok (.ptr v) := by
  cases v with
  | sc s =>
    cases d with
    | sc t =>
      simp only [Val.sameTy, beq_iff_eq] at hd
      cases s <;> cases t <;> simp only [Sc.kind, reduceCtorEq, Kind.int.injEq, Kind.uint.injEq] at hd
      · rename_i b b'
        exact ⟨_, rfl, by simp [plainDecode, parseProper, parseBool_fmtBool]⟩
      · rename_i bits i bits' i'
        subst hd
        obtain ⟨hg, hlo, hhi⟩ := hv
        refine ⟨_, rfl, ?_⟩
        have h64lo : -(2 ^ (width 64 - 1) : Int) ≤ i := by
          have : (2:Int) ^ (width bits' - 1) ≤ 2 ^ (width 64 - 1) := by
            rcases hg with h | h | h | h | h <;> subst h <;> decide
          omega
        have h64hi : i < (2 ^ (width 64 - 1) : Int) := by
          have : (2:Int) ^ (width bits' - 1) ≤ 2 ^ (width 64 - 1) := by
            rcases hg with h | h | h | h | h <;> subst h <;> decide
          omega
        simp [plainDecode, parseProper, parseInt_fmtInt 64 i (by decide) h64lo h64hi,
          wrapInt_id bits' i hlo hhi]
      · rename_i bits n bits' n'
        subst hd
        obtain ⟨hg, hn⟩ := hv
        refine ⟨_, rfl, ?_⟩
        have h64 : n < 2 ^ width 64 := Nat.lt_of_lt_of_le hn (by
          rcases hg with h | h | h | h | h <;> subst h <;> decide)
        simp [plainDecode, parseProper, parseUint_fmtUint 64 n (by decide) h64,
          wrapUint_id bits' n hn]
      · exact ⟨_, rfl, by simp [plainDecode, parseProper]⟩
      · exact ⟨_, rfl, by simp [plainDecode, parseProper]⟩
      · exact absurd hv (by simp [InPlainDomain])
    | _ => simp [Val.sameTy] at hd
  | _ => exact absurd hv (by simp [InPlainDomain])

theorem parseProper_sameTy (data : Bytes) (cur v : Val) (h : parseProper data cur = some v) :
    v.sameTy cur = true := by
  cases cur with
  | sc s =>
    cases s <;> simp only [parseProper, Option.map_eq_some_iff, Option.some.injEq, reduceCtorEq] at h
    · obtain ⟨_, _, rfl⟩ := h; simp [Val.sameTy, Sc.kind]
    · obtain ⟨_, _, rfl⟩ := h; simp [Val.sameTy, Sc.kind]
    · obtain ⟨_, _, rfl⟩ := h; simp [Val.sameTy, Sc.kind]
    · subst h; simp [Val.sameTy, Sc.kind]
    · subst h; simp [Val.sameTy, Sc.kind]
  | _ => simp [parseProper] at h

/-! ### net/url: escaping -/
open Bytes (forall_u8 hexUpper)

def escByteOK (c : UInt8) : Bool :=
  if urlUnres c then (c != 37 && c != 43)
  else if c == 32 then true
  else match unhex (hexUpper (c >>> 4)), unhex (hexUpper (c &&& 15)) with
    | some a, some b => (a <<< 4 ||| b) == c
    | _, _ => false

theorem escByteOK_all : ∀ c, escByteOK c = true := by
  apply forall_u8
  decide +kernel

theorem urlUnescape_plain (c : UInt8) (rest : Bytes) (h1 : c ≠ 37) (h2 : c ≠ 43) :
    urlUnescape (c :: rest) = (urlUnescape rest).map (c :: ·) := by
  conv => lhs; unfold urlUnescape
  simp [h1, h2]

theorem urlUnescape_plus (rest : Bytes) : urlUnescape (43 :: rest) = (urlUnescape rest).map (32 :: ·) := by
  conv => lhs; unfold urlUnescape
  simp

theorem urlUnescape_pct (h1 h2 a b : UInt8) (rest : Bytes) (e1 : unhex h1 = some a) (e2 : unhex h2 = some b) :
    urlUnescape (37 :: h1 :: h2 :: rest) = (urlUnescape rest).map ((a <<< 4 ||| b) :: ·) := by
  conv => lhs; unfold urlUnescape
  simp [e1, e2]

/-- `QueryUnescape(QueryEscape(s)) = s` for every byte string. -/
theorem urlUnescape_urlEscape (s : Bytes) : urlUnescape (urlEscape s) = some s := by
  induction s with
  | nil => simp [urlEscape, urlUnescape]
  | cons c cs ih =>
    have hb := escByteOK_all c
    unfold escByteOK at hb
    unfold urlEscape
    by_cases hu : urlUnres c = true
    · simp only [hu, if_true] at hb ⊢
      have h1 : c ≠ 37 := by intro h; simp [h] at hb
      have h2 : c ≠ 43 := by intro h; simp [h] at hb
      rw [urlUnescape_plain c _ h1 h2, ih]; rfl
    · simp only [hu, Bool.false_eq_true, if_false] at hb ⊢
      by_cases hs : (c == 32) = true
      · simp only [hs, if_true]
        rw [urlUnescape_plus, ih]
        have : c = 32 := by simpa using hs
        simp [this]
      · simp only [hs, Bool.false_eq_true, if_false] at hb ⊢
        split at hb
        · rename_i a b e1 e2
          rw [urlUnescape_pct _ _ a b _ e1 e2, ih]
          have : (a <<< 4 ||| b) = c := by simpa using hb
          simp [this]
        · simp at hb

def sepFree (x : UInt8) : Bool := x != 38 && x != 61 && x != 59

theorem sepFree_spec (x : UInt8) (h : sepFree x = true) : x ≠ 38 ∧ x ≠ 61 ∧ x ≠ 59 := by
  simp only [sepFree, Bool.and_eq_true, bne_iff_ne, ne_eq] at h
  exact ⟨h.1.1, h.1.2, h.2⟩

def escSepOK (c : UInt8) : Bool :=
  (if urlUnres c then sepFree c else true) && sepFree (hexUpper (c >>> 4)) && sepFree (hexUpper (c &&& 15))

theorem escSepOK_all : ∀ c, escSepOK c = true := by
  apply forall_u8
  decide +kernel

/-- the escaped form never contains `&`, `=` or `;`. -/
theorem urlEscape_no_sep (s : Bytes) : ∀ c ∈ urlEscape s, c ≠ 38 ∧ c ≠ 61 ∧ c ≠ 59 := by
  induction s with
  | nil => simp [urlEscape]
  | cons a as ih =>
    have hb := escSepOK_all a
    simp only [escSepOK, Bool.and_eq_true] at hb
    intro c hc
    unfold urlEscape at hc
    split at hc
    · rename_i hu
      rcases List.mem_cons.mp hc with h | h
      · subst h
        have := hb.1.1
        simp only [hu, if_true] at this
        exact sepFree_spec _ this
      · exact ih c h
    · split at hc
      · rcases List.mem_cons.mp hc with h | h
        · subst h; decide
        · exact ih c h
      · simp only [List.mem_cons] at hc
        rcases hc with h | h | h | h
        · subst h; decide
        · subst h; exact sepFree_spec _ hb.1.2
        · subst h; exact sepFree_spec _ hb.2
        · exact ih c h

/-! ### net/url: splitting -/

theorem splitAmps_noamp (s : Bytes) (h : ∀ c ∈ s, c ≠ 38) : splitAmps s = [s] := by
  induction s with
  | nil => rfl
  | cons a as ih =>
    have ha : a ≠ 38 := h a (by simp)
    have := ih (fun c hc => h c (by simp [hc]))
    simp [splitAmps, ha, this]

theorem splitAmps_amp (s r : Bytes) (h : ∀ c ∈ s, c ≠ 38) : splitAmps (s ++ 38 :: r) = s :: splitAmps r := by
  induction s with
  | nil => simp [splitAmps]
  | cons a as ih =>
    have ha : a ≠ 38 := h a (by simp)
    have := ih (fun c hc => h c (by simp [hc]))
    simp [splitAmps, ha, this]

theorem splitAmps_joinAmp (segs : List Bytes) (hne : segs ≠ []) (h : ∀ s ∈ segs, ∀ c ∈ s, c ≠ 38) :
    splitAmps (joinAmp segs) = segs := by
  induction segs with
  | nil => exact absurd rfl hne
  | cons s r ih =>
    cases r with
    | nil => simp only [joinAmp]; exact splitAmps_noamp s (h s (by simp))
    | cons s2 r2 =>
      simp only [joinAmp]
      rw [splitAmps_amp s _ (h s (by simp)), ih (by simp) (fun x hx => h x (by simp [hx]))]

theorem pairSeg_no_amp (k v : Bytes) : ∀ c ∈ pairSeg k v, c ≠ 38 := by
  intro c hc
  unfold pairSeg at hc
  rcases List.mem_append.mp hc with h | h
  · exact (urlEscape_no_sep k c h).1
  · rcases List.mem_cons.mp h with h | h
    · subst h; decide
    · exact (urlEscape_no_sep v c h).1

theorem pairSeg_no_semi (k v : Bytes) : (pairSeg k v).contains 59 = false := by
  rw [Bool.eq_false_iff]
  intro hc
  simp only [List.contains_iff_mem] at hc
  unfold pairSeg at hc
  rcases List.mem_append.mp hc with h | h
  · exact (urlEscape_no_sep k 59 h).2.2 rfl
  · rcases List.mem_cons.mp h with h | h
    · exact absurd h (by decide)
    · exact (urlEscape_no_sep v 59 h).2.2 rfl

/-- the parse loop over well-formed `key=value` segments appends the pairs in order. -/
theorem parseSegs_pairs (ps : List (Bytes × Bytes)) (m : Form) :
    parseSegs (ps.map fun p => pairSeg p.1 p.2) m = some (ps.foldl (fun m p => fappend m p.1 p.2) m) := by
  induction ps generalizing m with
  | nil => rfl
  | cons p r ih =>
    simp only [List.map_cons, parseSegs, pairSeg_no_semi, Bool.false_eq_true, if_false, List.foldl_cons]
    have hne : (pairSeg p.1 p.2).isEmpty = false := by simp [pairSeg]
    simp only [hne, Bool.false_eq_true, if_false]
    have hsp : Args.splitEq (pairSeg p.1 p.2) = (urlEscape p.1, some (urlEscape p.2)) :=
      Args.splitEq_eq _ _ (fun c hc => (urlEscape_no_sep p.1 c hc).2.1)
    simp only [hsp, Option.getD_some, urlUnescape_urlEscape]
    exact ih _

def allPairs (q : Form) : List (Bytes × Bytes) := q.flatMap entryPairs

/-- `ParseQuery(Values.Encode())` never fails and is the left fold of `append` over the encoded
    pairs in key order. -/
theorem parseQuery_urlEncode (q : Form) :
    parseQuery (urlEncode q) = some ((allPairs (sortKeys q)).foldl (fun m p => fappend m p.1 p.2) []) := by
  unfold parseQuery urlEncode
  cases hps : (sortKeys q).flatMap entryPairs with
  | nil => simp [allPairs, hps, joinAmp, splitAmps, parseSegs]
  | cons p r =>
    rw [splitAmps_joinAmp _ (by simp)]
    · rw [parseSegs_pairs]; simp [allPairs, hps]
    · intro s hs
      simp only [List.mem_map] at hs
      obtain ⟨x, _, rfl⟩ := hs
      exact pairSeg_no_amp _ _

/-! ### url.Values as an association list -/

theorem fget_fset (m : Form) (k j : Bytes) (vs : List Bytes) :
    fget (fset m k vs) j = if k = j then some vs else fget m j := by
  induction m with
  | nil => simp [fset, fget]
  | cons e r ih =>
    obtain ⟨k', vs'⟩ := e
    simp only [fset]
    by_cases h : k' = k
    · subst h
      by_cases hj : k' = j <;> simp [fget, hj]
    · simp only [h, if_false, fget, ih]
      have h' : ¬ k = k' := fun hh => h hh.symm
      by_cases hj : k' = j
      · subst hj; simp [h']
      · simp [hj]

/-- the values appended for key `j` by a list of pairs, in order. -/
def valsOf (j : Bytes) : List (Bytes × Bytes) → List Bytes
  | [] => []
  | p :: r => if p.1 = j then p.2 :: valsOf j r else valsOf j r

def nonEmpty (l : List Bytes) : Option (List Bytes) := if l = [] then none else some l

theorem fget_foldl_fappend (ps : List (Bytes × Bytes)) (m : Form) (j : Bytes) :
    fget (ps.foldl (fun m p => fappend m p.1 p.2) m) j =
      if valsOf j ps = [] then fget m j else some ((fget m j).getD [] ++ valsOf j ps) := by
  induction ps generalizing m with
  | nil => simp [valsOf]
  | cons p r ih =>
    simp only [List.foldl_cons]
    rw [ih]
    simp only [valsOf, fappend, fget_fset]
    by_cases hp : p.1 = j
    · subst hp
      by_cases hr : valsOf p.1 r = [] <;> simp [hr]
    · simp [hp]

/-- all values stored under key `j`, entry after entry. -/
def getAll (j : Bytes) : Form → List Bytes
  | [] => []
  | e :: r => (if e.1 = j then e.2 else []) ++ getAll j r

theorem valsOf_append (j : Bytes) (a b : List (Bytes × Bytes)) : valsOf j (a ++ b) = valsOf j a ++ valsOf j b := by
  induction a with
  | nil => rfl
  | cons p r ih => simp only [List.cons_append, valsOf]; split <;> simp [ih]

theorem valsOf_entryPairs (j : Bytes) (e : Bytes × List Bytes) :
    valsOf j (entryPairs e) = if e.1 = j then e.2 else [] := by
  obtain ⟨k, vs⟩ := e
  unfold entryPairs
  induction vs with
  | nil => simp [valsOf]
  | cons v r ih =>
    simp only [List.map_cons, valsOf]
    by_cases h : k = j
    · simp only [h, if_true] at ih ⊢; rw [ih]
    · simp only [h, if_false] at ih ⊢; exact ih

theorem valsOf_allPairs (j : Bytes) (q : Form) : valsOf j (allPairs q) = getAll j q := by
  induction q with
  | nil => rfl
  | cons e r ih =>
    simp only [allPairs, List.flatMap_cons, valsOf_append, valsOf_entryPairs, getAll]
    rw [← ih]; rfl

theorem ltB_irrefl (a : Bytes) : ltB a a = false := by
  induction a with
  | nil => rfl
  | cons x xs ih => simp [ltB, ih]

theorem getAll_insertKey (j : Bytes) (e : Bytes × List Bytes) (l : Form) :
    getAll j (insertKey e l) = (if e.1 = j then e.2 else []) ++ getAll j l := by
  induction l with
  | nil => rfl
  | cons x r ih =>
    simp only [insertKey]
    split
    · rename_i hlt
      simp only [getAll, ih]
      have hne : x.1 ≠ e.1 := by
        intro h; rw [h, ltB_irrefl] at hlt; exact absurd hlt (by decide)
      by_cases he : e.1 = j
      · have : x.1 ≠ j := by rw [← he]; exact hne
        simp [he, this]
      · simp [he]
    · rfl

theorem getAll_sortKeys (j : Bytes) (q : Form) : getAll j (sortKeys q) = getAll j q := by
  induction q with
  | nil => rfl
  | cons e r ih => simp only [sortKeys, getAll_insertKey, ih, getAll]

def keys (q : Form) : List Bytes := q.map (·.1)

theorem getAll_notin (j : Bytes) (q : Form) (h : j ∉ keys q) : getAll j q = [] := by
  induction q with
  | nil => rfl
  | cons e r ih =>
    simp only [keys, List.map_cons, List.mem_cons, not_or] at h
    have h1 : e.1 ≠ j := fun hh => h.1 hh.symm
    simp only [getAll, h1, if_false, List.nil_append]
    exact ih h.2

theorem getAll_nodup (j : Bytes) (q : Form) (h : (keys q).Nodup) : getAll j q = (fget q j).getD [] := by
  induction q with
  | nil => rfl
  | cons e r ih =>
    obtain ⟨k, vs⟩ := e
    simp only [keys, List.map_cons, List.nodup_cons] at h
    simp only [getAll, fget]
    by_cases hk : k = j
    · subst hk
      simp [getAll_notin k r h.1]
    · simp only [hk, if_false, List.nil_append]
      exact ih h.2

theorem keys_fset (q : Form) (k : Bytes) (vs : List Bytes) :
    keys (fset q k vs) = if k ∈ keys q then keys q else keys q ++ [k] := by
  induction q with
  | nil => simp [fset, keys]
  | cons e r ih =>
    obtain ⟨k', vs'⟩ := e
    simp only [fset]
    by_cases h : k' = k
    · subst h; simp [keys]
    · have h' : ¬ k = k' := fun hh => h hh.symm
      simp only [h, if_false]
      have e1 : keys ((k', vs') :: fset r k vs) = k' :: keys (fset r k vs) := rfl
      have e2 : keys ((k', vs') :: r) = k' :: keys r := rfl
      rw [e1, e2, ih]
      simp only [List.mem_cons, h', false_or]
      split <;> simp

theorem nodup_fset (q : Form) (k : Bytes) (vs : List Bytes) (h : (keys q).Nodup) : (keys (fset q k vs)).Nodup := by
  rw [keys_fset]
  split
  · exact h
  · rename_i hk
    rw [List.nodup_append]
    refine ⟨h, by simp, ?_⟩
    intro a ha b hb
    simp only [List.mem_singleton] at hb
    subst hb
    intro hab; subst hab; exact hk ha

theorem nodup_encStruct (v : Val) (q : Form) (h : (keys q).Nodup) : (keys (encStruct v q)).Nodup := by
  induction v generalizing q with
  | scons name tag st v rest ihv ihr =>
    simp only [encStruct]
    split
    · exact ihr _ (ihv _ h)
    · exact ihr _ (nodup_fset _ _ _ h)
  | _ => simpa [encStruct] using h

/-- **What a peer reads back from an encoded map**: the query string of any map with distinct
    keys parses without error, and every key reads back its values in order (keys whose value
    list is empty are not transmitted). -/
theorem parse_encode_get (q : Form) (h : (keys q).Nodup) :
    ∃ m, parseQuery (urlEncode q) = some m ∧ ∀ j, fget m j = nonEmpty ((fget q j).getD []) := by
  refine ⟨_, parseQuery_urlEncode q, ?_⟩
  intro j
  rw [fget_foldl_fappend, valsOf_allPairs, getAll_sortKeys, getAll_nodup j q h]
  simp only [fget, Option.getD_none, List.nil_append, nonEmpty]

/-! ### form codec: struct ↔ map -/

/-- the (key, field value) pairs of a struct after flattening untagged nested structs. -/
def leaves : Val → List (Bytes × Val)
  | .scons name tag _ v rest =>
    if tag.isEmpty && v.isStruct then leaves v ++ leaves rest else (fieldKey name tag, v) :: leaves rest
  | _ => []

def keysOf (v : Val) : List Bytes := (leaves v).map (·.1)

theorem enc_spec (v : Val) : ∀ q, (keysOf v).Nodup → (∀ k ∈ keysOf v, fget q k = none) →
    (∀ kv ∈ leaves v, fget (encStruct v q) kv.1 = some (fieldVals kv.2)) ∧
    (∀ j, j ∉ keysOf v → fget (encStruct v q) j = fget q j) := by
  induction v with
  | scons name tag st v rest ihv ihr =>
    intro q hnd hnone
    by_cases hc : (tag.isEmpty && v.isStruct) = true
    · have hl : leaves (.scons name tag st v rest) = leaves v ++ leaves rest := by simp [leaves, hc]
      have hk : keysOf (.scons name tag st v rest) = keysOf v ++ keysOf rest := by simp [keysOf, hl]
      have he : encStruct (.scons name tag st v rest) q = encStruct rest (encStruct v q) := by
        simp [encStruct, hc]
      rw [hk, List.nodup_append] at hnd
      obtain ⟨ndv, ndr, hdis⟩ := hnd
      obtain ⟨A1, A2⟩ := ihv q ndv (fun k hk' => hnone k (by rw [hk]; exact List.mem_append_left _ hk'))
      have hnr : ∀ k ∈ keysOf rest, fget (encStruct v q) k = none := by
        intro k hk'
        rw [A2 k (fun hin => hdis k hin k hk' rfl)]
        exact hnone k (by rw [hk]; exact List.mem_append_right _ hk')
      obtain ⟨B1, B2⟩ := ihr (encStruct v q) ndr hnr
      rw [he, hl, hk]
      constructor
      · intro kv hkv
        rcases List.mem_append.mp hkv with h | h
        · have hin : kv.1 ∈ keysOf v := List.mem_map.mpr ⟨kv, h, rfl⟩
          rw [B2 kv.1 (fun hin2 => hdis kv.1 hin kv.1 hin2 rfl)]
          exact A1 kv h
        · exact B1 kv h
      · intro j hj
        simp only [List.mem_append, not_or] at hj
        rw [B2 j hj.2, A2 j hj.1]
    · have hl : leaves (.scons name tag st v rest) = (fieldKey name tag, v) :: leaves rest := by simp [leaves, hc]
      have hk : keysOf (.scons name tag st v rest) = fieldKey name tag :: keysOf rest := by simp [keysOf, hl]
      have hq0 : fget q (fieldKey name tag) = none := hnone _ (by rw [hk]; simp)
      have he : encStruct (.scons name tag st v rest) q = encStruct rest (fset q (fieldKey name tag) (fieldVals v)) := by
        simp [encStruct, hc, hq0]
      rw [hk, List.nodup_cons] at hnd
      obtain ⟨hnotin, ndr⟩ := hnd
      have hnr : ∀ k ∈ keysOf rest, fget (fset q (fieldKey name tag) (fieldVals v)) k = none := by
        intro k hk'
        rw [fget_fset]
        have : fieldKey name tag ≠ k := fun hh => hnotin (hh ▸ hk')
        simp only [this, if_false]
        exact hnone k (by rw [hk]; exact List.mem_cons_of_mem _ hk')
      obtain ⟨B1, B2⟩ := ihr _ ndr hnr
      rw [he, hl, hk]
      constructor
      · intro kv hkv
        rcases List.mem_cons.mp hkv with h | h
        · subst h
          rw [B2 _ hnotin, fget_fset]; simp
        · exact B1 kv h
      · intro j hj
        simp only [List.mem_cons, not_or] at hj
        rw [B2 j hj.2, fget_fset]
        have : fieldKey name tag ≠ j := fun hh => hj.1 hh.symm
        simp [this]
  | _ => intro q _ _; simp [leaves, keysOf, encStruct]

/-- leaf values the form codec can carry as a field or as a slice/array element. -/
def ScDom : Sc → Prop
  | .bool _ => True
  | .int bits i => goodBits bits ∧ -(2 ^ (width bits - 1) : Int) ≤ i ∧ i < (2 ^ (width bits - 1) : Int)
  | .uint bits n => goodBits bits ∧ n < 2 ^ width bits
  | .str _ => True
  | .bytes _ => False
  | .other => False

theorem fmtInt_ne_nil (i : Int) : (fmtInt i).isEmpty = false := by
  unfold fmtInt formatInt
  split
  · rfl
  · exact fmtUint_ne_nil _

theorem setScalar_fmt (s : Sc) (h : ScDom s) :
    ∃ b, formatProper s = some b ∧ ∀ cur, setScalar s.kind b cur = .ok s := by
  cases s with
  | bool b =>
    refine ⟨_, rfl, fun cur => ?_⟩
    cases b <;> simp [Sc.kind, setScalar, fmtBool, sTrue, sFalse, parseBool]
  | int bits i =>
    obtain ⟨hg, hlo, hhi⟩ := h
    refine ⟨_, rfl, fun cur => ?_⟩
    simp [Sc.kind, setScalar, fmtInt_ne_nil, parseInt_fmtInt bits i (width_le bits hg) hlo hhi]
  | uint bits n =>
    obtain ⟨hg, hn⟩ := h
    refine ⟨_, rfl, fun cur => ?_⟩
    simp [Sc.kind, setScalar, fmtUint_ne_nil, parseUint_fmtUint bits n (width_le bits hg) hn]
  | str s => exact ⟨_, rfl, fun cur => rfl⟩
  | bytes b => exact absurd h (by simp [ScDom])
  | other => exact absurd h (by simp [ScDom])

theorem setSlice_fmt (ek : Kind) (l : List Sc) (h : ∀ s ∈ l, ScDom s ∧ s.kind = ek) :
    setSlice ek (l.filterMap formatProper) = .ok l := by
  induction l with
  | nil => rfl
  | cons s r ih =>
    obtain ⟨hd, hk⟩ := h s (by simp)
    obtain ⟨b, hb, hset⟩ := setScalar_fmt s hd
    rw [hk] at hset
    simp only [List.filterMap_cons, hb, setSlice, hset, ih (fun x hx => h x (by simp [hx])), Outcome.map]

theorem setArray_fmt (ek : Kind) (l slots : List Sc) (hlen : slots.length = l.length)
    (h : ∀ s ∈ l, ScDom s ∧ s.kind = ek) : setArray ek (l.filterMap formatProper) slots = .ok l := by
  induction l generalizing slots with
  | nil =>
    cases slots with
    | nil => rfl
    | cons _ _ => simp at hlen
  | cons s r ih =>
    cases slots with
    | nil => simp at hlen
    | cons c cs =>
      obtain ⟨hd, hk⟩ := h s (by simp)
      obtain ⟨b, hb, hset⟩ := setScalar_fmt s hd
      rw [hk] at hset
      simp only [List.length_cons, Nat.add_right_cancel_iff] at hlen
      simp only [List.filterMap_cons, hb, setArray, hset, ih cs hlen (fun x hx => h x (by simp [hx])), Outcome.map]

theorem filterMap_fmt_nil (l : List Sc) (h : ∀ s ∈ l, ScDom s) (he : l.filterMap formatProper = []) : l = [] := by
  cases l with
  | nil => rfl
  | cons s r =>
    obtain ⟨b, hb, _⟩ := setScalar_fmt s (h s (by simp))
    simp [hb] at he

theorem setSlice_bytes (b : Bytes) :
    setSlice (.uint 8) (b.map fun c => fmtUint c.toNat) = .ok (b.map fun c => Sc.uint 8 c.toNat) := by
  induction b with
  | nil => rfl
  | cons c cs ih =>
    have : c.toNat < 2 ^ width 8 := by have := c.toNat_lt; simpa [width] using this
    simp only [List.map_cons, setSlice, setScalar, fmtUint_ne_nil, Bool.false_eq_true, if_false,
      parseUint_fmtUint 8 c.toNat (by decide) this, ih, Outcome.map]

theorem map_scByte (b : Bytes) : (b.map fun c => Sc.uint 8 c.toNat).map scByte = b := by
  induction b with
  | nil => rfl
  | cons c cs ih => simp only [List.map_cons, ih, scByte]; simp

theorem map_scByte' (b : Bytes) : b.map (scByte ∘ fun c => Sc.uint 8 c.toNat) = b := by
  have := map_scByte b
  simpa [List.map_map] using this

/-- a (non-flattened) field the form codec supports. -/
def FieldOK : Val → Prop
  | .sc (.bytes _) => True
  | .sc s => ScDom s
  | .slice ek vs => ∀ s ∈ vs, ScDom s ∧ s.kind = ek
  | .array ek vs => ∀ s ∈ vs, ScDom s ∧ s.kind = ek
  | .snil => False
  | .scons .. => False

theorem zeroSc_kind (k : Kind) : (zeroSc k).kind = k := by cases k <;> rfl

theorem decField_rt (x : Val) (h : FieldOK x) (hne : fieldVals x ≠ []) :
    decField x.zero (fieldVals x) = .ok x := by
  cases x with
  | sc s =>
    cases s with
    | bytes b =>
      simp only [fieldVals] at hne ⊢
      cases hv : b.map (fun c => fmtUint c.toNat) with
      | nil => exact absurd hv hne
      | cons c cs =>
        simp only [Val.zero, Sc.kind, zeroSc, decField]
        rw [← hv, setSlice_bytes]
        simp [Outcome.map, map_scByte']
    | bool b =>
      obtain ⟨c, hc, hset⟩ := setScalar_fmt (.bool b) h
      simp [fieldVals, hc, Val.zero, Sc.kind, zeroSc, decField, Outcome.map] at hset ⊢
      simp [hset]
    | int bits i =>
      obtain ⟨c, hc, hset⟩ := setScalar_fmt (.int bits i) h
      simp [fieldVals, hc, Val.zero, Sc.kind, zeroSc, decField, Outcome.map] at hset ⊢
      simp [hset]
    | uint bits n =>
      obtain ⟨c, hc, hset⟩ := setScalar_fmt (.uint bits n) h
      simp [fieldVals, hc, Val.zero, Sc.kind, zeroSc, decField, Outcome.map] at hset ⊢
      simp [hset]
    | str t =>
      simp [fieldVals, formatProper, Val.zero, Sc.kind, zeroSc, decField, Outcome.map, setScalar]
    | other => exact absurd h (by simp [FieldOK, ScDom])
  | slice ek vs =>
    simp only [fieldVals] at hne ⊢
    cases hv : vs.filterMap formatProper with
    | nil => exact absurd hv hne
    | cons c cs =>
      simp only [Val.zero, decField]
      rw [← hv, setSlice_fmt ek _ h]
      simp [Outcome.map]
  | array ek vs =>
    simp only [fieldVals] at hne ⊢
    cases hv : vs.filterMap formatProper with
    | nil => exact absurd hv hne
    | cons c cs =>
      simp only [Val.zero, decField]
      rw [← hv, setArray_fmt ek _ _ (by simp) h]
      simp [Outcome.map]
  | snil => exact absurd h (by simp [FieldOK])
  | scons => exact absurd h (by simp [FieldOK])

/-- a supported field that contributes no value is its own zero value (empty slice / array /
    `[]byte`): the decoder, which skips absent keys, leaves exactly it. -/
theorem zero_eq_self (x : Val) (h : FieldOK x) (he : fieldVals x = []) : x.zero = x := by
  cases x with
  | sc s =>
    cases s with
    | bytes b =>
      simp only [fieldVals, List.map_eq_nil_iff] at he
      subst he; rfl
    | bool b => simp [fieldVals, formatProper] at he
    | int bits i => simp [fieldVals, formatProper] at he
    | uint bits n => simp [fieldVals, formatProper] at he
    | str t => simp [fieldVals, formatProper] at he
    | other => exact absurd h (by simp [FieldOK, ScDom])
  | slice ek vs =>
    have := filterMap_fmt_nil vs (fun s hs => (h s hs).1) he
    subst this; rfl
  | array ek vs =>
    have := filterMap_fmt_nil vs (fun s hs => (h s hs).1) he
    subst this; rfl
  | snil => exact absurd h (by simp [FieldOK])
  | scons => exact absurd h (by simp [FieldOK])

/-- a struct of the form codec's supported domain: every field exported; untagged nested structs
    again supported; every other field a supported leaf, slice or array. -/
def StructOK : Val → Prop
  | .scons _ tag st v rest =>
    st = true ∧ (if tag.isEmpty && v.isStruct then StructOK v else FieldOK v) ∧ StructOK rest
  | .snil => True
  | _ => False

theorem isStruct_zero (v : Val) : v.zero.isStruct = v.isStruct := by cases v <;> rfl

theorem dec_rt (v : Val) : ∀ form, StructOK v →
    (∀ kv ∈ leaves v, fget form kv.1 = nonEmpty (fieldVals kv.2)) →
    decStruct v.zero form = .ok v := by
  induction v with
  | scons name tag st v rest ihv ihr =>
    intro form hok hget
    obtain ⟨hst, hv, hrest⟩ := hok
    subst hst
    by_cases hc : (tag.isEmpty && v.isStruct) = true
    · simp only [hc, if_true] at hv
      have hl : leaves (.scons name tag true v rest) = leaves v ++ leaves rest := by simp [leaves, hc]
      rw [hl] at hget
      have h1 := ihv form hv (fun kv hkv => hget kv (List.mem_append_left _ hkv))
      have h2 := ihr form hrest (fun kv hkv => hget kv (List.mem_append_right _ hkv))
      simp [Val.zero, decStruct, isStruct_zero, hc, h1, h2, Outcome.map]
    · simp only [hc, Bool.false_eq_true, if_false] at hv
      have hl : leaves (.scons name tag true v rest) = (fieldKey name tag, v) :: leaves rest := by simp [leaves, hc]
      rw [hl] at hget
      have h0 := hget (fieldKey name tag, v) (by simp)
      have h2 := ihr form hrest (fun kv hkv => hget kv (List.mem_cons_of_mem _ hkv))
      simp only at h0
      by_cases he : fieldVals v = []
      · simp only [he, nonEmpty, if_true] at h0
        have hcz : (tag.isEmpty && v.zero.isStruct) = false := by rw [isStruct_zero]; simpa using hc
        have hz := zero_eq_self v hv he
        simp only [Val.zero, decStruct, hcz, h0, h2, Outcome.map, Bool.not_true, Bool.false_eq_true, if_false]
        simp only [hz]
      · simp only [nonEmpty, he, if_false] at h0
        simp [Val.zero, decStruct, isStruct_zero, hc, h0, h2, Outcome.map, decField_rt v hv he]
  | snil => intro form _ _; rfl
  | _ => intro form hok; exact absurd hok (by simp [StructOK])

/-- the form codec's supported domain. -/
def InFormDomain (v : Val) : Prop := v.isStruct = true ∧ StructOK v ∧ (keysOf v).Nodup

/-- the form codec round-trips its whole domain: decoding the encoding into a fresh value of the
    same type gives back the value, every slice / array / `[]byte` in its original order. -/
theorem form_roundtrip (v : Val) (h : InFormDomain v) :
    ∃ b, formEncode v = some b ∧ formDecode b (.ptr v.zero) = .ok (.ptr v) := by
  obtain ⟨hs, hok, hnd⟩ := h
  refine ⟨urlEncode (encStruct v []), by simp [formEncode, formMarshal, hs], ?_⟩
  obtain ⟨m, hm, hget⟩ := parse_encode_get (encStruct v []) (nodup_encStruct v [] (by simp [keys]))
  obtain ⟨A1, _⟩ := enc_spec v [] hnd (fun _ _ => rfl)
  have hd := dec_rt v m hok (fun kv hkv => by rw [hget, A1 kv hkv]; rfl)
  simp [formDecode, hm, isStruct_zero, hs, hd, Outcome.map]

/-! ### form codec: when decoding panics -/

theorem setScalar_ne_panic (k : Kind) (x : Bytes) (cur : Sc) : setScalar k x cur ≠ .panic := by
  unfold setScalar
  cases k <;> simp only <;> (try split) <;> simp

theorem map_eq_panic {α β : Type} (f : α → β) (o : Outcome α) : o.map f = .panic ↔ o = .panic := by
  cases o <;> simp [Outcome.map]

theorem setSlice_ne_panic (ek : Kind) (vals : List Bytes) : setSlice ek vals ≠ .panic := by
  induction vals with
  | nil => simp [setSlice]
  | cons x xs ih =>
    simp only [setSlice]
    cases h : setScalar ek x (zeroSc ek) with
    | ok s => simp only; rw [Ne, map_eq_panic]; exact ih
    | err => simp
    | panic => exact absurd h (setScalar_ne_panic _ _ _)

/-- **Exactly when the array arm panics**: there are more values than slots and every value that
    still has a slot is accepted by `setWithProperType` (an earlier bad value returns its error
    first). -/
theorem setArray_panic_iff (ek : Kind) (vals : List Bytes) : ∀ slots : List Sc,
    setArray ek vals slots = .panic ↔
      (slots.length < vals.length ∧ ∀ p ∈ vals.zip slots, ∃ s', setScalar ek p.1 p.2 = .ok s') := by
  induction vals with
  | nil => intro slots; simp [setArray]
  | cons x xs ih =>
    intro slots
    cases slots with
    | nil => simp [setArray]
    | cons s ss =>
      simp only [setArray, List.length_cons, List.zip_cons_cons, List.mem_cons, forall_eq_or_imp]
      cases h : setScalar ek x s with
      | ok s' =>
        simp only [map_eq_panic, ih ss]
        constructor
        · rintro ⟨h1, h2⟩; exact ⟨by omega, ⟨s', rfl⟩, h2⟩
        · rintro ⟨h1, _, h2⟩; exact ⟨by omega, h2⟩
      | err => simp
      | panic => exact absurd h (setScalar_ne_panic _ _ _)

theorem decField_panic (x : Val) (c : Bytes) (cs : List Bytes) (h : decField x (c :: cs) = .panic) :
    ∃ ek slots, x = .array ek slots ∧ setArray ek (c :: cs) slots = .panic := by
  cases x with
  | sc s =>
    cases s <;> simp only [decField, map_eq_panic] at h
    all_goals first
      | exact absurd h (setScalar_ne_panic _ _ _)
      | exact absurd h (setSlice_ne_panic _ _)
  | slice ek vs =>
    simp only [decField, map_eq_panic] at h
    exact absurd h (setSlice_ne_panic _ _)
  | array ek slots =>
    simp only [decField, map_eq_panic] at h
    exact ⟨ek, slots, rfl, h⟩
  | snil => simp [decField] at h
  | scons => simp [decField] at h

/-- every value list of the map is non-empty (what `ParseQuery` guarantees). -/
def ValsNE (m : Form) : Prop := ∀ k vs, fget m k = some vs → vs ≠ []

theorem valsNE_fappend (m : Form) (k v : Bytes) (h : ValsNE m) : ValsNE (fappend m k v) := by
  intro j vs hj
  unfold fappend at hj
  rw [fget_fset] at hj
  split at hj
  · cases hj; simp
  · exact h j vs hj

theorem parseSegs_valsNE (segs : List Bytes) : ∀ m m', ValsNE m → parseSegs segs m = some m' → ValsNE m' := by
  induction segs with
  | nil => intro m m' hm h; simp only [parseSegs, Option.some.injEq] at h; exact h ▸ hm
  | cons seg r ih =>
    intro m m' hm h
    simp only [parseSegs] at h
    split at h
    · cases h
    · split at h
      · exact ih m m' hm h
      · split at h
        · exact ih _ m' (valsNE_fappend _ _ _ hm) h
        · cases h

theorem parseQuery_valsNE (data : Bytes) (m : Form) (h : parseQuery data = some m) : ValsNE m :=
  parseSegs_valsNE _ [] m (by intro k vs hk; simp [fget] at hk) h

/-- the fields `mapFormToStruct` reaches: exported, after flattening. -/
def sleaves : Val → List (Bytes × Val)
  | .scons name tag st v rest =>
    if !st then sleaves rest
    else if tag.isEmpty && v.isStruct then sleaves v ++ sleaves rest
    else (fieldKey name tag, v) :: sleaves rest
  | _ => []

theorem decStruct_panic (v : Val) : ∀ form, ValsNE form → decStruct v form = .panic →
    ∃ k ek slots vals, (k, Val.array ek slots) ∈ sleaves v ∧ fget form k = some vals ∧
      setArray ek vals slots = .panic := by
  induction v with
  | scons name tag st v rest ihv ihr =>
    intro form hne h
    simp only [decStruct] at h
    by_cases hst : st = true
    · subst hst
      simp only [Bool.not_true, Bool.false_eq_true, if_false] at h
      by_cases hc : (tag.isEmpty && v.isStruct) = true
      · simp only [hc, if_true] at h
        have hs : sleaves (.scons name tag true v rest) = sleaves v ++ sleaves rest := by simp [sleaves, hc]
        rw [hs]
        cases hd : decStruct v form with
        | ok v' =>
          simp only [hd, map_eq_panic] at h
          obtain ⟨k, ek, sl, vals, hm, hg, hp⟩ := ihr form hne h
          exact ⟨k, ek, sl, vals, List.mem_append_right _ hm, hg, hp⟩
        | err => simp [hd] at h
        | panic =>
          obtain ⟨k, ek, sl, vals, hm, hg, hp⟩ := ihv form hne hd
          exact ⟨k, ek, sl, vals, List.mem_append_left _ hm, hg, hp⟩
      · simp only [hc, Bool.false_eq_true, if_false] at h
        have hs : sleaves (.scons name tag true v rest) = (fieldKey name tag, v) :: sleaves rest := by
          simp [sleaves, hc]
        rw [hs]
        cases hg : fget form (fieldKey name tag) with
        | none =>
          simp only [hg, map_eq_panic] at h
          obtain ⟨k, ek, sl, vals, hm, hg', hp⟩ := ihr form hne h
          exact ⟨k, ek, sl, vals, List.mem_cons_of_mem _ hm, hg', hp⟩
        | some vals =>
          simp only [hg] at h
          cases hd : decField v vals with
          | ok v' =>
            simp only [hd, map_eq_panic] at h
            obtain ⟨k, ek, sl, vals', hm, hg', hp⟩ := ihr form hne h
            exact ⟨k, ek, sl, vals', List.mem_cons_of_mem _ hm, hg', hp⟩
          | err => simp [hd] at h
          | panic =>
            cases vals with
            | nil => exact absurd rfl (hne _ _ hg)
            | cons c cs =>
              obtain ⟨ek, sl, hx, hp⟩ := decField_panic v c cs hd
              subst hx
              exact ⟨_, ek, sl, c :: cs, by simp, hg, hp⟩
    · have hst' : st = false := by simpa using hst
      subst hst'
      simp only [Bool.not_false, if_true, map_eq_panic] at h
      have hs : sleaves (.scons name tag false v rest) = sleaves rest := by simp [sleaves]
      rw [hs]
      exact ihr form hne h
  | _ => intro form _ h; simp [decStruct] at h

theorem formDecode_panic (data : Bytes) (d : FDest) (h : formDecode data d = .panic) :
    ∃ cur form k ek slots vals, d = .ptr cur ∧ parseQuery data = some form ∧
      (k, Val.array ek slots) ∈ sleaves cur ∧ fget form k = some vals ∧ setArray ek vals slots = .panic := by
  unfold formDecode at h
  cases hp : parseQuery data with
  | none => simp [hp] at h
  | some form =>
    simp only [hp] at h
    cases d with
    | nilIface => simp at h
    | values q => simp at h
    | ptr cur =>
      simp only at h
      split at h
      · rw [map_eq_panic] at h
        obtain ⟨k, ek, sl, vals, hm, hg, hpn⟩ := decStruct_panic cur form (parseQuery_valsNE data form hp) h
        exact ⟨cur, form, k, ek, sl, vals, rfl, rfl, hm, hg, hpn⟩
      · cases h

/-! ### form codec: a decode stays inside the destination's type -/

theorem map_eq_ok {α β : Type} (f : α → β) (o : Outcome α) (b : β) (h : o.map f = .ok b) :
    ∃ a, o = .ok a ∧ f a = b := by
  cases o <;> simp [Outcome.map] at h
  exact ⟨_, rfl, h⟩

theorem setScalar_kind (k : Kind) (x : Bytes) (cur s' : Sc) (hk : cur.kind = k)
    (h : setScalar k x cur = .ok s') : s'.kind = k := by
  unfold setScalar at h
  cases k <;> simp only at h
  · split at h
    · cases h; rfl
    · cases h; exact hk
  · split at h
    · cases h; rfl
    · cases h
  · split at h
    · cases h; rfl
    · cases h
  · cases h; rfl
  · cases h
  · cases h

theorem setArray_length (ek : Kind) (vals : List Bytes) : ∀ slots r, setArray ek vals slots = .ok r →
    r.length = slots.length := by
  induction vals with
  | nil => intro slots r h; simp only [setArray, Outcome.ok.injEq] at h; rw [h]
  | cons x xs ih =>
    intro slots r h
    cases slots with
    | nil => simp [setArray] at h
    | cons s ss =>
      simp only [setArray] at h
      cases hs : setScalar ek x s with
      | ok s' =>
        simp only [hs] at h
        obtain ⟨a, ha, hr⟩ := map_eq_ok _ _ _ h
        subst hr
        simp [ih ss a ha]
      | err => simp [hs] at h
      | panic => simp [hs] at h

theorem decField_sameTy (x x' : Val) (vals : List Bytes) (h : decField x vals = .ok x') :
    x'.sameTy x = true := by
  cases vals with
  | nil => cases x <;> (try rename_i s; cases s) <;> simp [decField] at h
  | cons c cs =>
    cases x with
    | sc s =>
      cases s <;> simp only [decField] at h
      all_goals
        obtain ⟨a, ha, hr⟩ := map_eq_ok _ _ _ h
        subst hr
      · simp [Val.sameTy, setScalar_kind _ _ _ _ rfl ha]
      · simp [Val.sameTy, setScalar_kind _ _ _ _ rfl ha]
      · simp [Val.sameTy, setScalar_kind _ _ _ _ rfl ha]
      · simp [Val.sameTy, setScalar_kind _ _ _ _ rfl ha]
      · simp [Val.sameTy, Sc.kind]
      · simp [Val.sameTy, setScalar_kind _ _ _ _ rfl ha]
    | slice ek vs =>
      simp only [decField] at h
      obtain ⟨a, _, hr⟩ := map_eq_ok _ _ _ h
      subst hr; simp [Val.sameTy]
    | array ek slots =>
      simp only [decField] at h
      obtain ⟨a, ha, hr⟩ := map_eq_ok _ _ _ h
      subst hr; simp [Val.sameTy, setArray_length ek _ _ _ ha]
    | snil => simp [decField] at h
    | scons => simp [decField] at h

theorem sameTy_refl (v : Val) : v.sameTy v = true := by
  induction v with
  | scons n t s v r ihv ihr => simp [Val.sameTy, ihv, ihr]
  | _ => simp [Val.sameTy]

/-- a successful `mapFormToStruct` leaves a value of exactly the destination's type: same fields,
    tags, element kinds and array lengths — nothing outside the destination is produced. -/
theorem decStruct_sameTy (v : Val) : ∀ form v', decStruct v form = .ok v' → v'.sameTy v = true := by
  induction v with
  | scons name tag st v rest ihv ihr =>
    intro form v' h
    simp only [decStruct] at h
    split at h
    · obtain ⟨a, ha, hr⟩ := map_eq_ok _ _ _ h
      subst hr; simp [Val.sameTy, sameTy_refl, ihr form a ha]
    · split at h
      · cases hd : decStruct v form with
        | ok w =>
          simp only [hd] at h
          obtain ⟨a, ha, hr⟩ := map_eq_ok _ _ _ h
          subst hr; simp [Val.sameTy, ihv form w hd, ihr form a ha]
        | err => simp [hd] at h
        | panic => simp [hd] at h
      · cases hg : fget form (fieldKey name tag) with
        | none =>
          simp only [hg] at h
          obtain ⟨a, ha, hr⟩ := map_eq_ok _ _ _ h
          subst hr; simp [Val.sameTy, sameTy_refl, ihr form a ha]
        | some vals =>
          simp only [hg] at h
          cases hd : decField v vals with
          | ok w =>
            simp only [hd] at h
            obtain ⟨a, ha, hr⟩ := map_eq_ok _ _ _ h
            subst hr; simp [Val.sameTy, decField_sameTy v w vals hd, ihr form a ha]
          | err => simp [hd] at h
          | panic => simp [hd] at h
  | _ => intro form v' h; simp only [decStruct, Outcome.ok.injEq] at h; subst h; exact sameTy_refl _

end Codec
end Teleport
