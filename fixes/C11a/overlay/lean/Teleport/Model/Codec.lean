/-
Model/Codec — the body codecs of `/repo/codec`:

* `plain_codec.go`  (`PlainCodec.Marshal/Unmarshal`, `formatProperType`, `parseProperType`)  — in full
* `form_codec.go`   (`FormCodec.Marshal/Unmarshal`, `setStructToForm`, `mapFormToStruct`,
                     `setWithProperType`, `set{Int,Uint,Bool}Field`) — in full, together with the
                     part of `net/url` it relies on (`Values.Encode`, `ParseQuery`, `QueryEscape`,
                     `QueryUnescape`) and of `strconv` (`ParseInt/ParseUint/ParseBool`, base 10)
* `json/xml/protobuf/thrift_codec.go` — only the wrapper switch around an abstract library pair
* `codec.go` registry, and `socket/message.go` `MarshalBody/UnmarshalBody`.

The model is *as coded*: the form codec appends slice/array elements first to last
(`for i := 0; i < Len(); i++`), `setBoolField` swallows its parse error, `structField.Index(i)`
is not guarded (explicit `panic` outcome), narrow integers wrap in the plain codec
(`ParseInt(s,10,64)` then `SetInt`).  Floats, pointers, maps, `time.Time` fields are outside the
value universe (`Sc.other` stands for a value of a kind the two codecs do not understand).
Core Lean only.
-/
import Teleport.Model.Num
import Teleport.Model.Args
namespace Teleport
namespace Codec
open Num

/-- result of a Go call that may return an error or panic. -/
inductive Outcome (α : Type) where
  | ok (a : α)
  | err
  | panic
  deriving DecidableEq, Repr

def Outcome.map {α β : Type} (f : α → β) : Outcome α → Outcome β
  | .ok a => .ok (f a)
  | .err => .err
  | .panic => .panic

def Outcome.bind {α β : Type} (o : Outcome α) (f : α → Outcome β) : Outcome β :=
  match o with
  | .ok a => f a
  | .err => .err
  | .panic => .panic

/-! ## strconv (base 10) -/

/-- Go bit size of `intN`/`uintN`; `0` is `int`/`uint` (64 bit on the platforms the check runs on). -/
def width (bits : Nat) : Nat := if bits = 0 then 64 else bits

/-- `strconv.FormatUint(n, 10)` -/
def fmtUint (n : Nat) : Bytes := formatNat 8 n
/-- `strconv.FormatInt(i, 10)` -/
def fmtInt (i : Int) : Bytes := formatInt 8 i

/-- `strconv.ParseUint(s, 10, bits)`; `none` = any error (syntax or range). -/
def parseUint (bits : Nat) (s : Bytes) : Option Nat :=
  if s.isEmpty then none else
  match parseDigits 10 s 0 with
  | some n => if n < 2 ^ width bits then some n else none
  | none => none

/-- `strconv.ParseInt(s, 10, bits)`; `none` = any error. -/
def parseInt (bits : Nat) (s : Bytes) : Option Int :=
  match s with
  | [] => none
  | c :: cs =>
    let ds := if c == 43 || c == 45 then cs else s
    if ds.isEmpty then none else
    match parseDigits 10 ds 0 with
    | none => none
    | some un =>
      if c == 45 then (if un ≤ 2 ^ (width bits - 1) then some (-(un : Int)) else none)
      else (if un < 2 ^ (width bits - 1) then some (un : Int) else none)

def sTrue : Bytes := [116, 114, 117, 101]
def sFalse : Bytes := [102, 97, 108, 115, 101]

/-- `strconv.FormatBool` -/
def fmtBool (b : Bool) : Bytes := if b then sTrue else sFalse

/-- `strconv.ParseBool`: "1","t","T","TRUE","true","True" / "0","f","F","FALSE","false","False". -/
def parseBool (s : Bytes) : Option Bool :=
  if s = [49] ∨ s = [116] ∨ s = [84] ∨ s = [84, 82, 85, 69] ∨ s = sTrue ∨ s = [84, 114, 117, 101] then some true
  else if s = [48] ∨ s = [102] ∨ s = [70] ∨ s = [70, 65, 76, 83, 69] ∨ s = sFalse ∨ s = [70, 97, 108, 115, 101] then some false
  else none

/-- `reflect.Value.SetInt` on an N-bit field: two's-complement truncation. -/
def wrapInt (bits : Nat) (i : Int) : Int :=
  (i + 2 ^ (width bits - 1)) % 2 ^ width bits - 2 ^ (width bits - 1)

/-- `reflect.Value.SetUint` on an N-bit field. -/
def wrapUint (bits : Nat) (n : Nat) : Nat := n % 2 ^ width bits

/-! ## the reflective value universe -/

/-- `reflect.Kind` as far as the codecs distinguish it. `bytes` = slice of uint8,
    `other` = every kind neither codec understands (map, chan, func, struct as element, …). -/
inductive Kind where
  | bool
  | int (bits : Nat)
  | uint (bits : Nat)
  | str
  | bytes
  | other
  deriving DecidableEq, Repr

/-- leaf values: what `formatProperType` / `setWithProperType` may be applied to. -/
inductive Sc where
  | bool (b : Bool)
  | int (bits : Nat) (i : Int)
  | uint (bits : Nat) (n : Nat)
  | str (s : Bytes)
  | bytes (b : Bytes)
  | other
  deriving DecidableEq, Repr

def Sc.kind : Sc → Kind
  | .bool _ => .bool
  | .int b _ => .int b
  | .uint b _ => .uint b
  | .str _ => .str
  | .bytes _ => .bytes
  | .other => .other

/-- `reflect.Zero` of a leaf kind. -/
def zeroSc : Kind → Sc
  | .bool => .bool false
  | .int b => .int b 0
  | .uint b => .uint b 0
  | .str => .str []
  | .bytes => .bytes []
  | .other => .other

/-- Go values with their (structural) type. A struct is the chain `scons f₁ (scons f₂ … snil)`;
    a field carries its Go name, its `form` tag (empty = none) and whether `CanSet` holds
    (exported). Slice and array elements are leaves of the element kind `ek`. -/
inductive Val where
  | sc (s : Sc)
  | slice (ek : Kind) (vs : List Sc)
  | array (ek : Kind) (vs : List Sc)
  | snil
  | scons (name tag : Bytes) (settable : Bool) (v : Val) (rest : Val)
  deriving DecidableEq, Repr

def Val.isStruct : Val → Bool
  | .snil => true
  | .scons .. => true
  | _ => false

/-- the zero value of the same type (`new(T)` elem): slices nil, arrays of zero elements. -/
def Val.zero : Val → Val
  | .sc s => .sc (zeroSc s.kind)
  | .slice ek _ => .slice ek []
  | .array ek vs => .array ek (vs.map fun _ => zeroSc ek)
  | .snil => .snil
  | .scons n t s v r => .scons n t s v.zero r.zero

/-- same Go type (element kinds, array lengths, field names, tags and order). -/
def Val.sameTy : Val → Val → Bool
  | .sc a, .sc b => a.kind == b.kind
  | .slice k _, .slice k' _ => k == k'
  | .array k vs, .array k' vs' => k == k' && vs.length == vs'.length
  | .snil, .snil => true
  | .scons n t s v r, .scons n' t' s' v' r' => n == n' && t == t' && s == s' && v.sameTy v' && r.sameTy r'
  | _, _ => false

/-! ## plain codec -/

/-- `formatProperType` on a leaf (after the pointer loop). `none` = `("", false)`. -/
def formatProper : Sc → Option Bytes
  | .bool b => some (fmtBool b)
  | .int _ i => some (fmtInt i)
  | .uint _ n => some (fmtUint n)
  | .str s => some s
  | .bytes b => some b
  | .other => none

/-- `formatProperType` on any value: slices of non-bytes, arrays and structs are refused. -/
def formatVal : Val → Option Bytes
  | .sc s => formatProper s
  | _ => none

/-- `PlainCodec.Marshal(v)`; `none` as argument = the nil interface, `none` as result = error.
    (`string`, `*string`, `[]byte`, `*[]byte` arms give the same bytes as `formatProperType`.) -/
def plainMarshal : Option Val → Option Bytes
  | none => some []
  | some v => formatVal v

def plainEncode (v : Val) : Option Bytes := plainMarshal (some v)

/-- the `v interface{}` argument of `Unmarshal` as the plain codec sees it. -/
inductive PDest where
  /-- `Unmarshal(data, nil)` -/
  | nilIface
  /-- non-nil pointer (of any depth) to a settable value with current contents `cur` -/
  | ptr (cur : Val)
  /-- a non-pointer value: only a `[]byte` is written (`copy(s, data)`); `named` = its type is a
      defined type such as `type B []byte`, which the type switch does not match -/
  | byVal (cur : Val) (named : Bool)
  /-- typed nil pointer to a value of kind `k`; `named` = not literally `*string` / `*[]byte` -/
  | nilPtr (k : Kind) (named : Bool)
  deriving DecidableEq, Repr

/-- `parseProperType(data, v)` for a settable `v` with current contents `cur`. -/
def parseProper (data : Bytes) : Val → Option Val
  | .sc (.str _) => some (.sc (.str data))
  | .sc (.bytes _) => some (.sc (.bytes data))
  | .sc (.bool _) => (parseBool data).map fun b => .sc (.bool b)
  | .sc (.int bits _) => (parseInt 64 data).map fun i => .sc (.int bits (wrapInt bits i))
  | .sc (.uint bits _) => (parseUint 64 data).map fun n => .sc (.uint bits (wrapUint bits n))
  | _ => none

/-- `PlainCodec.Unmarshal(data, v)`: the new state of the destination. -/
def plainDecode (data : Bytes) : PDest → Outcome PDest
  | .nilIface => .ok .nilIface
  | .ptr cur =>
    match parseProper data cur with
    | some v => .ok (.ptr v)
    | none => .err
  | .byVal (.sc (.bytes cur)) false =>
    .ok (.byVal (.sc (.bytes (data.take cur.length ++ cur.drop data.length))) false)
  | .byVal _ _ => .err                -- reflect path: a non-pointer is not settable
  | .nilPtr .str false => .panic    -- `*s = string(data)` with s == nil
  | .nilPtr .bytes false => .panic  -- `cap(*s)` with s == nil
  | .nilPtr _ _ => .err             -- reflect path: Elem of nil pointer is invalid, CanSet false

/-! ## net/url -/

/-- `url.Values` / `map[string][]string`: association list with first-match lookup. -/
abbrev Form := List (Bytes × List Bytes)

def fget : Form → Bytes → Option (List Bytes)
  | [], _ => none
  | (k', vs) :: r, k => if k' = k then some vs else fget r k

def fset : Form → Bytes → List Bytes → Form
  | [], k, vs => [(k, vs)]
  | (k', vs') :: r, k, vs => if k' = k then (k, vs) :: r else (k', vs') :: fset r k vs

/-- Go string `<` : lexicographic on bytes. -/
def ltB : Bytes → Bytes → Bool
  | _, [] => false
  | [], _ :: _ => true
  | a :: as, b :: bs => a < b || (a == b && ltB as bs)

def insertKey (e : Bytes × List Bytes) : Form → Form
  | [] => [e]
  | x :: r => if ltB x.1 e.1 then x :: insertKey e r else e :: x :: r

/-- `sort.Strings(keys)` -/
def sortKeys : Form → Form
  | [] => []
  | e :: r => insertKey e (sortKeys r)

/-- `shouldEscape(c, encodeQueryComponent) == false` : alphanumerics and `-_.~`. -/
def urlUnres (c : UInt8) : Bool :=
  (97 ≤ c && c ≤ 122) || (65 ≤ c && c ≤ 90) || (48 ≤ c && c ≤ 57) ||
  c == 45 || c == 95 || c == 46 || c == 126

/-- `url.QueryEscape` -/
def urlEscape : Bytes → Bytes
  | [] => []
  | c :: cs =>
    if urlUnres c then c :: urlEscape cs
    else if c == 32 then 43 :: urlEscape cs
    else 37 :: Bytes.hexUpper (c >>> 4) :: Bytes.hexUpper (c &&& 15) :: urlEscape cs

/-- `ishex` / `unhex` -/
def unhex (c : UInt8) : Option UInt8 :=
  if 48 ≤ c && c ≤ 57 then some (c - 48)
  else if 97 ≤ c && c ≤ 102 then some (c - 97 + 10)
  else if 65 ≤ c && c ≤ 70 then some (c - 65 + 10)
  else none

/-- `url.QueryUnescape`; `none` = `EscapeError`. -/
def urlUnescape : Bytes → Option Bytes
  | [] => some []
  | c :: rest =>
    if c == 37 then
      match rest with
      | h1 :: h2 :: rest' =>
        match unhex h1, unhex h2 with
        | some a, some b => (urlUnescape rest').map ((a <<< 4 ||| b) :: ·)
        | _, _ => none
      | _ => none
    else if c == 43 then (urlUnescape rest).map (32 :: ·)
    else (urlUnescape rest).map (c :: ·)

def joinAmp : List Bytes → Bytes
  | [] => []
  | [s] => s
  | s :: r => s ++ 38 :: joinAmp r

/-- split at every `&` (always at least one segment). -/
def splitAmps : Bytes → List Bytes
  | [] => [[]]
  | c :: cs =>
    if c == 38 then [] :: splitAmps cs
    else match splitAmps cs with
      | [] => [[c]]
      | s :: r => (c :: s) :: r

def pairSeg (k v : Bytes) : Bytes := urlEscape k ++ 61 :: urlEscape v

def entryPairs (e : Bytes × List Bytes) : List (Bytes × Bytes) := e.2.map fun v => (e.1, v)

/-- `url.Values.Encode()` -/
def urlEncode (q : Form) : Bytes :=
  joinAmp (((sortKeys q).flatMap entryPairs).map fun p => pairSeg p.1 p.2)

/-- `m[key] = append(m[key], value)` -/
def fappend (m : Form) (k v : Bytes) : Form := fset m k ((fget m k).getD [] ++ [v])

/-- the loop of `url.parseQuery` over the `&`-separated segments. `none` = a non-nil error is
    returned (the form codec then discards the map). -/
def parseSegs : List Bytes → Form → Option Form
  | [], m => some m
  | seg :: r, m =>
    if seg.contains 59 then none            -- "invalid semicolon separator in query"
    else if seg.isEmpty then parseSegs r m
    else
      match urlUnescape (Args.splitEq seg).1, urlUnescape ((Args.splitEq seg).2.getD []) with
      | some k, some v => parseSegs r (fappend m k v)
      | _, _ => none

/-- `url.ParseQuery` -/
def parseQuery (s : Bytes) : Option Form := parseSegs (splitAmps s) []

/-! ## form codec -/

/-- what `setStructToForm` appends for one (non-flattened) field: a slice or array contributes
    its elements in index order, first to last; a `[]byte` field is a slice of `uint8`;
    a tagged nested struct is refused by `formatProperType` and contributes nothing. -/
def fieldVals : Val → List Bytes
  | .sc (.bytes b) => b.map fun c => fmtUint c.toNat
  | .sc s => (formatProper s).toList
  | .slice _ vs => vs.filterMap formatProper
  | .array _ vs => vs.filterMap formatProper
  | .snil => []
  | .scons .. => []

/-- the map key of a field: its `form` tag, else its Go name. -/
def fieldKey (name tag : Bytes) : Bytes := if tag.isEmpty then name else tag

/-- `setStructToForm(q, val)` -/
def encStruct : Val → Form → Form
  | .scons name tag _ v rest, q =>
    if tag.isEmpty && v.isStruct then encStruct rest (encStruct v q)
    else encStruct rest (fset q (fieldKey name tag) ((fget q (fieldKey name tag)).getD [] ++ fieldVals v))
  | _, q => q

/-- argument of `FormCodec.Marshal`. -/
inductive FArg where
  | nilIface
  /-- `url.Values`, `map[string][]string` or pointers to them -/
  | values (q : Form)
  /-- anything else, after the pointer loop -/
  | val (v : Val)
  deriving DecidableEq, Repr

/-- `FormCodec.Marshal`; `none` = error. -/
def formMarshal : FArg → Option Bytes
  | .nilIface => some []
  | .values q => some (urlEncode q)
  | .val v => if v.isStruct then some (urlEncode (encStruct v [])) else none

def formEncode (v : Val) : Option Bytes := formMarshal (.val v)

def sZero : Bytes := [48]

/-- `setWithProperType(kind, val, field)` on a leaf with current contents `cur`. -/
def setScalar (k : Kind) (s : Bytes) (cur : Sc) : Outcome Sc :=
  match k with
  | .int bits =>
    match parseInt bits (if s.isEmpty then sZero else s) with
    | some i => .ok (.int bits i)
    | none => .err
  | .uint bits =>
    match parseUint bits (if s.isEmpty then sZero else s) with
    | some n => .ok (.uint bits n)
    | none => .err
  | .bool =>
    match parseBool (if s.isEmpty then sFalse else s) with
    | some b => .ok (.bool b)
    | none => .ok cur                 -- `setBoolField` returns nil whatever ParseBool said
  | .str => .ok (.str s)
  | .bytes => .err                    -- "Unknown type" (reflect.Slice)
  | .other => .err                    -- "Unknown type"

/-- the array arm: `for i < numElems { setWithProperType(elemKind, in[i], field.Index(i)) }`.
    `field.Index(i)` is evaluated first and panics when `i ≥ Len()`. -/
def setArray (ek : Kind) : List Bytes → List Sc → Outcome (List Sc)
  | [], slots => .ok slots
  | _ :: _, [] => .panic
  | x :: xs, s :: slots =>
    match setScalar ek x s with
    | .ok s' => (setArray ek xs slots).map (s' :: ·)
    | .err => .err
    | .panic => .panic

/-- the slice arm: `MakeSlice(numElems)` then element by element. -/
def setSlice (ek : Kind) : List Bytes → Outcome (List Sc)
  | [] => .ok []
  | x :: xs =>
    match setScalar ek x (zeroSc ek) with
    | .ok s => (setSlice ek xs).map (s :: ·)
    | .err => .err
    | .panic => .panic

def scByte : Sc → UInt8
  | .uint _ n => n.toUInt8
  | _ => 0

/-- one field whose key exists in the form with values `vals`. -/
def decField (v : Val) (vals : List Bytes) : Outcome Val :=
  match v, vals with
  | .array ek slots, _ :: _ => (setArray ek vals slots).map (.array ek)
  | .slice ek _, _ :: _ => (setSlice ek vals).map (.slice ek)
  | .sc (.bytes _), _ :: _ => (setSlice (.uint 8) vals).map fun l => .sc (.bytes (l.map scByte))
  | _, [] => .panic                   -- `inputValue[0]` of an empty list (not produced by ParseQuery)
  | .sc s, x :: _ => (setScalar s.kind x s).map .sc
  | _, _ :: _ => .err                 -- tagged nested struct: "Unknown type"

/-- `mapFormToStruct(val, form)`: the new contents of the struct. -/
def decStruct : Val → Form → Outcome Val
  | .scons name tag settable v rest, form =>
    if !settable then (decStruct rest form).map (.scons name tag settable v)
    else if tag.isEmpty && v.isStruct then
      match decStruct v form with
      | .ok v' => (decStruct rest form).map (.scons name tag settable v')
      | .err => .err
      | .panic => .panic
    else
      match fget form (fieldKey name tag) with
      | none => (decStruct rest form).map (.scons name tag settable v)
      | some vals =>
        match decField v vals with
        | .ok v' => (decStruct rest form).map (.scons name tag settable v')
        | .err => .err
        | .panic => .panic
  | v, _ => .ok v

/-- destination of `FormCodec.Unmarshal`. -/
inductive FDest where
  | nilIface
  /-- `*url.Values`, `*map[string][]string`, `*interface{}` -/
  | values (q : Form)
  /-- pointer to (pointer to …) a value -/
  | ptr (cur : Val)
  deriving DecidableEq, Repr

/-- `FormCodec.Unmarshal(data, v)`. -/
def formDecode (data : Bytes) (d : FDest) : Outcome FDest :=
  match parseQuery data with
  | none => .err
  | some form =>
    match d with
    | .nilIface => .ok .nilIface
    | .values _ => .ok (.values form)
    | .ptr cur => if cur.isStruct then (decStruct cur form).map .ptr else .err

/-! ## library-backed codecs: the wrapper switch around `(marshal, unmarshal)` -/

/-- how the `v interface{}` argument is classified by the protobuf/thrift wrappers. -/
inductive WArg (M : Type) where
  /-- implements `proto.Message` / `thrift.TStruct` -/
  | msg (m : M)
  /-- `nil`, `*struct{}`, `struct{}` -/
  | empty
  | other

/-- an abstract serialisation library: `marshal`, `unmarshal` into a destination, and the
    message the wrappers substitute for "empty" (`PbEmptyStruct`, `ThriftEmptyStruct`). -/
structure Lib (M : Type) where
  marshal : M → Option Bytes
  unmarshal : Bytes → M → Option M
  emptyMsg : M

/-- `ProtoMarshal` / `ThriftMarshal`. -/
def wrapMarshal {M : Type} (lib : Lib M) : WArg M → Option Bytes
  | .msg m => lib.marshal m
  | .empty => lib.marshal lib.emptyMsg
  | .other => none

/-- `ProtoUnmarshal` / `ThriftUnmarshal`: new state of the destination. -/
def wrapUnmarshal {M : Type} (lib : Lib M) (data : Bytes) : WArg M → Option (WArg M)
  | .msg m => (lib.unmarshal data m).map .msg
  | .empty => some .empty
  | .other => none

/-- `JSONCodec` / `XMLCodec`: no switch at all. -/
def directMarshal {M : Type} (lib : Lib M) (m : M) : Option Bytes := lib.marshal m
def directUnmarshal {M : Type} (lib : Lib M) (data : Bytes) (m : M) : Option M := lib.unmarshal data m

/-! ## registry (`codec.go`) -/

/-- ids of the built-in codecs as registered by the `init` functions. -/
def builtinIds : List (UInt8 × String) :=
  [(106, "json"), (120, "xml"), (102, "form"), (115, "plain"), (112, "protobuf"), (116, "thrift")]

/-- `codec.Get(id)`: name of the codec, `none` = "unsupported codec id". -/
def regGet (reg : List (UInt8 × String)) (id : UInt8) : Option String :=
  (reg.find? (·.1 == id)).map (·.2)

/-! ## `socket/message.go` MarshalBody / UnmarshalBody -/

/-- the message body as the switch classifies it. -/
inductive Body (V : Type) where
  | nilBody
  /-- `[]byte` -/
  | bytes (b : Bytes)
  /-- `*[]byte` (non-nil) -/
  | bytesPtr (b : Bytes)
  /-- nil `*[]byte` -/
  | bytesPtrNil
  | other (v : V)

/-- `MarshalBody`: `codec` is `codec.Get(m.bodyCodec)` followed by `Marshal`; `none` = error. -/
def marshalBody {V : Type} (codec : V → Option Bytes) : Body V → Option Bytes
  | .nilBody => some []
  | .bytes b => some b
  | .bytesPtr b => some b
  | .bytesPtrNil => some []
  | .other v => codec v

/-- `UnmarshalBody` (after `newBodyFunc`): new body; `none` = error. A `[]byte` body (not a
    pointer) falls into the `default` arm, i.e. goes to the codec. -/
def unmarshalBody {V : Type} (codecB : Bytes → Bytes → Option Bytes) (codec : Bytes → V → Option V)
    (data : Bytes) : Body V → Outcome (Body V)
  | b => if data.isEmpty then .ok b else
    match b with
    | .nilBody => .ok .nilBody
    | .bytesPtr _ => .ok (.bytesPtr data)
    | .bytesPtrNil => .panic          -- `cap(*body)` on a nil pointer
    | .bytes cur => match codecB data cur with
      | some c => .ok (.bytes c)
      | none => .err
    | .other v => match codec data v with
      | some v' => .ok (.other v')
      | none => .err

end Codec
end Teleport
