/-
Model/Proxy — the proxy plugin (`plugin/proxy/proxy.go`) composed with the framework pieces it
relies on, at the level of one request / one reply.  Core Lean only.

Go ↔ Lean
  utils/args.go  peekArgStr / setArg / VisitAll      ↔ `peek`, `setKV`, `collapse`
  message.go     GetAcceptBodyCodec                   ↔ `acceptCodec` (`parseU8` = strconv.ParseUint(s,10,8))
  context.go     ReplyBodyCodec / setReplyBodyCodec   ↔ `replyCodec`
  context.go     bindCall (empty method → 400), handleCall + router.go SetUnknownCall wrapper
                 (status not OK → body dropped, codec 0; OK → status not sent)          ↔ `frameworkReply`, `serve`
  proxy.go       call: VisitMeta→WithAddMeta, PeekMeta(X-Real-IP), ctx.IP()           ↔ `fwdReq`
  session.go     Call on the forwarder session (default codec of the forwarder peer; write on a
                 closed session → shared `statConnClosed`; cancel("") → shared `statConnClosed`,
                 `inputMeta` stays nil)                                                ↔ `forwardCall`
  proxy.go       call: `if m := InputMeta(); m != nil { m.VisitAll(SetMeta) }`           ↔ `pluginCall`
  proxy.go       badGateway: `stat.Copy(nil).SetCode(502).SetMsg("Bad Gateway")` — a NEW status
                 object; the one the forwarder returned is only read                    ↔ `rewrite502`
  context.go     handleCall / writeReply                                               ↔ `viaProxy`
  proxy.go       push                                                                  ↔ `viaProxyPush`

A status object is either owned by one call (`StatRef.own`) or the process-wide sentinel
`statConnClosed` (`StatRef.shared`), whose current content is the `World`.  Every function that
handles a `StatRef` takes the world and returns the world it leaves behind, so "the plugin does not
write through the reference" is a statement about the model (`rewrite502_world`), not a convention.
-/
import Teleport.Model.Status
namespace Teleport
namespace Proxy

abbrev KV := Bytes × Bytes
abbrev Md := List KV

/-- "X-Real-IP" -/
def kRealIP : Bytes := [88, 45, 82, 101, 97, 108, 45, 73, 80]
/-- "X-Accept-Body-Codec" -/
def kAccept : Bytes := [88, 45, 65, 99, 99, 101, 112, 116, 45, 66, 111, 100, 121, 45, 67, 111, 100, 101, 99]
def sBadGateway : Bytes := [66, 97, 100, 32, 71, 97, 116, 101, 119, 97, 121]
def sConnClosed : Bytes := [67, 111, 110, 110, 101, 99, 116, 105, 111, 110, 32, 67, 108, 111, 115, 101, 100]
def sBadMessage : Bytes := [66, 97, 100, 32, 77, 101, 115, 115, 97, 103, 101]
def sInvalidMethod : Bytes := [105, 110, 118, 97, 108, 105, 100, 32, 115, 101, 114, 118, 105, 99, 101, 32, 109, 101, 116,
  104, 111, 100, 32, 102, 111, 114, 32, 109, 101, 115, 115, 97, 103, 101]

/-! ## metadata (`utils.Args`) -/

/-- first value stored under `k` (`peekArgStr`); `none` = key absent. -/
def peek (k : Bytes) : Md → Option Bytes
  | [] => none
  | (k', v) :: r => if k' = k then some v else peek k r

/-- `Args.Peek` as Go callers see it: absent and empty are both length 0. -/
def peekB (k : Bytes) (md : Md) : Bytes := (peek k md).getD []

/-- `setArg`: overwrite the first pair with that key, else append. -/
def setKV : Md → Bytes → Bytes → Md
  | [], k, v => [(k, v)]
  | (k', v') :: r, k, v => if k' = k then (k', v) :: r else (k', v') :: setKV r k v

/-- `src.VisitAll(func(k, v) { dst.SetMeta(k, v) })` into `acc`. -/
def setAll (acc : Md) : Md → Md
  | [] => acc
  | (k, v) :: r => setAll (setKV acc k v) r

/-- … into an empty destination: keys in first-occurrence order, each with its LAST value. -/
def collapse (md : Md) : Md := setAll [] md

/-- last value stored under `k`. -/
def lastVal (k : Bytes) : Md → Option Bytes
  | [] => none
  | (k', v) :: r => match lastVal k r with
    | some w => some w
    | none => if k' = k then some v else none

def keys (md : Md) : List Bytes := md.map (·.1)

/-! ## requests, replies -/

structure Req where
  method : Bytes
  body   : Bytes
  codec  : UInt8
  md     : Md
  /-- transport address of the sender as the receiver sees it (`ctx.IP()`). -/
  caller : Bytes
deriving DecidableEq, Repr

/-- what a backend handler does with a request. -/
structure BOut where
  body     : Bytes
  st       : Status
  rmd      : Md
  /-- `ctx.SetBodyCodec`; 0 = not called. -/
  setCodec : UInt8
deriving DecidableEq, Repr

/-- what the caller of a CALL gets back. -/
structure Resp where
  body  : Bytes
  codec : UInt8
  st    : Status
  rmd   : Md
deriving DecidableEq, Repr

/-- `strconv.ParseUint(s, 10, 8)` for `1 ≤ len s ≤ 3`. -/
def parseU8 (s : Bytes) : Option Nat :=
  if s.all (fun c => 48 ≤ c && c ≤ 57) then
    let n := s.foldl (fun a c => a * 10 + (c.toNat - 48)) 0
    if n < 256 then some n else none
  else none

/-- `GetAcceptBodyCodec` followed by the `codec.Get` check of `ReplyBodyCodec`. -/
def acceptCodec (reg : List UInt8) (md : Md) : Option UInt8 :=
  let s := peekB kAccept md
  if s.length = 0 ∨ s.length > 3 then none else
  match parseU8 s with
  | none => none
  | some n => if n ≠ 0 ∧ reg.contains n.toUInt8 then some n.toUInt8 else none

/-- `ReplyBodyCodec`: the codec the handler set, else the accept-codec marker, else the request's. -/
def replyCodec (reg : List UInt8) (set : UInt8) (md : Md) (reqCodec : UInt8) : UInt8 :=
  if set ≠ 0 then set else (acceptCodec reg md).getD reqCodec

/-- the reply the framework writes for a handler outcome (`handleCall`, `writeReply`). -/
def frameworkReply (reg : List UInt8) (req : Req) (o : BOut) : Resp :=
  if o.st.ok then ⟨o.body, replyCodec reg o.setCodec req.md req.codec, Status.zero, o.rmd⟩
  else ⟨[], 0, o.st, o.rmd⟩

def badMethod : Status := ⟨400, sBadMessage, some sInvalidMethod⟩

/-- outcome of one CALL with the handler invocations it caused (the counted effect). -/
structure Run where
  resp : Resp
  seen : List Req
deriving DecidableEq, Repr

/-- a peer that serves every method with `backend` (unknown-call handler). -/
def serve (reg : List UInt8) (backend : Req → BOut) (req : Req) : Run :=
  if req.method = [] then ⟨⟨[], 0, badMethod, []⟩, []⟩
  else ⟨frameworkReply reg req (backend req), [req]⟩

/-- calling the backend directly. -/
def direct (reg : List UInt8) (backend : Req → BOut) (req : Req) : Run := serve reg backend req

/-! ## the proxy -/

structure Cfg where
  /-- default body codec of the forwarder's peer -/
  dflt      : UInt8
  /-- address of the forwarder as the backend sees it -/
  proxyAddr : Bytes
  /-- registered codec ids -/
  reg       : List UInt8
deriving Repr

/-- state of the connection to the backend when the proxied message arrives:
    `down` = failed before forwarding, `cut` = fails while the backend handler runs. -/
inductive Link | up | down | cut
deriving DecidableEq, Repr

/-- process-wide mutable state: the content of the shared `statConnClosed` object. -/
structure World where
  connClosed : Status
deriving DecidableEq, Repr

def World.init : World := ⟨⟨102, sConnClosed, some []⟩⟩

inductive StatRef
  | own (s : Status)
  | shared
deriving DecidableEq, Repr

def StatRef.get (w : World) : StatRef → Status
  | .own s => s
  | .shared => w.connClosed

def connRange (code : Int) : Bool := decide (99 < code) && decide (code < 200)

def to502 (s : Status) : Status := { s with code := 502, msg := sBadGateway }

/-- `if !stat.OK() && stat.Code() < 200 && stat.Code() > 99 { stat = badGateway(stat) }` with
    `badGateway(stat) = stat.Copy(nil).SetCode(502).SetMsg("Bad Gateway")`: the status behind the
    reference is READ (through a shared reference: the world's current content) and a fresh object
    owned by this call is returned; nothing is written through the reference. -/
def rewrite502 (w : World) (r : StatRef) : StatRef × World :=
  let s := r.get w
  if !s.ok && connRange s.code then (.own (to502 s), w) else (r, w)

/-- the request the plugin sends to the backend. NOTE the codec: the plugin passes no body-codec
    setting, so `session.Call` fills in the forwarder peer's default. -/
def fwdReq (cfg : Cfg) (req : Req) : Req :=
  { method := req.method
    body := req.body
    codec := cfg.dflt
    md := req.md ++ (if (peekB kRealIP req.md).length = 0 then [(kRealIP, req.caller)] else [])
    caller := cfg.proxyAddr }

/-- the `Label` handed to the forwarder factory: (session id, real IP, service method). -/
def label (req : Req) : Bytes × Bytes × Bytes :=
  (req.caller, if (peekB kRealIP req.md).length = 0 then req.caller else peekB kRealIP req.md, req.method)

/-- what `forwarder.Call` returned. -/
structure Fwd where
  stat      : StatRef
  result    : Bytes
  /-- `callcmd.InputMeta()`; `none` = nil (no reply was ever bound to the call) -/
  replyMeta : Option Md
  seen      : List Req

def forwardCall (cfg : Cfg) (backend : Req → BOut) (link : Link) (r : Req) : Fwd :=
  match link with
  | .down => ⟨.shared, [], none, []⟩
  | .cut => ⟨.shared, [], none, [r]⟩
  | .up => let x := serve cfg.reg backend r
           ⟨.own x.resp.st, x.resp.body, some x.resp.rmd, x.seen⟩

/-- outcome of the plugin's `call` handler: returned body, returned status, reply metadata set. -/
structure HOut where
  body    : Bytes
  st      : StatRef
  outMeta : Md
deriving Repr

/-- reply metadata the plugin copies to its own reply: none when no reply was bound to the call. -/
def copiedMeta : Option Md → Md
  | none => []
  | some m => collapse m

def pluginCall (cfg : Cfg) (backend : Req → BOut) (link : Link) (w : World) (req : Req) :
    HOut × World × List Req :=
  let f := forwardCall cfg backend link (fwdReq cfg req)
  let (st, w') := rewrite502 w f.stat
  (⟨f.result, st, copiedMeta f.replyMeta⟩, w', f.seen)

structure PRun where
  resp  : Resp
  seen  : List Req
  world : World
deriving Repr

/-- a CALL sent to the proxy peer for a method it does not serve itself. -/
def viaProxy (cfg : Cfg) (backend : Req → BOut) (link : Link) (w : World) (req : Req) : PRun :=
  if req.method = [] then ⟨⟨[], 0, badMethod, []⟩, [], w⟩ else
  match pluginCall cfg backend link w req with
  | (h, w', seen) =>
    let s := h.st.get w'
    if s.ok then ⟨⟨h.body, replyCodec cfg.reg 0 req.md req.codec, Status.zero, h.outMeta⟩, seen, w'⟩
    else ⟨⟨[], 0, s, h.outMeta⟩, seen, w'⟩

/-- outcome of one PUSH: backend invocations, the status the plugin's push handler returns to the
    framework (a push has no reply; the framework logs it), the world left behind. -/
structure PushRun where
  seen  : List Req
  st    : Status
  world : World
deriving Repr

/-- what `forwarder.Push` returned: `nil` (= OK) when written, the shared sentinel otherwise. -/
def forwardPush (link : Link) : Option StatRef :=
  match link with
  | .up => none
  | _ => some .shared

/-- a PUSH sent to the proxy peer for a method it does not serve itself. -/
def viaProxyPush (cfg : Cfg) (link : Link) (w : World) (req : Req) : PushRun :=
  if req.method = [] then ⟨[], badMethod, w⟩ else
  match forwardPush link with
  | none => ⟨[fwdReq cfg req], Status.zero, w⟩
  | some r =>
    let (st, w') := rewrite502 w r
    ⟨[], st.get w', w'⟩

/-- one operation of a history on the proxy peer. -/
inductive Op
  | call (backend : Req → BOut) (link : Link) (req : Req)
  | push (link : Link) (req : Req)

/-- the world after one operation / after a history. -/
def stepWorld (cfg : Cfg) (w : World) : Op → World
  | .call backend link req => (viaProxy cfg backend link w req).world
  | .push link req => (viaProxyPush cfg link w req).world

def runWorld (cfg : Cfg) (w : World) (ops : List Op) : World := ops.foldl (stepWorld cfg) w

/-- a CALL on any already closed session returns the shared object as it reads now. -/
def closedCall (w : World) : Status := w.connClosed

/-! ## what a backend can depend on -/

/-- `ctx.RealIP()` at the receiver. -/
def realIPOf (r : Req) : Bytes := if (peekB kRealIP r.md).length = 0 then r.caller else peekB kRealIP r.md

/-- metadata without the real-IP key. -/
def userMd (md : Md) : Md := md.filter (fun kv => kv.1 ≠ kRealIP)

/-- the transport-independent view of a request: a backend that looks at the sender only through
    `RealIP()` is a function of this. -/
structure View where
  method : Bytes
  body   : Bytes
  codec  : UInt8
  umd    : Md
  realIP : Bytes
deriving DecidableEq, Repr

def view (r : Req) : View := ⟨r.method, r.body, r.codec, userMd r.md, realIPOf r⟩

end Proxy
end Teleport
