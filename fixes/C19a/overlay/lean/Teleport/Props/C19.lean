/-
Props/C19 — Proxy plugin is transparent: proxied result equals the direct result.
Property theorems only; the model is Model/Proxy (plugin/proxy/proxy.go composed with the unknown-
handler path of context.go / router.go, `session.Call` on the forwarder and the shared status
sentinels of status.go), helper lemmas live in Lemmas/Proxy.

Objects: `direct reg backend req : Run` (reply + the list of backend invocations) and
`viaProxy cfg backend link w req : PRun` (reply + backend invocations + the process-wide state `w`,
i.e. the content of the shared `statConnClosed` object).  The backend is an ARBITRARY function
`Req → BOut`; a request is (method, body bytes, codec id, ordered metadata multimap, caller
address), a reply is (body bytes, codec id, status triple, ordered reply-metadata multimap).

"One value per key", as coded (`callcmd.InputMeta().VisitAll(ctx.SetMeta)`, `setArg`): the caller of
the proxy receives `collapse m` where `m` is the backend's reply metadata — the keys of `m` in
first-occurrence order, each ONCE, carrying the LAST value `m` holds for it
(`C19_transparent_wrt_forwarded` clauses 3–5, `C19_meta_unique_unchanged`).  NOTE `Args.Peek` returns
the FIRST value, so for a key the backend sets twice a direct caller peeks the first value and a
proxied caller the last; the property statement concedes "one value per key".

Three statements of the property do NOT hold for the code as it is.  For each the full-strength
statement is kept in a comment, the part that holds is proved (`_partial`) and the counter-example is
proved in the model (`_witness`); the harness replays every witness against the real code:
  * the plugin forwards with the forwarder peer's DEFAULT body codec instead of the caller's codec id
    (`C19_transparent_codec_witness`), and relabels the reply with the caller's codec instead of the
    backend's reply codec (`C19_replycodec_witness`);
  * every backend status with a code in 100..199 is rewritten to 502 (`C19_transparent_1xx_witness`);
  * a request whose X-Real-IP value is EMPTY gets a second X-Real-IP pair appended behind it: the
    backend's `RealIP()` reads the first (empty) one and falls back to the proxy's address
    (`C19_realip_witness`);
The Bad-Gateway statement holds at full strength since fix C19a (`C19_bad_gateway`,
`C19_bad_gateway_only_that_call`): the plugin tolerates a call without reply metadata and builds the
502 status as a new object instead of rewriting the one the forwarder returned.
-/
import Teleport.Lemmas.Proxy
namespace Teleport
namespace C19
open Proxy

/-! ## transparency -/

/- Full-strength statement (FALSE for the code as it is — `C19_transparent_codec_witness`,
   `C19_transparent_1xx_witness`, `C19_realip_witness`):
     theorem C19_transparent (cfg : Cfg) (backend : Req → BOut) (g : View → BOut)
         (hb : ∀ r, backend r = g (view r)) (w : World) (req : Req) (hm : req.method ≠ []) :
         let p := viaProxy cfg backend .up w req
         let d := direct cfg.reg backend req
         p.resp.body = d.resp.body ∧ p.resp.st = d.resp.st ∧ p.resp.codec = d.resp.codec ∧
         (∀ k, lastVal k p.resp.rmd = lastVal k d.resp.rmd)
   i.e. for every method, body, codec id, request/reply metadata and backend status, for every
   backend that looks at the sender only through `RealIP()`, the proxied outcome equals the direct
   outcome. -/

/-- Transparency with respect to the request the backend actually receives, for EVERY backend
    function, method, body, codec id, request and reply metadata, every backend status outside
    100..199 and every content of the process-wide state: the proxied caller gets exactly the body
    bytes and the status triple that a direct caller sending the forwarded request gets; its reply
    metadata is `collapse` of the direct reply metadata — same last value for every key, no key
    twice — and the process-wide state is untouched. -/
theorem C19_transparent_wrt_forwarded (cfg : Cfg) (backend : Req → BOut) (w : World) (req : Req)
    (hm : req.method ≠ [])
    (h1 : connRange (direct cfg.reg backend (fwdReq cfg req)).resp.st.code = false) :
    (viaProxy cfg backend .up w req).resp.body = (direct cfg.reg backend (fwdReq cfg req)).resp.body ∧
    (viaProxy cfg backend .up w req).resp.st = (direct cfg.reg backend (fwdReq cfg req)).resp.st ∧
    (∀ k, lastVal k (viaProxy cfg backend .up w req).resp.rmd
          = lastVal k (direct cfg.reg backend (fwdReq cfg req)).resp.rmd) ∧
    (keys (viaProxy cfg backend .up w req).resp.rmd).Nodup ∧
    (viaProxy cfg backend .up w req).resp.rmd = collapse (direct cfg.reg backend (fwdReq cfg req)).resp.rmd ∧
    (viaProxy cfg backend .up w req).world = w := by
  have hm' : ¬ (fwdReq cfg req).method = [] := hm
  rw [viaProxy_up cfg backend w req hm]
  simp only [direct, serve, hm', if_false] at h1 ⊢
  generalize backend (fwdReq cfg req) = o at h1 ⊢
  cases hok : o.st.ok
  · simp only [frameworkReply, hok, Bool.false_eq_true, if_false] at h1 ⊢
    simp [upStat, h1, hok, lastVal_collapse, nodup_collapse]
  · simp only [frameworkReply, hok, if_true]
    simp [upStat, Status.ok, Status.zero, lastVal_collapse, nodup_collapse]

/-- non-vacuity: a backend answering a custom error status with a repeated reply-metadata key. -/
example : connRange (direct [106] (fun r => ⟨r.body, ⟨1001, [7], some [8]⟩, [([1], [2]), ([1], [3])], 0⟩)
    (fwdReq ⟨106, [9], [106]⟩ ⟨[47], [1, 2], 106, [], [5]⟩)).resp.st.code = false := by decide

/-- Reply metadata without repeated keys reaches the proxied caller unchanged, pair for pair. -/
theorem C19_meta_unique_unchanged (cfg : Cfg) (backend : Req → BOut) (w : World) (req : Req)
    (hm : req.method ≠ [])
    (hu : (keys (direct cfg.reg backend (fwdReq cfg req)).resp.rmd).Nodup) :
    (viaProxy cfg backend .up w req).resp.rmd = (direct cfg.reg backend (fwdReq cfg req)).resp.rmd := by
  have hm' : ¬ (fwdReq cfg req).method = [] := hm
  rw [viaProxy_up cfg backend w req hm]
  simp only [direct, serve, hm', if_false] at hu ⊢
  have := collapse_of_nodup _ hu
  split <;> simp only [this]

example : (keys (direct [106] (fun r => ⟨r.body, Status.zero, [([1], [2]), ([3], [3])], 0⟩)
    (fwdReq ⟨106, [9], [106]⟩ ⟨[47], [1, 2], 106, [], [5]⟩)).resp.rmd).Nodup := by decide

/-- What the forwarded request is: same method, same body, the request's metadata in order followed
    by at most the real-IP pair — but the FORWARDER PEER'S default codec id, not the caller's. -/
theorem C19_forwarded_request (cfg : Cfg) (req : Req) :
    (fwdReq cfg req).method = req.method ∧ (fwdReq cfg req).body = req.body ∧
    userMd (fwdReq cfg req).md = userMd req.md ∧
    (∀ k, k ≠ kRealIP → peek k (fwdReq cfg req).md = peek k req.md) ∧
    (fwdReq cfg req).codec = cfg.dflt := by
  refine ⟨rfl, rfl, userMd_fwd cfg req, ?_, rfl⟩
  intro k hk
  have hk' : ¬ kRealIP = k := fun e => hk e.symm
  simp only [fwdReq, peek_append]
  split
  · rename_i v hv; simp [hv]
  · rename_i hv
    simp only [hv]
    split <;> simp [peek, hk']

/-- The part of the full statement that holds end to end: for every backend that depends on the
    request only through its transport-independent view (method, body, codec id, metadata without
    the real-IP key, `RealIP()`), whenever the caller's codec id equals the forwarder's default
    codec, the request carries no EMPTY X-Real-IP value, the caller's address is non-empty and the
    backend's status code is outside 100..199: the proxied caller gets the body bytes, the status
    triple and the last value of every reply-metadata key of the direct call, and — if the backend
    handler does not choose a reply codec itself — the same reply codec id. -/
theorem C19_transparent_partial (cfg : Cfg) (backend : Req → BOut) (g : View → BOut)
    (hb : ∀ r, backend r = g (view r)) (w : World) (req : Req)
    (hm : req.method ≠ [])
    (hc : cfg.dflt = req.codec)
    (hr : peek kRealIP req.md ≠ some [])
    (ha : req.caller ≠ [])
    (h1 : connRange (direct cfg.reg backend req).resp.st.code = false) :
    (viaProxy cfg backend .up w req).resp.body = (direct cfg.reg backend req).resp.body ∧
    (viaProxy cfg backend .up w req).resp.st = (direct cfg.reg backend req).resp.st ∧
    (∀ k, lastVal k (viaProxy cfg backend .up w req).resp.rmd = lastVal k (direct cfg.reg backend req).resp.rmd) ∧
    ((backend req).setCodec = 0 →
      (viaProxy cfg backend .up w req).resp.codec = (direct cfg.reg backend req).resp.codec) := by
  have hview : view (fwdReq cfg req) = view req := by
    simp only [view, View.mk.injEq]
    exact ⟨rfl, rfl, hc, userMd_fwd cfg req, realIPOf_fwd cfg req hr ha⟩
  have hbe : backend (fwdReq cfg req) = backend req := by rw [hb, hb, hview]
  have hm' : ¬ (fwdReq cfg req).method = [] := hm
  have hm2 : ¬ req.method = [] := hm
  rw [viaProxy_up cfg backend w req hm]
  simp only [direct, serve, hm2, if_false] at h1 ⊢
  simp only [hbe]
  generalize backend req = o at h1 ⊢
  cases hok : o.st.ok
  · simp only [frameworkReply, hok, Bool.false_eq_true, if_false] at h1 ⊢
    simp [upStat, h1, hok, lastVal_collapse]
  · simp only [frameworkReply, hok, if_true]
    simp only [upStat, Status.ok, Status.zero]
    refine ⟨by simp, by simp, by simp [lastVal_collapse], ?_⟩
    intro h0
    simp [replyCodec, h0]

/-- non-vacuity: an echo backend that also reports the real IP, request with ordinary metadata. -/
example : ∃ (cfg : Cfg) (g : View → BOut) (req : Req), req.method ≠ [] ∧ cfg.dflt = req.codec ∧
    peek kRealIP req.md ≠ some [] ∧ req.caller ≠ [] ∧
    connRange (direct cfg.reg (fun r => g (view r)) req).resp.st.code = false :=
  ⟨⟨106, [9], [106]⟩, fun v => ⟨v.realIP ++ v.body, Status.zero, [([1], [2])], 0⟩,
   ⟨[47], [1, 2], 106, [([7], [7])], [5]⟩, by decide, by decide, by decide, by decide, by decide⟩

/-- Counter-example to the full statement (codec): a backend that prefixes the codec id it sees.
    Caller codec 112 (protobuf), forwarder default 106 (json): direct body starts with 112, proxied
    body starts with 106. All other hypotheses of `C19_transparent_partial` hold. -/
theorem C19_transparent_codec_witness :
    let cfg : Cfg := ⟨106, [9], [106, 112]⟩
    let backend : Req → BOut := fun r => ⟨r.codec :: r.body, Status.zero, [], 0⟩
    let req : Req := ⟨[47], [1], 112, [], [5]⟩
    (direct cfg.reg backend req).resp.body = [112, 1] ∧
    (viaProxy cfg backend .up World.init req).resp.body = [106, 1] ∧
    (viaProxy cfg backend .up World.init req).seen.map (·.codec) = [106] := by decide

/-- Counter-example (reply codec): the backend handler chooses reply codec 112; the direct caller
    is told 112, the proxied caller is told its own request codec 106. -/
theorem C19_replycodec_witness :
    let cfg : Cfg := ⟨106, [9], [106, 112]⟩
    let backend : Req → BOut := fun r => ⟨r.body, Status.zero, [], 112⟩
    let req : Req := ⟨[47], [1], 106, [], [5]⟩
    (direct cfg.reg backend req).resp.codec = 112 ∧
    (viaProxy cfg backend .up World.init req).resp.codec = 106 := by decide

/-- Counter-example (status): backend status (150, "m", nil) arrives as (502, "Bad Gateway", nil). -/
theorem C19_transparent_1xx_witness :
    let cfg : Cfg := ⟨106, [9], [106]⟩
    let backend : Req → BOut := fun _ => ⟨[], ⟨150, [109], none⟩, [], 0⟩
    let req : Req := ⟨[47], [1], 106, [], [5]⟩
    (direct cfg.reg backend req).resp.st = ⟨150, [109], none⟩ ∧
    (viaProxy cfg backend .up World.init req).resp.st = ⟨502, sBadGateway, none⟩ := by decide

/-! ## forwarded exactly once -/

/-- A call for a method the proxy does not serve applies the backend function exactly once — to the
    forwarded request — when the backend connection is up or breaks while the handler runs, and not
    at all when the connection was already down; this holds for every request, backend and state. -/
theorem C19_forward_once (cfg : Cfg) (backend : Req → BOut) (link : Link) (w : World) (req : Req)
    (hm : req.method ≠ []) :
    (viaProxy cfg backend link w req).seen = if link = .down then [] else [fwdReq cfg req] := by
  cases link with
  | up => rw [viaProxy_up cfg backend w req hm]; simp
  | down => rw [viaProxy_fail cfg backend .down w req hm (by decide)]; simp
  | cut => rw [viaProxy_fail cfg backend .cut w req hm (by decide)]; simp

example : (⟨[47], [], 106, [], [5]⟩ : Req).method ≠ [] := by decide

/-- Pushes: forwarded exactly once while the backend is reachable (and there is no reply), not at
    all when it is down. -/
theorem C19_push_forward_once (cfg : Cfg) (link : Link) (w : World) (req : Req) (hm : req.method ≠ []) :
    (viaProxyPush cfg link w req).seen = if link = .up then [fwdReq cfg req] else [] := by
  cases link <;> simp [viaProxyPush, hm, forwardPush, rewrite502_world]

/-! ## real IP -/

/- Full-strength statement (FALSE for the code as it is, `C19_realip_witness`):
     theorem C19_realip (cfg : Cfg) (req : Req) (ha : req.caller ≠ []) :
         realIPOf (fwdReq cfg req) = realIPOf req ∧
         (peek kRealIP req.md = none → (fwdReq cfg req).md = req.md ++ [(kRealIP, req.caller)]) ∧
         (peek kRealIP req.md ≠ none → (fwdReq cfg req).md = req.md)  -/

/-- The backend sees real-IP = caller address when the request had none (one pair appended, the
    backend's `Peek` and `RealIP()` both give the caller's address); a request that carries a
    non-empty real-IP value is forwarded with its metadata unchanged and the backend's `RealIP()`
    is that value. -/
theorem C19_realip_partial (cfg : Cfg) (req : Req) (ha : req.caller ≠ []) :
    (peek kRealIP req.md = none →
      (fwdReq cfg req).md = req.md ++ [(kRealIP, req.caller)] ∧
      peek kRealIP (fwdReq cfg req).md = some req.caller ∧
      realIPOf (fwdReq cfg req) = req.caller) ∧
    (∀ v, peek kRealIP req.md = some v → v ≠ [] →
      (fwdReq cfg req).md = req.md ∧ realIPOf (fwdReq cfg req) = v) := by
  have hl : req.caller.length ≠ 0 := fun e => ha (List.eq_nil_of_length_eq_zero e)
  constructor
  · intro hp
    simp [fwdReq, realIPOf, peekB, hp, peek_append, peek, hl]
  · intro v hp hv
    have : v.length ≠ 0 := fun e => hv (List.eq_nil_of_length_eq_zero e)
    simp [fwdReq, realIPOf, peekB, hp, this]

example : peek kRealIP ([([1], [2])] : Md) = none := by decide
example : peek kRealIP ([(kRealIP, [49])] : Md) = some [49] := by decide

/-- Counter-example: X-Real-IP present with an empty value. The plugin appends a second pair; the
    backend peeks the first (empty) one and `RealIP()` is the PROXY's address, not the caller's. -/
theorem C19_realip_witness :
    let cfg : Cfg := ⟨106, [9, 9], [106]⟩
    let req : Req := ⟨[47], [], 106, [(kRealIP, [])], [5, 5]⟩
    (fwdReq cfg req).md = [(kRealIP, []), (kRealIP, [5, 5])] ∧
    realIPOf (fwdReq cfg req) = [9, 9] ∧ realIPOf req = [5, 5] := by decide

/-! ## backend connection failure -/

/-- A backend connection failure surfaces as Bad Gateway on that proxied call.  For EVERY backend
    function, request (non-empty method), forwarder configuration and BOTH kinds of failure (`down`:
    the connection was closed before forwarding; `cut`: it breaks while the backend handler runs), and
    for every content `w` of the process-wide connection-closed status that still carries a
    sender-side code (100..199 — true of the initial content 102, and preserved by every history, see
    `C19_bad_gateway_only_that_call`):
      * the caller of a proxied CALL receives exactly (no body, codec 0, status
        (502, "Bad Gateway", cause text of the connection error), no reply metadata);
      * the status the plugin's PUSH handler returns is the same (502, "Bad Gateway", cause);
      * neither changes the process-wide status object. -/
theorem C19_bad_gateway (cfg : Cfg) (backend : Req → BOut) (link : Link) (w : World) (req : Req)
    (hm : req.method ≠ []) (hl : link ≠ .up) (hw : connRange w.connClosed.code = true) :
    (viaProxy cfg backend link w req).resp = ⟨[], 0, ⟨502, sBadGateway, w.connClosed.cause⟩, []⟩ ∧
    (viaProxy cfg backend link w req).resp.st.code = 502 ∧
    (viaProxy cfg backend link w req).world = w ∧
    (viaProxyPush cfg link w req).st = ⟨502, sBadGateway, w.connClosed.cause⟩ ∧
    (viaProxyPush cfg link w req).st.code = 502 ∧
    (viaProxyPush cfg link w req).world = w := by
  have hs : upStat w.connClosed = ⟨502, sBadGateway, w.connClosed.cause⟩ := by
    rw [upStat_connRange _ hw]; rfl
  have hv : (viaProxy cfg backend link w req).resp = ⟨[], 0, ⟨502, sBadGateway, w.connClosed.cause⟩, []⟩ := by
    rw [viaProxy_fail cfg backend link w req hm hl]
    simp [hs, Status.ok]
  have hp : (viaProxyPush cfg link w req).st = ⟨502, sBadGateway, w.connClosed.cause⟩ := by
    rw [viaProxyPush_fail cfg link w req hm hl, hs]
  refine ⟨hv, by rw [hv], viaProxy_world cfg backend link w req, hp, by rw [hp], viaProxyPush_world cfg link w req⟩

/-- non-vacuity: the initial content of the connection-closed status, a plain request. -/
example : (⟨[47], [1], 106, [], [5]⟩ : Req).method ≠ [] ∧ Link.down ≠ Link.up ∧ Link.cut ≠ Link.up ∧
    connRange World.init.connClosed.code = true := by decide

/-- "… on that proxied call ONLY".  (1) No operation on the proxy — call or push, backend up, down or
    cut, any request, any backend — changes the process-wide status object; hence after ANY history of
    such operations (2) the object is what it was, (3) a call on an unrelated closed session reads
    what it read before, and (4) starting from the framework's initial content, a failing proxied call
    at ANY later point of the history still gets (502, "Bad Gateway", cause "") — the hypothesis of
    `C19_bad_gateway` never wears off.  (5) A proxied call to a reachable backend does not depend on
    the process-wide state at all: failures elsewhere do not alter it. -/
theorem C19_bad_gateway_only_that_call (cfg : Cfg) (w w' : World) (ops : List Op)
    (backend : Req → BOut) (link : Link) (req : Req) (hm : req.method ≠ []) :
    (∀ o, stepWorld cfg w o = w) ∧
    runWorld cfg w ops = w ∧
    closedCall (runWorld cfg w ops) = closedCall w ∧
    (link ≠ .up → (viaProxy cfg backend link (runWorld cfg World.init ops) req).resp.st
        = ⟨502, sBadGateway, some []⟩) ∧
    (viaProxy cfg backend .up w req).resp = (viaProxy cfg backend .up w' req).resp := by
  refine ⟨?_, runWorld_eq cfg w ops, by rw [runWorld_eq], ?_, ?_⟩
  · intro o
    cases o with
    | call b l r => exact viaProxy_world cfg b l w r
    | push l r => exact viaProxyPush_world cfg l w r
  · intro hl
    rw [runWorld_eq, (C19_bad_gateway cfg backend link World.init req hm hl (by decide)).1]
    rfl
  · rw [viaProxy_up cfg backend w req hm, viaProxy_up cfg backend w' req hm]

example : (⟨[47], [], 106, [], [5]⟩ : Req).method ≠ [] := by decide

end C19
end Teleport
