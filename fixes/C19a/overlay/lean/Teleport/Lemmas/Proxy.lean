/-
Lemmas/Proxy — helper lemmas for Props/C19: `setArg`/`VisitAll→SetMeta` collapse a metadata list to
one (the last) value per key; appending the real-IP pair does not disturb other keys; unfolding of
`viaProxy` for a reachable backend.
-/
import Teleport.Model.Proxy
namespace Teleport
namespace Proxy

/-! ## metadata -/

theorem peek_setKV (acc : Md) (k' v k : Bytes) :
    peek k (setKV acc k' v) = if k' = k then some v else peek k acc := by
  induction acc with
  | nil => simp [setKV, peek]
  | cons a r ih =>
    obtain ⟨ka, va⟩ := a
    simp only [setKV]
    by_cases h : ka = k'
    · subst h
      by_cases hk : ka = k <;> simp [peek, hk]
    · simp only [h, if_false, peek, ih]
      by_cases hk : ka = k
      · subst hk
        have h' : ¬ k' = ka := fun e => h e.symm
        simp [h']
      · simp [hk]

theorem peek_setAll (md acc : Md) (k : Bytes) :
    peek k (setAll acc md) = match lastVal k md with
      | some v => some v
      | none => peek k acc := by
  induction md generalizing acc with
  | nil => simp [setAll, lastVal]
  | cons a r ih =>
    obtain ⟨ka, va⟩ := a
    simp only [setAll, lastVal, ih, peek_setKV]
    cases lastVal k r with
    | some w => simp
    | none => by_cases hk : ka = k <;> simp [hk]

theorem peek_collapse (md : Md) (k : Bytes) : peek k (collapse md) = lastVal k md := by
  simp only [collapse, peek_setAll, peek]
  cases lastVal k md <;> rfl

theorem keys_setKV (acc : Md) (k v : Bytes) :
    keys (setKV acc k v) = if k ∈ keys acc then keys acc else keys acc ++ [k] := by
  induction acc with
  | nil => simp [setKV, keys]
  | cons a r ih =>
    obtain ⟨ka, va⟩ := a
    simp only [setKV]
    by_cases h : ka = k
    · subst h; simp [keys]
    · have h' : ¬ k = ka := fun e => h e.symm
      simp only [keys] at ih
      simp only [h, if_false, keys, List.map_cons, ih, List.mem_cons, h', false_or]
      split <;> simp_all

theorem nodup_setKV (acc : Md) (k v : Bytes) (h : (keys acc).Nodup) : (keys (setKV acc k v)).Nodup := by
  rw [keys_setKV]
  split
  · exact h
  · rename_i hn
    rw [List.nodup_append]
    refine ⟨h, by simp, ?_⟩
    intro a ha b hb
    simp at hb
    subst hb
    intro e; subst e; exact hn ha

theorem nodup_setAll (md acc : Md) (h : (keys acc).Nodup) : (keys (setAll acc md)).Nodup := by
  induction md generalizing acc with
  | nil => simpa [setAll] using h
  | cons a r ih =>
    obtain ⟨ka, va⟩ := a
    simp only [setAll]
    exact ih _ (nodup_setKV acc ka va h)

theorem nodup_collapse (md : Md) : (keys (collapse md)).Nodup :=
  nodup_setAll md [] (by simp [keys])

theorem lastVal_none_of_not_mem (k : Bytes) (md : Md) (h : k ∉ keys md) : lastVal k md = none := by
  induction md with
  | nil => rfl
  | cons a r ih =>
    obtain ⟨ka, va⟩ := a
    simp only [keys, List.map_cons, List.mem_cons, not_or] at h
    simp only [keys] at ih
    have h1 : ¬ ka = k := fun e => h.1 e.symm
    simp [lastVal, ih h.2, h1]

/-- on a list without repeated keys the last value is the first value. -/
theorem lastVal_eq_peek_of_nodup (k : Bytes) (md : Md) (h : (keys md).Nodup) : lastVal k md = peek k md := by
  induction md with
  | nil => rfl
  | cons a r ih =>
    obtain ⟨ka, va⟩ := a
    simp only [keys, List.map_cons, List.nodup_cons] at h
    simp only [keys] at ih
    simp only [lastVal, peek]
    by_cases hk : ka = k
    · subst hk
      have := lastVal_none_of_not_mem ka r (by simpa [keys] using h.1)
      simp [this]
    · rw [ih h.2]
      simp only [hk, if_false]
      cases peek k r <;> rfl

theorem lastVal_collapse (md : Md) (k : Bytes) : lastVal k (collapse md) = lastVal k md := by
  rw [lastVal_eq_peek_of_nodup k _ (nodup_collapse md), peek_collapse]

theorem setKV_of_not_mem (acc : Md) (k v : Bytes) (h : k ∉ keys acc) : setKV acc k v = acc ++ [(k, v)] := by
  induction acc with
  | nil => rfl
  | cons a r ih =>
    obtain ⟨ka, va⟩ := a
    simp only [keys, List.map_cons, List.mem_cons, not_or] at h
    simp only [keys] at ih
    have h1 : ¬ ka = k := fun e => h.1 e.symm
    simp [setKV, h1, ih h.2]

theorem setAll_of_nodup (md acc : Md) (h : (keys (acc ++ md)).Nodup) : setAll acc md = acc ++ md := by
  induction md generalizing acc with
  | nil => simp [setAll]
  | cons a r ih =>
    obtain ⟨ka, va⟩ := a
    simp only [setAll]
    have hk : ka ∉ keys acc := by
      intro hm
      simp only [keys, List.map_append, List.map_cons] at h hm
      rw [List.nodup_append] at h
      exact h.2.2 ka hm ka (by simp) rfl
    rw [setKV_of_not_mem acc ka va hk]
    have : acc ++ [(ka, va)] ++ r = acc ++ (ka, va) :: r := by simp
    rw [ih (acc ++ [(ka, va)]) (by rw [this]; exact h), this]

/-- metadata without repeated keys passes `VisitAll → SetMeta` unchanged. -/
theorem collapse_of_nodup (md : Md) (h : (keys md).Nodup) : collapse md = md := by
  simpa [collapse] using setAll_of_nodup md [] (by simpa using h)

theorem peek_append (k : Bytes) (a b : Md) :
    peek k (a ++ b) = match peek k a with
      | some v => some v
      | none => peek k b := by
  induction a with
  | nil => simp [peek]
  | cons x r ih =>
    obtain ⟨kx, vx⟩ := x
    simp only [List.cons_append, peek]
    by_cases h : kx = k <;> simp [h, ih]

theorem kAccept_ne_kRealIP : kRealIP ≠ kAccept := by decide

theorem peekB_accept_fwd (cfg : Cfg) (req : Req) : peekB kAccept (fwdReq cfg req).md = peekB kAccept req.md := by
  have h : peek kAccept (if (peekB kRealIP req.md).length = 0 then [(kRealIP, req.caller)] else []) = none := by
    split <;> simp [peek, kAccept_ne_kRealIP]
  simp only [fwdReq, peekB, peek_append] at h ⊢
  rw [h]
  cases peek kAccept req.md <;> rfl

theorem acceptCodec_fwd (cfg : Cfg) (req : Req) (reg : List UInt8) :
    acceptCodec reg (fwdReq cfg req).md = acceptCodec reg req.md := by
  simp only [acceptCodec, peekB_accept_fwd]

theorem userMd_fwd (cfg : Cfg) (req : Req) : userMd (fwdReq cfg req).md = userMd req.md := by
  simp only [fwdReq, userMd, List.filter_append]
  split <;> simp

/-- the backend's `RealIP()` through the proxy is the caller's `RealIP()` — unless the request
    carries an EMPTY real-IP value (or the caller's address is empty). -/
theorem realIPOf_fwd (cfg : Cfg) (req : Req) (hr : peek kRealIP req.md ≠ some []) (ha : req.caller ≠ []) :
    realIPOf (fwdReq cfg req) = realIPOf req := by
  have hl : req.caller.length ≠ 0 := fun e => ha (List.eq_nil_of_length_eq_zero e)
  match hp : peek kRealIP req.md with
  | none => simp [realIPOf, fwdReq, peekB, peek_append, hp, peek, hl]
  | some v =>
    have hv : v ≠ [] := fun e => hr (by rw [hp, e])
    have : v.length ≠ 0 := fun e => hv (List.eq_nil_of_length_eq_zero e)
    simp [realIPOf, fwdReq, peekB, hp, this]

/-! ## the Bad-Gateway conversion never writes through the reference -/

/-- status of the reply the forwarder gets, after the plugin's Bad-Gateway conversion. -/
def upStat (s : Status) : Status := if !s.ok && connRange s.code then to502 s else s

/-- `badGateway` copies: whatever reference it is given, the world is left as it was. -/
theorem rewrite502_world (w : World) (r : StatRef) : (rewrite502 w r).2 = w := by
  simp only [rewrite502]; split <;> rfl

/-- … and the status the plugin returns reads `upStat` of what the reference held. -/
theorem rewrite502_get (w : World) (r : StatRef) : (rewrite502 w r).1.get w = upStat (r.get w) := by
  simp only [rewrite502, upStat]; split <;> rfl

theorem rewrite502_pair (w : World) (r : StatRef) : rewrite502 w r = ((rewrite502 w r).1, w) :=
  Prod.ext rfl (rewrite502_world w r)

theorem not_ok_of_connRange (s : Status) (h : connRange s.code = true) : s.ok = false := by
  simp only [connRange, Bool.and_eq_true, decide_eq_true_eq] at h
  simp only [Status.ok, beq_eq_false_iff_ne, ne_eq]
  omega

theorem upStat_connRange (s : Status) (h : connRange s.code = true) : upStat s = to502 s := by
  simp [upStat, h, not_ok_of_connRange s h]

theorem to502_not_ok (s : Status) : (to502 s).ok = false := by
  simp [to502, Status.ok]

/-! ## the proxied call -/

theorem fwd_method (cfg : Cfg) (req : Req) : (fwdReq cfg req).method = req.method := rfl

/-- the proxied call in terms of what the forwarder returned. -/
theorem viaProxy_eq (cfg : Cfg) (backend : Req → BOut) (link : Link) (w : World) (req : Req)
    (hm : req.method ≠ []) :
    viaProxy cfg backend link w req =
      (let f := forwardCall cfg backend link (fwdReq cfg req)
       let s := upStat (f.stat.get w)
       ⟨if s.ok then ⟨f.result, replyCodec cfg.reg 0 req.md req.codec, Status.zero, copiedMeta f.replyMeta⟩
        else ⟨[], 0, s, copiedMeta f.replyMeta⟩, f.seen, w⟩) := by
  simp only [viaProxy, hm, if_false, pluginCall, rewrite502_world, rewrite502_get]
  split <;> rfl

theorem viaProxy_up (cfg : Cfg) (backend : Req → BOut) (w : World) (req : Req) (hm : req.method ≠ []) :
    viaProxy cfg backend .up w req =
      (let r := frameworkReply cfg.reg (fwdReq cfg req) (backend (fwdReq cfg req))
       let s := upStat r.st
       ⟨if s.ok then ⟨r.body, replyCodec cfg.reg 0 req.md req.codec, Status.zero, collapse r.rmd⟩
        else ⟨[], 0, s, collapse r.rmd⟩, [fwdReq cfg req], w⟩) := by
  rw [viaProxy_eq cfg backend .up w req hm]
  simp only [forwardCall, serve, fwd_method, hm, if_false, StatRef.get, copiedMeta]

/-- backend connection down before (`down`) or lost while (`cut`) forwarding: the caller's reply is
    built from the content of the connection-closed sentinel, no reply metadata, the world is not
    touched. -/
theorem viaProxy_fail (cfg : Cfg) (backend : Req → BOut) (link : Link) (w : World) (req : Req)
    (hm : req.method ≠ []) (hl : link ≠ .up) :
    viaProxy cfg backend link w req =
      (let s := upStat w.connClosed
       ⟨if s.ok then ⟨[], replyCodec cfg.reg 0 req.md req.codec, Status.zero, []⟩ else ⟨[], 0, s, []⟩,
        if link = .cut then [fwdReq cfg req] else [], w⟩) := by
  rw [viaProxy_eq cfg backend link w req hm]
  cases link with
  | up => exact absurd rfl hl
  | down => simp only [forwardCall, StatRef.get, copiedMeta, reduceCtorEq, if_false]; rfl
  | cut => simp only [forwardCall, StatRef.get, copiedMeta, if_true]; rfl

theorem viaProxy_world (cfg : Cfg) (backend : Req → BOut) (link : Link) (w : World) (req : Req) :
    (viaProxy cfg backend link w req).world = w := by
  by_cases hm : req.method = []
  · simp [viaProxy, hm]
  · cases link with
    | up => rw [viaProxy_up cfg backend w req hm]
    | down => rw [viaProxy_fail cfg backend .down w req hm (by decide)]
    | cut => rw [viaProxy_fail cfg backend .cut w req hm (by decide)]

theorem viaProxyPush_world (cfg : Cfg) (link : Link) (w : World) (req : Req) :
    (viaProxyPush cfg link w req).world = w := by
  by_cases hm : req.method = []
  · simp [viaProxyPush, hm]
  · cases link <;> simp [viaProxyPush, hm, forwardPush, rewrite502_world]

theorem viaProxyPush_fail (cfg : Cfg) (link : Link) (w : World) (req : Req)
    (hm : req.method ≠ []) (hl : link ≠ .up) :
    viaProxyPush cfg link w req = ⟨[], upStat w.connClosed, w⟩ := by
  cases link with
  | up => exact absurd rfl hl
  | down => simp only [viaProxyPush, hm, if_false, forwardPush, rewrite502_world, rewrite502_get]; rfl
  | cut => simp only [viaProxyPush, hm, if_false, forwardPush, rewrite502_world, rewrite502_get]; rfl

theorem runWorld_eq (cfg : Cfg) (w : World) (ops : List Op) : runWorld cfg w ops = w := by
  induction ops generalizing w with
  | nil => rfl
  | cons o r ih =>
    simp only [runWorld, List.foldl_cons] at ih ⊢
    cases o with
    | call backend link req => simp only [stepWorld, viaProxy_world]; exact ih w
    | push link req => simp only [stepWorld, viaProxyPush_world]; exact ih w

end Proxy
end Teleport
