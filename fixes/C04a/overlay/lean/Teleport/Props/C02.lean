/-
Props/C02 — every call completes exactly once; none hangs, none completes twice.
Property theorems only. Model: Model/CallLife (one session, any number of calls, caller goroutines,
the reader, handler goroutines, the disconnect path, the closer, the environment); invariants in
Lemmas/CallLife.

The code as it is does NOT satisfy two of the full-strength statements; for each the full statement is
kept in a comment, the part that holds is proved as `_partial`, and the violating run is proved as a
`_witness`:
  * at most once fails when `bindReply` binds a call that is already bound or already completed (it
    checks neither): a duplicate REPLY racing the first reply's `done()`, or an early REPLY racing a
    failing write (`C02_double_completion_witness`, `C02_early_reply_witness`);
  * no-hang fails when the read loop leaves with a call's mutex held — REPLY with codec id 0 and a
    non-empty body for a non-bytes result, or a decoder panic (`C02_nilcodec_wedge_witness`).
-/
import Teleport.Lemmas.CallLife
namespace Teleport
namespace C02
open CallLife

/-! ## at most once -/

/- Full-strength statement (FALSE for the code as it is, see `C02_double_completion_witness`):
     theorem C02_at_most_once (s : State) (r : Reachable s) :
         ∀ (i : Nat) (c : Call), s.calls[i]? = some c → c.doneCount ≤ 1 ∧ c.chanSends ≤ 1            -/

/-- For every interleaving of any number of callers, the reader, handlers, the disconnect path, the
    closer and the environment, and for every sequence of frames the peer sends (any seq, any decode
    outcome): as long as `bindReply` has never bound a call that already had a reply or was already
    completed (`rebound = false`), every call's done channel has been closed at most once, it has been
    sent on its completion channel exactly as often, and the process has not crashed. -/
theorem C02_at_most_once_partial (s : State) (r : Reachable s) (hb : s.rebound = false) :
    s.crashed = false ∧
    ∀ (i : Nat) (c : Call), s.calls[i]? = some c → c.doneCount ≤ 1 ∧ c.chanSends ≤ 1 ∧ c.chanSends = c.doneCount := by
  obtain ⟨h1, h2⟩ := ainv_reach r hb
  refine ⟨h1, fun i c hc => ?_⟩
  have ci := h2 i c hc
  exact ⟨ci.le1, ci.sends ▸ ci.le1, ci.sends⟩

/-- the schedule of the duplicate-reply race: the first reply is bound and its handler spawned; the
    reader looks the second reply's seq up (the call is still in the table) and waits for the mutex; the
    first handler completes the call and unlocks; the reader binds the completed call again; the second
    handler completes it a second time. -/
def dupRace : List Label :=
  [.issue false false false false 2, .store 0, .prewrite 0, .write 0 .ok, .unlock 0,
   .frame (.reply 1 .ok 0), .frame (.reply 1 .ok 0), .read, .bind, .read, .hDone 0, .hUnlock 0, .bind, .hDone 0]

/-- A call completes twice: two REPLY frames for one seq, the second one looked up before the first
    one's `done()`. The call is sent twice on its completion channel and `close(doneChan)` runs a
    second time (in Go: panic `close of closed channel` in a pool goroutine — the process dies). -/
theorem C02_double_completion_witness :
    ∃ s, Reachable s ∧ ∃ c, s.calls[0]? = some c ∧ c.chanSends = 2 ∧ c.doneCount = 2 ∧ s.crashed = true := by
  have h : run State.init dupRace = some ((run State.init dupRace).getD State.init) := by decide
  refine ⟨_, reach_run .init _ h, ?_⟩
  decide

/-- the early-reply schedule: the peer sends REPLY seq 1 before the request is written; the reader finds
    the stored call and waits for the mutex the caller still holds; the caller's write fails (cancelled
    context), it completes the call and unlocks; the reader binds the completed call; the handler
    completes it again. -/
def earlyRace : List Label :=
  [.issue false true false false 2, .store 0, .frame (.reply 1 .ok 0), .read, .prewrite 0, .write 0 .ctxErr,
   .failDone 0, .unlock 0, .bind, .hDone 0]

theorem C02_early_reply_witness :
    ∃ s, Reachable s ∧ ∃ c, s.calls[0]? = some c ∧ c.chanSends = 2 ∧ s.crashed = true := by
  have h : run State.init earlyRace = some ((run State.init earlyRace).getD State.init) := by decide
  refine ⟨_, reach_run .init _ h, ?_⟩
  decide

/-- non-vacuity of `C02_at_most_once_partial`: a run with a reply, a completed call and `rebound = false`. -/
example : ∃ s, Reachable s ∧ s.rebound = false ∧ ∃ c, s.calls[0]? = some c ∧ c.doneCount = 1 := by
  have h : run State.init (dupRace.take 11) = some ((run State.init (dupRace.take 11)).getD State.init) := by decide
  refine ⟨_, reach_run .init _ h, ?_⟩
  decide

/-! ## hostile replies -/

/- Full-strength statement (FALSE, same witnesses): at most once for every frame sequence including
   duplicates of a seq and replies for seqs not yet written. -/

/-- Hostile CONTENT is harmless for at-most-once: whatever the decode outcome of a reply (ok, error with
    a known codec, error with codec id 0, decoder panic), whatever its status, and for seqs that match no
    pending call (unknown seq, late duplicate of a completed call — `lookup` fails, nothing is bound):
    one more frame and any step after it keep the invariant; only a bind of an already bound/completed
    call (flagged `rebound`) can break it. -/
theorem C02_hostile_reply_partial (s t u : State) (r : Reachable s) (f : Frame)
    (hf : fire s (.frame f) = some t) (l : Label) (hl : fire t l = some u) (hb : u.rebound = false) :
    u.crashed = false ∧ ∀ (i : Nat) (c : Call), u.calls[i]? = some c → c.doneCount ≤ 1 ∧ c.chanSends ≤ 1 :=
  have ru : Reachable u := (r.step ⟨_, hf⟩).step ⟨_, hl⟩
  have h := C02_at_most_once_partial u ru hb
  ⟨h.1, fun i c hc => ⟨(h.2 i c hc).1, (h.2 i c hc).2.1⟩⟩

/-- a frame whose seq matches no table entry is never bound: the reader goes straight back to reading
    (or to the disconnect path) and no call record changes. -/
theorem C02_unknown_seq_not_bound (s t : State) (seq : Nat) (d : Dec) (rs : Nat) (rest : List Frame)
    (hr : s.rpc = .reading) (hq : s.inq = .reply seq d rs :: rest) (hl : s.lookup seq = none)
    (hf : fire s .read = some t) : t.calls = s.calls ∧ (t.rpc = .reading ∨ t.rpc = .discLoad) := by
  unfold fire at hf
  split at hf
  · cases hf
  simp only [hr, hq, hl, State.spawnOther] at hf
  split at hf <;> (cases hf; simp)


/-! ## no hang -/

/- Full-strength statement (FALSE for the code as it is, see `C02_nilcodec_wedge_witness`):
     theorem C02_no_stuck (s : State) (r : Reachable s) (hq : ∀ l, l.internal = true → fire s l = none) :
         ∀ (i : Nat) (c : Call), s.calls[i]? = some c →
           (c.hasReply = true ∨ s.lost = true ∨ s.status.closed = true) → c.doneCount = 1               -/

/-- the run behind defect 1: one call is written; the peer answers with a REPLY whose body decode fails
    while the codec id is 0 (`Dec.errNil`: codec id 0, non-empty body, result not `*[]byte`); `bindReply`
    has locked the call's mutex, the read loop leaves without spawning `handle`; the connection is lost;
    the disconnect path reaches the cancel loop and blocks on that mutex. -/
def wedgeRun : List Label :=
  [.issue false false false false 2, .store 0, .prewrite 0, .write 0 .ok, .unlock 0,
   .frame (.reply 1 .errNil 0), .read, .bind, .lose, .discLoad, .discStore, .discCtxWait [0], .discPick]

def wedged : State :=
  { calls := [{ pc := .returned, mu := .reader, hasReply := true, stat := 0, doneCount := 0, chanSends := 0,
                inTable := true, rstat := 0, rerr := false, nilRet := false, veto := false, ctxDone := false, wpanic := false,
                bytesRes := false, cap := 2 }],
    inq := [], lost := true, sockClosed := false, status := .passiveClosing, rpc := .discLock false 0 [],
    cpc := .idle, otherH := 0, crashed := false, rebound := false, leaked := true }

/-- A call hangs forever: reachable state, the reply has arrived AND the connection is lost, no internal
    step is enabled (only new external events could change anything, and none of them releases the
    mutex), the call is still in the pending table with its done channel open, and the session has not
    reached a closed state (the reader itself is blocked in the cancel loop). No duplicate/early reply is
    involved (`rebound = false`). -/
theorem C02_nilcodec_wedge_witness :
    Reachable wedged ∧ wedged.lost = true ∧ wedged.rebound = false ∧ wedged.status.closed = false ∧
    (∃ c, wedged.calls[0]? = some c ∧ c.pc = .returned ∧ c.hasReply = true ∧ c.doneCount = 0 ∧ c.inTable = true) ∧
    (∀ l : Label, l.internal = true → fire wedged l = none) := by
  have hr : run State.init wedgeRun = some wedged := by decide
  refine ⟨reach_run .init _ hr, rfl, rfl, rfl, ⟨_, rfl, rfl, rfl, rfl, rfl⟩, ?_⟩
  intro l hl
  cases l with
  | write i o => rcases i with _ | i <;> cases o <;> simp [fire, wedged]
  | store i => rcases i with _ | i <;> simp [fire, wedged]
  | prewrite i => rcases i with _ | i <;> simp [fire, wedged]
  | failDone i => rcases i with _ | i <;> simp [fire, wedged]
  | unlock i => rcases i with _ | i <;> simp [fire, wedged]
  | hDone i => rcases i with _ | i <;> simp [fire, wedged]
  | hUnlock i => rcases i with _ | i <;> simp [fire, wedged]
  | issue _ _ _ _ _ => simp [Label.internal] at hl
  | frame _ => simp [Label.internal] at hl
  | lose => simp [Label.internal] at hl
  | close => simp [Label.internal] at hl
  | _ => simp [fire, wedged]

/-- The same wedge through a decoder panic with a KNOWN codec id (form codec, more values than array
    slots): the read loop's recover goes to the disconnect path with the mutex held. -/
theorem C02_decode_panic_wedge_witness :
    ∃ s, Reachable s ∧ s.lost = true ∧ (∃ c, s.calls[0]? = some c ∧ c.hasReply = true ∧ c.doneCount = 0) ∧
      s.rpc = .discLock false 0 [] ∧ ∃ c, s.calls[0]? = some c ∧ c.mu = .reader := by
  have h : run State.init (wedgeRun.set 5 (.frame (.reply 1 .panic 0))) =
      some ((run State.init (wedgeRun.set 5 (.frame (.reply 1 .panic 0)))).getD State.init) := by decide
  refine ⟨_, reach_run .init _ h, ?_⟩
  decide

/- The part of `C02_no_stuck` that is proved here is the "reply has arrived" disjunct. The "connection
   lost" and "session closed" disjuncts (completion through the cancel loop of readDisconnected and through
   the callers' own status check) are NOT proved as theorems: they need the chain of invariants sketched in
   DESIGN §5 C02 (status never returns to Ok; every written, uncompleted call is in the Range snapshot; a
   visited call is completed); they are exercised by the correspondence families F3–F6 only. -/

/-- In every reachable state in which no internal step is enabled, in which `bindReply` never re-bound a
    bound/completed call, and in which no call's mutex was left locked by the reader (the hypothesis
    "no reply with a decode error under codec id 0 / decoder panic for a pending seq": that is the only
    way `mu = reader` arises), every call whose reply has arrived has completed exactly once. -/
theorem C02_no_stuck_partial (s : State) (r : Reachable s) (hb : s.rebound = false)
    (hw : ∀ (i : Nat) (c : Call), s.calls[i]? = some c → c.mu ≠ .reader)
    (hq : ∀ l : Label, l.internal = true → fire s l = none) :
    ∀ (i : Nat) (c : Call), s.calls[i]? = some c → c.hasReply = true → c.doneCount = 1 ∧ c.chanSends = 1 := by
  intro i c hci hr
  obtain ⟨hcr, hall⟩ := ainv_reach r hb
  have ci := hall i c hci
  rcases ci.replied hr with h | h | h
  · have := ci.le1; have := ci.sends; omega
  · exact absurd h (hw i c hci)
  · exfalso
    have hd0 := ci.hpre h
    have hn := hq (.hDone i) rfl
    unfold fire at hn
    rw [if_neg (by simp [hcr])] at hn
    simp only [hci, h, if_true] at hn
    simp [complete, hd0] at hn

/-- the state after one call answered by a valid reply, everything settled. -/
def answered : State :=
  { calls := [{ pc := .returned, mu := .free, hasReply := true, stat := 0, doneCount := 1, chanSends := 1,
                inTable := false, rstat := 0, rerr := false, nilRet := false, veto := false, ctxDone := false, wpanic := false,
                bytesRes := false, cap := 2 }],
    inq := [], lost := false, sockClosed := false, status := .ok, rpc := .reading, cpc := .idle, otherH := 0,
    crashed := false, rebound := false, leaked := false }

/-- non-vacuity of `C02_no_stuck_partial`: `answered` is reachable, satisfies all three hypotheses and has
    a call with a reply. -/
example : Reachable answered ∧ answered.rebound = false ∧
    (∀ (i : Nat) (c : Call), answered.calls[i]? = some c → c.mu ≠ .reader) ∧
    (∀ l : Label, l.internal = true → fire answered l = none) ∧
    ∃ c, answered.calls[0]? = some c ∧ c.hasReply = true := by
  have hr : run State.init [.issue false false false false 2, .store 0, .prewrite 0, .write 0 .ok, .unlock 0,
      .frame (.reply 1 .ok 0), .read, .bind, .hDone 0, .hUnlock 0] = some answered := by decide
  refine ⟨reach_run .init _ hr, rfl, ?_, ?_, ⟨_, rfl, rfl⟩⟩
  · intro i c h
    rcases i with _ | i <;> simp [answered] at h
    subst h; simp
  · intro l hl
    cases l with
    | write i o => rcases i with _ | i <;> cases o <;> simp [fire, answered]
    | store i => rcases i with _ | i <;> simp [fire, answered]
    | prewrite i => rcases i with _ | i <;> simp [fire, answered]
    | failDone i => rcases i with _ | i <;> simp [fire, answered]
    | unlock i => rcases i with _ | i <;> simp [fire, answered]
    | hDone i => rcases i with _ | i <;> simp [fire, answered]
    | hUnlock i => rcases i with _ | i <;> simp [fire, answered]
    | issue _ _ _ _ _ => simp [Label.internal] at hl
    | frame _ => simp [Label.internal] at hl
    | lose => simp [Label.internal] at hl
    | close => simp [Label.internal] at hl
    | _ => simp [fire, answered]

/-! ## progress -/

/-- Every internal step (any step that is not a new external event: call issue, frame arrival,
    connection loss, Close call) strictly decreases the natural-number measure `measure`; so from any
    state only finitely many internal steps are possible before a state with no enabled internal step
    is reached — under weak fairness, "completion follows without any further external event" is exactly
    "no call that should be complete is incomplete in a state without enabled internal steps"
    (`C02_no_stuck_partial`). -/
theorem C02_measure (s t : State) (l : Label) (hl : l.internal = true) (hf : fire s l = some t) :
    measure t < measure s :=
  measure_step hl hf

end C02
end Teleport
