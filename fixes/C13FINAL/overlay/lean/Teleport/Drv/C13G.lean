import Teleport.Drv.C13
/-
Drv/C13G — case kind `c13stale`: the forced stale-reader schedules of the redial machine
(harness/cmd/conform/c13g.go). Same line format as `c13`; every `c13` step is delegated to
`D13.stepRes`; two more steps run `Model/Redial` under the schedule that the harness forces on the
real code with gates:

  sfin:<op>:<av1>:<av2>   the reader of the lost connection is held at pc `dFinal` (gate `final.store`:
                          `redialForClient` said false, the final compare-and-swap to PassiveClosed not
                          yet taken) while <op> runs
                          (`C13_stale_final_schedule_completes` is `sfin:b:dd:u` with budget 1)
  storm:<n>:<av>          a Push held at `wWrite` (gate `write.check`) and the reader held at `rErr`
                          (gate `read.msg`) are released in turns (`C13_measure_storm_witness`)

One thing the real code does and `Model/Redial` does not say: `readDisconnected` waits in
`graceCtxWait` (between the index delete and the cancel loop) until no Push is in flight on the
session. The schedules here respect that (`stepG`: a reader at `dCancel` does not move while a
pusher is inside `Push`); every execution so scheduled is an execution of the model.
-/
namespace Teleport.Drv
open Teleport Teleport.Redial

namespace D13G
open D13

/-- a Push is in flight (it holds a handler context that `graceCtxWait` waits for). -/
def pushBusy (s : State) : Bool :=
  s.threads.any fun t => t.role == .pusher && t.pc.inAsyncCall

/-- `threadStep`, with the reader's `graceCtxWait` respected. -/
def stepG (s : State) (i : Nat) : Option State :=
  match s.threads[i]? with
  | some ⟨_, .dCancel _⟩ => if pushBusy s then none else threadStep s i
  | _ => threadStep s i

def firstEnabledG (s : State) (parked : List Nat) : Nat → Nat → Option State
  | _, 0 => none
  | i, n + 1 =>
    if i ∈ parked then firstEnabledG s parked (i + 1) n
    else match stepG s i with
      | some t => some t
      | none => firstEnabledG s parked (i + 1) n

def quiesceG (parked : List Nat) : Nat → State → State
  | 0, s => s
  | f + 1, s =>
    match firstEnabledG s parked 0 s.threads.length with
    | some t => quiesceG parked f t
    | none => s

def runThreadG (i : Nat) (stop : Pc → Bool) : Nat → State → State
  | 0, s => s
  | f + 1, s =>
    match s.threads[i]? with
    | some t =>
      if stop t.pc then s
      else match stepG s i with
        | some s' => runThreadG i stop f s'
        | none => s
    | none => s

def isWWrite : Pc → Bool
  | .wWrite _ _ => true
  | _ => false

def isWDone : Pc → Bool
  | .wDone _ => true
  | _ => false

/-- release a thread held at a pc that satisfies `stop`: one step, then on to the next such pc. -/
def advance (i : Nat) (stop : Pc → Bool) (s : State) : State :=
  match stepG s i with
  | some t => runThreadG i stop fuel t
  | none => s

def pushRes (s : State) (w : Nat) : String :=
  match pcOf s w with
  | some (.wDone c) => showCode c
  | _ => "hang"

def optList (o : Option Nat) : List Nat :=
  match o with
  | some i => [i]
  | none => []

/-- the turns of `storm`: `w` the Push (held at `wWrite`), `rd` the reader held at `rErr`.
    Returns the state, whether the Push is still held, and the reader still held (if any). -/
def stormTurns (w : Nat) : Nat → State → Nat → State × Bool × Option Nat
  | 0, s, rd => (s, true, some rd)
  | n + 1, s, rd =>
    let s1 := advance w isWWrite s
    if !((pcOf s1 w).map isWWrite).getD false then (s1, false, some rd)
    else
      let s2 := quiesceG [w, rd] fuel s1
      let nrd := readerIdx s2 s2.conn
      -- the reader that is one connection behind; the reader of the newest connection is held at rErr
      let s3 := runThreadG rd noStop fuel s2
      let s4 := runThreadG nrd (isPc .rErr) fuel s3
      if pcOf s4 nrd == some .rErr && nrd != rd then stormTurns w n (quiesceG [w, nrd] fuel s4) nrd
      else (quiesceG [w] fuel s4, true, none)

def stepResG (s : State) (f : List String) : Option (State × String) :=
  let arg := fun (i : Nat) => f.getD i ""
  match f.head? with
  | some "sfin" => do
    let s ← setAv s (arg 2)
    if !live s then
      let (s1, r) := echoCall s []
      pure (s1, r ++ ",-")
    else
      let rd := readerIdx s s.conn
      let s1 := runThread rd (isPc .dFinal) fuel (loseLive s)
      if pcOf s1 rd == some .stuck then pure (s1, "hang")
      else
      let s1 := quiesce [rd] fuel s1
      let s2 ← setAv s1 (arg 3)
      let (s3, r1, j) ← match arg 1 with
        | "n" => some (s2, "-", none)
        | "c" =>
          let (t, r) := echoCall s2 [rd]
          some (t, r, none)
        | "p" => do
          let t1 ← step s2 .push
          let w := s2.threads.length
          let t2 := runThread w noStop fuel t1
          some (quiesce [rd] fuel t2, pushRes t2 w, none)
        | "b" =>
          let (t1, j, w) := spawnCall s2
          some (quiesce [rd] fuel (runThread w noStop fuel t1), "-", some j)
        | _ => none
      -- the final compare-and-swap (won or lost), then the loss of the connection that is live now
      let s4 := quiesce [] fuel s3
      let s5 := quiesce [] fuel (loseLive s4)
      let r2 := match j with
        | none => "-"
        | some j => match (s5.calls[j]?).bind (·.res) with
          | some c => showCode c
          | none => "stuck"
      pure (s5, r1 ++ "," ++ r2)
  | some "storm" => do
    let n ← (arg 1).toNat?
    let s ← setAv s (arg 2)
    if !live s then
      let s1 ← step s .push
      let w := s.threads.length
      let s2 := runThread w noStop fuel s1
      pure (quiesce [] fuel s2, pushRes s2 w)
    else
      let rd := readerIdx s s.conn
      let s1 ← step s .push
      let w := s.threads.length
      let s2 := runThreadG w isWWrite fuel s1
      let s3 := quiesceG [w, rd] fuel (runThreadG rd (isPc .rErr) fuel (loseLive s2))
      let (s4, held, rdHeld) := stormTurns w n s3 rd
      let s5 := if held then advance w isWDone s4 else s4
      let r := pushRes s5 w
      let s6 := quiesceG (optList rdHeld) fuel s5
      pure (quiesceG [] fuel s6, r)
  | _ => D13.stepRes s f

def runStepsG (s : State) : List String → List String → String
  | [], acc => " ".intercalate acc.reverse
  | st :: rest, acc =>
    match stepResG { s with rounds := [], dialLog := [] } (st.splitOn ":") with
    | none => "bad-case"
    | some (s1, r) =>
      let o := observe s1 r
      if hasSub o "hang" then " ".intercalate (o :: acc).reverse
      else runStepsG s1 rest (o :: acc)

def c13stale (f : Fields) : String :=
  match f.int "b", f.get "werr", f.get "steps" with
  | some b, some w, some steps =>
    let s := State.init b (w == "eof")
    runStepsG s (steps.splitOn ",") [observe s "dial"]
  | _, _, _ => "bad-case"

end D13G

def handlersC13G : List (String × (Fields → String)) := [("c13stale", D13G.c13stale)]

end Teleport.Drv
