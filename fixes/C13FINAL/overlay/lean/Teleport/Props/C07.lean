/-
Props/C07 — Session lifecycle follows one state machine; the session index is exact.
Property theorems only; the model is Model/Lifecycle (session.go, peer.go, socket id), helper
lemmas live in Lemmas/Lifecycle.

The machine: any number of sessions on any number of peers; per session the lock-serialised closer
thread, the reader thread with its read loop (loop condition, frame arrival, second status test
and handler start are four steps) and its disconnect path (status load and compare-and-swap are two
steps; a failed compare-and-swap loads again), the accept thread (ServeConn order and listener order; the
step to Ok is a compare-and-swap from Preparing), SetID threads with the nested `hub.set`;
`Reach` = every interleaving of the system as coded, with any goroutine calling `Close()` at any
time (in the accept hooks, between the hooks and the step to Ok, between the reader's status load
and its compare-and-swap, ...).

Every statement of the property is proved at full strength: the lifecycle statements for every
interleaving, the index statement for every sequential history (`C07_hub_exact`):
`SessionHub.delete(id, sess)` removes an entry only if it still maps to the closing / re-keyed
session, and `SetID` touches the index only for a session in Preparing / Ok.
-/
import Teleport.Lemmas.Lifecycle
import Teleport.Model.Redial
import Teleport.Lemmas.SrcPaths
import Teleport.Gen.Transitions
import Teleport.Gen.ReadLoop
namespace Teleport
namespace C07
open Lifecycle

/-! ## healthy, reading and handling only after the hooks succeeded -/

/-- In every interleaving, for every session: `Health()` true implies the accept / dial hooks
    succeeded and the step Preparing → Ok was executed; the read loop has been started, and a
    handler has been started, only after that. (The hooks run in `Preparing`, where `Health()` is
    false.) -/
theorem C07_healthy_after_hooks (w : World) (r : Reach World.empty w) (s : Sess) (hs : s ∈ w.sess) :
    (s.core.health = true → s.core.est = true ∧ s.core.ph = .running) ∧
    (s.core.reader ≠ .idle → s.core.ph = .running) ∧
    (0 < s.core.handlers → s.core.ph = .running) ∧
    (s.core.ph = .hooks → s.core.health = false) := by
  have hi := lreach_sinv (sess_reach r hs) sinv_init
  refine ⟨fun h => ?_, hi.readerRunning, fun h => hi.readerRunning (hi.handlersReader h), fun h => ?_⟩
  · have : s.core.st = .ok := by
      unfold Core.health health at h
      by_cases e : s.core.st = .ok
      · exact e
      · simp [e] at h
    have hp := hi.okRunning this
    exact ⟨by simp [Core.est, hp], hp⟩
  · unfold Core.health health
    by_cases e : s.core.st = .ok
    · have := hi.okRunning e; rw [h] at this; cases this
    · simp [e]

/-- the read loop is spawned only by a step whose guard is "the step to Ok succeeded". -/
theorem C07_reader_starts_after_ok (c c' : Core) (h : lstep c .spawn = some c') : c.ph = .running := by
  simp only [lstep, lstepV] at h
  split at h
  · rename_i g; exact g.1
  · cases h

/-! ## close notification -/

/-- In EVERY interleaving (races included), for every session: the close notification fires at
    most once (the CAS flag), and in a closed state at a quiescent point it has fired exactly once. -/
theorem C07_notify_once (w : World) (r : Reach World.empty w) (s : Sess) (hs : s ∈ w.sess) :
    s.core.notifyCnt ≤ 1 ∧ (s.core.st.isClosed = true → s.core.quiet = true → s.core.notifyCnt = 1) := by
  have hi := lreach_sinv (sess_reach r hs) sinv_init
  have hn := hi.notify
  constructor
  · rw [hn]; split <;> omega
  · intro hc hq
    have hd : s.core.didNotify = true := by
      cases hst : s.core.st <;> simp [hst, Status.isClosed] at hc
      · exact hi.acNotify hst
      · have hr := hi.pcReader hst
        simp only [Core.quiet, Bool.and_eq_true, Bool.or_eq_true, decide_eq_true_eq] at hq
        rcases hr with h | h | h
        · rw [h] at hq; simp at hq
        · exact hi.hookNotify h
        · exact hi.doneNotify h hst
    rw [hn, hd]; rfl

/-! ## the closed state is never left -/

/-- the ghost `left` means what it says: a step that changes a closed status sets it, for good. -/
theorem C07_left_sound (c c' : Core) (e : LEv) (h : lstep c e = some c') :
    (c.st.isClosed = true → c'.st ≠ c.st → c'.left = true) ∧ (c.left = true → c'.left = true) :=
  ⟨left_sound h, left_mono h⟩

/-- In EVERY interleaving, for every session: no store ever replaces ActiveClosed / PassiveClosed by
    another status (the ghost `left` stays false), and from a closed state every continuation —
    `Close()` calls, the reader, the accept path, the environment, in any order — keeps the status. -/
theorem C07_closed_absorbing (w : World) (r : Reach World.empty w) (s : Sess) (hs : s ∈ w.sess) :
    s.core.left = false ∧
    ∀ c', LReach s.core c' → s.core.st.isClosed = true → c'.st = s.core.st := by
  have hr := sess_reach r hs
  have hs0 := lreach_sinv hr sinv_init
  have hi := lreach_rinv hr sinv_init rinv_init
  refine ⟨hi.1, fun c' r' hc => ?_⟩
  induction r' with
  | refl => rfl
  | step e r1 h ih =>
    rename_i b c2
    have hb := lreach_rinv r1 hs0 hi
    have hc2 := rinv_step h (lreach_sinv r1 hs0) hb
    by_cases hne : c2.st = b.st
    · rw [hne]; exact ih
    · have : c2.left = true := left_sound h (by rw [ih]; exact hc) hne
      rw [hc2.1] at this; cases this

/-- `Close()` ∥ `readDisconnected`: the schedule that used to run both close paths to the end
    (remote end gone, the reader loads `Ok`, a local `Close()` runs to its end, the reader goes on).
    The reader's compare-and-swap fails, it loads again, finds ActiveClosed and returns. -/
def closeVsDisconnect : List Ev :=
  [.new 0 1 0 .serve, .hookOk 0, .acc 0, .acc 0, .acc 0, .l 0 .rdTop,
   .l 0 .eof, .l 0 .rdExit, .l 0 .dLoad,
   .l 0 .closeCall, .l 0 .cHubDel, .l 0 .cNotify, .l 0 .cCallWait, .l 0 .cStore, .l 0 .cSock, .l 0 .cHook,
   .l 0 .dStore, .l 0 .dLoad, .l 0 .dStore]

/-- that schedule ends quiescent in ActiveClosed with one hook run, one notification, no closed
    state left. -/
theorem C07_close_vs_disconnect_schedule : ∃ w, run World.empty closeVsDisconnect = some w ∧
    (w.sess.map fun s => (s.core.st, s.core.left, s.core.discCnt, s.core.notifyCnt, s.core.quiet)) =
      [(.activeClosed, false, 1, 1, true)] := by
  refine ⟨_, rfl, ?_⟩
  decide

/-- `Close()` between the accept hook and the step to Ok: the schedule that used to revive the
    closed session (ActiveClosed → Ok, reader started on the closed socket, passive close path, hook
    twice). The accept path's compare-and-swap fails and it returns: no reader, one hook run. -/
def closeInAccept : List Ev :=
  [.new 0 1 0 .serve, .hookOk 0,
   .l 0 .closeCall, .l 0 .cHubDel, .l 0 .cNotify, .l 0 .cCallWait, .l 0 .cStore, .l 0 .cSock, .l 0 .cHook,
   .acc 0]

theorem C07_close_in_accept_schedule : ∃ w, run World.empty closeInAccept = some w ∧ w.quiet = true ∧
    (w.sess.map fun s => (s.core.st, s.core.ph, s.core.reader, s.core.left, s.core.discCnt, s.core.notifyCnt)) =
      [(.activeClosed, .aborted, .idle, false, 1, 1)] ∧ w.hub = [] := by
  refine ⟨_, rfl, ?_⟩
  decide

/-! ## the disconnect hook runs exactly once -/

/-- In EVERY interleaving, for every session: the disconnect hook has run at most once, not at all
    while the session is open, and exactly once when the session is closed and its threads are at
    rest (established or not — a session refused by its accept hook, or closed while its hooks ran,
    runs it too). -/
theorem C07_disconnect_hook_once (w : World) (r : Reach World.empty w) (s : Sess) (hs : s ∈ w.sess) :
    s.core.discCnt ≤ 1 ∧
    ((s.core.st = .ok ∨ s.core.st = .preparing) → s.core.discCnt = 0) ∧
    (s.core.st.isClosed = true → s.core.quiet = true → s.core.discCnt = 1) := by
  exact rinv_disc (lreach_rinv (sess_reach r hs) sinv_init rinv_init)

/-- non-vacuity: a run in which a session is closed by `Close()` with one hook run. -/
example : ∃ w, Reach World.empty w ∧ ∃ s ∈ w.sess, s.core.st = .activeClosed ∧ s.core.discCnt = 1 := by
  have r0 : Reach World.empty World.empty := .refl _
  have r1 := r0.step (.new 0 1 0 .serve) (c := _) rfl
  have r2 := r1.step (.hookOk 0) (c := _) rfl
  have r3 := r2.step (.acc 0) (c := _) rfl
  have r4 := r3.step (.acc 0) (c := _) rfl
  have r5 := r4.step (.acc 0) (c := _) rfl
  have r6 := r5.step (.l 0 .closeCall) (c := _) rfl
  have r7 := r6.step (.l 0 .cHubDel) (c := _) rfl
  have r8 := r7.step (.l 0 .cNotify) (c := _) rfl
  have r9 := r8.step (.l 0 .cCallWait) (c := _) rfl
  have r10 := r9.step (.l 0 .cStore) (c := _) rfl
  have r11 := r10.step (.l 0 .cSock) (c := _) rfl
  have r12 := r11.step (.l 0 .cHook) (c := _) rfl
  exact ⟨_, r12, _, List.mem_singleton.2 rfl, by decide, by decide⟩

/-! ## calls and pushes fail fast -/

/-- in ActiveClosed / PassiveClosed every `write` (CALL, PUSH or REPLY) is refused with the
    connection-closed status and the socket is not touched. -/
theorem C07_write_refused_in_closed_states (st : Status) (h : st.isClosed = true) (isReply ctxDone : Bool)
    (sock : SockRes) : write st isReply ctxDone sock = (.connClosed, false) := by
  cases st <;> simp [Status.isClosed] at h <;> simp [write]

/-- `write` in any status other than Ok (or ActiveClosing for a reply) returns the
    connection-closed status without looking at the context or touching the socket — whatever the
    context and the socket would have answered. -/
theorem C07_fail_fast (st : Status) (isReply ctxDone : Bool) (sock : SockRes)
    (h : ¬ (st = .ok ∨ (st = .activeClosing ∧ isReply = true))) :
    write st isReply ctxDone sock = (.connClosed, false) := by
  unfold write
  have : (decide (st = .ok) || (decide (st = .activeClosing) && isReply)) = false := by
    cases hd : (decide (st = .ok) || (decide (st = .activeClosing) && isReply))
    · rfl
    · simp at hd; exact absurd hd h
  simp [this]

example : ¬ (Status.passiveClosing = .ok ∨ (Status.passiveClosing = .activeClosing ∧ false = true)) := by decide

/-- ... and only then: in `Ok` (or `ActiveClosing` for a reply) the status check lets it through. -/
theorem C07_write_passes_when_ok (st : Status) (isReply : Bool)
    (h : st = .ok ∨ (st = .activeClosing ∧ isReply = true)) :
    write st isReply false .fine = (.ok, true) := by
  rcases h with h | ⟨h, h2⟩
  · simp [write, h]
  · simp [write, h, h2]

/-! ## no new handler -/

/-- `goonRead` is exactly "Ok or ActiveClosing". -/
theorem C07_goonRead_iff (st : Status) : goonRead st = true ↔ (st = .ok ∨ st = .activeClosing) := by
  cases st <;> simp [goonRead]

/-- The read loop, step by step, for every step of every thread: only `rdAdd` starts a handler, and
    it is enabled only with the reader past the post-read test; the reader gets past that test only
    by `rdChk` with the status in {Ok, ActiveClosing} AT THAT MOMENT — after `ReadMessage` has
    returned; with any other status `rdChk` drops the frame and the loop is left into
    `readDisconnected`; the loop condition `rdTop` (tested BEFORE the blocking read) does the same
    without reading; a frame is taken (`rdMsg`) only by a reader blocked in `ReadMessage`. -/
theorem C07_no_new_handler (c c' : Core) (e : LEv) (h : lstep c e = some c') :
    (c'.handlers = c.handlers ∨ (e = .rdAdd ∧ c.reader = .add ∧ c'.handlers = c.handlers + 1)) ∧
    (c'.reader = .add → c.reader = .add ∨ (e = .rdChk ∧ c.reader = .got ∧ goonRead c.st = true)) ∧
    (e = .rdChk → goonRead c.st = false → c'.reader = .disc0) ∧
    (e = .rdTop → goonRead c.st = false → c'.reader = .disc0) ∧
    (c'.reader = .got → c.reader = .got ∨ (e = .rdMsg ∧ c.reader = .reading ∧ c'.late = c.st.isClosed)) := by
  lstep_split h
  all_goals (
    first
    | obtain ⟨rfl, g1, g2, g3, g4, rfl⟩ := h
    | obtain ⟨rfl, g1, g2, g3, rfl⟩ := h
    | obtain ⟨rfl, g1, g2, rfl⟩ := h
    | obtain ⟨rfl, g1, rfl⟩ := h
    | obtain ⟨rfl, rfl⟩ := h)
  all_goals (simp_all [Core.store, Core.notify] <;> (try split) <;> simp_all)

example : lrunV true { Core.init with ph := .running, st := .ok, reader := .loop } [.rdTop, .rdMsg, .rdChk, .rdAdd] =
    some { Core.init with ph := .running, st := .ok, reader := .loop, handlers := 1 } := by decide

/-- **No new handler after the closed status is stored.** In EVERY interleaving of any number of
    sessions (closer at any point of `closeLocked`, frames arriving at any moment the socket is still
    open, `Close()` calls from anywhere), for every session: no handler has ever been started for a
    frame that `ReadMessage` returned when the status was already ActiveClosed / PassiveClosed
    (`lateH = 0`); a reader about to start a handler holds a frame that arrived before that; and a
    frame that did arrive in a closed status is — because the status is tested again AFTER the read
    and the closed status is never left — dropped by the reader's next step, which leaves the loop
    without starting a handler. (The loop condition alone cannot give this: it was evaluated before
    the read, when the status may still have been Ok — see `C07_no_recheck_witness`.) -/
theorem C07_no_new_handler_after_closed (w : World) (r : Reach World.empty w) (s : Sess) (hs : s ∈ w.sess) :
    s.core.lateH = 0 ∧
    (s.core.reader = .add → s.core.late = false) ∧
    (s.core.reader = .got → s.core.late = true →
      s.core.st.isClosed = true ∧
      ∀ c', lstep s.core .rdChk = some c' → c'.reader = .disc0 ∧ c'.handlers = s.core.handlers) := by
  have hr := sess_reach r hs
  have hi := lreach_hinv hr sinv_init rinv_init hinv_init
  refine ⟨hi.lateH, hi.addFresh, fun hg hl => ?_⟩
  have hc := hi.gotLate hg hl
  refine ⟨hc, fun c' h => ?_⟩
  have hgo : goonRead s.core.st = false := by
    cases hst : s.core.st <;> simp [hst, Status.isClosed] at hc <;> rfl
  simp only [lstep, lstepV, hg, hgo] at h
  simp at h
  subst h
  exact ⟨rfl, rfl⟩

/-- the local `Close()` has stored ActiveClosed and stands before `socket.Close()` (gate
    `close.sock`); a complete frame arrives and `ReadMessage` returns it. -/
def lateFrame : List LEv :=
  [.hookOk, .storeOk, .spawn, .rdTop, .closeCall, .cHubDel, .cNotify, .cCallWait, .cStore, .rdMsg]

/-- non-vacuity of `C07_no_new_handler_after_closed`: that state is reachable (the reader holds a
    frame that arrived in ActiveClosed), and as coded the next reader step drops it. -/
example : ∃ c, LReach Core.init c ∧ c.reader = .got ∧ c.late = true ∧ c.st = .activeClosed ∧ c.closer = .sock ∧
    (lstep c .rdChk).map (fun c' => (c'.reader, c'.handlers)) = some (.disc0, 0) :=
  ⟨_, lreach_of_v (lreachV_of_run (rc := true) (es := lateFrame) rfl), by decide⟩

/-- **Without the second test the property fails.** The same read loop with the post-read `goonRead`
    test removed (`lstepV false`: the loop condition is the only status test) admits, on the schedule
    `lateFrame` followed by the reader's next two steps, a handler start on a closed session: status
    ActiveClosed, `Health()` false, close notification fired, `Close()` past its waits and standing
    before `socket.Close()` — and the frame arrived after the closed status was stored (`lateH = 1`). -/
theorem C07_no_recheck_witness :
    ∃ c, LReachV false Core.init c ∧ c.st = .activeClosed ∧ c.closer = .sock ∧ c.sockClosed = false ∧
      c.health = false ∧ c.didNotify = true ∧ c.handlers = 1 ∧ c.lateH = 1 :=
  ⟨_, lreachV_of_run (rc := false) (es := lateFrame ++ [.rdChk, .rdAdd]) rfl, by decide⟩

/-- ... and on the same schedule the loop as coded starts none: after `rdChk` the reader is in
    `readDisconnected`, `rdAdd` is not enabled. -/
theorem C07_recheck_drops_late_frame :
    (lrunV true Core.init (lateFrame ++ [.rdChk])).map (fun c => (c.reader, c.handlers, c.lateH)) = some (.disc0, 0, 0) ∧
    lrunV true Core.init (lateFrame ++ [.rdChk, .rdAdd]) = none := by
  decide

/-- the `read.add` window: the frame arrived and passed the post-read test while the status was Ok;
    then a local `Close()` runs to its END (no handler is counted yet, so neither wait holds it);
    then the reader executes `Add(1)` and starts the handler. -/
def readAddWindow : List LEv :=
  [.hookOk, .storeOk, .spawn, .rdTop, .rdMsg, .rdChk,
   .closeCall, .cHubDel, .cNotify, .cCallWait, .cStore, .cSock, .cHook, .rdAdd]

/-- **The `read.add` window (a finding about the code as it is).** "No new handler starts after a
    local close" does NOT hold for a frame that has passed the post-read test but whose
    `graceCtxWaitGroup.Add(1)` has not run yet when `Close()` is called: test and `Add(1)` are two steps,
    `Close()` fits in between, and the handler then starts in ActiveClosed after `Close()` has returned
    (the same window as `C08_read_add_window_witness`). It is not a late frame (`lateH = 0`): it arrived
    and was tested in status Ok — by `C07_no_new_handler` and `C07_no_new_handler_after_closed` this is
    the only way a handler can start in a closed status. -/
theorem C07_read_add_window_witness :
    ∃ c, LReach Core.init c ∧ c.st = .activeClosed ∧ c.closer = .idle ∧ c.discCnt = 1 ∧ c.sockClosed = true ∧
      c.handlers = 1 ∧ c.lateH = 0 ∧
      (lrunV true Core.init (readAddWindow.take 13)).map (fun b => (b.st, b.handlers, b.reader)) = some (.activeClosed, 0, .add) :=
  ⟨_, lreach_of_v (lreachV_of_run (rc := true) (es := readAddWindow) rfl), by decide⟩

/-! ## the index is exact -/

/-- Every sequential history over {accept (with an optional `SetID` in the accept hook, accepted
    or refused), SetID, Close, disconnect} — by induction over the operation list, with the index as
    coded (`delete(id, sess)` removes the entry only if it maps to `sess`; `SetID` updates the index
    only for a session in Preparing / Ok), NO hypothesis on the operations: ids may be shared in
    every way (a new connection with the address id of a live session — take-over, which closes
    the older one —, `SetID` to the id of another live session in an accept hook or later, a refused
    connection with a colliding id) and closed sessions may be re-keyed: after the history, for
    every id, `GetSession(id)` finds session `s` iff `s` is live with current id `id`; nothing else
    is indexed. (Exactness under arbitrary interleavings of the operations is not claimed: the
    interleaving machine is tied to this model by the correspondence run.) -/
theorem C07_hub_exact (h : HSt) (ops : List HOp) (he : h.Exact) : (h.run ops).Exact :=
  run_exact he

/-- from the empty peer. -/
theorem C07_hub_exact_from_empty (ops : List HOp) : (HSt.empty.run ops).Exact :=
  run_exact (by intro k t; simp [HSt.empty, AL.get])

/-- non-vacuity of the hypothesis `h.Exact` and a history full of shared ids and a re-keyed closed
    session: the final index is `{0 ↦ session 4}` with sessions 0–3 closed. -/
example : let h := HSt.empty.run [.accept 0 none false, .accept 0 none false, .accept 2 (some 0) false,
    .accept 0 none true, .accept 4 none false, .setID 4 0, .close 1, .setID 1 7, .disconnect 3]
    h.hub = [(0, 4)] ∧ (List.range 5).map h.live = [false, false, false, false, true] := by
  decide

/-- Take-over (1): a newer session takes over the id of a live one through plain `ServeConn` — the
    older session is closed, its close path leaves the entry (which maps to the newer session)
    alone: the new session is live, holds the id and `GetSession(id)` finds it. -/
theorem C07_hub_takeover (h : HSt) (id t : Nat) (he : h.Exact) (ht : t < h.n)
    (lt : h.live t = true) (hid : h.idOf t = id) :
    let h' := h.apply (.accept id none false)
    h'.Exact ∧ h'.hub.get id = some h.n ∧ h'.live h.n = true ∧ h'.live t = false := by
  obtain ⟨a, _, _, d, e⟩ := accept_takeover he ht lt hid
  exact ⟨apply_exact he, d, a, e⟩

/-- Take-over (2): `SetID` to the id of another live session: the re-keyed session is found under
    the new id, the previous holder is closed, the old id is free. -/
theorem C07_hub_setid_collision (h : HSt) (s t v : Nat) (he : h.Exact) (hs : s < h.n) (ht : t < h.n)
    (hst : t ≠ s) (ls : h.live s = true) (lt : h.live t = true) (hv : h.idOf t = v) (hne : h.idOf s ≠ v) :
    let h' := h.apply (.setID s v)
    h'.Exact ∧ h'.hub.get v = some s ∧ h'.live s = true ∧ h'.live t = false ∧ h'.hub.get (h.idOf s) = none := by
  obtain ⟨a, _, c, d, e⟩ := setID_takeover he hs ht hst ls lt hv hne
  exact ⟨apply_exact he, c, a, d, e⟩

example : ∃ h : HSt, h.Exact ∧ 0 < h.n ∧ h.live 0 = true ∧ h.idOf 0 = 0 :=
  ⟨HSt.empty.run [.accept 0 none false], C07_hub_exact_from_empty _, by decide, by decide, by decide⟩

/-- re-keying a closed session changes its id and leaves the index alone. -/
theorem C07_hub_setid_closed :
    let h := HSt.empty.run [.accept 0 none false, .accept 2 none false, .close 0, .setID 0 3]
    h.live 0 = false ∧ h.idOf 0 = 3 ∧ h.hub = [(2, 1)] := by
  decide

/-- two connections from the same address on one peer, both ends served, everything at rest. -/
def takeoverSchedule : List Ev :=
  [.new 0 1 0 .serve, .hookOk 0, .acc 0, .acc 0, .acc 0, .l 0 .rdTop,
   .new 0 2 0 .serve, .hookOk 1, .acc 1, .acc 1,
   .acc 1, .acc 1,                               -- LoadOrStore finds session 0, Store; session0.Close()
   .l 0 .cHubDel,                                -- session 0: delete(id 0, session 0) — maps to session 1: kept
   .l 0 .cNotify, .l 0 .cCallWait, .l 0 .cStore, .l 0 .cSock, .l 0 .cHook,
   .acc 1,                                       -- Close() returned
   .l 0 .rdExit, .l 0 .dLoad, .l 0 .dStore,
   .l 1 .rdTop]                                  -- the newer session's reader blocks in `ReadMessage`

/-- In the interleaving machine the take-over schedule ends quiescent with the index exact: the
    newer session is live and indexed under the id, the older one is closed. -/
theorem C07_hub_takeover_schedule :
    ∃ w, Reach World.empty w ∧ w.quiet = true ∧ w.hubExact = true ∧
      w.hub = [((0, 0), 1)] ∧ (w.sess.map fun s => s.live) = [false, true] := by
  have : ∃ w, run World.empty takeoverSchedule = some w ∧ w.quiet = true ∧ w.hubExact = true ∧
      w.hub = [((0, 0), 1)] ∧ (w.sess.map fun s => s.live) = [false, true] := by
    refine ⟨_, rfl, ?_⟩
    decide
  obtain ⟨w, hw, h⟩ := this
  exact ⟨w, reach_of_run hw, h⟩

/-! ## tie A — the machine as it is in the source NOW (`Gen/Transitions`)

`srcfacts` regenerates the status constants, every status store / compare-and-swap with its
enclosing function, and the ordered flows of `closeLocked`, `readDisconnected`, `write` …
The theorems below compare them with `Model/Lifecycle` by RUNNING the model: the statuses a
compare-and-swap may leave are read off `lstep`, the order of the close and disconnect paths is
the order in which `lstep` enables the closer's / reader's steps, the refusal table of `write`
is the model's `write`. Only the Go spelling of the eight status names is restated by hand. -/

section TieA
open SrcFlow (sameSet without count dedup)
open SrcPaths

def allStatus : List Status :=
  [.preparing, .ok, .activeClosing, .activeClosed, .passiveClosing, .passiveClosed, .redialing, .redialFailed]

/-- Go name of the constant. -/
def goName : Status → String
  | .preparing => "statusPreparing" | .ok => "statusOk" | .activeClosing => "statusActiveClosing"
  | .activeClosed => "statusActiveClosed" | .passiveClosing => "statusPassiveClosing"
  | .passiveClosed => "statusPassiveClosed" | .redialing => "statusRedialing" | .redialFailed => "statusRedialFailed"

def commaJoin : List String → String
  | [] => ""
  | [a] => a
  | a :: r => a ++ "," ++ commaJoin r

/-- name of a `tryChangeStatus(to, from…)` site. -/
def casName (to : Status) (frm : List Status) : String := goName to ++ "<-" ++ commaJoin (frm.map goName)

/-- **The status constants and their order are the model's (tie A).** The `iota` block of session.go
    declares exactly the eight constructors of `Lifecycle.Status`, in constructor order, so that the
    `int32` value of each constant is `Status.code` (what the harness observes through `VerifStatus`
    and what `Model/Redial`, `Model/Auth`, `Model/Graceful` assume too). Inserting, removing or
    reordering a constant changes the regenerated list and this theorem no longer checks. -/
theorem C07_status_order :
    Gen.transitions_missing = [] ∧
    Gen.status_consts = allStatus.map goName ∧
    allStatus.all (fun s => Gen.status_consts[s.code]? == some (goName s)) = true ∧
    allStatus.map Status.code = List.range Gen.status_consts.length ∧
    (allStatus.map fun s => (Redial.Status.code <$> [Redial.Status.preparing, .ok, .activeClosing, .activeClosed,
      .passiveClosing, .passiveClosed, .redialing, .redialFailed][s.code]?)) = allStatus.map fun s => some s.code := by
  decide

/-- a session core in status `st` with its threads at the given positions. -/
def coreAt (st : Status) (ph : Phase) (closer : CPc) (reader : RPc) (rst : Status) : Core :=
  { Core.init with st := st, ph := ph, closer := closer, reader := reader, rst := rst }

/-- the statuses from which the model's step `e` moves the session to `to`. -/
def fromSet (mk : Status → Core) (e : LEv) (to : Status) : List Status :=
  allStatus.filter fun s => s != to && ((lstep (mk s) e).map (·.st) == some to)

/-- the model's step `e` stores `to` whatever the status was: a blind store. -/
def blindStore (mk : Status → Core) (e : LEv) (to : Status) : Bool :=
  allStatus.all fun s => (lstep (mk s) e).map (·.st) == some to

/-- (function, name) of the sites of one kind. -/
def sitesOf (kind : String) : List (String × String) :=
  (Gen.status_sites.filter fun r => r.2.1 == kind).map fun r => (r.1, r.2.2.1)

def closeFrom : List Status := [.ok, .preparing]
def redialFrom : List Status := [.ok, .passiveClosing, .passiveClosed, .redialFailed]
def discReturnArm : List Status := [.passiveClosed, .activeClosed, .passiveClosing]
def discDefaultArm : List Status := allStatus.filter fun s => !discReturnArm.contains s && s != .activeClosing

def redialAll : List Redial.Status :=
  [.preparing, .ok, .activeClosing, .activeClosed, .passiveClosing, .passiveClosed, .redialing, .redialFailed]

/-- the path facts this section reads. -/
def pathMissing : List (List String) :=
  [Gen.tpaths_session_closeLocked_missing, Gen.tpaths_session_readDisconnected_missing, Gen.tpaths_session_Close_missing,
   Gen.tpaths_session_redialForClient_missing, Gen.tpaths_peer_Dial_missing, Gen.tpaths_peer_Dial_redial_missing,
   Gen.tpaths_peer_ServeConn_missing, Gen.tpaths_peer_serveListener_accept_missing]

def isRedialCas (e : PEv) : Bool := e.is "cas" (casName .redialing redialFrom)
def isDiscCas (e : PEv) : Bool := e.is "cas" (goName .passiveClosing ++ "<-status")

/-- the reader before the last step of `readDisconnected` (the redial attempt was refused), session in status `s`. -/
def finalAt (s : Status) : Core := coreAt s .running .idle .closed .ok
/-- the statuses from which the model's `dClosed` ends the session (PassiveClosed): read off `lstep`. -/
def finalFrom : List Status := fromSet finalAt .dClosed .passiveClosed
/-- the final compare-and-swap of `readDisconnected`, as a path event. -/
def isFinalCas (e : PEv) : Bool := e.is "cas" (casName .passiveClosed finalFrom)

/-- **No blind status store outside the lock; the compare-and-swap sites are the model's guards
    (tie A).** In the root package as it is now:
    (1) the status word is written only through `changeStatus` / `tryChangeStatus` (no raw atomic
    access outside the four accessors);
    (2) the blind stores (`changeStatus`) are exactly: `ActiveClosed` in `closeLocked`; `Preparing`,
    `Redialing`, `Ok` in the redial literal of `Dial` — `readDisconnected` has none (since fixes/C13FINAL
    its last step is a compare-and-swap, see (3)). `closeLocked`
    is called only by `Close` — after `s.lock.Lock()`, released by `defer` — and by the redial literal;
    the redial literal is installed in one place (`sess.redialForClientLocked = …` in `Dial`) and called
    only by `redialForClient` under the same lock: so the first two groups run with `s.lock` held
    (the model's closer thread, and `Model/Redial.redialLocked`); in the model `cStore` stores its
    value whatever the status is, `dClosed` does not;
    (3) the compare-and-swap sites are exactly: `closeLocked` ActiveClosing ← {Ok, Preparing} = the
    statuses from which the model's `closeCall` moves to ActiveClosing; `ServeConn`, `Dial`, the accept
    literal Ok ← {Preparing} = the model's `storeOk` (a session closed while its hooks ran is not
    revived), each with the failing branch returning; `readDisconnected` PassiveClosing ← the status it
    loaded, retried (`continue`) when it fails — the model's `dStore`: for a loaded status of the
    default arm it succeeds iff the status is still the loaded one, else back to the load; the
    `case` lists of its switch are the model's arms (return for PassiveClosed, ActiveClosed,
    PassiveClosing; keep ActiveClosing); `readDisconnected`'s LAST step PassiveClosed ← {PassiveClosing,
    RedialFailed} = the statuses from which the model's `dClosed` ends the session (`finalFrom`, read off
    `lstep`; = `Model/Redial.finalFrom`): it comes after the reader's own won compare-and-swap on every
    path, there is a path that wins it and one that loses it, and the losing path only returns — as
    the model's reader is done with the core untouched (no notification, no hook) in every status
    outside the from-list; `redialForClient` Redialing ← `Model/Redial.casFrom`; the redial
    literal RedialFailed ← {Redialing} = `Redial.casRedialFailed`.
    The statements about order are statements about EVERY control-flow path of the function
    (`Gen.tpaths_*`: conditions normalised, helpers inlined), e.g. "on every path of `redialForClient` the
    compare-and-swap comes after `s.lock.Lock()` with no `Unlock` in between, and the closure is called
    only on a path that won it"; what a lost compare-and-swap does is read off the paths too.
    Replacing a compare-and-swap by a blind store, widening a from-list or storing the status
    somewhere else changes a regenerated fact and this theorem no longer checks. -/
theorem C07_no_blind_store_outside_lock :
    Gen.transitions_missing = [] ∧
    sitesOf "rawstatus" = [] ∧ sitesOf "?" = [] ∧
    sameSet (sitesOf "store")
      [("session.closeLocked", goName .activeClosed),
       ("peer.Dial#redial", goName .preparing), ("peer.Dial#redial", goName .redialing), ("peer.Dial#redial", goName .ok)] = true ∧
    Gen.lock_held_calls =
      [("closeLocked", "peer.Dial#redial", "no-lock"), ("closeLocked", "session.Close", "lock-held"),
       ("redialForClientLocked", "session.redialForClient", "lock-held")] ∧
    pathMissing.all (· == []) = true ∧
    Gen.tpaths_peer_Dial.all (fun p => (p.filter fun (e : PEv) => e.is "assign" "redialForClientLocked").length ≤ 1) = true ∧
    Gen.tpaths_peer_Dial.any (fun p => p.any fun (e : PEv) => e.is "assign" "redialForClientLocked") = true ∧
    Gen.tpaths_session_Close.map keys = [["lock:lock.Lock", "call:closeLocked", "lock:lock.Unlock"]] ∧
    Gen.tpaths_session_redialForClient.all (fun p =>
      precededBy (fun e => e.is "lock" "lock.Lock") isRedialCas p &&
      precededBy (fun e => isRedialCas e && e.out == "ok") (fun e => e.is "call" "redialForClientLocked") p &&
      (upTo (fun e => e.is "call" "redialForClientLocked") p).all (fun e => !e.is "lock" "lock.Unlock") &&
      (upTo isRedialCas p).all (fun e => !e.is "lock" "lock.Unlock")) = true ∧
    Gen.tpaths_session_redialForClient.any (fun p => p.any fun (e : PEv) => e.is "call" "redialForClientLocked") = true ∧
    Gen.tpaths_session_readDisconnected.all (precededBy (fun e => isDiscCas e && e.out == "ok") isFinalCas) = true ∧
    Gen.tpaths_session_readDisconnected.any (fun p => p.any fun (e : PEv) => isFinalCas e && e.out == "ok") = true ∧
    Gen.tpaths_session_readDisconnected.any (fun p => p.any fun (e : PEv) => isFinalCas e && e.out == "fail") = true ∧
    Gen.tpaths_session_readDisconnected.all (fun p => p.all fun (e : PEv) => e.kind != "store") = true ∧
    -- what a lost compare-and-swap does: return (close, accept, dial), back to the load (disconnect), `false` (redial entry)
    [Gen.tpaths_session_closeLocked, Gen.tpaths_peer_ServeConn, Gen.tpaths_peer_Dial].all (fun ps => ps.all fun p =>
      (rest (fun e => e.kind == "cas" && e.out == "fail") p).all fun e => e.kind == "return") = true ∧
    Gen.tpaths_session_readDisconnected.all (fun p =>
      !(p.any fun (e : PEv) => isDiscCas e && e.out == "fail") || keys (rest (fun (e : PEv) => isDiscCas e && e.out == "fail") p) == ["loop:back"]) = true ∧
    -- a lost FINAL compare-and-swap: return, nothing else (the model's reader is done, the core untouched)
    Gen.tpaths_session_readDisconnected.all (fun p =>
      (rest (fun (e : PEv) => isFinalCas e && e.out == "fail") p).all fun e => e.kind == "return") = true ∧
    (allStatus.filter fun s => !finalFrom.contains s).all (fun s =>
      lstep (finalAt s) .dClosed == some { finalAt s with reader := .done }) = true ∧
    Gen.tpaths_session_redialForClient.all (fun p =>
      !(p.any fun (e : PEv) => isRedialCas e && e.out == "fail") ||
        rtags (rest (fun e => isRedialCas e && e.out == "fail") p) == ["return:false", "lock:lock.Unlock"]) = true ∧
    [Gen.tpaths_session_closeLocked, Gen.tpaths_peer_ServeConn, Gen.tpaths_peer_Dial, Gen.tpaths_peer_serveListener_accept,
     Gen.tpaths_session_readDisconnected, Gen.tpaths_session_redialForClient].all (fun ps => ps.all fun p =>
      p.all fun (e : PEv) => e.kind != "cas" || e.out != "") = true ∧
    Gen.tpaths_peer_Dial_redial.all (fun p => p.all fun (e : PEv) => e.kind != "cas" || e.out == "") = true ∧
    blindStore (fun s => coreAt s .running .store .idle .preparing) .cStore .activeClosed = true ∧
    blindStore finalAt .dClosed .passiveClosed = false ∧
    finalFrom = [.passiveClosing, .redialFailed] ∧
    finalFrom.all (fun s => (lstep (finalAt s) .dClosed).map (fun c => (c.st, c.reader)) == some (.passiveClosed, .notify)) = true ∧
    sameSet ((Gen.status_sites.filter fun r => r.2.1 == "cas").map fun r => (r.1, r.2.2.1))
      [("session.closeLocked", casName .activeClosing closeFrom),
       ("peer.ServeConn", casName .ok [.preparing]),
       ("peer.Dial", casName .ok [.preparing]),
       ("peer.serveListener#accept", casName .ok [.preparing]),
       ("session.readDisconnected", goName .passiveClosing ++ "<-status"),
       ("session.readDisconnected", casName .passiveClosed finalFrom),
       ("session.redialForClient", casName .redialing redialFrom),
       ("peer.Dial#redial", casName .redialFailed [.redialing])] = true ∧
    sameSet closeFrom (fromSet (fun s => coreAt s .hooks .idle .idle .preparing) .closeCall .activeClosing) = true ∧
    sameSet [Status.preparing] (fromSet (fun s => coreAt s .accepted .idle .idle .preparing) .storeOk .ok) = true ∧
    -- readDisconnected: the switch arms and the compare-and-swap from the loaded status
    sameSet ((sitesOf "case").filter (·.1 == "session.readDisconnected")).unzip.2
      [commaJoin (discReturnArm.map goName), goName .activeClosing, "default"] = true ∧
    sameSet discReturnArm (allStatus.filter fun r =>
      (lstep (coreAt r .running .idle .loaded r) .dStore).map (·.reader) == some .done) = true ∧
    (allStatus.filter fun r => (lstep (coreAt r .running .idle .loaded r) .dStore).map (fun c => (c.st, c.reader)) == some (r, .hubdel))
      = [.activeClosing] ∧
    discDefaultArm.all (fun r => allStatus.all fun s =>
      (lstep (coreAt s .running .idle .loaded r) .dStore).map (fun c => (c.st, c.reader)) ==
        some (if s == r then (.passiveClosing, .hubdel) else (s, .disc0))) = true ∧
    -- the redial path: Model/Redial
    sameSet (redialFrom.map Status.code) ((redialAll.filter Redial.casFrom).map Redial.Status.code) = true ∧
    sameSet (finalFrom.map Status.code) ((redialAll.filter Redial.finalFrom).map Redial.Status.code) = true ∧
    (redialAll.filter fun s => s != .redialFailed &&
      (Redial.casRedialFailed { Redial.State.init 1 false with status := s }).status == .redialFailed) = [.redialing] := by
  decide

/-! ### the order of the close path and of the disconnect path -/

def closerEvents : List LEv := [.cHubDel, .cNotify, .cCallWait, .cStore, .cSock, .cHook]
def readerEvents : List LEv := [.dLoad, .dStore, .dHubDel, .dSock, .dClosed, .dNotify, .dHook]

/-- the one step among `cands` that the model enables in `c` (none if zero or several are). -/
def nextOf (cands : List LEv) (c : Core) : Option (LEv × Core) :=
  match cands.filterMap fun e => (lstep c e).map fun c' => (e, c') with
  | [x] => some x
  | _ => none

/-- the order in which the model enables the steps of one thread, run alone. -/
def traceOf (cands : List LEv) : Nat → Core → List (LEv × Core)
  | 0, _ => []
  | n + 1, c =>
    match nextOf cands c with
    | some (e, c') => (e, c') :: traceOf cands n c'
    | none => []

/-- the source statement of a model step (`c` = the state after the step: a store is named after the
    status it leaves). -/
def stepKey : LEv × Core → String
  | (.cHubDel, _) | (.dHubDel, _) => "call:sessHub.delete"
  | (.cNotify, _) | (.dNotify, _) => "call:notifyClosed"
  | (.cCallWait, _) => "wg:call.Wait"
  | (.cStore, c) => "store:" ++ goName c.st
  | (.dClosed, _) => "cas:" ++ casName .passiveClosed finalFrom
  | (.cSock, _) | (.dSock, _) => "call:socket.Close"
  | (.cHook, _) | (.dHook, _) => "stage:postDisconnect"
  | (.dLoad, _) => "load:getStatus"
  | (.dStore, _) => "cas:" ++ goName .passiveClosing ++ "<-status"
  | _ => "?"

/-- the closer after its compare-and-swap succeeded on an established session. -/
def closerStart : Option Core := lstep (coreAt .ok .running .idle .loop .preparing) .closeCall
def modelCloser : List String := ((closerStart.map (traceOf closerEvents 12)).getD []).map stepKey
/-- the reader entering `readDisconnected` with the session in status `st`. -/
def modelReader (st : Status) : List String :=
  (traceOf readerEvents 12 (coreAt st .running .idle .disc0 .preparing)).map stepKey

/-- what `Model/Lifecycle` abstracts from on these paths: the wait for running handlers and the cancel
    loop (C08's model), the redial attempt (C13's model: without a redial function it returns false at
    once), the re-tests of an already decided status. -/
def abstracted (e : PEv) : Bool :=
  e.is "wg" "ctx.Wait" || e.is "call" "redialForClient" || e.is "call" "cancel" || e.kind == "cmp"

/-- a path as tags (`kind:name=outcome`), without `return`s and without what the model abstracts from. -/
def lifeTags (p : SrcPaths.Path) : List String := tags (p.filter fun e => !abstracted e)

def closeCas : String := "cas:" ++ casName .activeClosing closeFrom

/-- the source form of the reader's `dStore` step taken in status `st`: the switch arm, and the
    compare-and-swap where the model changes the status. -/
def dStoreTags (st : Status) (c : Core) : List String :=
  if c.reader == .done then ["case:" ++ commaJoin (discReturnArm.map goName)]
  else if c.st == st then ["case:" ++ goName st]
  else ["case:default", "cas:" ++ goName .passiveClosing ++ "<-status=ok"]

/-- a step of the model's reader as path tags (`c` = the state after the step): the switch arm and
    compare-and-swap of `dStore`; the final compare-and-swap `dClosed` with its outcome (lost = the
    reader is done at once). -/
def readerStepTags (st : Status) (x : LEv × Core) : List String :=
  match x.1 with
  | .dStore => dStoreTags st x.2
  | .dClosed => [stepKey x ++ (if x.2.reader == .done then "=fail" else "=ok")]
  | _ => [stepKey x]

/-- the model's reader entering `readDisconnected` in status `st`, as path tags. -/
def modelReaderTags (st : Status) : List String :=
  (traceOf readerEvents 12 (coreAt st .running .idle .disc0 .preparing)).flatMap (readerStepTags st)

def finalCasKey : String := "cas:" ++ casName .passiveClosed finalFrom

/-- the rest of the model's reader path when the session was re-established (status Ok) between the
    refused redial attempt and the last step: the lost compare-and-swap, nothing else. -/
def modelReaderLostTail : List String :=
  (traceOf readerEvents 12 (finalAt .ok)).flatMap (readerStepTags .ok)

/-- **The close path and the disconnect path run in the model's order (tie A).**
    `closeLocked` as it is now has exactly two control-flow paths: the compare-and-swap to ActiveClosing
    is lost → return; it is won → `sessHub.delete(id, s)`, `notifyClosed`, wait for the handler contexts,
    wait for the pending calls, store ActiveClosed, `socket.Close`, `postDisconnect` — with the context
    wait (which `Model/Lifecycle` leaves to C08) taken out, exactly the order in which `lstep` enables
    the closer's steps after `closeCall` (`cHubDel`, `cNotify`, `cCallWait`, `cStore`, `cSock`, `cHook`).
    `readDisconnected` has exactly the paths of the model's reader (`dLoad … dHook`), one per class of
    loaded status: a status of the return arm → return at once; ActiveClosing → `sessHub.delete`, [context
    wait, cancel loop], return — before the socket close, where the model's `dHubDel` ends the reader
    for `rst = ActiveClosing`; any other status → compare-and-swap to PassiveClosing from the loaded
    status; lost → back to the load; won → `sessHub.delete(id, s)`, [context wait, cancel loop],
    `socket.Close`, [redial attempt: succeeded → return], compare-and-swap PassiveClosed ←
    {PassiveClosing, RedialFailed} (the model's `dClosed`); won → `notifyClosed`, `postDisconnect`;
    lost (the session was re-established or ended by someone else meanwhile: the model's reader at
    `closed` in status Ok) → return, nothing else; the compare-and-swap only on a path on which the
    redial attempt failed, notification and hook only on a path that won it. Every hub
    delete in the package is the two-argument owner form. Reordering two of these statements,
    dropping one, making one conditional or adding another lifecycle operation to either path
    changes the regenerated path set and this theorem no longer checks. -/
theorem C07_close_path_order :
    Gen.tpaths_session_closeLocked_missing = [] ∧ Gen.tpaths_session_readDisconnected_missing = [] ∧
    sameSet (Gen.tpaths_session_closeLocked.map lifeTags) [[closeCas ++ "=fail"], (closeCas ++ "=ok") :: modelCloser] = true ∧
    -- with the wait for the handler contexts at its place: right after `notifyClosed`, before the call wait
    sameSet (Gen.tpaths_session_closeLocked.map tags) [[closeCas ++ "=fail"], (closeCas ++ "=ok") ::
      (modelCloser.flatMap fun k => if k == "call:notifyClosed" then [k, "wg:ctx.Wait"] else [k])] = true ∧
    modelCloser.length = 6 ∧
    sameSet (dedup (Gen.tpaths_session_readDisconnected.map lifeTags))
      (dedup (allStatus.map modelReaderTags) ++
       [["load:getStatus", "case:default", "cas:" ++ goName .passiveClosing ++ "<-status=fail", "loop:back"],
        (modelReaderTags .ok).takeWhile (· != finalCasKey ++ "=ok"),
        (modelReaderTags .ok).takeWhile (· != finalCasKey ++ "=ok") ++ modelReaderLostTail]) = true ∧
    (dedup (allStatus.map modelReaderTags)).length = 3 ∧
    (modelReaderTags .ok).length = 8 ∧ (modelReaderTags .activeClosing).length = 3 ∧
    modelReaderTags .ok = (modelReader .ok).flatMap (fun k =>
      if k == "cas:" ++ goName .passiveClosing ++ "<-status" then ["case:default", k ++ "=ok"]
      else if k == finalCasKey then [k ++ "=ok"] else [k]) ∧
    (modelReader .ok).length = 7 ∧
    modelReaderLostTail = [finalCasKey ++ "=fail"] ∧
    Gen.tpaths_session_readDisconnected.all (fun p =>
      precededBy (fun e => e.is "call" "redialForClient" && e.out == "fail")
        (fun e => isFinalCas e || e.is "call" "notifyClosed" || e.is "stage" "postDisconnect") p &&
      precededBy (fun e => isFinalCas e && e.out == "ok")
        (fun e => e.is "call" "notifyClosed" || e.is "stage" "postDisconnect") p &&
      (!(p.any fun (e : PEv) => e.is "call" "redialForClient" && e.out == "ok") ||
        keys (rest (fun e => e.is "call" "redialForClient") p) == [])) = true ∧
    (Gen.lifecycle_sites.filter fun r => r.2.1 == "call" && r.2.2.1 == "sessHub.delete").all (fun r => r.2.2.2 == "argc=2") = true ∧
    sameSet ((Gen.lifecycle_sites.filter fun r => r.2.2.1 == "notifyClosed" || r.2.2.1 == "postDisconnect" || r.2.2.1 == "socket.Close").map
        fun r => (r.1, r.2.2.1))
      [("session.closeLocked", "notifyClosed"), ("session.closeLocked", "postDisconnect"), ("session.closeLocked", "socket.Close"),
       ("session.readDisconnected", "notifyClosed"), ("session.readDisconnected", "postDisconnect"),
       ("session.readDisconnected", "socket.Close")] = true := by
  decide

/-- non-vacuity: the model's closer order, spelled out. -/
example : modelCloser = ["call:sessHub.delete", "call:notifyClosed", "wg:call.Wait", "store:statusActiveClosed",
    "call:socket.Close", "stage:postDisconnect"] := by decide
example : modelReader .ok = ["load:getStatus", "cas:statusPassiveClosing<-status", "call:sessHub.delete", "call:socket.Close",
    "cas:statusPassiveClosed<-statusPassiveClosing,statusRedialFailed", "call:notifyClosed", "stage:postDisconnect"] := by decide

def mtypes : List String := ["TypeCall", "TypeReply", "TypePush", "TypeAuthCall", "TypeAuthReply"]

/-- **`write` refuses exactly where the model's `write` does; `goonRead` is the model's (tie A).**
    The condition under which `session.write` returns the connection-closed sentinel — evaluated
    by `srcfacts` for every status constant and every message type — is the refusal of
    `Lifecycle.write`: it lets a message through iff the status is Ok, or ActiveClosing and the
    message is a REPLY; in every other status (the closed ones in particular: fail fast) it returns
    `statConnClosed` without touching the socket. On every control-flow path of `write` the status is
    loaded before it is compared, the write lock is taken only on a path on which one of the
    comparisons held, `WriteMessage` comes after the lock, and a path on which no comparison held
    is: load, return `statConnClosed`. `goonRead` holds exactly in Ok and ActiveClosing. Letting
    another status through, or another message type in ActiveClosing, changes the regenerated
    table and this theorem no longer checks. -/
theorem C07_fail_fast_condition :
    Gen.transitions_missing = [] ∧
    Gen.write_table = allStatus.flatMap (fun st => mtypes.map fun mt =>
      (goName st, mt, decide (write st (mt == "TypeReply") false .fine = (.connClosed, false)))) ∧
    (allStatus.all fun st => [true, false].all fun r =>
      (write st r false .fine == (.connClosed, false)) || (write st r false .fine == (.ok, true))) = true ∧
    Gen.goonRead_table = allStatus.map (fun st => (goName st, goonRead st)) ∧
    Gen.tpaths_session_write_missing = [] ∧
    Gen.tpaths_session_write.all (fun p =>
      precededBy (fun e => e.is "load" "getStatus") (fun e => e.kind == "cmp") p &&
      precededBy (fun e => e.kind == "cmp" && e.out == "true") (fun e => e.is "lock" "writeLock.Lock") p &&
      precededBy (fun e => e.is "lock" "writeLock.Lock") (fun e => e.is "call" "WriteMessage") p) = true ∧
    Gen.tpaths_session_write.all (fun p => (p.any fun (e : PEv) => e.kind == "cmp" && e.out == "true") ||
      rtags (p.filter fun e => e.kind != "cmp") == ["load:getStatus", "return:%,statConnClosed"]) = true ∧
    Gen.tpaths_session_write.any (fun p => p.any fun (e : PEv) => e.is "call" "WriteMessage") = true ∧
    Gen.tpaths_session_write.any (fun p => !(p.any fun (e : PEv) => e.kind == "cmp" && e.out == "true")) = true ∧
    ((Gen.status_sites.filter fun r => r.1 == "session.write").map fun r => (r.2.1, r.2.2.1)) =
      [("cmp", "==statusActiveClosing"), ("cmp", "==statusOk"), ("load", "getStatus")] := by
  decide

/-- the reader of an established session at position `pc`, the status being `st`. -/
def readerAt (st : Status) (pc : RPc) : Core := coreAt st .running .idle pc st

/-- **The read loop tests the status twice: before the blocking read and again after it (tie A).**
    `srcfacts` executes the body of the `for` loop of `session.startReadAndHandle` symbolically for
    every status constant — `goonRead` evaluated from its own source, the status being one value until
    `ReadMessage` returns and another one from then on. As the source is NOW:
    (1) the loop enters `ReadMessage` exactly in the statuses in which the model's `rdTop` moves the
    reader to `reading`;
    (2) a frame that `ReadMessage` returned (without error, or with a decode error but a body codec)
    is dispatched — `graceCtxWaitGroup.Add(1)`, `ctx.handle()` — exactly when the status AFTER the read
    is one in which the model's `rdChk` moves the reader to `add`, i.e. Ok or ActiveClosing, whatever
    the status was when the loop condition was evaluated; in every other status the loop is left;
    (3) a read error without body codec (socket closed, peer gone) is never dispatched (`rdExit`);
    (4) the landmarks stand in the model's order `rdTop`, `rdMsg`, `rdChk`, `rdAdd`: the loop statement,
    `ReadMessage`, an exit test between the read and the dispatch, then `Add(1)`, then the handler.
    Dropping the second test, hoisting it above the read into a local, or testing something weaker
    than `goonRead` changes the regenerated table and this theorem no longer checks — and
    `C07_no_recheck_witness` shows what the loop without the second test admits. -/
theorem C07_read_loop_rechecks_status :
    Gen.readLoop_missing = [] ∧
    Gen.readloop_table = allStatus.map (fun st =>
      (goName st, [(lstep (readerAt st .loop) .rdTop).map (·.reader) == some .reading,
                   (lstep (readerAt st .got) .rdChk).map (·.reader) == some .add,
                   (lstep (readerAt st .got) .rdChk).map (·.reader) == some .add])) ∧
    -- … which is `goonRead` both times, and the variant without the second test differs exactly outside it
    (allStatus.all fun st =>
      ((lstep (readerAt st .got) .rdChk).map (·.reader) == some (if goonRead st then .add else .disc0)) &&
      ((lstepV false (readerAt st .got) .rdChk).map (·.reader) == some .add)) = true ∧
    Gen.readloop_readerr = allStatus.map (fun st => (goName st, false)) ∧
    (allStatus.all fun st =>
      (lstep { readerAt st .reading with sockClosed := true } .rdExit).map (fun c => (c.reader, c.handlers)) == some (.disc0, 0)) = true ∧
    (Gen.readloop_landmarks.filter fun k => k != "pre-exit") =
      ["for", "call:ReadMessage", "post-exit", "wg:ctx.Add", "spawn:handle"] := by
  decide

end TieA

end C07
end Teleport
