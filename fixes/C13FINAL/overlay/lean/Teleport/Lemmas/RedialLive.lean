/-
Lemmas/RedialLive — liveness of the redial thread machine of Model/Redial (C13): second half of the
invariant chain behind `C13_no_stuck…` / `C13_completion_follows…` in Props/C13
(first half: Lemmas/RedialStep — case analysis of a step; Lemmas/RedialInv — `AInv`;
the measure: Lemmas/RedialMeasure).

  * `BInv` — "every pending call has someone who will cancel it": a call in the table without a
    result is guarded either by a reader that is about to run the cancel loop of `readDisconnected`
    or by the reader of its own connection that has not yet decided to return; invariant of every
    schedule in which no stale reader WINS the final compare-and-swap (`staleFinal`), `binv_reachNF`;
  * `Quiescent` states (no internal step enabled) and what they look like: `quiescent_shape`.
-/
import Teleport.Lemmas.RedialInv
namespace Teleport.Redial

/-! ## who still needs the cancel loop, who will run it -/

/-- the thread's operation is a call that sits in the table without a result, or is about to be
    written after its status check saw Ok. -/
def needG (s : State) (th : Thread) : Prop :=
  (∃ j c, th = ⟨.caller j, .wAwait⟩ ∧ s.calls[j]? = some c ∧ c.res = none) ∨
  (∃ j u, th = ⟨.caller j, .wWrite u .ok⟩)

def needsGuard (s : State) : Prop := ∃ th ∈ s.threads, needG s th

/-- between the status CAS and the end of the cancel loop of `readDisconnected`. -/
def Pc.cancelling : Pc → Bool
  | .dStored _ | .dCancel _ => true
  | _ => false

def canceller (s : State) : Prop := ∃ th ∈ s.threads, th.pc.cancelling = true

/-- a reader that has not yet decided to return without running the cancel loop. -/
def Pc.guardPc : Pc → Bool
  | .rRead | .rErr => true
  | .dLoaded st => !st.exitClass
  | _ => false

/-- invariants of every schedule in which no stale reader wins the final compare-and-swap. -/
structure BInv (s : State) : Prop where
  k2 : ∀ k pc, ⟨.reader k, pc⟩ ∈ s.threads → k = s.conn → pc.postCancel = true → ¬ needsGuard s
  p1 : s.status.exitClass = true → needsGuard s → canceller s
  p2 : ∀ (j : Nat) (c : Call), ⟨.caller j, .wAwait⟩ ∈ s.threads → s.calls[j]? = some c → c.res = none →
    canceller s ∨ ∃ pc, ⟨.reader c.conn, pc⟩ ∈ s.threads ∧ pc.guardPc = true

theorem postCancel_afterCas {pc : Pc} (h : pc.postCancel = true) : pc.afterCas = true := by
  cases pc <;> simp [Pc.postCancel, Pc.afterCas] at h ⊢ <;> exact h

theorem binv_of_noNG {t : State} (h : ¬ needsGuard t) : BInv t := by
  refine ⟨fun _ _ _ _ _ => h, fun _ hn => absurd hn h, ?_⟩
  intro j c hm hc hr
  exact absurd ⟨_, hm, Or.inl ⟨j, c, rfl, hc, hr⟩⟩ h

theorem binv_lock {u : State} (b : BInv u) (x : Bool) : BInv { u with lock := x } := ⟨b.k2, b.p1, b.p2⟩

theorem exitClass_ne_ok {st : Status} (h : st.exitClass = true) : st ≠ .ok := by
  intro e; subst e; simp [Status.exitClass] at h

theorem mem_set_self_of_get? {α : Type} {l : List α} {i : Nat} {a b : α} (h : l[i]? = some a) : b ∈ l.set i b :=
  List.mem_iff_getElem?.mpr ⟨i, by simp [lt_of_getElem?_some h]⟩

/-- thread `i` moves from `pc` to `pc'`; calls without a result are untouched, the connection
    counter stays, the status stays or takes a value on which readers do not return early. -/
theorem binv_move {s t : State} {i : Nat} {role : Role} {pc pc' : Pc} (a : AInv s) (b : BInv s)
    (hth : s.threads[i]? = some ⟨role, pc⟩)
    (hT : t.threads = s.threads.set i ⟨role, pc'⟩)
    (hC : t.conn = s.conn)
    (hCa : ∀ (j : Nat) (c : Call), t.calls[j]? = some c → c.res = none → s.calls[j]? = some c)
    (hS : t.status = s.status ∨ t.status.exitClass = false ∨ canceller t)
    (lng : needG t ⟨role, pc'⟩ → s.status ≠ .ok → needG s ⟨role, pc⟩)
    (lcn : pc.cancelling = true → pc'.cancelling = true)
    (lgd : ∀ k, role = .reader k → pc.guardPc = true → pc'.guardPc = true ∨ canceller t ∨ ¬ needsGuard s)
    (lk2 : ∀ k, role = .reader k → k = s.conn → pc'.postCancel = true → pc.postCancel = true)
    (lnw : pc' ≠ .wAwait) : BInv t := by
  have hold : (⟨role, pc⟩ : Thread) ∈ s.threads := mem_of_get? hth
  have hnew : (⟨role, pc'⟩ : Thread) ∈ t.threads := by rw [hT]; exact mem_set_self_of_get? hth
  have hNG : needsGuard t → s.status ≠ .ok → needsGuard s := by
    intro ⟨th, hm, hg⟩ hst
    rw [hT] at hm
    rcases mem_set_cases hm with e | hm
    · rw [e] at hg; exact ⟨_, hold, lng hg hst⟩
    · refine ⟨th, hm, ?_⟩
      rcases hg with ⟨j, c, e, hc, hr⟩ | h
      · exact Or.inl ⟨j, c, e, hCa j c hc hr, hr⟩
      · exact Or.inr h
  have hCN : canceller s → canceller t := by
    intro ⟨th, hm, hc⟩
    rcases mem_set_of_mem (i := i) (a := (⟨role, pc'⟩ : Thread)) hm with h | h
    · exact ⟨th, by rw [hT]; exact h, hc⟩
    · rw [hth] at h; injection h with h; subst h
      exact ⟨_, hnew, lcn hc⟩
  refine ⟨?_, ?_, ?_⟩
  · intro k p hm hk hp hn
    rw [hT] at hm; rw [hC] at hk
    rcases mem_set_cases hm with e | hm
    · injection e with e1 e2; subst e2
      have hpc := lk2 k e1.symm hk hp
      rw [← e1] at hold
      have hst := a.k1 k pc hold hk (postCancel_afterCas hpc)
      exact b.k2 k pc hold hk hpc (hNG hn hst)
    · have hst := a.k1 k p hm hk (postCancel_afterCas hp)
      exact b.k2 k p hm hk hp (hNG hn hst)
  · intro he hn
    rcases hS with e | e | e
    · rw [e] at he
      exact hCN (b.p1 he (hNG hn (exitClass_ne_ok he)))
    · rw [e] at he; cases he
    · exact e
  · intro j c hm hc hr
    rw [hT] at hm
    rcases mem_set_cases hm with e | hm
    · injection e with e1 e2; exact absurd e2.symm lnw
    · have hc' := hCa j c hc hr
      rcases b.p2 j c hm hc' hr with hcn | ⟨p, hpm, hg⟩
      · exact Or.inl (hCN hcn)
      · rcases mem_set_of_mem (i := i) (a := (⟨role, pc'⟩ : Thread)) hpm with h | h
        · exact Or.inr ⟨p, by rw [hT]; exact h, hg⟩
        · rw [hth] at h; injection h with h; injection h with h1 h2
          subst h2
          rcases lgd c.conn h1 hg with g | g | g
          · exact Or.inr ⟨pc', by rw [← h1]; exact hnew, g⟩
          · exact Or.inl g
          · exact absurd ⟨_, hm, Or.inl ⟨j, c, rfl, hc', hr⟩⟩ g

theorem canceller_set {s t : State} {i : Nat} {role : Role} {pc pc' : Pc} (h : canceller s)
    (hth : s.threads[i]? = some ⟨role, pc⟩) (hT : t.threads = s.threads.set i ⟨role, pc'⟩)
    (lcn : pc.cancelling = true → pc'.cancelling = true) : canceller t := by
  obtain ⟨th, hm, hc⟩ := h
  rcases mem_set_of_mem (i := i) (a := (⟨role, pc'⟩ : Thread)) hm with h | h
  · exact ⟨th, by rw [hT]; exact h, hc⟩
  · rw [hth] at h; injection h with h; subst h
    exact ⟨_, by rw [hT]; exact mem_set_self_of_get? hth, lcn hc⟩

theorem needG_pc {s : State} {role : Role} {pc : Pc} (h : needG s ⟨role, pc⟩) :
    pc = .wAwait ∨ ∃ u, pc = .wWrite u .ok := by
  rcases h with ⟨j, c, e, _, _⟩ | ⟨j, u, e⟩
  · injection e with _ e2; exact Or.inl e2
  · injection e with _ e2; exact Or.inr ⟨u, e2⟩

/-- the state the locked body of `redialForClient` leaves after a round. -/
theorem binv_round {s u : State} {e : REnd} (a : AInv s) (b : BInv s) (f : RoundFacts s u e) : BInv u := by
  have hth : ∀ th, th ∈ u.threads → th ∈ s.threads ∨ th = ⟨.reader u.conn, .rRead⟩ := by
    intro th hm; rw [f.threads] at hm
    cases e with
    | ok => simpa using hm
    | failed => exact Or.inl hm
    | hang => exact Or.inl hm
  have hsub : ∀ th, th ∈ s.threads → th ∈ u.threads := by
    intro th hm; rw [f.threads]
    cases e with
    | ok => exact List.mem_append_left _ hm
    | failed => exact hm
    | hang => exact hm
  have hNG : needsGuard u → needsGuard s := by
    intro ⟨th, hm, hg⟩
    rcases hth th hm with h | h
    · exact ⟨th, h, by simpa [needG, f.calls] using hg⟩
    · rw [h] at hg; rcases needG_pc hg with h | ⟨_, h⟩ <;> cases h
  have hCN : canceller s → canceller u := fun ⟨th, hm, hc⟩ => ⟨th, hsub th hm, hc⟩
  have hst : u.status.exitClass = false := by rw [f.status]; cases e <;> rfl
  refine ⟨?_, ?_, ?_⟩
  · intro k p hm hk hp hn
    rcases hth _ hm with h | h
    · have h2 := a.e2 k p h
      have hle := f.conn_le
      have hks : k = s.conn := by omega
      exact b.k2 k p h hks hp (hNG hn)
    · injection h with _ h2; subst h2; simp [Pc.postCancel] at hp
  · intro he; rw [hst] at he; cases he
  · intro j c hm hc hr
    rw [f.calls] at hc
    rcases hth _ hm with h | h
    · rcases b.p2 j c h hc hr with g | ⟨p, hpm, hg⟩
      · exact Or.inl (hCN g)
      · exact Or.inr ⟨p, hsub _ hpm, hg⟩
    · injection h with h1 _; cases h1

theorem not_needG {s : State} {role : Role} {pc : Pc} (h1 : pc ≠ .wAwait) (h2 : ∀ u, pc ≠ .wWrite u .ok) :
    ¬ needG s ⟨role, pc⟩ := by
  intro h
  rcases needG_pc h with h | ⟨u, h⟩
  · exact h1 h
  · exact h2 u h

/-- after the cancel loop nobody needs it any more. -/
theorem noNG_after_cancel {s : State} {i : Nat} {role : Role} {st : Status} (a : AInv s)
    (hb : s.callerBusy = false) :
    ¬ needsGuard ({ s with calls := s.calls.map cancelCall }.setPc i role (.dClose st)) := by
  intro ⟨th, hm, hg⟩
  simp only [setPc_threads] at hm
  rcases mem_set_cases hm with e | hm
  · rw [e] at hg; exact not_needG (by simp) (by simp) hg
  · rcases hg with ⟨j, c, e, hc, hr⟩ | ⟨j, u, e⟩
    · simp only [setPc_calls, List.getElem?_map] at hc
      cases h0 : s.calls[j]? with
      | none => simp [h0] at hc
      | some c0 =>
        simp only [h0, Option.map_some, Option.some.injEq] at hc
        have hv := a.v c0 (mem_of_get? h0)
        rw [← hc] at hr
        unfold cancelCall at hr
        split at hr
        · simp at hr
        · rename_i hcond
          cases hh : c0.hasReply with
          | true => exact hv.2 hh hr
          | false => simp [hh, hr] at hcond
    · subst e
      have : s.callerBusy = true := by
        unfold State.callerBusy
        exact List.any_eq_true.mpr ⟨_, hm, by simp [Pc.inAsyncCall]⟩
      rw [hb] at this; cases this

/-- leaving `redialForClient` with result `r` from a state `w`. -/
theorem binv_after {w : State} {i old : Nat} {role : Role} (a : AInv w) (b : BInv w)
    (hth : w.threads[i]? = some ⟨role, .xLocked old⟩) (r : Bool) :
    BInv (afterRedial { w with lock := false } i role r) := by
  rw [afterRedial_eq]
  cases r with
  | true =>
    simp only [if_true]
    refine binv_move (t := State.setPc { w with lock := false } i role (afterPc role true)) a b hth rfl rfl
      (fun _ _ h _ => h) (Or.inl rfl) ?_ (by simp [Pc.cancelling]) (by simp [Pc.guardPc]) ?_ ?_
    · intro h; exact absurd h (not_needG (by cases role <;> simp [afterPc]) (by cases role <;> simp [afterPc]))
    · intro k hk _ h; subst hk; simp [afterPc, Pc.postCancel] at h
    · cases role <;> simp [afterPc]
  | false =>
    simp only [Bool.false_eq_true, if_false]
    refine binv_move (pc' := afterPc role false) a b hth (by simp) (by simp) ?_ (Or.inl (by simp)) ?_
      (by simp [Pc.cancelling]) (by simp [Pc.guardPc]) (by simp [Pc.postCancel]) ?_
    · intro j c hc hr
      simp only [setPc_calls] at hc
      rcases finishCall_get _ _ _ _ _ hc with h | ⟨_, c0, _, e⟩
      · exact h
      · rw [e] at hr; simp at hr
    · intro h; exact absurd h (not_needG (by cases role <;> simp [afterPc]) (by cases role <;> simp [afterPc]))
    · cases role <;> simp [afterPc]

/-- `Call` writes its frame: the call becomes pending on the live current connection. -/
theorem binv_await {s : State} {i j used : Nat} {c : Call} (a : AInv s) (b : BInv s)
    (hth : s.threads[i]? = some ⟨.caller j, .wWrite used .ok⟩) (hl : s.conn ∉ s.dead) (hc : s.calls[j]? = some c) :
    BInv ({ s with calls := s.calls.set j { c with conn := s.conn } }.setPc i (.caller j) .wAwait) := by
  have hold := mem_of_get? hth
  have hNGs : needsGuard s := ⟨_, hold, Or.inr ⟨j, used, rfl⟩⟩
  have hget : ∀ (j' : Nat) (c' : Call), (s.calls.set j { c with conn := s.conn })[j']? = some c' →
      (j' = j ∧ c' = { c with conn := s.conn }) ∨ (j' ≠ j ∧ s.calls[j']? = some c') := by
    intro j' c' h
    by_cases hj : j = j'
    · subst hj
      simp only [List.getElem?_set_self (lt_of_getElem?_some hc), Option.some.injEq] at h
      exact Or.inl ⟨rfl, h.symm⟩
    · rw [List.getElem?_set_ne hj] at h
      exact Or.inr ⟨fun e => hj e.symm, h⟩
  have hmem : ∀ th : Thread, (∀ j', th.role ≠ .caller j') → th ∈ s.threads →
      th ∈ (s.threads.set i ⟨.caller j, .wAwait⟩) := by
    intro th hr hm
    rcases mem_set_of_mem (i := i) (a := (⟨.caller j, .wAwait⟩ : Thread)) hm with h | h
    · exact h
    · rw [hth] at h; injection h with h; subst h; exact absurd rfl (hr j)
  have hCN : canceller s → canceller ({ s with calls := s.calls.set j { c with conn := s.conn } }.setPc i (.caller j) .wAwait) :=
    fun h => canceller_set h hth rfl (by simp [Pc.cancelling])
  refine ⟨?_, ?_, ?_⟩
  · intro k p hm hk hp _
    simp only [setPc_threads] at hm
    rcases mem_set_cases hm with e | hm
    · injection e with e1 _; cases e1
    · exact b.k2 k p hm hk hp hNGs
  · intro he _
    exact hCN (b.p1 he hNGs)
  · intro j' c' hm hc' hr
    simp only [setPc_calls] at hc'
    rcases hget j' c' hc' with ⟨_, e⟩ | ⟨hne, hs⟩
    · subst e
      exact Or.inr ⟨.rRead, hmem _ (by simp) (a.e3 hl), rfl⟩
    · simp only [setPc_threads] at hm
      rcases mem_set_cases hm with e | hm
      · injection e with e1 _; injection e1 with e1; exact absurd e1 hne
      · rcases b.p2 j' c' hm hs hr with g | ⟨p, hpm, hg⟩
        · exact Or.inl (hCN g)
        · exact Or.inr ⟨p, hmem _ (by simp) hpm, hg⟩

theorem staleFinal_false {s : State} {i k : Nat} (h : staleFinal s i = false)
    (hth : s.threads[i]? = some ⟨.reader k, .dFinal⟩) (hw : finalFrom s.status = true) : k = s.conn := by
  simpa [staleFinal, readerAtPc, hth, hw] using h

/-- `BInv` is kept by every thread step that is not a stale reader's WON final compare-and-swap
    (a lost one is a pure move of the reader, whoever takes it). -/
theorem binv_thread {s t : State} {i : Nat} (a : AInv s) (b : BInv s) (hts : TS s i t)
    (hnf : staleFinal s i = false) : BInv t := by
  cases hts with
  | rRead k hth _ =>
    exact binv_move a b hth rfl rfl (fun _ _ h _ => h) (Or.inl rfl)
      (fun h => absurd h (not_needG (by simp) (by simp))) (by simp [Pc.cancelling]) (fun _ _ _ => Or.inl rfl)
      (by simp [Pc.postCancel]) (by simp)
  | rErr role hth =>
    refine binv_move a b hth rfl rfl (fun _ _ h _ => h) (Or.inl rfl)
      (fun h => absurd h (not_needG (by simp) (by simp))) (by simp [Pc.cancelling]) ?_ (by simp [Pc.postCancel]) (by simp)
    intro k _ _
    cases he : s.status.exitClass with
    | false => left; simp [Pc.guardPc, he]
    | true =>
      by_cases hn : needsGuard s
      · exact Or.inr (Or.inl (canceller_set (b.p1 he hn) hth rfl (by simp [Pc.cancelling])))
      · exact Or.inr (Or.inr hn)
  | dLoadedExit role st hth hex =>
    exact binv_move a b hth rfl rfl (fun _ _ h _ => h) (Or.inl rfl)
      (fun h => absurd h (not_needG (by simp) (by simp))) (by simp [Pc.cancelling])
      (fun _ _ h => by simp [Pc.guardPc, hex] at h) (by simp [Pc.postCancel]) (by simp)
  | dLoadedAc role hth =>
    exact binv_move a b hth rfl rfl (fun _ _ h _ => h) (Or.inl rfl)
      (fun h => absurd h (not_needG (by simp) (by simp))) (by simp [Pc.cancelling])
      (fun _ _ _ => Or.inr (Or.inl ⟨_, mem_set_self_of_get? hth, rfl⟩)) (by simp [Pc.postCancel]) (by simp)
  | dLoadedCas role st hth _ _ _ =>
    exact binv_move a b hth rfl rfl (fun _ _ h _ => h) (Or.inr (Or.inr ⟨_, mem_set_self_of_get? hth, rfl⟩))
      (fun h => absurd h (not_needG (by simp) (by simp))) (by simp [Pc.cancelling])
      (fun _ _ _ => Or.inr (Or.inl ⟨_, mem_set_self_of_get? hth, rfl⟩)) (by simp [Pc.postCancel]) (by simp)
  | dLoadedRetry role st hth _ _ _ =>
    exact binv_move a b hth rfl rfl (fun _ _ h _ => h) (Or.inl rfl)
      (fun h => absurd h (not_needG (by simp) (by simp))) (by simp [Pc.cancelling]) (fun _ _ _ => Or.inl rfl)
      (by simp [Pc.postCancel]) (by simp)
  | dStored role st hth =>
    exact binv_move a b hth rfl rfl (fun _ _ h _ => h) (Or.inl rfl)
      (fun h => absurd h (not_needG (by simp) (by simp))) (by simp [Pc.cancelling]) (by simp [Pc.guardPc])
      (by simp [Pc.postCancel]) (by simp)
  | dCancel role st hth hb => exact binv_of_noNG (noNG_after_cancel a hb)
  | dCloseAc role hth =>
    exact binv_move a b hth rfl rfl (fun _ _ h _ => h) (Or.inl rfl)
      (fun h => absurd h (not_needG (by simp) (by simp))) (by simp [Pc.cancelling]) (by simp [Pc.guardPc])
      (by simp [Pc.postCancel]) (by simp)
  | dCloseSkip role st hth hst _ =>
    exact binv_move a b hth rfl rfl (fun _ _ h _ => h) (Or.inl rfl)
      (fun h => absurd h (not_needG (by simp) (by simp))) (by simp [Pc.cancelling]) (by simp [Pc.guardPc])
      (by simp [Pc.postCancel, hst]) (by simp)
  | dCloseKill role st hth hst _ =>
    exact binv_move a b hth rfl rfl (fun _ _ h _ => h) (Or.inl rfl)
      (fun h => absurd h (not_needG (by simp) (by simp))) (by simp [Pc.cancelling]) (by simp [Pc.guardPc])
      (by simp [Pc.postCancel, hst]) (by simp)
  | dRedialGo k hth _ =>
    exact binv_move a b hth rfl rfl (fun _ _ h _ => h) (Or.inl rfl)
      (fun h => absurd h (not_needG (by simp) (by simp))) (by simp [Pc.cancelling]) (by simp [Pc.guardPc])
      (by simp [Pc.postCancel]) (by simp)
  | dRedialNo k hth _ =>
    exact binv_move a b hth rfl rfl (fun _ _ h _ => h) (Or.inl rfl)
      (fun h => absurd h (not_needG (by simp) (by simp))) (by simp [Pc.cancelling]) (by simp [Pc.guardPc])
      (by simp [Pc.postCancel]) (by simp)
  | dFinalLost role hth _ =>
    -- the final compare-and-swap is lost: nothing but the reader's pc changes
    exact binv_move a b hth rfl rfl (fun _ _ h _ => h) (Or.inl rfl)
      (fun h => absurd h (not_needG (by simp) (by simp))) (by simp [Pc.cancelling]) (by simp [Pc.guardPc])
      (by simp [Pc.postCancel]) (by simp)
  | dFinalWon role hth hw =>
    have hold := mem_of_get? hth
    obtain ⟨k, hk⟩ := reader_of_ty (a.ty _ hold) rfl
    subst hk
    have hkc := staleFinal_false hnf hth hw
    have hn := b.k2 k .dFinal hold hkc rfl
    apply binv_of_noNG
    intro ⟨th, hm, hg⟩
    simp only [setPc_threads] at hm
    rcases mem_set_cases hm with e | hm
    · rw [e] at hg; exact not_needG (by simp) (by simp) hg
    · exact hn ⟨th, hm, hg⟩
  | wCheck role hth =>
    refine binv_move a b hth rfl rfl (fun _ _ h _ => h) (Or.inl rfl) ?_ (by simp [Pc.cancelling]) (by simp [Pc.guardPc])
      (by simp [Pc.postCancel]) (by simp)
    intro h hst
    rcases needG_pc h with h | ⟨u, h⟩
    · cases h
    · injection h with _ h2; exact absurd h2 hst
  | wWriteAwait j used c hth hl hc => exact binv_await a b hth hl hc
  | wWriteSent role used hth _ _ =>
    exact binv_move a b hth rfl rfl (fun _ _ h _ => h) (Or.inl rfl)
      (fun h => absurd h (not_needG (by simp) (by simp))) (by simp [Pc.cancelling]) (by simp [Pc.guardPc])
      (by simp [Pc.postCancel]) (by simp)
  | wWrite104 role used hth _ =>
    refine binv_move (pc' := .wDone 104) a b hth (by simp) (by simp) ?_ (Or.inl (by simp))
      (fun h => absurd h (not_needG (by simp) (by simp))) (by simp [Pc.cancelling]) (by simp [Pc.guardPc])
      (by simp [Pc.postCancel]) (by simp)
    intro j c hc hr
    simp only [setPc_calls] at hc
    rcases finishCall_get _ _ _ _ _ hc with h | ⟨_, c0, _, e⟩
    · exact h
    · rw [e] at hr; simp at hr
  | wWriteRedial role used st hth _ _ =>
    exact binv_move a b hth rfl rfl (fun _ _ h _ => h) (Or.inl rfl)
      (fun h => absurd h (not_needG (by simp) (by simp))) (by simp [Pc.cancelling]) (by simp [Pc.guardPc])
      (fun k hk _ _ => absurd hk (writer_of_ty (a.ty _ (mem_of_get? hth)) rfl k)) (by simp)
  | wWrite102 role used st hth _ =>
    refine binv_move (pc' := .wDone 102) a b hth (by simp) (by simp) ?_ (Or.inl (by simp))
      (fun h => absurd h (not_needG (by simp) (by simp))) (by simp [Pc.cancelling]) (by simp [Pc.guardPc])
      (by simp [Pc.postCancel]) (by simp)
    intro j c hc hr
    simp only [setPc_calls] at hc
    rcases finishCall_get _ _ _ _ _ hc with h | ⟨_, c0, _, e⟩
    · exact h
    · rw [e] at hr; simp at hr
  | xLock role old hth _ =>
    exact binv_move (t := State.setPc { s with lock := true } i role (.xLocked old)) a b hth rfl rfl
      (fun _ _ h _ => h) (Or.inl rfl)
      (fun h => absurd h (not_needG (by simp) (by simp))) (by simp [Pc.cancelling]) (by simp [Pc.guardPc])
      (by simp [Pc.postCancel]) (by simp)
  | xLockedRet role old u r hth hr =>
    rcases redialLocked_cases s old with ⟨_, h⟩ | ⟨_, _, h⟩ | ⟨_, _, u', h | h | h⟩
    · rw [h] at hr; injection hr with h1 h2; injection h2 with h2; subst h1; subst h2
      exact binv_after a b hth true
    · rw [h] at hr; injection hr with h1 h2; injection h2 with h2; subst h1; subst h2
      exact binv_after a b hth false
    · obtain ⟨h, f⟩ := h
      rw [h] at hr; injection hr with h1 h2; injection h2 with h2; subst h1; subst h2
      have hth' : u'.threads[i]? = some ⟨role, .xLocked old⟩ := by
        rw [f.threads]; simp only
        rw [List.getElem?_append_left (lt_of_getElem?_some hth)]; exact hth
      exact binv_after (ainv_round a f) (binv_round a b f) hth' true
    · obtain ⟨h, f⟩ := h
      rw [h] at hr; injection hr with h1 h2; injection h2 with h2; subst h1; subst h2
      have hth' : u'.threads[i]? = some ⟨role, .xLocked old⟩ := by rw [f.threads]; exact hth
      exact binv_after (ainv_round a f) (binv_round a b f) hth' false
    · rw [h.1] at hr; injection hr with h1 h2; cases h2
  | xLockedHang role old u hth hr =>
    rcases redialLocked_cases s old with ⟨_, h⟩ | ⟨_, _, h⟩ | ⟨_, _, u', h | h | h⟩
    · rw [h] at hr; injection hr with h1 h2; cases h2
    · rw [h] at hr; injection hr with h1 h2; cases h2
    · rw [h.1] at hr; injection hr with h1 h2; cases h2
    · rw [h.1] at hr; injection hr with h1 h2; cases h2
    · obtain ⟨h, f⟩ := h
      rw [h] at hr; injection hr with h1 h2; subst h1
      have hth' : u'.threads[i]? = some ⟨role, .xLocked old⟩ := by rw [f.threads]; exact hth
      exact binv_move (ainv_round a f) (binv_round a b f) hth' rfl rfl (fun _ _ h _ => h) (Or.inl rfl)
        (fun h => absurd h (not_needG (by simp) (by simp))) (by simp [Pc.cancelling]) (by simp [Pc.guardPc])
        (by simp [Pc.postCancel]) (by simp)

/-- an event that leaves threads, connection counter and status alone and touches no pending call. -/
theorem binv_same {s t : State} (b : BInv s) (hT : t.threads = s.threads) (hC : t.conn = s.conn)
    (hS : t.status = s.status)
    (hCa : ∀ (j : Nat) (c : Call), t.calls[j]? = some c → c.res = none → s.calls[j]? = some c) : BInv t := by
  have hNG : needsGuard t → needsGuard s := by
    intro ⟨th, hm, hg⟩
    rw [hT] at hm
    refine ⟨th, hm, ?_⟩
    rcases hg with ⟨j, c, e, hc, hr⟩ | h
    · exact Or.inl ⟨j, c, e, hCa j c hc hr, hr⟩
    · exact Or.inr h
  have hCN : canceller s → canceller t := fun ⟨th, hm, hc⟩ => ⟨th, by rw [hT]; exact hm, hc⟩
  refine ⟨?_, ?_, ?_⟩
  · intro k p hm hk hp hn
    rw [hT] at hm; rw [hC] at hk
    exact b.k2 k p hm hk hp (hNG hn)
  · intro he hn
    rw [hS] at he
    exact hCN (b.p1 he (hNG hn))
  · intro j c hm hc hr
    rw [hT] at hm ⊢
    rcases b.p2 j c hm (hCa j c hc hr) hr with g | g
    · exact Or.inl (hCN g)
    · exact Or.inr g

/-- a new writer thread at `wCheck` is appended (and possibly a call). -/
theorem binv_spawn {s t : State} (a : AInv s) (b : BInv s) (role : Role) (hw : ∀ k, role ≠ .reader k)
    (hT : t.threads = s.threads ++ [⟨role, .wCheck⟩]) (hC : t.conn = s.conn) (hS : t.status = s.status)
    (hCa : t.calls = s.calls ∨ t.calls = s.calls ++ [⟨s.conn, false, none⟩]) : BInv t := by
  have hm : ∀ th, th ∈ t.threads → th ∈ s.threads ∨ th = ⟨role, .wCheck⟩ := by
    intro th h; rw [hT] at h; simpa using h
  have hsub : ∀ th, th ∈ s.threads → th ∈ t.threads := fun th h => by rw [hT]; exact List.mem_append_left _ h
  have hget : ∀ (j : Nat) (c : Call), j < s.calls.length → t.calls[j]? = some c → s.calls[j]? = some c := by
    intro j c hj hc
    rcases hCa with h | h
    · rw [h] at hc; exact hc
    · rw [h, List.getElem?_append_left hj] at hc; exact hc
  have hNG : needsGuard t → needsGuard s := by
    intro ⟨th, h, hg⟩
    rcases hm th h with h | h
    · refine ⟨th, h, ?_⟩
      rcases hg with ⟨j, c, e, hc, hr⟩ | h'
      · subst e
        exact Or.inl ⟨j, c, rfl, hget j c (a.i2 j _ h) hc, hr⟩
      · exact Or.inr h'
    · rw [h] at hg; exact absurd hg (not_needG (by simp) (by simp))
  have hCN : canceller s → canceller t := fun ⟨th, h, hc⟩ => ⟨th, hsub th h, hc⟩
  refine ⟨?_, ?_, ?_⟩
  · intro k p h hk hp hn
    rw [hC] at hk
    rcases hm _ h with h | h
    · exact b.k2 k p h hk hp (hNG hn)
    · injection h with h1 _; exact absurd h1.symm (hw k)
  · intro he hn
    rw [hS] at he
    exact hCN (b.p1 he (hNG hn))
  · intro j c h hc hr
    rcases hm _ h with h | h
    · rcases b.p2 j c h (hget j c (a.i2 j _ h) hc) hr with g | ⟨p, hpm, hg⟩
      · exact Or.inl (hCN g)
      · exact Or.inr ⟨p, hsub _ hpm, hg⟩
    · injection h with _ h2; cases h2

/-! ## schedules in which no stale reader wins the final compare-and-swap -/

/-- the event is not a stale reader's won final compare-and-swap. -/
def okEv (s : State) : Ev → Bool
  | .th i => !staleFinal s i
  | _ => true

/-- `run` restricted to events that are not a stale reader's won final compare-and-swap. -/
def runNF : State → List Ev → Option State
  | s, [] => some s
  | s, e :: es => if okEv s e then (step s e).bind fun t => runNF t es else none

/-- reachable from the state after `Dial` by a schedule in which no stale reader wins the final
    compare-and-swap (it may take the step and lose it). -/
def ReachableNF (budget : Int) (eof : Bool) (t : State) : Prop :=
  ∃ evs, runNF (State.init budget eof) evs = some t

theorem runNF_run : ∀ (evs : List Ev) (s t : State), runNF s evs = some t → run s evs = some t
  | [], s, t, h => h
  | e :: es, s, t, h => by
    simp only [runNF] at h
    split at h
    · cases hs : step s e with
      | none => simp [hs] at h
      | some u =>
        simp only [hs, Option.bind_some] at h
        simp only [run, hs, Option.bind_some]
        exact runNF_run es u t h
    · simp at h

theorem reachableNF_reachable {b : Int} {eof : Bool} {t : State} (h : ReachableNF b eof t) : Reachable b eof t := by
  obtain ⟨evs, h⟩ := h
  exact ⟨evs, runNF_run evs _ t h⟩

theorem binv_init (b : Int) (eof : Bool) : BInv (State.init b eof) := by
  apply binv_of_noNG
  intro ⟨th, hm, hg⟩
  simp only [State.init, List.mem_singleton] at hm
  subst hm
  exact not_needG (by simp) (by simp) hg

/-- `BInv` is kept by every event that is not a stale reader's won final compare-and-swap. -/
theorem binv_step {s t : State} {e : Ev} (a : AInv s) (b : BInv s) (hok : okEv s e = true)
    (h : step s e = some t) : BInv t := by
  cases e with
  | th i => exact binv_thread a b (threadStep_cases h) (by simpa [okEv] using hok)
  | lose k =>
    simp only [step, Option.some.injEq] at h
    subst h
    split
    · exact b
    · exact ⟨b.k2, b.p1, b.p2⟩
  | reply j =>
    simp only [step] at h
    cases hc : s.calls[j]? with
    | none => simp [hc] at h
    | some c =>
      simp only [hc] at h
      split at h
      · simp only [Option.some.injEq] at h; subst h
        refine binv_same b rfl rfl rfl ?_
        intro j' c' hc' hr
        by_cases hj : j = j'
        · subst hj
          simp only [List.getElem?_set_self (lt_of_getElem?_some hc), Option.some.injEq] at hc'
          rw [← hc'] at hr; simp at hr
        · simpa [List.getElem?_set_ne hj] using hc'
      · simp at h
  | setUser =>
    simp only [step] at h
    split at h
    · simp only [Option.some.injEq] at h; subst h; exact b
    · split at h <;> (simp only [Option.some.injEq] at h; subst h; exact ⟨b.k2, b.p1, b.p2⟩)
  | call =>
    simp only [step, Option.some.injEq] at h; subst h
    exact binv_spawn a b (.caller s.calls.length) (by simp) rfl rfl rfl (Or.inr rfl)
  | push =>
    simp only [step, Option.some.injEq] at h; subst h
    exact binv_spawn a b .pusher (by simp) rfl rfl rfl (Or.inl rfl)
  | setEnv e =>
    simp only [step, Option.some.injEq] at h; subst h
    exact ⟨b.k2, b.p1, b.p2⟩

theorem binv_runNF : ∀ (evs : List Ev) (s t : State), AInv s → BInv s → runNF s evs = some t → AInv t ∧ BInv t
  | [], s, t, a, b, h => by simp only [runNF, Option.some.injEq] at h; exact h ▸ ⟨a, b⟩
  | e :: es, s, t, a, b, h => by
    simp only [runNF] at h
    split at h
    · rename_i hok
      cases hs : step s e with
      | none => simp [hs] at h
      | some u =>
        simp only [hs, Option.bind_some] at h
        exact binv_runNF es u t (ainv_step a hs) (binv_step a b hok hs) h
    · simp at h

theorem binv_reachNF {b : Int} {eof : Bool} {t : State} (h : ReachableNF b eof t) : AInv t ∧ BInv t := by
  obtain ⟨evs, h⟩ := h
  exact binv_runNF evs _ t (ainv_init b eof) (binv_init b eof) h

/-! ## quiescent states -/

/-- pcs at which a thread's next step is enabled whatever the shared state. -/
def Pc.alwaysOn : Pc → Bool
  | .rErr | .dLoaded _ | .dStored _ | .dClose _ | .dFinal | .wCheck | .xLocked _ => true
  | _ => false

theorem en_always {s : State} {i : Nat} {role : Role} {pc : Pc} (hth : s.threads[i]? = some ⟨role, pc⟩)
    (h : pc.alwaysOn = true) : threadStep s i ≠ none := by
  cases pc <;> simp [Pc.alwaysOn] at h
  case rErr => cases role <;> simp [threadStep, hth]
  case dLoaded st =>
    cases role <;> (simp only [threadStep, hth]; repeat' split) <;> simp
  case dStored st => cases role <;> simp [threadStep, hth]
  case dClose st =>
    cases role <;> (simp only [threadStep, hth]; repeat' split) <;> simp
  case dFinal => cases role <;> (simp only [threadStep, hth]; split) <;> simp
  case wCheck => cases role <;> simp [threadStep, hth]
  case xLocked old =>
    cases hr : redialLocked s old with
    | mk u r => cases r <;> cases role <;> simp [threadStep, hth, hr]

theorem en_rRead {s : State} {i k : Nat} (hth : s.threads[i]? = some ⟨.reader k, .rRead⟩) (hk : k ∈ s.dead) :
    threadStep s i ≠ none := by simp [threadStep, hth, hk]

theorem en_dRedial {s : State} {i k : Nat} (hth : s.threads[i]? = some ⟨.reader k, .dRedial⟩) :
    threadStep s i ≠ none := by
  simp only [threadStep, hth]; split <;> simp

theorem en_dCancel {s : State} {i : Nat} {role : Role} {st : Status} (hth : s.threads[i]? = some ⟨role, .dCancel st⟩)
    (hb : s.callerBusy = false) : threadStep s i ≠ none := by
  cases role <;> simp [threadStep, hth, hb]

theorem en_xLock {s : State} {i old : Nat} {role : Role} (hth : s.threads[i]? = some ⟨role, .xLock old⟩)
    (hl : s.lock = false) : threadStep s i ≠ none := by
  cases role <;> simp [threadStep, hth, hl]

theorem en_wWrite {s : State} {i used : Nat} {role : Role} {st : Status}
    (hth : s.threads[i]? = some ⟨role, .wWrite used st⟩) (hj : ∀ j, role = .caller j → j < s.calls.length) :
    threadStep s i ≠ none := by
  cases role with
  | caller j =>
    have hlt := hj j rfl
    have hc : s.calls[j]? = some s.calls[j] := List.getElem?_eq_getElem hlt
    simp only [threadStep, hth, hc]
    repeat' split
    all_goals simp
  | reader k => simp only [threadStep, hth]; repeat' split
                all_goals simp
  | pusher => simp only [threadStep, hth]; repeat' split
              all_goals simp

/-- what a state without an enabled internal step and without a thread inside a retry loop that
    never ends looks like: the lock is free and every thread is blocked in `ReadMessage` on a
    connection that has not been lost, has returned (reader) or has left `Call`/`Push`. -/
theorem quiescent_shape {s : State} (a : AInv s) (l : LInv s) (hq : Quiescent s)
    (hns : ∀ th ∈ s.threads, th.pc ≠ .stuck) :
    s.lock = false ∧ ∀ th ∈ s.threads,
      (∃ k, th = ⟨.reader k, .rRead⟩ ∧ k ∉ s.dead) ∨ (∃ k, th = ⟨.reader k, .exit⟩) ∨
      ((∀ k, th.role ≠ .reader k) ∧ (th.pc = .wAwait ∨ ∃ c, th.pc = .wDone c)) := by
  have hidx : ∀ th, th ∈ s.threads → ∃ i, s.threads[i]? = some th := fun th h => List.mem_iff_getElem?.mp h
  have hx : ∀ role old, (⟨role, .xLocked old⟩ : Thread) ∉ s.threads := by
    intro role old hm
    obtain ⟨i, hi⟩ := hidx _ hm
    exact en_always hi rfl (hq i)
  have hlock : s.lock = false := by
    cases hl : s.lock with
    | false => rfl
    | true =>
      have h1 : holders s = 1 := by simpa [LInv, hl] using l
      have hpos : 0 < s.threads.countP (fun t => t.pc.holdsLock) := by
        have : holders s = s.threads.countP (fun t => t.pc.holdsLock) := rfl
        omega
      obtain ⟨th, hm, hh⟩ := List.countP_pos_iff.mp hpos
      obtain ⟨role, pc⟩ := th
      cases pc <;> simp [Pc.holdsLock] at hh
      · exact absurd hm (hx role _)
      · exact absurd rfl (hns _ hm)
  have hxl : ∀ role old, (⟨role, .xLock old⟩ : Thread) ∉ s.threads := by
    intro role old hm
    obtain ⟨i, hi⟩ := hidx _ hm
    exact en_xLock hi hlock (hq i)
  have hww : ∀ role u st, (⟨role, .wWrite u st⟩ : Thread) ∉ s.threads := by
    intro role u st hm
    obtain ⟨i, hi⟩ := hidx _ hm
    exact en_wWrite hi (fun j hj => by subst hj; exact a.i2 j _ hm) (hq i)
  have hon : ∀ role pc, pc.alwaysOn = true → (⟨role, pc⟩ : Thread) ∉ s.threads := by
    intro role pc hp hm
    obtain ⟨i, hi⟩ := hidx _ hm
    exact en_always hi hp (hq i)
  have hbusy : s.callerBusy = false := by
    cases hb : s.callerBusy with
    | false => rfl
    | true =>
      unfold State.callerBusy at hb
      obtain ⟨th, hm, hp⟩ := List.any_eq_true.mp hb
      obtain ⟨role, pc⟩ := th
      cases role with
      | reader k => simp at hp
      | pusher => simp at hp
      | caller j =>
        cases pc <;> simp [Pc.inAsyncCall] at hp
        · exact absurd hm (hon _ _ rfl)
        · exact absurd hm (hww _ _ _)
        · exact absurd hm (hxl _ _)
        · exact absurd hm (hx _ _)
        · exact absurd rfl (hns _ hm)
  refine ⟨hlock, ?_⟩
  intro th hm
  obtain ⟨role, pc⟩ := th
  have hty := a.ty _ hm
  cases pc with
  | rRead =>
    obtain ⟨k, hk⟩ := reader_of_ty hty rfl
    subst hk
    left
    refine ⟨k, rfl, fun hd => ?_⟩
    obtain ⟨i, hi⟩ := hidx _ hm
    exact en_rRead hi hd (hq i)
  | exit =>
    obtain ⟨k, hk⟩ := reader_of_ty hty rfl
    subst hk
    exact Or.inr (Or.inl ⟨k, rfl⟩)
  | wAwait => exact Or.inr (Or.inr ⟨writer_of_ty hty rfl, Or.inl rfl⟩)
  | wDone c => exact Or.inr (Or.inr ⟨writer_of_ty hty rfl, Or.inr ⟨c, rfl⟩⟩)
  | rErr => exact absurd hm (hon _ _ rfl)
  | dLoaded st => exact absurd hm (hon _ _ rfl)
  | dStored st => exact absurd hm (hon _ _ rfl)
  | dClose st => exact absurd hm (hon _ _ rfl)
  | dFinal => exact absurd hm (hon _ _ rfl)
  | wCheck => exact absurd hm (hon _ _ rfl)
  | xLocked old => exact absurd hm (hx _ _)
  | xLock old => exact absurd hm (hxl _ _)
  | wWrite u st => exact absurd hm (hww _ _ _)
  | stuck => exact absurd rfl (hns _ hm)
  | dCancel st =>
    obtain ⟨i, hi⟩ := hidx _ hm
    exact absurd (hq i) (en_dCancel hi hbusy)
  | dRedial =>
    obtain ⟨k, hk⟩ := reader_of_ty hty rfl
    subst hk
    obtain ⟨i, hi⟩ := hidx _ hm
    exact absurd (hq i) (en_dRedial hi)

/-- in a quiescent state every call that is still in the table without a result waits on a
    connection that has not been lost. -/
theorem quiescent_pending {s : State} (a : AInv s) (b : BInv s) (l : LInv s) (hq : Quiescent s)
    (hns : ∀ th ∈ s.threads, th.pc ≠ .stuck) (j : Nat) (c : Call)
    (hm : ⟨.caller j, .wAwait⟩ ∈ s.threads) (hc : s.calls[j]? = some c) (hr : c.res = none) : c.conn ∉ s.dead := by
  intro hd
  have hsh := (quiescent_shape a l hq hns).2
  rcases b.p2 j c hm hc hr with ⟨th, hth, hcn⟩ | ⟨p, hpm, hg⟩
  · rcases hsh th hth with ⟨k, e, _⟩ | ⟨k, e⟩ | ⟨_, e | ⟨c', e⟩⟩
    · rw [e] at hcn; simp [Pc.cancelling] at hcn
    · rw [e] at hcn; simp [Pc.cancelling] at hcn
    · rw [e] at hcn; simp [Pc.cancelling] at hcn
    · rw [e] at hcn; simp [Pc.cancelling] at hcn
  · rcases hsh _ hpm with ⟨k, e, hk⟩ | ⟨k, e⟩ | ⟨_, e | ⟨c', e⟩⟩
    · injection e with e1 e2; injection e1 with e1; subst e1; exact hk hd
    · injection e with e1 e2; subst e2; simp [Pc.guardPc] at hg
    · simp only at e; subst e; simp [Pc.guardPc] at hg
    · simp only at e; subst e; simp [Pc.guardPc] at hg

/-! ## a bounded budget never parks a thread inside the retry loop -/

theorem redialLocked_none {s u : State} {old : Nat} (h : redialLocked s old = (u, none)) :
    (dialRound s.budget s.env).fin = .hang := by
  unfold redialLocked at h
  split at h
  · simp at h
  · split at h
    · cases hf : (dialRound s.budget s.env).fin with
      | hang => rfl
      | success => simp [hf] at h
      | failed => simp [hf] at h
    · simp at h

theorem ns_set {l : List Thread} {i : Nat} {role : Role} {pc' : Pc} (h : ∀ th ∈ l, th.pc ≠ .stuck)
    (hp : pc' ≠ .stuck) : ∀ th ∈ l.set i ⟨role, pc'⟩, th.pc ≠ .stuck := by
  intro th hm
  rcases mem_set_cases hm with e | hm
  · rw [e]; exact hp
  · exact h th hm

theorem afterPc_ne_stuck (role : Role) (r : Bool) : afterPc role r ≠ .stuck := by
  cases role <;> cases r <;> simp [afterPc]

/-- with a budget ≥ 0 no step parks a thread for ever, and the budget is never changed. -/
theorem ns_thread {s t : State} {i : Nat} (hb : 0 ≤ s.budget) (hns : ∀ th ∈ s.threads, th.pc ≠ .stuck)
    (hts : TS s i t) : t.budget = s.budget ∧ ∀ th ∈ t.threads, th.pc ≠ .stuck := by
  cases hts with
  | xLockedRet role old u r hth hr =>
    rw [afterRedial_eq]
    have hu : u.budget = s.budget ∧ ∀ th ∈ u.threads, th.pc ≠ .stuck := by
      rcases redialLocked_cases s old with ⟨_, h⟩ | ⟨_, _, h⟩ | ⟨_, _, u', h | h | h⟩
      · rw [h] at hr; injection hr with h1 _; subst h1; exact ⟨rfl, hns⟩
      · rw [h] at hr; injection hr with h1 _; subst h1; exact ⟨rfl, hns⟩
      · obtain ⟨h, f⟩ := h
        rw [h] at hr; injection hr with h1 _; subst h1
        refine ⟨f.budget, ?_⟩
        intro th hm; rw [f.threads] at hm
        simp only [List.mem_append, List.mem_singleton] at hm
        rcases hm with hm | hm
        · exact hns th hm
        · rw [hm]; simp
      · obtain ⟨h, f⟩ := h
        rw [h] at hr; injection hr with h1 _; subst h1
        exact ⟨f.budget, by rw [f.threads]; exact hns⟩
      · rw [h.1] at hr; injection hr with _ h2; cases h2
    cases r with
    | true => exact ⟨hu.1, ns_set hu.2 (afterPc_ne_stuck _ _)⟩
    | false =>
      simp only [Bool.false_eq_true, if_false]
      exact ⟨by simp [hu.1], by simpa using ns_set (i := i) (role := role) hu.2 (afterPc_ne_stuck role false)⟩
  | xLockedHang role old u hth hr =>
    exact absurd (redialLocked_none hr) (dialRound_no_hang s.budget s.env hb)
  | rRead k hth _ => exact ⟨rfl, ns_set hns (by simp)⟩
  | rErr role hth => exact ⟨rfl, ns_set hns (by simp)⟩
  | dLoadedExit role st hth _ => exact ⟨rfl, ns_set hns (by simp)⟩
  | dLoadedAc role hth => exact ⟨rfl, ns_set hns (by simp)⟩
  | dLoadedCas role st hth _ _ _ => exact ⟨rfl, ns_set hns (by simp)⟩
  | dLoadedRetry role st hth _ _ _ => exact ⟨rfl, ns_set hns (by simp)⟩
  | dStored role st hth => exact ⟨rfl, ns_set hns (by simp)⟩
  | dCancel role st hth _ => exact ⟨rfl, ns_set hns (by simp)⟩
  | dCloseAc role hth => exact ⟨rfl, ns_set hns (by simp)⟩
  | dCloseSkip role st hth _ _ => exact ⟨rfl, ns_set hns (by simp)⟩
  | dCloseKill role st hth _ _ => exact ⟨rfl, ns_set hns (by simp)⟩
  | dRedialGo k hth _ => exact ⟨rfl, ns_set hns (by simp)⟩
  | dRedialNo k hth _ => exact ⟨rfl, ns_set hns (by simp)⟩
  | dFinalWon role hth _ => exact ⟨rfl, ns_set hns (by simp)⟩
  | dFinalLost role hth _ => exact ⟨rfl, ns_set hns (by simp)⟩
  | wCheck role hth => exact ⟨rfl, ns_set hns (by simp)⟩
  | wWriteAwait j used c hth _ _ => exact ⟨rfl, ns_set hns (by simp)⟩
  | wWriteSent role used hth _ _ => exact ⟨rfl, ns_set hns (by simp)⟩
  | wWrite104 role used hth _ => exact ⟨by simp, by simpa using ns_set (i := i) (role := role) hns (by simp : Pc.wDone 104 ≠ .stuck)⟩
  | wWriteRedial role used st hth _ _ => exact ⟨rfl, ns_set hns (by simp)⟩
  | wWrite102 role used st hth _ => exact ⟨by simp, by simpa using ns_set (i := i) (role := role) hns (by simp : Pc.wDone 102 ≠ .stuck)⟩
  | xLock role old hth _ => exact ⟨rfl, ns_set hns (by simp)⟩

theorem ns_step {s t : State} {e : Ev} (hb : 0 ≤ s.budget) (hns : ∀ th ∈ s.threads, th.pc ≠ .stuck)
    (h : step s e = some t) : t.budget = s.budget ∧ ∀ th ∈ t.threads, th.pc ≠ .stuck := by
  cases e with
  | th i => exact ns_thread hb hns (threadStep_cases h)
  | lose k => simp only [step, Option.some.injEq] at h; subst h; split <;> exact ⟨rfl, hns⟩
  | reply j =>
    simp only [step] at h
    cases hc : s.calls[j]? with
    | none => simp [hc] at h
    | some c =>
      simp only [hc] at h
      split at h
      · simp only [Option.some.injEq] at h; subst h; exact ⟨rfl, hns⟩
      · simp at h
  | setUser =>
    simp only [step] at h
    split at h
    · simp only [Option.some.injEq] at h; subst h; exact ⟨rfl, hns⟩
    · split at h <;> (simp only [Option.some.injEq] at h; subst h; exact ⟨rfl, hns⟩)
  | call =>
    simp only [step, Option.some.injEq] at h; subst h
    refine ⟨rfl, fun th hm => ?_⟩
    simp only [List.mem_append, List.mem_singleton] at hm
    rcases hm with hm | hm
    · exact hns th hm
    · rw [hm]; simp
  | push =>
    simp only [step, Option.some.injEq] at h; subst h
    refine ⟨rfl, fun th hm => ?_⟩
    simp only [List.mem_append, List.mem_singleton] at hm
    rcases hm with hm | hm
    · exact hns th hm
    · rw [hm]; simp
  | setEnv e => simp only [step, Option.some.injEq] at h; subst h; exact ⟨rfl, hns⟩

theorem ns_run : ∀ (evs : List Ev) (s t : State), 0 ≤ s.budget → (∀ th ∈ s.threads, th.pc ≠ .stuck) →
    run s evs = some t → ∀ th ∈ t.threads, th.pc ≠ .stuck
  | [], s, t, _, hns, h => by simp only [run, Option.some.injEq] at h; exact h ▸ hns
  | e :: es, s, t, hb, hns, h => by
    simp only [run] at h
    cases hs : step s e with
    | none => simp [hs] at h
    | some u =>
      simp only [hs, Option.bind_some] at h
      obtain ⟨h1, h2⟩ := ns_step hb hns hs
      exact ns_run es u t (by rw [h1]; exact hb) h2 h

/-- with a budget ≥ 0 no reachable state has a thread inside a retry loop that never ends. -/
theorem ns_reach {b : Int} {eof : Bool} {t : State} (hb : 0 ≤ b) (h : Reachable b eof t) :
    ∀ th ∈ t.threads, th.pc ≠ .stuck := by
  obtain ⟨evs, h⟩ := h
  exact ns_run evs _ t hb (by simp [State.init]) h

/-! ## the conclusion of "no hang" -/

/-- thread `th` is not parked inside the session's machinery: a reader is blocked in `ReadMessage`
    on a connection that has not been lost, or has returned; a writer has left `Call`/`Push`
    (`wAwait`: `AsyncCall` returned and the call is in the table; `wDone c`: returned status `c`). -/
def atRest (s : State) (th : Thread) : Prop :=
  match th.role, th.pc with
  | .reader k, .rRead => k ∉ s.dead
  | .reader _, .exit => True
  | .caller _, .wAwait => True
  | .caller _, .wDone _ => True
  | .pusher, .wDone _ => True
  | _, _ => False

/-- the thread's operation has returned: a push with OK (0) or a connection-class status
    (102 connection closed, 104 write failed); a call that failed before it was written with 102 /
    104; a call in the table with its reply (0), cancelled with 102 (or failed with 104) — or it is
    still waiting for its reply on a connection that has not been lost. -/
def opReturned (s : State) (th : Thread) : Prop :=
  match th.role, th.pc with
  | .pusher, .wDone c => c = 0 ∨ c = 102 ∨ c = 104
  | .caller j, .wDone c => (c = 102 ∨ c = 104) ∧
      ∃ call : Call, s.calls[j]? = some call ∧ (call.res = some 102 ∨ call.res = some 104)
  | .caller j, .wAwait => ∃ call : Call, s.calls[j]? = some call ∧
      (call.res = some 0 ∨ call.res = some 102 ∨ call.res = some 104 ∨ (call.res = none ∧ call.conn ∉ s.dead))
  | .reader _, _ => True
  | _, _ => False

/-- full strength: lock free, nobody parked. -/
theorem quiescent_rest {s : State} (a : AInv s) (l : LInv s) (hq : Quiescent s)
    (hns : ∀ th ∈ s.threads, th.pc ≠ .stuck) : s.lock = false ∧ ∀ th ∈ s.threads, atRest s th := by
  obtain ⟨h1, h2⟩ := quiescent_shape a l hq hns
  refine ⟨h1, fun th hm => ?_⟩
  rcases h2 th hm with ⟨k, e, hk⟩ | ⟨k, e⟩ | ⟨hw, e | ⟨c, e⟩⟩
  · subst e; exact hk
  · subst e; trivial
  · obtain ⟨role, pc⟩ := th
    simp only at e hw; subst e
    have := a.ty _ hm
    cases role with
    | reader k => exact absurd rfl (hw k)
    | caller j => trivial
    | pusher => simp [wellTyped, Pc.writerPc] at this
  · obtain ⟨role, pc⟩ := th
    simp only at e hw; subst e
    cases role with
    | reader k => exact absurd rfl (hw k)
    | caller j => trivial
    | pusher => trivial

/-- schedules in which no stale reader wins the final compare-and-swap: every operation has returned. -/
theorem quiescent_returned {s : State} (a : AInv s) (b : BInv s) (l : LInv s) (hq : Quiescent s)
    (hns : ∀ th ∈ s.threads, th.pc ≠ .stuck) : ∀ th ∈ s.threads, opReturned s th := by
  intro th hm
  obtain ⟨_, h2⟩ := quiescent_shape a l hq hns
  rcases h2 th hm with ⟨k, e, hk⟩ | ⟨k, e⟩ | ⟨hw, e | ⟨c, e⟩⟩
  · subst e; trivial
  · subst e; trivial
  · obtain ⟨role, pc⟩ := th
    simp only at e hw; subst e
    cases role with
    | reader k => trivial
    | pusher => have := a.ty _ hm; simp [wellTyped, Pc.writerPc] at this
    | caller j =>
      have hj := a.i2 j _ hm
      have hc : s.calls[j]? = some s.calls[j] := List.getElem?_eq_getElem hj
      refine ⟨s.calls[j], hc, ?_⟩
      have hv := (a.v _ (mem_of_get? hc)).1
      rcases hv with h | h | h | h
      · exact Or.inr (Or.inr (Or.inr ⟨h, quiescent_pending a b l hq hns j _ hm hc h⟩))
      · exact Or.inl h
      · exact Or.inr (Or.inl h)
      · exact Or.inr (Or.inr (Or.inl h))
  · obtain ⟨role, pc⟩ := th
    simp only at e hw; subst e
    have h3 := a.i3 _ _ hm
    cases role with
    | reader k => trivial
    | pusher => exact h3
    | caller j => exact h3

theorem firstEnabled_none {s : State} {parked : List Nat} : ∀ (n i : Nat), firstEnabled s parked i n = none →
    ∀ j, i ≤ j → j < i + n → j ∉ parked → threadStep s j = none
  | 0, i, _, j, h1, h2, _ => by omega
  | n + 1, i, h, j, h1, h2, hp => by
    simp only [firstEnabled] at h
    by_cases hi : i ∈ parked
    · simp only [hi, if_true] at h
      have hne : j ≠ i := fun e => hp (e ▸ hi)
      exact firstEnabled_none n (i + 1) h j (by omega) (by omega) hp
    · simp only [hi, if_false] at h
      cases hs : threadStep s i with
      | some t => simp [hs] at h
      | none =>
        simp only [hs] at h
        by_cases e : j = i
        · subst e; exact hs
        · exact firstEnabled_none n (i + 1) h j (by omega) (by omega) hp

/-- a decidable test for `Quiescent`. -/
theorem quiescent_of_firstEnabled {s : State} (h : firstEnabled s [] 0 s.threads.length = none) : Quiescent s := by
  intro j
  by_cases hj : j < s.threads.length
  · exact firstEnabled_none _ 0 h j (by omega) (by omega) (by simp)
  · have : s.threads[j]? = none := List.getElem?_eq_none (by omega)
    simp [threadStep, this]

end Teleport.Redial
