/-
Lemmas/RedialStep — case analysis of one step of the thread machine of Model/Redial, in the form the
liveness invariants (Lemmas/RedialLive, Lemmas/RedialMeasure) consume it:
`TS s i t` lists every way `threadStep s i` can produce `t`, one constructor per branch of the code;
`RoundFacts` says what the locked body of `redialForClient` can do to the shared state.
-/
import Teleport.Lemmas.RedialLock
namespace Teleport.Redial

/-- statuses on which `readDisconnected` returns at once. -/
def Status.exitClass (st : Status) : Bool :=
  st == .passiveClosed || st == .activeClosed || st == .passiveClosing

/-- one step of thread `i`, by branch. -/
inductive TS (s : State) (i : Nat) : State → Prop
  | rRead (k : Nat) : s.threads[i]? = some ⟨.reader k, .rRead⟩ → k ∈ s.dead →
      TS s i (s.setPc i (.reader k) .rErr)
  | rErr (role : Role) : s.threads[i]? = some ⟨role, .rErr⟩ →
      TS s i (s.setPc i role (.dLoaded s.status))
  | dLoadedExit (role : Role) (st : Status) : s.threads[i]? = some ⟨role, .dLoaded st⟩ →
      st.exitClass = true → TS s i (s.setPc i role .exit)
  | dLoadedAc (role : Role) : s.threads[i]? = some ⟨role, .dLoaded .activeClosing⟩ →
      TS s i (s.setPc i role (.dStored .activeClosing))
  | dLoadedCas (role : Role) (st : Status) : s.threads[i]? = some ⟨role, .dLoaded st⟩ →
      st.exitClass = false → st ≠ .activeClosing → s.status = st →
      TS s i ({ s with status := .passiveClosing }.setPc i role (.dStored st))
  | dLoadedRetry (role : Role) (st : Status) : s.threads[i]? = some ⟨role, .dLoaded st⟩ →
      st.exitClass = false → st ≠ .activeClosing → s.status ≠ st →
      TS s i (s.setPc i role .rErr)
  | dStored (role : Role) (st : Status) : s.threads[i]? = some ⟨role, .dStored st⟩ →
      TS s i ({ s with hub := s.hub.erase s.id }.setPc i role (.dCancel st))
  | dCancel (role : Role) (st : Status) : s.threads[i]? = some ⟨role, .dCancel st⟩ →
      s.callerBusy = false →
      TS s i ({ s with calls := s.calls.map cancelCall }.setPc i role (.dClose st))
  | dCloseAc (role : Role) : s.threads[i]? = some ⟨role, .dClose .activeClosing⟩ →
      TS s i (s.setPc i role .exit)
  | dCloseSkip (role : Role) (st : Status) : s.threads[i]? = some ⟨role, .dClose st⟩ →
      st ≠ .activeClosing → s.sockClosed = true → TS s i (s.setPc i role .dRedial)
  | dCloseKill (role : Role) (st : Status) : s.threads[i]? = some ⟨role, .dClose st⟩ →
      st ≠ .activeClosing → s.sockClosed = false →
      TS s i ({ s with sockClosed := true, dead := s.conn :: s.dead }.setPc i role .dRedial)
  | dRedialGo (k : Nat) : s.threads[i]? = some ⟨.reader k, .dRedial⟩ → s.redial = true →
      TS s i (s.setPc i (.reader k) (.xLock k))
  | dRedialNo (k : Nat) : s.threads[i]? = some ⟨.reader k, .dRedial⟩ → s.redial = false →
      TS s i (s.setPc i (.reader k) .dFinal)
  | dFinalWon (role : Role) : s.threads[i]? = some ⟨role, .dFinal⟩ → finalFrom s.status = true →
      TS s i ({ s with status := .passiveClosed, notified := true, discHook := s.discHook + 1 }.setPc i role .exit)
  | dFinalLost (role : Role) : s.threads[i]? = some ⟨role, .dFinal⟩ → finalFrom s.status = false →
      TS s i (s.setPc i role .exit)
  | wCheck (role : Role) : s.threads[i]? = some ⟨role, .wCheck⟩ →
      TS s i (s.setPc i role (.wWrite s.conn s.status))
  | wWriteAwait (j used : Nat) (c : Call) : s.threads[i]? = some ⟨.caller j, .wWrite used .ok⟩ →
      s.conn ∉ s.dead → s.calls[j]? = some c →
      TS s i ({ s with calls := s.calls.set j { c with conn := s.conn } }.setPc i (.caller j) .wAwait)
  | wWriteSent (role : Role) (used : Nat) : s.threads[i]? = some ⟨role, .wWrite used .ok⟩ →
      s.conn ∉ s.dead → (∀ j, role ≠ .caller j) → TS s i (s.setPc i role (.wDone 0))
  | wWrite104 (role : Role) (used : Nat) : s.threads[i]? = some ⟨role, .wWrite used .ok⟩ →
      s.conn ∈ s.dead → TS s i ((finishCall s role 104).setPc i role (.wDone 104))
  | wWriteRedial (role : Role) (used : Nat) (st : Status) : s.threads[i]? = some ⟨role, .wWrite used st⟩ →
      (st ≠ .ok ∨ s.conn ∈ s.dead) → s.redial = true → TS s i (s.setPc i role (.xLock used))
  | wWrite102 (role : Role) (used : Nat) (st : Status) : s.threads[i]? = some ⟨role, .wWrite used st⟩ →
      (st ≠ .ok ∨ s.conn ∈ s.dead) → TS s i ((finishCall s role 102).setPc i role (.wDone 102))
  | xLock (role : Role) (old : Nat) : s.threads[i]? = some ⟨role, .xLock old⟩ → s.lock = false →
      TS s i ({ s with lock := true }.setPc i role (.xLocked old))
  | xLockedRet (role : Role) (old : Nat) (u : State) (r : Bool) : s.threads[i]? = some ⟨role, .xLocked old⟩ →
      redialLocked s old = (u, some r) → TS s i (afterRedial { u with lock := false } i role r)
  | xLockedHang (role : Role) (old : Nat) (u : State) : s.threads[i]? = some ⟨role, .xLocked old⟩ →
      redialLocked s old = (u, none) → TS s i (u.setPc i role .stuck)

theorem threadStep_cases {s t : State} {i : Nat} (h : threadStep s i = some t) : TS s i t := by
  cases hth : s.threads[i]? with
  | none => simp [threadStep, hth] at h
  | some th =>
    obtain ⟨role, pc⟩ := th
    cases pc with
    | rRead =>
      cases role with
      | reader k =>
        simp only [threadStep, hth] at h
        split at h
        · rename_i hk; simp only [Option.some.injEq] at h; subst h; exact .rRead k hth hk
        · simp at h
      | caller j => simp [threadStep, hth] at h
      | pusher => simp [threadStep, hth] at h
    | rErr =>
      cases role <;> (simp only [threadStep, hth, Option.some.injEq] at h; subst h; exact .rErr _ hth)
    | dLoaded st =>
      have h' : (if st = .passiveClosed ∨ st = .activeClosed ∨ st = .passiveClosing then some (s.setPc i role .exit)
          else if st = .activeClosing then some (s.setPc i role (.dStored st))
          else if s.status = st then some ({ s with status := .passiveClosing }.setPc i role (.dStored st))
          else some (s.setPc i role .rErr)) = some t := by
        cases role <;> simpa only [threadStep, hth] using h
      split at h'
      · rename_i hx; simp only [Option.some.injEq] at h'; subst h'
        exact .dLoadedExit role st hth (by rcases hx with hx | hx | hx <;> simp [hx, Status.exitClass])
      · rename_i hx
        have hne : st.exitClass = false := by
          cases st <;> simp [Status.exitClass] at hx ⊢
        split at h'
        · rename_i ha; subst ha; simp only [Option.some.injEq] at h'; subst h'; exact .dLoadedAc role hth
        · rename_i ha
          split at h'
          · rename_i hs; simp only [Option.some.injEq] at h'; subst h'; exact .dLoadedCas role st hth hne ha hs
          · rename_i hs; simp only [Option.some.injEq] at h'; subst h'; exact .dLoadedRetry role st hth hne ha hs
    | dStored st =>
      cases role <;> (simp only [threadStep, hth, Option.some.injEq] at h; subst h; exact .dStored _ st hth)
    | dCancel st =>
      have h' : (if s.callerBusy then none
          else some ({ s with calls := s.calls.map cancelCall }.setPc i role (.dClose st))) = some t := by
        cases role <;> simpa only [threadStep, hth] using h
      split at h'
      · simp at h'
      · rename_i hb; simp only [Option.some.injEq] at h'; subst h'
        exact .dCancel role st hth (by simpa using hb)
    | dClose st =>
      have h' : (if st = .activeClosing then some (s.setPc i role .exit)
          else if s.sockClosed then some (s.setPc i role .dRedial)
          else some ({ s with sockClosed := true, dead := s.conn :: s.dead }.setPc i role .dRedial)) = some t := by
        cases role <;> simpa only [threadStep, hth] using h
      split at h'
      · rename_i ha; subst ha; simp only [Option.some.injEq] at h'; subst h'; exact .dCloseAc role hth
      · rename_i ha
        split at h'
        · rename_i hc; simp only [Option.some.injEq] at h'; subst h'; exact .dCloseSkip role st hth ha hc
        · rename_i hc; simp only [Option.some.injEq] at h'; subst h'
          exact .dCloseKill role st hth ha (by simpa using hc)
    | dRedial =>
      cases role with
      | reader k =>
        simp only [threadStep, hth] at h
        split at h
        · rename_i hr; simp only [Option.some.injEq] at h; subst h; exact .dRedialGo k hth hr
        · rename_i hr; simp only [Option.some.injEq] at h; subst h; exact .dRedialNo k hth (by simpa using hr)
      | caller j => simp [threadStep, hth] at h
      | pusher => simp [threadStep, hth] at h
    | dFinal =>
      have h' : (if finalFrom s.status then
            some ({ s with status := .passiveClosed, notified := true, discHook := s.discHook + 1 }.setPc i role .exit)
          else some (s.setPc i role .exit)) = some t := by
        cases role <;> simpa only [threadStep, hth] using h
      split at h'
      · rename_i hf; simp only [Option.some.injEq] at h'; subst h'; exact .dFinalWon role hth hf
      · rename_i hf; simp only [Option.some.injEq] at h'; subst h'; exact .dFinalLost role hth (by simpa using hf)
    | wCheck =>
      cases role <;> (simp only [threadStep, hth, Option.some.injEq] at h; subst h; exact .wCheck _ hth)
    | wWrite used st =>
      by_cases hA : st = .ok ∧ s.conn ∉ s.dead
      · obtain ⟨hst, hl⟩ := hA
        subst hst
        cases role with
        | caller j =>
          simp only [threadStep, hth, hl, not_false_eq_true, and_self, if_true] at h
          cases hc : s.calls[j]? with
          | none => simp [hc] at h
          | some c =>
            simp only [hc, Option.some.injEq] at h; subst h
            exact .wWriteAwait j used c hth hl hc
        | reader k =>
          simp only [threadStep, hth, hl, not_false_eq_true, and_self, if_true, Option.some.injEq] at h; subst h
          exact .wWriteSent _ used hth hl (by intro j; simp)
        | pusher =>
          simp only [threadStep, hth, hl, not_false_eq_true, and_self, if_true, Option.some.injEq] at h; subst h
          exact .wWriteSent _ used hth hl (by intro j; simp)
      · have hA' : st ≠ .ok ∨ s.conn ∈ s.dead := by
          by_cases h1 : st = .ok
          · right; by_cases h2 : s.conn ∈ s.dead
            · exact h2
            · exact absurd ⟨h1, h2⟩ hA
          · left; exact h1
        have h' : (if st = .ok ∧ ¬ (s.sockClosed ∨ s.werrEOF) then some ((finishCall s role 104).setPc i role (.wDone 104))
            else if s.redial then some (s.setPc i role (.xLock used))
            else some ((finishCall s role 102).setPc i role (.wDone 102))) = some t := by
          cases role <;> simpa only [threadStep, hth, hA, if_false] using h
        split at h'
        · rename_i hB
          obtain ⟨hst, _⟩ := hB
          subst hst
          simp only [Option.some.injEq] at h'; subst h'
          refine .wWrite104 role used hth ?_
          rcases hA' with h1 | h1
          · exact absurd rfl h1
          · exact h1
        · split at h'
          · rename_i hr; simp only [Option.some.injEq] at h'; subst h'; exact .wWriteRedial role used st hth hA' hr
          · simp only [Option.some.injEq] at h'; subst h'; exact .wWrite102 role used st hth hA'
    | wAwait => cases role <;> simp [threadStep, hth] at h
    | wDone c => cases role <;> simp [threadStep, hth] at h
    | xLock old =>
      have h' : (if s.lock then none else some ({ s with lock := true }.setPc i role (.xLocked old))) = some t := by
        cases role <;> simpa only [threadStep, hth] using h
      split at h'
      · simp at h'
      · rename_i hl; simp only [Option.some.injEq] at h'; subst h'
        exact .xLock role old hth (by simpa using hl)
    | xLocked old =>
      cases hr : redialLocked s old with
      | mk u r =>
        cases r with
        | some r =>
          have e : t = afterRedial { u with lock := false } i role r := by
            cases role <;> (simp only [threadStep, hth, hr, Option.some.injEq] at h; exact h.symm)
          subst e; exact .xLockedRet role old u r hth hr
        | none =>
          have e : t = u.setPc i role .stuck := by
            cases role <;> (simp only [threadStep, hth, hr, Option.some.injEq] at h; exact h.symm)
          subst e; exact .xLockedHang role old u hth hr
    | stuck => cases role <;> simp [threadStep, hth] at h
    | exit => cases role <;> simp [threadStep, hth] at h

/-! ## what a redial round does to the connection counter and the dead set -/

theorem fold_dead (auto : Bool) (oldId : Key) : ∀ (l : List Avail) (s : State),
    ∃ added, (l.foldl (applyAttempt auto oldId) s).dead = added ++ s.dead ∧
      (∀ k ∈ added, s.conn < k ∧ k ≤ (l.foldl (applyAttempt auto oldId) s).conn) ∧
      s.conn ≤ (l.foldl (applyAttempt auto oldId) s).conn ∧
      ((∀ a ∈ l, a ≠ .up) → s.conn < (l.foldl (applyAttempt auto oldId) s).conn →
        (l.foldl (applyAttempt auto oldId) s).conn ∈ added)
  | [], s => ⟨[], by simp⟩
  | a :: l, s => by
    simp only [List.foldl_cons]
    obtain ⟨ad, h1, h2, h3, h4⟩ := fold_dead auto oldId l (applyAttempt auto oldId s a)
    cases a with
    | up =>
      have hc : (applyAttempt auto oldId s .up).conn = s.conn + 1 := rfl
      have hd : (applyAttempt auto oldId s .up).dead = s.dead := rfl
      generalize applyAttempt auto oldId s .up = s1 at *
      rw [hd] at h1; rw [hc] at h2 h3 h4
      refine ⟨ad, h1, ?_, by omega, ?_⟩
      · intro k hk
        have := h2 k hk
        omega
      · intro hall; exact absurd rfl (hall .up (by simp))
    | down =>
      have hs : applyAttempt auto oldId s .down = s := rfl
      rw [hs] at h1 h2 h3 h4 ⊢
      exact ⟨ad, h1, h2, h3, fun hall => h4 (fun x hx => hall x (by simp [hx]))⟩
    | hookFail =>
      have hc : (applyAttempt auto oldId s .hookFail).conn = s.conn + 1 := rfl
      have hd : (applyAttempt auto oldId s .hookFail).dead = (s.conn + 1) :: s.dead := rfl
      generalize applyAttempt auto oldId s .hookFail = s1 at *
      rw [hd] at h1; rw [hc] at h2 h3 h4
      refine ⟨ad ++ [s.conn + 1], by simpa using h1, ?_, by omega, ?_⟩
      · intro k hk
        simp only [List.mem_append, List.mem_singleton] at hk
        rcases hk with hk | hk
        · have := h2 k hk; omega
        · subst hk; omega
      · intro hall _
        have h4' := h4 (fun x hx => hall x (by simp [hx]))
        simp only [List.mem_append, List.mem_singleton]
        by_cases hlt : s.conn + 1 < (List.foldl (applyAttempt auto oldId) s1 l).conn
        · exact Or.inl (h4' hlt)
        · right; omega

/-- how the locked body ended. -/
inductive REnd
  | ok | failed | hang
deriving DecidableEq

/-- effect of a redial round (`old = getConn()`, status CAS won) on the shared state. -/
structure RoundFacts (s u : State) (e : REnd) : Prop where
  lock : u.lock = s.lock
  calls : u.calls = s.calls
  budget : u.budget = s.budget
  eof : u.werrEOF = s.werrEOF
  conn_le : s.conn ≤ u.conn
  status : u.status = (match e with | .ok => Status.ok | .failed => .redialFailed | .hang => .redialing)
  threads : u.threads = (match e with
    | .ok => s.threads ++ [⟨.reader u.conn, .rRead⟩]
    | _ => s.threads)
  dead : ∃ added, u.dead = (match e with | .ok => s.conn :: (added ++ s.dead) | _ => added ++ s.dead) ∧
    (∀ k ∈ added, s.conn < k ∧ k ≤ u.conn) ∧
    (e = .ok → s.conn < u.conn ∧ ∀ k ∈ added, k < u.conn) ∧
    (e ≠ .ok → s.conn < u.conn → u.conn ∈ added)

theorem roundFold_base (s : State) :
    (roundFold s).threads = s.threads ∧ (roundFold s).lock = s.lock ∧ (roundFold s).calls = s.calls ∧
    (roundFold s).budget = s.budget ∧ (roundFold s).werrEOF = s.werrEOF ∧ s.conn ≤ (roundFold s).conn := by
  obtain ⟨f1, _, _, _, f5, f6, _, _, f9, _, f11, f12⟩ := roundFold_frame s
  exact ⟨f1, f6, f9, f5, f11, f12⟩

theorem roundFacts_ok (s : State) (h2 : (dialRound s.budget s.env).fin = .success) :
    RoundFacts s (finishOk (roundFold s) s.conn) .ok := by
  obtain ⟨b1, b2, b3, b4, b5, b6⟩ := roundFold_base s
  obtain ⟨pre, hp, _⟩ := (dialRound_tried s.budget s.env).1 h2
  have hf : roundFold s = applyAttempt (s.id == .addr s.conn) s.id
      (pre.foldl (applyAttempt (s.id == .addr s.conn) s.id) (roundStart s)) .up := by
    simp [roundFold, hp, List.foldl_append]
  obtain ⟨ad, d1, d2, d3, _⟩ := fold_dead (s.id == .addr s.conn) s.id pre (roundStart s)
  have hc : (roundFold s).conn = (pre.foldl (applyAttempt (s.id == .addr s.conn) s.id) (roundStart s)).conn + 1 := by
    rw [hf]; rfl
  have hd : (roundFold s).dead = (pre.foldl (applyAttempt (s.id == .addr s.conn) s.id) (roundStart s)).dead := by
    rw [hf]; rfl
  have r1 : (roundStart s).conn = s.conn := rfl
  have r2 : (roundStart s).dead = s.dead := rfl
  rw [r1] at d2 d3; rw [r2] at d1
  refine ⟨b2, b3, b4, b5, b6, rfl, by simp [finishOk, b1], ⟨ad, ?_, ?_, ?_, ?_⟩⟩
  · show s.conn :: (roundFold s).dead = _
    rw [hd, d1]
  · intro k hk; have := d2 k hk; show s.conn < k ∧ k ≤ (roundFold s).conn; omega
  · intro _
    refine ⟨by show s.conn < (roundFold s).conn; omega, ?_⟩
    intro k hk; have := d2 k hk; show k < (roundFold s).conn; omega
  · intro h; exact absurd rfl h

theorem roundFacts_notok (s : State) (h2 : (dialRound s.budget s.env).fin ≠ .success) :
    RoundFacts s (roundFold s) .hang ∧ RoundFacts s (casRedialFailed (closeLocked (roundFold s))) .failed := by
  obtain ⟨b1, b2, b3, b4, b5, b6⟩ := roundFold_base s
  have hst := roundFold_failed s h2
  obtain ⟨ad, d1, d2, _, d4⟩ := fold_dead (s.id == .addr s.conn) s.id (dialRound s.budget s.env).tried (roundStart s)
  have d4' := d4 ((dialRound_tried s.budget s.env).2 h2)
  have r1 : (roundStart s).conn = s.conn := rfl
  have r2 : (roundStart s).dead = s.dead := rfl
  rw [r1] at d2 d4'; rw [r2] at d1
  have hdead : ∃ added, (roundFold s).dead = added ++ s.dead ∧ (∀ k ∈ added, s.conn < k ∧ k ≤ (roundFold s).conn) ∧
      (s.conn < (roundFold s).conn → (roundFold s).conn ∈ added) := ⟨ad, d1, d2, d4'⟩
  obtain ⟨ad, e1, e2, e3⟩ := hdead
  constructor
  · exact ⟨b2, b3, b4, b5, b6, hst, b1, ⟨ad, e1, e2, (by intro h; cases h), fun _ => e3⟩⟩
  · rw [closeLocked_noop s h2]
    have hu : casRedialFailed (roundFold s) = { roundFold s with status := .redialFailed } := by
      simp [casRedialFailed, hst]
    rw [hu]
    exact ⟨b2, b3, b4, b5, b6, rfl, b1, ⟨ad, e1, e2, (by intro h; cases h), fun _ => e3⟩⟩

/-- every way the locked body of `redialForClient` can end. -/
theorem redialLocked_cases (s : State) (old : Nat) :
    (old ≠ s.conn ∧ redialLocked s old = (s, some true)) ∨
    (old = s.conn ∧ casFrom s.status = false ∧ redialLocked s old = (s, some false)) ∨
    (old = s.conn ∧ casFrom s.status = true ∧ ∃ u,
      (redialLocked s old = (u, some true) ∧ RoundFacts s u .ok) ∨
      (redialLocked s old = (u, some false) ∧ RoundFacts s u .failed) ∨
      (redialLocked s old = (u, none) ∧ RoundFacts s u .hang)) := by
  by_cases ho : old = s.conn
  · subst ho
    by_cases hc : casFrom s.status = true
    · right; right
      refine ⟨rfl, hc, ?_⟩
      cases hfin : (dialRound s.budget s.env).fin with
      | success => exact ⟨_, Or.inl ⟨redialLocked_success_eq s hc hfin, roundFacts_ok s hfin⟩⟩
      | failed =>
        have hne : (dialRound s.budget s.env).fin ≠ .success := by simp [hfin]
        exact ⟨_, Or.inr (Or.inl ⟨redialLocked_failed_eq s hc hfin, (roundFacts_notok s hne).2⟩)⟩
      | hang =>
        have hne : (dialRound s.budget s.env).fin ≠ .success := by simp [hfin]
        have : redialLocked s s.conn = (roundFold s, none) := by
          simp [redialLocked, hc, hfin, roundFold, roundStart]
        exact ⟨_, Or.inr (Or.inr ⟨this, (roundFacts_notok s hne).1⟩)⟩
    · right; left
      have hc' : casFrom s.status = false := by simpa using hc
      exact ⟨rfl, hc', redialLocked_nocas s hc'⟩
  · left; exact ⟨ho, redialLocked_other s old ho⟩

end Teleport.Redial
