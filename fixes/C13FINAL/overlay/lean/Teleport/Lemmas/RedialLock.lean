/-
Lemmas/RedialLock — `s.lock` of `redialForClient` in the thread machine of Model/Redial:
mutual exclusion (at most one thread is inside the locked body, and exactly then the lock is taken)
as an invariant of every step, and the lock-queue facts used by `C13_lock_queue` in Props/C13.
-/
import Teleport.Lemmas.Redial
namespace Teleport.Redial

/-- program counters at which a thread holds `s.lock` (`stuck`: inside a retry loop that never
    returns, i.e. still inside the locked body). -/
def Pc.holdsLock : Pc → Bool
  | .xLocked _ => true
  | .stuck => true
  | _ => false

/-- number of threads inside the locked body of `redialForClient`. -/
def holders (s : State) : Nat := s.threads.countP fun t => t.pc.holdsLock

/-- mutual exclusion: the lock is taken iff exactly one thread is inside the body; otherwise none. -/
def LInv (s : State) : Prop := holders s = if s.lock then 1 else 0

theorem countP_set_add {α : Type} (p : α → Bool) : ∀ (l : List α) (i : Nat) (a b : α), l[i]? = some a →
    (l.set i b).countP p + (if p a then 1 else 0) = l.countP p + (if p b then 1 else 0)
  | [], i, a, b, h => by simp at h
  | x :: l, 0, a, b, h => by
    simp at h; subst h
    simp only [List.set_cons_zero, List.countP_cons]; omega
  | x :: l, i + 1, a, b, h => by
    simp at h
    have := countP_set_add p l i a b h
    simp only [List.set_cons_succ, List.countP_cons]; omega

theorem holders_setPc (s : State) (i : Nat) (role : Role) (pc pc' : Pc)
    (h : s.threads[i]? = some ⟨role, pc⟩) :
    holders (s.setPc i role pc') + (if pc.holdsLock then 1 else 0) =
      holders s + (if pc'.holdsLock then 1 else 0) := by
  simpa [holders, State.setPc] using
    countP_set_add (fun t : Thread => t.pc.holdsLock) s.threads i ⟨role, pc⟩ ⟨role, pc'⟩ h

@[simp] theorem setPc_lock (s : State) (i : Nat) (r : Role) (pc : Pc) : (s.setPc i r pc).lock = s.lock := rfl

@[simp] theorem finishCall_threads (s : State) (r : Role) (c : Nat) : (finishCall s r c).threads = s.threads := by
  unfold finishCall
  split
  · split <;> rfl
  · rfl

@[simp] theorem finishCall_lock (s : State) (r : Role) (c : Nat) : (finishCall s r c).lock = s.lock := by
  unfold finishCall
  split
  · split <;> rfl
  · rfl

/-- a step from a pc outside the body to a pc outside the body that leaves the lock alone. -/
theorem linv_setPc (s u : State) (i : Nat) (role : Role) (pc pc' : Pc)
    (hth : s.threads[i]? = some ⟨role, pc⟩) (hu : u.threads = s.threads) (hl : u.lock = s.lock)
    (h1 : pc.holdsLock = false) (h2 : pc'.holdsLock = false) (hinv : LInv s) : LInv (u.setPc i role pc') := by
  have hth' : u.threads[i]? = some ⟨role, pc⟩ := by rw [hu]; exact hth
  have := holders_setPc u i role pc pc' hth'
  have hh : holders u = holders s := by simp [holders, hu]
  simp only [LInv, setPc_lock, hl] at *
  simp [h1, h2] at this
  omega

/-- the locked body never touches the lock flag itself, and the thread list only grows by the
    reader of a newly established connection (which starts blocked in `ReadMessage`). -/
theorem redialLocked_shape (s : State) (old : Nat) :
    (redialLocked s old).1.lock = s.lock ∧
    ((redialLocked s old).1.threads = s.threads ∨
      ∃ k, (redialLocked s old).1.threads = s.threads ++ [⟨.reader k, .rRead⟩]) := by
  by_cases ho : old = s.conn
  · subst ho
    by_cases hc : casFrom s.status = true
    · obtain ⟨f1, _, _, _, _, f6, _⟩ := roundFold_frame s
      have f1' : (roundFold s).threads = s.threads := by simpa [roundStart] using f1
      have f6' : (roundFold s).lock = s.lock := by simpa [roundStart] using f6
      cases hfin : (dialRound s.budget s.env).fin with
      | success =>
        rw [redialLocked_success_eq s hc hfin]
        exact ⟨by simpa [finishOk] using f6', Or.inr ⟨(roundFold s).conn, by simp [finishOk, f1']⟩⟩
      | failed =>
        rw [redialLocked_failed_eq s hc hfin]
        have hne : (dialRound s.budget s.env).fin ≠ .success := by simp [hfin]
        rw [closeLocked_noop s hne]
        refine ⟨?_, Or.inl ?_⟩
        · unfold casRedialFailed; split <;> simpa using f6'
        · unfold casRedialFailed; split <;> simpa using f1'
      | hang =>
        have : redialLocked s s.conn = (roundFold s, none) := by
          simp [redialLocked, hc, hfin, roundFold, roundStart]
        rw [this]; exact ⟨f6', Or.inl f1'⟩
    · have hc' : casFrom s.status = false := by simpa using hc
      rw [redialLocked_nocas s hc']; exact ⟨rfl, Or.inl rfl⟩
  · rw [redialLocked_other s old ho]; exact ⟨rfl, Or.inl rfl⟩

theorem redialLocked_holders (s : State) (old : Nat) : holders (redialLocked s old).1 = holders s := by
  rcases (redialLocked_shape s old).2 with h | ⟨k, h⟩
  · simp [holders, h]
  · simp [holders, h, Pc.holdsLock]

theorem redialLocked_getThread (s : State) (old i : Nat) (th : Thread) (h : s.threads[i]? = some th) :
    (redialLocked s old).1.threads[i]? = some th := by
  rcases (redialLocked_shape s old).2 with h' | ⟨k, h'⟩
  · rw [h']; exact h
  · rw [h']
    have hi : i < s.threads.length := by
      rcases Nat.lt_or_ge i s.threads.length with hlt | hge
      · exact hlt
      · simp [List.getElem?_eq_none hge] at h
    rw [List.getElem?_append_left hi]; exact h

/-- leaving the body: whatever `redialForClient` returned, the thread's next pc is outside it. -/
theorem holders_afterRedial (u : State) (i old : Nat) (role : Role) (r : Bool)
    (h : u.threads[i]? = some ⟨role, .xLocked old⟩) :
    holders (afterRedial u i role r) + 1 = holders u ∧ (afterRedial u i role r).lock = u.lock := by
  unfold afterRedial
  split
  · have := holders_setPc u i _ (.xLocked old) (if r then Pc.exit else Pc.dFinal) h
    refine ⟨?_, rfl⟩
    cases r <;> simpa [Pc.holdsLock] using this
  · split
    · have := holders_setPc u i role (.xLocked old) .wCheck h
      exact ⟨by simpa [Pc.holdsLock] using this, rfl⟩
    · have h' : (finishCall u role 102).threads[i]? = some ⟨role, .xLocked old⟩ := by simpa using h
      have := holders_setPc (finishCall u role 102) i role (.xLocked old) (.wDone 102) h'
      have hh : holders (finishCall u role 102) = holders u := by simp [holders]
      exact ⟨by simpa [Pc.holdsLock, hh] using this, by simp⟩

/-- mutual exclusion is preserved by every thread step. -/
theorem threadStep_linv (s t : State) (i : Nat) (hinv : LInv s) (h : threadStep s i = some t) : LInv t := by
  cases hth : s.threads[i]? with
  | none => simp [threadStep, hth] at h
  | some th =>
    obtain ⟨role, pc⟩ := th
    cases pc with
    | xLock old =>
      simp only [threadStep, hth] at h
      split at h
      · simp at h
      · rename_i hl
        simp only [Option.some.injEq] at h; subst h
        have hl' : s.lock = false := by simpa using hl
        have hth' : ({ s with lock := true } : State).threads[i]? = some ⟨role, .xLock old⟩ := hth
        have := holders_setPc { s with lock := true } i role (.xLock old) (.xLocked old) hth'
        have hh : holders ({ s with lock := true } : State) = holders s := rfl
        have e1 : (Pc.xLock old).holdsLock = false := rfl
        have e2 : (Pc.xLocked old).holdsLock = true := rfl
        rw [e1, e2, hh] at this
        simp only [LInv, hl'] at hinv
        show holders (({ s with lock := true } : State).setPc i role (.xLocked old)) = if true then 1 else 0
        simp at this hinv ⊢
        omega
    | xLocked old =>
      simp only [threadStep, hth] at h
      have hpos : 0 < holders s := by
        have hi : i < s.threads.length := by
          rcases Nat.lt_or_ge i s.threads.length with hlt | hge
          · exact hlt
          · simp [List.getElem?_eq_none hge] at hth
        have hm : s.threads[i] ∈ s.threads := List.getElem_mem hi
        have he : s.threads[i] = ⟨role, .xLocked old⟩ := by
          have := List.getElem?_eq_getElem hi
          rw [this] at hth; simpa using hth
        exact List.countP_pos_iff.mpr ⟨_, hm, by simp [he, Pc.holdsLock]⟩
      have hlock : s.lock = true ∧ holders s = 1 := by
        simp only [LInv] at hinv
        by_cases hl : s.lock = true
        · simp [hl] at hinv; exact ⟨hl, hinv⟩
        · simp [hl] at hinv; omega
      have hsh := redialLocked_shape s old
      have hho := redialLocked_holders s old
      have hg := redialLocked_getThread s old i _ hth
      split at h
      · rename_i t' r heq
        simp only [Option.some.injEq] at h; subst h
        have e1 : t' = (redialLocked s old).1 := by rw [heq]
        have hg' : ({ t' with lock := false } : State).threads[i]? = some ⟨role, .xLocked old⟩ := by
          rw [e1]; exact hg
        obtain ⟨a1, a2⟩ := holders_afterRedial { t' with lock := false } i old role r hg'
        have hh : holders ({ t' with lock := false } : State) = holders s := by
          have : holders ({ t' with lock := false } : State) = holders t' := rfl
          rw [this, e1, hho]
        simp only [LInv, a2]
        simp; omega
      · rename_i t' heq
        simp only [Option.some.injEq] at h; subst h
        have e1 : t' = (redialLocked s old).1 := by rw [heq]
        have hg' : t'.threads[i]? = some ⟨role, .xLocked old⟩ := by rw [e1]; exact hg
        have := holders_setPc t' i role (.xLocked old) .stuck hg'
        have hl : t'.lock = true := by rw [e1, hsh.1]; exact hlock.1
        have hh : holders t' = holders s := by rw [e1, hho]
        simp only [LInv, setPc_lock, hl]
        simp [Pc.holdsLock, hh] at this
        simp; omega
    | rRead =>
      cases role <;> simp only [threadStep, hth] at h
      all_goals (try (simp at h; done))
      split at h
      · simp only [Option.some.injEq] at h; subst h
        exact linv_setPc s s i _ _ _ hth rfl rfl rfl rfl hinv
      · simp at h
    | rErr =>
      simp only [threadStep, hth, Option.some.injEq] at h; subst h
      exact linv_setPc s s i _ _ _ hth rfl rfl rfl rfl hinv
    | dLoaded st =>
      simp only [threadStep, hth] at h
      (repeat' split at h) <;> (simp only [Option.some.injEq] at h; subst h)
      all_goals exact linv_setPc s _ i _ _ _ hth rfl rfl rfl rfl hinv
    | dStored st =>
      simp only [threadStep, hth, Option.some.injEq] at h; subst h
      exact linv_setPc s _ i _ _ _ hth rfl rfl rfl rfl hinv
    | dCancel st =>
      simp only [threadStep, hth] at h
      split at h
      · simp at h
      · simp only [Option.some.injEq] at h; subst h
        exact linv_setPc s _ i _ _ _ hth rfl rfl rfl rfl hinv
    | dClose st =>
      simp only [threadStep, hth] at h
      (repeat' split at h) <;> (simp only [Option.some.injEq] at h; subst h)
      all_goals exact linv_setPc s _ i _ _ _ hth rfl rfl rfl rfl hinv
    | dRedial =>
      cases role <;> simp only [threadStep, hth] at h
      all_goals (try (simp at h; done))
      split at h <;> (simp only [Option.some.injEq] at h; subst h)
      all_goals exact linv_setPc s _ i _ _ _ hth rfl rfl rfl rfl hinv
    | dFinal =>
      simp only [threadStep, hth] at h
      split at h <;> (simp only [Option.some.injEq] at h; subst h)
      all_goals exact linv_setPc s _ i _ _ _ hth rfl rfl rfl rfl hinv
    | wCheck =>
      simp only [threadStep, hth, Option.some.injEq] at h; subst h
      exact linv_setPc s _ i _ _ _ hth rfl rfl rfl rfl hinv
    | wWrite used st =>
      simp only [threadStep, hth] at h
      (repeat' split at h) <;> (try (simp at h; done)) <;> (simp only [Option.some.injEq] at h; subst h)
      all_goals first
        | exact linv_setPc s _ i _ _ _ hth rfl rfl rfl rfl hinv
        | exact linv_setPc s _ i _ _ _ hth (by simp) (by simp) rfl rfl hinv
    | wAwait => simp [threadStep, hth] at h
    | wDone c => simp [threadStep, hth] at h
    | stuck => simp [threadStep, hth] at h
    | exit => simp [threadStep, hth] at h

theorem step_linv (s t : State) (e : Ev) (hinv : LInv s) (h : step s e = some t) : LInv t := by
  cases e with
  | th i => exact threadStep_linv s t i hinv h
  | lose k =>
    simp [step] at h; subst h; split <;> exact hinv
  | reply j =>
    simp only [step] at h
    split at h
    · split at h
      · simp at h; subst h; exact hinv
      · simp at h
    · simp at h
  | setUser =>
    simp only [step] at h
    (repeat' split at h) <;> (simp at h; subst h; exact hinv)
  | call =>
    simp [step] at h; subst h
    simpa [LInv, holders, Pc.holdsLock] using hinv
  | push =>
    simp [step] at h; subst h
    simpa [LInv, holders, Pc.holdsLock] using hinv
  | setEnv e => simp [step] at h; subst h; exact hinv

theorem run_linv : ∀ (evs : List Ev) (s t : State), LInv s → run s evs = some t → LInv t
  | [], s, t, h, hr => by simp [run] at hr; subst hr; exact h
  | e :: es, s, t, h, hr => by
    simp only [run] at hr
    cases hs : step s e with
    | none => simp [hs] at hr
    | some u =>
      simp only [hs, Option.bind_some] at hr
      exact run_linv es u t (step_linv s u e h hs) hr

theorem reachable_linv (b : Int) (eof : Bool) (t : State) (h : Reachable b eof t) : LInv t := by
  obtain ⟨evs, hr⟩ := h
  exact run_linv evs _ t (by simp [LInv, holders, State.init, Pc.holdsLock]) hr

/-! ## the lock queue -/

/-- where a thread goes on when `redialForClient` returned true: the reader is done, a writer
    retries its write (`goto W`). -/
def afterTruePc : Role → Pc
  | .reader _ => .exit
  | _ => .wCheck

theorem afterRedial_true (u : State) (i : Nat) (role : Role) :
    afterRedial u i role true = u.setPc i role (afterTruePc role) := by
  cases role <;> simp [afterRedial, afterTruePc]

theorem lt_of_getElem?_some {α : Type} {l : List α} {i : Nat} {a : α} (h : l[i]? = some a) : i < l.length := by
  rcases Nat.lt_or_ge i l.length with hlt | hge
  · exact hlt
  · simp [List.getElem?_eq_none hge] at h

/-- a thread that obtains the lock after the connection it came for has been replaced: taking the
    lock and running the body changes nothing but its own program counter — no dial, no hook, no
    status change, nothing closed. -/
theorem queued_noop (u : State) (j old : Nat) (rj : Role)
    (hj : u.threads[j]? = some ⟨rj, .xLock old⟩) (hl : u.lock = false) (ho : old ≠ u.conn) :
    ∃ m, threadStep u j = some m ∧ threadStep m j = some (u.setPc j rj (afterTruePc rj)) := by
  have hlt := lt_of_getElem?_some hj
  refine ⟨({ u with lock := true } : State).setPc j rj (.xLocked old), ?_, ?_⟩
  · simp [threadStep, hj, hl]
  · have hm : (({ u with lock := true } : State).setPc j rj (.xLocked old)).threads[j]? = some ⟨rj, .xLocked old⟩ := by
      simp [State.setPc, hlt]
    have hc : old ≠ (({ u with lock := true } : State).setPc j rj (.xLocked old)).conn := ho
    simp only [threadStep, hm, redialLocked_other _ old hc, afterRedial_true]
    cases u
    simp_all [State.setPc]

/-- the lock holder's step when its round reaches the server: afterwards the lock is free, the
    status is Ok, the socket holds a newer connection, exactly one round was recorded, and every
    other thread stands where it stood. -/
theorem holder_success (s : State) (i : Nat) (ri : Role)
    (hi : s.threads[i]? = some ⟨ri, .xLocked s.conn⟩)
    (h1 : casFrom s.status = true) (h2 : (dialRound s.budget s.env).fin = .success) :
    ∃ t, threadStep s i = some t ∧ t.status = .ok ∧ s.conn < t.conn ∧ t.lock = false ∧
      t.rounds = s.rounds ++ [(dialRound s.budget s.env).tried.length] ∧
      t.redials = s.redials ++ [s.conn] ∧
      ∀ j th, j ≠ i → s.threads[j]? = some th → t.threads[j]? = some th := by
  obtain ⟨f1, _, f3, f4, _⟩ := roundFold_frame s
  have f1' : (roundFold s).threads = s.threads := by simpa [roundStart] using f1
  have f3' : (roundFold s).rounds = s.rounds ++ [(dialRound s.budget s.env).tried.length] := by simpa [roundStart] using f3
  have f4' : (roundFold s).redials = s.redials := by simpa [roundStart] using f4
  have hlt := (roundFold_success s h2).2.1
  refine ⟨({ finishOk (roundFold s) s.conn with lock := false } : State).setPc i ri (afterTruePc ri),
    by simp only [threadStep, hi, redialLocked_success_eq s h1 h2, afterRedial_true], ?_, ?_, ?_, ?_, ?_, ?_⟩
  · simp [State.setPc, finishOk]
  · simpa [State.setPc, finishOk] using hlt
  · simp [State.setPc, finishOk]
  · simpa [State.setPc, finishOk] using f3'
  · simp [State.setPc, finishOk, f4']
  · intro j th hji hj
    have hjl := lt_of_getElem?_some hj
    simp only [State.setPc, finishOk, f1']
    rw [List.getElem?_set_ne (Ne.symm hji), List.getElem?_append_left hjl]
    exact hj

end Teleport.Redial
