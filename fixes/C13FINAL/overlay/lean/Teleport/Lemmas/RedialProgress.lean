/-
Lemmas/RedialProgress — every internal step of the redial thread machine (Model/Redial) that is not
a stale CAS / stale close decreases `measure` (Lemmas/RedialMeasure): the steps of the locked body of
`redialForClient`, `measure_step`, and the bound on runs of internal steps.
-/
import Teleport.Lemmas.RedialMeasure
import Teleport.Lemmas.RedialLive
namespace Teleport.Redial

theorem rc_xlocked_after (role : Role) (old : Nat) (r : Bool) (c : Nat) (d : Bool) :
    rc c d ⟨role, afterPc role r⟩ ≤ rc c d ⟨role, .xLocked old⟩ := by
  cases role <;> cases r <;> simp [rc, afterPc, Pc.preCas, Pc.postCas, Pc.writing]

/-- `redialForClient` returns without a round (someone else redialed, or the status CAS failed). -/
theorem measure_noround {s : State} {i old : Nat} {role : Role} (r : Bool)
    (hth : s.threads[i]? = some ⟨role, .xLocked old⟩) (hr : r = true → old ≠ s.conn) :
    measure (afterRedial { s with lock := false } i role r) < measure s := by
  rw [afterRedial_eq]
  have htw : ∀ R, tw R s.conn s.status ⟨role, afterPc role r⟩ < tw R s.conn s.status ⟨role, .xLocked old⟩ := by
    intro R
    cases r with
    | true =>
      have := hr rfl
      cases role <;> simp [tw, afterPc, this]
    | false => cases role <;> simp [tw, afterPc] <;> (try split) <;> omega
  cases r with
  | true =>
    exact measure_pure (t := State.setPc { s with lock := false } i role (afterPc role true)) hth rfl rfl rfl Iff.rfl rfl
      (rc_xlocked_after role old true s.conn) htw
  | false =>
    exact measure_pure (pc' := afterPc role false) hth (by simp) (by simp) (by simp) (by simp) (by simp [futureDead])
      (rc_xlocked_after role old false s.conn) htw

theorem set_append_left' {α : Type} (l m : List α) (i : Nat) (a : α) (h : i < l.length) :
    (l ++ m).set i a = l.set i a ++ m := by
  induction l generalizing i with
  | nil => simp at h
  | cons x r ih =>
    cases i with
    | zero => simp
    | succ j => simp at h; simp [ih j h]

/-- a successful round: thread `i` continues at `afterPc role true`, a reader is started. -/
theorem measure_round_ok {s u : State} {i : Nat} {role : Role} (a : AInv s) (f : RoundFacts s u .ok)
    (hth : s.threads[i]? = some ⟨role, .xLocked s.conn⟩) :
    measure (afterRedial { u with lock := false } i role true) < measure s := by
  rw [afterRedial_eq]
  simp only [if_true]
  have hi := lt_of_getElem?_some hth
  have hT : (State.setPc { u with lock := false } i role (afterPc role true)).threads =
      s.threads.set i ⟨role, afterPc role true⟩ ++ [⟨.reader u.conn, .rRead⟩] := by
    simp only [setPc_threads, f.threads]
    exact set_append_left' _ _ _ _ hi
  have hlt : s.conn < u.conn := by
    obtain ⟨ad, _, _, hok, _⟩ := f.dead
    exact (hok rfl).1
  have hP := potential_round (t := State.setPc { u with lock := false } i role (afterPc role true)) (e := .ok)
    a f hth hT rfl rfl rfl (by intro c d; simpa [roundPay] using rc_xlocked_after role s.conn true c d)
  refine measure_lt_drop hth hT hP ?_
  have hne : s.conn ≠ u.conn := by omega
  cases role <;> simp [tw, sumTw, afterPc, hne] <;> omega

/-- a failed round (`e = .failed`) or one that never returns (`e = .hang`). -/
theorem measure_round_notok {s u t : State} {e : REnd} {i : Nat} {role : Role} {pc' : Pc} (a : AInv s)
    (f : RoundFacts s u e) (he : e ≠ .ok) (hth : s.threads[i]? = some ⟨role, .xLocked s.conn⟩)
    (hT : t.threads = u.threads.set i ⟨role, pc'⟩) (hC : t.conn = u.conn) (hD : t.dead = u.dead)
    (hS : t.status = u.status)
    (hpc : (pc' = .stuck) ∨ (pc' = afterPc role false)) : measure t < measure s := by
  have hex : roundExtra e u.conn = [] := by
    cases e with
    | ok => exact absurd rfl he
    | failed => rfl
    | hang => rfl
  have hT' : t.threads = s.threads.set i ⟨role, pc'⟩ ++ roundExtra e u.conn := by
    rw [hT, f.threads, hex]
    cases e with
    | ok => exact absurd rfl he
    | failed => simp
    | hang => simp
  have hrc : ∀ c d, rc c d ⟨role, pc'⟩ + roundPay e ≤ rc c d ⟨role, .xLocked s.conn⟩ := by
    intro c d
    have h4 : roundPay e = 4 := by
      cases e with
      | ok => exact absurd rfl he
      | failed => rfl
      | hang => rfl
    rw [h4]
    rcases hpc with h | h <;> subst h <;> cases role <;> simp [rc, afterPc, Pc.preCas, Pc.postCas, Pc.writing]
  have hP := potential_round a f hth hT' hC hD hS hrc
  have hT'' : t.threads = s.threads.set i ⟨role, pc'⟩ ++ [] := by rw [hT', hex]
  refine measure_lt_drop hth hT'' hP ?_
  rcases hpc with h | h <;> subst h <;> cases role <;> simp [tw, sumTw, afterPc] <;> (try split) <;> omega

/-- every thread step that is neither a stale CAS nor a stale close decreases the measure. -/
theorem measure_step {s t : State} {i : Nat} (a : AInv s) (h : threadStep s i = some t)
    (hc : staleCas s i = false) (hk : staleClose s i = false) : measure t < measure s := by
  have hts := threadStep_cases h
  cases hth : s.threads[i]? with
  | none => simp [threadStep, hth] at h
  | some th =>
    obtain ⟨role, pc⟩ := th
    have hold := mem_of_get? hth
    by_cases hx : ∃ old, pc = .xLocked old
    · obtain ⟨old, hx⟩ := hx
      subst hx
      cases hts with
      | xLockedRet role' old' u r hth' hr =>
        rw [hth] at hth'; injection hth' with e; injection e with e1 e2; injection e2 with e2; subst e1; subst e2
        rcases redialLocked_cases s old with ⟨hne, hh⟩ | ⟨_, _, hh⟩ | ⟨ho, _, u', hh | hh | hh⟩
        · rw [hh] at hr; injection hr with h1 h2; injection h2 with h2; subst h1; subst h2
          exact measure_noround true hth (fun _ => hne)
        · rw [hh] at hr; injection hr with h1 h2; injection h2 with h2; subst h1; subst h2
          exact measure_noround false hth (by simp)
        · obtain ⟨hh, f⟩ := hh
          rw [hh] at hr; injection hr with h1 h2; injection h2 with h2; subst h1; subst h2; subst ho
          exact measure_round_ok a f hth
        · obtain ⟨hh, f⟩ := hh
          rw [hh] at hr; injection hr with h1 h2; injection h2 with h2; subst h1; subst h2; subst ho
          rw [afterRedial_eq]
          exact measure_round_notok (pc' := afterPc role false) a f (by simp) hth (by simp) (by simp) (by simp) (by simp)
            (Or.inr rfl)
        · rw [hh.1] at hr; injection hr with _ h2; cases h2
      | xLockedHang role' old' u hth' hr =>
        rw [hth] at hth'; injection hth' with e; injection e with e1 e2; injection e2 with e2; subst e1; subst e2
        rcases redialLocked_cases s old with ⟨_, hh⟩ | ⟨_, _, hh⟩ | ⟨ho, _, u', hh | hh | hh⟩
        · rw [hh] at hr; injection hr with _ h2; cases h2
        · rw [hh] at hr; injection hr with _ h2; cases h2
        · rw [hh.1] at hr; injection hr with _ h2; cases h2
        · rw [hh.1] at hr; injection hr with _ h2; cases h2
        · obtain ⟨hh, f⟩ := hh
          rw [hh] at hr; injection hr with h1 _; subst h1; subst ho
          exact measure_round_notok (pc' := .stuck) a f (by simp) hth rfl rfl rfl rfl (Or.inl rfl)
      | _ => simp_all
    · by_cases hf : pc = .dFinal
      · subst hf
        obtain ⟨k, hk'⟩ := reader_of_ty (a.ty _ hold) rfl
        subst hk'
        cases hts with
        | dFinalWon role' hth' hw =>
          rw [hth] at hth'; injection hth' with e; injection e with e1 _; subst e1
          exact measure_final hth hw
        | dFinalLost role' hth' _ =>
          rw [hth] at hth'; injection hth' with e; injection e with e1 _; subst e1
          exact measure_final_lost hth
        | _ => simp_all
      · by_cases hcas : ∃ st, pc = .dLoaded st ∧ st.exitClass = false ∧ st ≠ .activeClosing ∧ s.status = st
        · obtain ⟨st, hp, hex, hac, hst⟩ := hcas
          subst hp
          obtain ⟨k, hk'⟩ := reader_of_ty (a.ty _ hold) rfl
          subst hk'
          have hkc : k = s.conn := by
            simpa [staleCas, readerAtPc, hth, hex, hac, hst] using hc
          cases hts with
          | dLoadedCas role' st' hth' _ _ _ =>
            rw [hth] at hth'; injection hth' with e; injection e with e1 e2; injection e2 with e2; subst e1; subst e2
            exact measure_cas a hth hac hkc
          | _ => simp_all
        · refine measure_thread_pure a hts hk ?_ ?_ ?_
          · intro role' old' h'; rw [hth] at h'; injection h' with e; injection e with _ e2
            exact hx ⟨old', e2⟩
          · intro role' st h' hex hac hst
            rw [hth] at h'; injection h' with e; injection e with _ e2
            exact hcas ⟨st, e2, hex, hac, hst⟩
          · intro role' h'; rw [hth] at h'; injection h' with e; injection e with _ e2
            exact hf e2

/-! ## runs of internal steps -/

/-- thread `i`'s step in `s` is one of the stale-reader steps. -/
def staleStep (s : State) (i : Nat) : Bool := staleCas s i || staleClose s i || staleFinal s i

/-- a run of internal steps (thread indices) none of which is a stale-reader step. -/
def runIC : State → List Nat → Option State
  | s, [] => some s
  | s, i :: is => if staleStep s i then none else (threadStep s i).bind fun t => runIC t is

theorem runIC_run : ∀ (is : List Nat) (s t : State), runIC s is = some t → run s (is.map Ev.th) = some t
  | [], s, t, h => h
  | i :: is, s, t, h => by
    simp only [runIC] at h
    split at h
    · simp at h
    · cases hs : threadStep s i with
      | none => simp [hs] at h
      | some u =>
        simp only [hs, Option.bind_some] at h
        simp only [List.map_cons, run, step, hs, Option.bind_some]
        exact runIC_run is u t h

theorem runIC_runNF : ∀ (is : List Nat) (s t : State), runIC s is = some t → runNF s (is.map Ev.th) = some t
  | [], s, t, h => h
  | i :: is, s, t, h => by
    simp only [runIC] at h
    split at h
    · simp at h
    · rename_i hst
      cases hs : threadStep s i with
      | none => simp [hs] at h
      | some u =>
        simp only [hs, Option.bind_some] at h
        have hok : okEv s (.th i) = true := by
          simp only [staleStep, Bool.or_eq_true, not_or] at hst
          simp [okEv, hst.2]
        simp only [List.map_cons, runNF, hok, if_true, step, hs, Option.bind_some]
        exact runIC_runNF is u t h

theorem runNF_append : ∀ (e1 e2 : List Ev) (s u t : State), runNF s e1 = some u → runNF u e2 = some t →
    runNF s (e1 ++ e2) = some t
  | [], e2, s, u, t, h1, h2 => by simp only [runNF, Option.some.injEq] at h1; subst h1; exact h2
  | e :: e1, e2, s, u, t, h1, h2 => by
    simp only [runNF] at h1
    split at h1
    · rename_i hok
      cases hs : step s e with
      | none => simp [hs] at h1
      | some v =>
        simp only [hs, Option.bind_some] at h1
        simp only [List.cons_append, runNF, hok, if_true, hs, Option.bind_some]
        exact runNF_append e1 e2 v u t h1 h2
    · simp at h1

theorem runIC_reachNF {b : Int} {eof : Bool} {s t : State} {is : List Nat} (r : ReachableNF b eof s)
    (h : runIC s is = some t) : ReachableNF b eof t := by
  obtain ⟨evs, hr⟩ := r
  exact ⟨evs ++ is.map Ev.th, runNF_append _ _ _ _ _ hr (runIC_runNF is s t h)⟩

/-- a run of internal non-stale steps is at most `measure s` long. -/
theorem runIC_bound : ∀ (is : List Nat) (s t : State), AInv s → runIC s is = some t →
    is.length + measure t ≤ measure s
  | [], s, t, _, h => by simp only [runIC, Option.some.injEq] at h; subst h; simp
  | i :: is, s, t, a, h => by
    simp only [runIC] at h
    split at h
    · simp at h
    · rename_i hst
      cases hs : threadStep s i with
      | none => simp [hs] at h
      | some u =>
        simp only [hs, Option.bind_some] at h
        simp only [staleStep, Bool.or_eq_true, not_or] at hst
        have h1 := measure_step a hs (by simpa using hst.1.1) (by simpa using hst.1.2)
        have h2 := runIC_bound is u t (ainv_thread a hs) h
        simp only [List.length_cons]
        omega

end Teleport.Redial
