/-
Lemmas/RedialMeasure — the progress measure of the redial thread machine of Model/Redial (C13).

`potential s` bounds the number of status changes and redial rounds that can still happen without a
new external event and without a stale step: trouble now (status ≠ Ok, current connection dead),
connections that are already lost before they are established, and what each thread may still
cause (a reader of the current, dead connection will win the status CAS; a reader past the CAS may
run a failing round and store PassiveClosed; a writer may run a failing round).
`measure s` adds, per thread, the steps it can take before it blocks or ends; a writer's and a
pre-CAS reader's share is linear in the potential (each status change / round lets it go round its
retry loop once more), and `gauge` pays for the reader goroutine a successful round starts.
`measure_step`: every thread step that is neither a stale CAS nor a stale close decreases it.
-/
import Teleport.Lemmas.RedialInv
namespace Teleport.Redial

/-- reader pcs before the status CAS of `readDisconnected` (not the ActiveClosing branch). -/
def Pc.preCas : Pc → Bool
  | .rRead | .rErr => true
  | .dLoaded st => st != .activeClosing
  | _ => false

/-- reader pcs after the CAS up to the end of `redialForClient` (not the ActiveClosing branch). -/
def Pc.postCas : Pc → Bool
  | .dStored st | .dCancel st | .dClose st => st != .activeClosing
  | .dRedial | .xLock _ | .xLocked _ => true
  | _ => false

def Pc.writing : Pc → Bool
  | .wCheck | .wWrite _ _ | .xLock _ | .xLocked _ => true
  | _ => false

/-- contribution of one thread to the potential. -/
def rc (conn : Nat) (connDead : Bool) (t : Thread) : Nat :=
  match t.role with
  | .reader k =>
    if t.pc.preCas then (if k = conn ∧ connDead = true then 8 else 0)
    else if t.pc.postCas then 6
    else if t.pc = .dFinal then 2 else 0
  | _ => if t.pc.writing then 4 else 0

def sumRc (conn : Nat) (connDead : Bool) : List Thread → Nat
  | [] => 0
  | t :: r => rc conn connDead t + sumRc conn connDead r

/-- connections that are lost already but not yet established. -/
def futureDead (s : State) : Nat := (s.dead.filter (fun k => decide (s.conn < k))).length

def stW (st : Status) : Nat := if st = .ok then 0 else 1

def potential (s : State) : Nat :=
  stW s.status + (if s.conn ∈ s.dead then 1 else 0) + 12 * futureDead s +
    sumRc s.conn (decide (s.conn ∈ s.dead)) s.threads

/-- weight of one thread, given the potential `R`, the current connection and status. -/
def tw (R conn : Nat) (status : Status) (t : Thread) : Nat :=
  match t.role, t.pc with
  | .reader _, .rRead => 3 * R + 13
  | .reader _, .rErr => 3 * R + 11
  | .reader _, .dLoaded st =>
    if st.exitClass = false ∧ st ≠ .activeClosing ∧ status ≠ st then 3 * R + 12 else 3 * R + 10
  | .reader _, .dStored _ => 9
  | .reader _, .dCancel _ => 8
  | .reader _, .dClose _ => 7
  | .reader _, .dRedial => 6
  | .reader _, .xLock _ => 5
  | .reader _, .xLocked _ => 4
  | .reader _, .dFinal => 1
  | .reader _, _ => 0
  | _, .wCheck => 5 * R + 5
  | _, .wWrite u _ => if u = conn then 5 * R + 4 else 5 * R + 8
  | _, .xLock u => if u = conn then 5 * R + 3 else 5 * R + 7
  | _, .xLocked u => if u = conn then 5 * R + 2 else 5 * R + 6
  | _, _ => 0

def sumTw (R conn : Nat) (status : Status) : List Thread → Nat
  | [] => 0
  | t :: r => tw R conn status t + sumTw R conn status r

def gauge : Nat → Nat
  | 0 => 0
  | n + 1 => gauge n + 4 * n + 24

/-- strictly decreases with every internal step that is not a stale CAS / stale close. -/
def measure (s : State) : Nat :=
  gauge (potential s) + sumTw (potential s) s.conn s.status s.threads

/-! ## sums over the thread list -/

theorem sumRc_set {c : Nat} {d : Bool} {l : List Thread} {i : Nat} {a b : Thread} (h : l[i]? = some a) :
    sumRc c d (l.set i b) + rc c d a = sumRc c d l + rc c d b := by
  induction l generalizing i with
  | nil => simp at h
  | cons x r ih =>
    cases i with
    | zero => simp at h; subst h; simp [sumRc]; omega
    | succ j =>
      simp at h
      have := ih h
      simp [sumRc]; omega

theorem sumRc_append (c : Nat) (d : Bool) (l m : List Thread) : sumRc c d (l ++ m) = sumRc c d l + sumRc c d m := by
  induction l with
  | nil => simp [sumRc]
  | cons x r ih => simp [sumRc, ih]; omega

theorem sumRc_le {c c' : Nat} {d d' : Bool} {l : List Thread} (h : ∀ th ∈ l, rc c' d' th ≤ rc c d th) :
    sumRc c' d' l ≤ sumRc c d l := by
  induction l with
  | nil => simp [sumRc]
  | cons x r ih =>
    have h1 := h x (by simp)
    have h2 := ih (fun th hm => h th (by simp [hm]))
    simp [sumRc]; omega

theorem sumTw_set {R c : Nat} {st : Status} {l : List Thread} {i : Nat} {a b : Thread} (h : l[i]? = some a) :
    sumTw R c st (l.set i b) + tw R c st a = sumTw R c st l + tw R c st b := by
  induction l generalizing i with
  | nil => simp at h
  | cons x r ih =>
    cases i with
    | zero => simp at h; subst h; simp [sumTw]; omega
    | succ j =>
      simp at h
      have := ih h
      simp [sumTw]; omega

theorem sumTw_append (R c : Nat) (st : Status) (l m : List Thread) :
    sumTw R c st (l ++ m) = sumTw R c st l + sumTw R c st m := by
  induction l with
  | nil => simp [sumTw]
  | cons x r ih => simp [sumTw, ih]; omega

theorem sumTw_le {R R' c c' : Nat} {st st' : Status} {l : List Thread}
    (h : ∀ th ∈ l, tw R' c' st' th ≤ tw R c st th) : sumTw R' c' st' l ≤ sumTw R c st l := by
  induction l with
  | nil => simp [sumTw]
  | cons x r ih =>
    have h1 := h x (by simp)
    have h2 := ih (fun th hm => h th (by simp [hm]))
    simp [sumTw]; omega

/-! ## the weights against the potential -/

theorem tw_mono {R R' : Nat} (c : Nat) (st : Status) (th : Thread) (h : R' ≤ R) : tw R' c st th ≤ tw R c st th := by
  obtain ⟨role, pc⟩ := th
  cases role <;> cases pc <;> simp only [tw] <;> (try split) <;> omega

theorem tw_drop {R R' : Nat} (c c' : Nat) (st st' : Status) (th : Thread) (h : R' + 1 ≤ R) :
    tw R' c' st' th ≤ tw R c st th := by
  obtain ⟨role, pc⟩ := th
  cases role <;> cases pc <;> simp only [tw] <;> (try split) <;> (try split) <;> omega

theorem gauge_mono : ∀ {R R' : Nat}, R' ≤ R → gauge R' ≤ gauge R
  | 0, R', h => by have : R' = 0 := by omega
                   subst this; exact Nat.le_refl _
  | R + 1, R', h => by
    by_cases e : R' = R + 1
    · subst e; exact Nat.le_refl _
    · have := gauge_mono (R := R) (R' := R') (by omega)
      simp only [gauge]; omega

theorem gauge_drop {R R' : Nat} (h : R' + 1 ≤ R) : gauge R' + 4 * R' + 24 ≤ gauge R := by
  have := gauge_mono h
  simpa [gauge] using this

/-! ## the general decrease lemma -/

/-- thread `i` moves from `pc` to `pc'` (and `extra` threads are started): the measure decreases
    when no other thread's weight grows and the mover pays for itself and for `extra`. -/
theorem measure_lt {s t : State} {i : Nat} {role : Role} {pc pc' : Pc} {extra : List Thread}
    (hth : s.threads[i]? = some ⟨role, pc⟩)
    (hT : t.threads = s.threads.set i ⟨role, pc'⟩ ++ extra)
    (hmono : ∀ th ∈ s.threads, tw (potential t) t.conn t.status th ≤ tw (potential s) s.conn s.status th)
    (hloc : gauge (potential t) + tw (potential t) t.conn t.status ⟨role, pc'⟩ +
        sumTw (potential t) t.conn t.status extra <
      gauge (potential s) + tw (potential t) t.conn t.status ⟨role, pc⟩) : measure t < measure s := by
  unfold measure
  rw [hT, sumTw_append]
  have h1 := sumTw_set (R := potential t) (c := t.conn) (st := t.status) (b := (⟨role, pc'⟩ : Thread)) hth
  have h2 := sumTw_le hmono
  omega

/-- a step that keeps connection and status and does not raise the potential. -/
theorem measure_lt_same {s t : State} {i : Nat} {role : Role} {pc pc' : Pc}
    (hth : s.threads[i]? = some ⟨role, pc⟩)
    (hT : t.threads = s.threads.set i ⟨role, pc'⟩) (hC : t.conn = s.conn) (hS : t.status = s.status)
    (hP : potential t ≤ potential s)
    (hloc : tw (potential t) s.conn s.status ⟨role, pc'⟩ < tw (potential t) s.conn s.status ⟨role, pc⟩) :
    measure t < measure s := by
  refine measure_lt (extra := []) hth (by simpa using hT) ?_ ?_
  · intro th _; rw [hC, hS]; exact tw_mono _ _ _ hP
  · rw [hC, hS]
    have := gauge_mono hP
    simp only [sumTw]; omega

/-- a step that lowers the potential by at least one. -/
theorem measure_lt_drop {s t : State} {i : Nat} {role : Role} {pc pc' : Pc} {extra : List Thread}
    (hth : s.threads[i]? = some ⟨role, pc⟩)
    (hT : t.threads = s.threads.set i ⟨role, pc'⟩ ++ extra)
    (hP : potential t + 1 ≤ potential s)
    (hloc : tw (potential t) t.conn t.status ⟨role, pc'⟩ + sumTw (potential t) t.conn t.status extra <
      4 * potential t + 24 + tw (potential t) t.conn t.status ⟨role, pc⟩) : measure t < measure s := by
  refine measure_lt hth hT ?_ ?_
  · intro th _; exact tw_drop _ _ _ _ _ hP
  · have := gauge_drop hP
    omega

/-! ## the potential after a step that keeps the connection -/

theorem potential_set {s t : State} {i : Nat} {role : Role} {pc pc' : Pc}
    (hth : s.threads[i]? = some ⟨role, pc⟩)
    (hT : t.threads = s.threads.set i ⟨role, pc'⟩) (hC : t.conn = s.conn)
    (hD : (t.conn ∈ t.dead) ↔ (s.conn ∈ s.dead)) (hF : futureDead t = futureDead s) :
    potential t + rc s.conn (decide (s.conn ∈ s.dead)) ⟨role, pc⟩ + stW s.status =
      potential s + rc s.conn (decide (s.conn ∈ s.dead)) ⟨role, pc'⟩ + stW t.status := by
  unfold potential
  have hd : decide (t.conn ∈ t.dead) = decide (s.conn ∈ s.dead) := by simp [hD]
  have hi : (if t.conn ∈ t.dead then 1 else 0 : Nat) = (if s.conn ∈ s.dead then 1 else 0) := by
    by_cases h : s.conn ∈ s.dead
    · simp [h, hD.mpr h]
    · have h' : t.conn ∉ t.dead := fun x => h (hD.mp x)
      simp [h, h']
  rw [hi, hd, hT, hF, hC]
  have h1 := sumRc_set (c := s.conn) (d := decide (s.conn ∈ s.dead)) (b := (⟨role, pc'⟩ : Thread)) hth
  omega

/-- a step that keeps connection, status and the dead set's view of the connection: the measure
    decreases when the mover's contribution to the potential does not grow and its weight shrinks. -/
theorem measure_pure {s t : State} {i : Nat} {role : Role} {pc pc' : Pc}
    (hth : s.threads[i]? = some ⟨role, pc⟩)
    (hT : t.threads = s.threads.set i ⟨role, pc'⟩) (hC : t.conn = s.conn) (hS : t.status = s.status)
    (hD : (t.conn ∈ t.dead) ↔ (s.conn ∈ s.dead)) (hF : futureDead t = futureDead s)
    (hrc : ∀ d, rc s.conn d ⟨role, pc'⟩ ≤ rc s.conn d ⟨role, pc⟩)
    (htw : ∀ R, tw R s.conn s.status ⟨role, pc'⟩ < tw R s.conn s.status ⟨role, pc⟩) : measure t < measure s := by
  have hp := potential_set hth hT hC hD hF
  rw [hS] at hp
  have := hrc (decide (s.conn ∈ s.dead))
  exact measure_lt_same hth hT hC hS (by omega) (htw _)

theorem futureDead_kill (s : State) :
    (List.filter (fun k => decide (s.conn < k)) (s.conn :: s.dead)).length = futureDead s := by
  simp [futureDead]

/-- reader steps that only move the reader (status, connection, dead set kept). -/
theorem measure_thread_pure {s t : State} {i : Nat} (a : AInv s) (hts : TS s i t)
    (hsc : staleClose s i = false) (hnr : ∀ role old, s.threads[i]? ≠ some ⟨role, .xLocked old⟩)
    (hnc : ∀ role st, s.threads[i]? = some ⟨role, .dLoaded st⟩ → st.exitClass = false → st ≠ .activeClosing → s.status ≠ st)
    (hnf : ∀ role, s.threads[i]? ≠ some ⟨role, .dFinal⟩) : measure t < measure s := by
  cases hts with
  | rRead k hth _ =>
    exact measure_pure hth rfl rfl rfl Iff.rfl rfl (by intro d; simp [rc, Pc.preCas]) (by intro R; simp [tw])
  | rErr role hth =>
    obtain ⟨k, hk⟩ := reader_of_ty (a.ty _ (mem_of_get? hth)) rfl; subst hk
    refine measure_pure hth rfl rfl rfl Iff.rfl rfl ?_ (by intro R; simp [tw])
    intro d
    cases h : (s.status != .activeClosing) <;> simp [rc, Pc.preCas, Pc.postCas, h]
  | dLoadedExit role st hth hex =>
    obtain ⟨k, hk⟩ := reader_of_ty (a.ty _ (mem_of_get? hth)) rfl; subst hk
    refine measure_pure hth rfl rfl rfl Iff.rfl rfl ?_ (by intro R; simp [tw, hex])
    intro d; simp [rc, Pc.preCas, Pc.postCas]
  | dLoadedAc role hth =>
    obtain ⟨k, hk⟩ := reader_of_ty (a.ty _ (mem_of_get? hth)) rfl; subst hk
    exact measure_pure hth rfl rfl rfl Iff.rfl rfl (by intro d; simp [rc, Pc.preCas, Pc.postCas])
      (by intro R; simp [tw])
  | dLoadedCas role st hth hex hac hst => exact absurd hst (hnc role st hth hex hac)
  | dLoadedRetry role st hth hex hac hst =>
    obtain ⟨k, hk⟩ := reader_of_ty (a.ty _ (mem_of_get? hth)) rfl; subst hk
    refine measure_pure hth rfl rfl rfl Iff.rfl rfl ?_ (by intro R; simp [tw, hex, hac, hst])
    intro d; simp [rc, Pc.preCas, hac]
  | dStored role st hth =>
    obtain ⟨k, hk⟩ := reader_of_ty (a.ty _ (mem_of_get? hth)) rfl; subst hk
    exact measure_pure hth rfl rfl rfl Iff.rfl rfl (by intro d; simp [rc, Pc.preCas, Pc.postCas]) (by intro R; simp [tw])
  | dCancel role st hth _ =>
    obtain ⟨k, hk⟩ := reader_of_ty (a.ty _ (mem_of_get? hth)) rfl; subst hk
    exact measure_pure hth rfl rfl rfl Iff.rfl rfl (by intro d; simp [rc, Pc.preCas, Pc.postCas]) (by intro R; simp [tw])
  | dCloseAc role hth =>
    obtain ⟨k, hk⟩ := reader_of_ty (a.ty _ (mem_of_get? hth)) rfl; subst hk
    exact measure_pure hth rfl rfl rfl Iff.rfl rfl (by intro d; simp [rc, Pc.preCas, Pc.postCas]) (by intro R; simp [tw])
  | dCloseSkip role st hth hst _ =>
    obtain ⟨k, hk⟩ := reader_of_ty (a.ty _ (mem_of_get? hth)) rfl; subst hk
    exact measure_pure hth rfl rfl rfl Iff.rfl rfl (by intro d; simp [rc, Pc.preCas, Pc.postCas, hst]) (by intro R; simp [tw])
  | dCloseKill role st hth hst hsock =>
    obtain ⟨k, hk⟩ := reader_of_ty (a.ty _ (mem_of_get? hth)) rfl; subst hk
    have hcd : s.conn ∈ s.dead := by
      by_cases hkc : k = s.conn
      · rw [← hkc]; exact a.e1 k _ (mem_of_get? hth) (by simp)
      · simpa [staleClose, readerAtPc, hth, hkc, hst, hsock] using hsc
    exact measure_pure hth rfl rfl rfl (by simp [hcd]) (futureDead_kill s)
      (by intro d; simp [rc, Pc.preCas, Pc.postCas, hst]) (by intro R; simp [tw])
  | dRedialGo k hth _ =>
    exact measure_pure hth rfl rfl rfl Iff.rfl rfl (by intro d; simp [rc, Pc.preCas, Pc.postCas]) (by intro R; simp [tw])
  | dRedialNo k hth _ =>
    exact measure_pure hth rfl rfl rfl Iff.rfl rfl (by intro d; simp [rc, Pc.preCas, Pc.postCas]) (by intro R; simp [tw])
  | dFinalWon role hth _ => exact absurd hth (hnf role)
  | dFinalLost role hth _ => exact absurd hth (hnf role)
  | wCheck role hth =>
    have hw := writer_of_ty (a.ty _ (mem_of_get? hth)) rfl
    exact measure_pure hth rfl rfl rfl Iff.rfl rfl (by intro d; cases role <;> first | exact absurd rfl (hw _) | simp [rc, Pc.writing])
      (by intro R; cases role <;> first | exact absurd rfl (hw _) | simp [tw])
  | wWriteAwait j used c hth _ _ =>
    refine measure_pure hth rfl rfl rfl Iff.rfl rfl (by intro d; simp [rc, Pc.writing]) ?_
    intro R; simp only [tw]; split <;> omega
  | wWriteSent role used hth _ _ =>
    have hw := writer_of_ty (a.ty _ (mem_of_get? hth)) rfl
    refine measure_pure hth rfl rfl rfl Iff.rfl rfl (by intro d; cases role <;> first | exact absurd rfl (hw _) | simp [rc, Pc.writing]) ?_
    intro R; cases role <;> first | exact absurd rfl (hw _) | (simp only [tw]; split <;> omega)
  | wWrite104 role used hth _ =>
    have hw := writer_of_ty (a.ty _ (mem_of_get? hth)) rfl
    refine measure_pure (pc' := .wDone 104) hth (by simp) (by simp) (by simp) (by simp) (by simp [futureDead])
      (by intro d; cases role <;> first | exact absurd rfl (hw _) | simp [rc, Pc.writing]) ?_
    intro R; cases role <;> first | exact absurd rfl (hw _) | (simp only [tw]; split <;> omega)
  | wWriteRedial role used st hth _ _ =>
    have hw := writer_of_ty (a.ty _ (mem_of_get? hth)) rfl
    refine measure_pure hth rfl rfl rfl Iff.rfl rfl (by intro d; cases role <;> first | exact absurd rfl (hw _) | simp [rc, Pc.writing]) ?_
    intro R; cases role <;> first | exact absurd rfl (hw _) | (simp only [tw]; split <;> omega)
  | wWrite102 role used st hth _ =>
    have hw := writer_of_ty (a.ty _ (mem_of_get? hth)) rfl
    refine measure_pure (pc' := .wDone 102) hth (by simp) (by simp) (by simp) (by simp) (by simp [futureDead])
      (by intro d; cases role <;> first | exact absurd rfl (hw _) | simp [rc, Pc.writing]) ?_
    intro R; cases role <;> first | exact absurd rfl (hw _) | (simp only [tw]; split <;> omega)
  | xLock role old hth _ =>
    refine measure_pure (t := State.setPc { s with lock := true } i role (.xLocked old)) hth rfl rfl rfl Iff.rfl rfl
      (by intro d; cases role <;> simp [rc, Pc.preCas, Pc.postCas, Pc.writing]) ?_
    intro R; cases role <;> simp only [tw] <;> (try split) <;> omega
  | xLockedRet role old u r hth _ => exact absurd hth (hnr role old)
  | xLockedHang role old u hth _ => exact absurd hth (hnr role old)

/-! ## a redial round -/

theorem filter_gt_le (l : List Nat) {c c' : Nat} (h : c ≤ c') :
    (l.filter (fun k => decide (c' < k))).length ≤ (l.filter (fun k => decide (c < k))).length ∧
    (c < c' → c' ∈ l → (l.filter (fun k => decide (c' < k))).length + 1 ≤ (l.filter (fun k => decide (c < k))).length) := by
  induction l with
  | nil => simp
  | cons x r ih =>
    obtain ⟨ih1, ih2⟩ := ih
    simp only [List.filter_cons, List.mem_cons]
    constructor
    · by_cases h1 : c' < x
      · have h2 : c < x := by omega
        simp [h1, h2]; omega
      · by_cases h2 : c < x
        · simp [h1, h2]; omega
        · simp [h1, h2]; omega
    · intro hlt hm
      by_cases h1 : c' < x
      · have h2 : c < x := by omega
        have hx : c' ≠ x := by omega
        rcases hm with hm | hm
        · exact absurd hm hx
        · have := ih2 hlt hm
          simp [h1, h2]; omega
      · by_cases h2 : c < x
        · simp [h1, h2]; omega
        · have hx : c' ≠ x := by omega
          rcases hm with hm | hm
          · exact absurd hm hx
          · have := ih2 hlt hm
            simp [h1, h2]; omega

theorem filter_gt_nil (l : List Nat) (c' : Nat) (h : ∀ k ∈ l, k ≤ c') : l.filter (fun k => decide (c' < k)) = [] := by
  apply List.filter_eq_nil_iff.mpr
  intro k hk
  have := h k hk
  simp; omega

/-- the dead set after a round, seen from the new connection. -/
theorem round_dead {s u : State} {e : REnd} (f : RoundFacts s u e) :
    (u.dead.filter (fun k => decide (u.conn < k))).length ≤ futureDead s ∧
    (s.conn < u.conn → u.conn ∈ s.dead →
      (u.dead.filter (fun k => decide (u.conn < k))).length + 1 ≤ futureDead s) ∧
    (e = .ok → (u.conn ∈ u.dead ↔ u.conn ∈ s.dead)) ∧
    (e ≠ .ok → s.conn < u.conn → u.conn ∈ u.dead) ∧
    (u.conn = s.conn → (u.conn ∈ u.dead ↔ s.conn ∈ s.dead)) := by
  obtain ⟨ad, hd, had, hok, hnok⟩ := f.dead
  have hle := f.conn_le
  have hfil : u.dead.filter (fun k => decide (u.conn < k)) = s.dead.filter (fun k => decide (u.conn < k)) := by
    have hnil := filter_gt_nil ad u.conn (fun k hk => (had k hk).2)
    rw [hd]
    cases e with
    | ok =>
      have : ¬ u.conn < s.conn := by omega
      simp [List.filter_append, hnil, this]
    | failed => simp [List.filter_append, hnil]
    | hang => simp [List.filter_append, hnil]
  have hf := filter_gt_le s.dead hle
  refine ⟨by rw [hfil]; exact hf.1, by rw [hfil]; exact hf.2, ?_, ?_, ?_⟩
  · intro he
    obtain ⟨hlt, hk⟩ := hok he
    rw [hd, he]
    simp only [List.mem_cons, List.mem_append]
    constructor
    · rintro (h | h | h)
      · omega
      · have := hk _ h; omega
      · exact h
    · intro h; exact Or.inr (Or.inr h)
  · intro he hlt
    rw [hd]
    cases e with
    | ok => exact absurd rfl he
    | failed => exact List.mem_append_left _ (hnok he hlt)
    | hang => exact List.mem_append_left _ (hnok he hlt)
  · intro hc
    rw [hd, hc]
    have hna : s.conn ∉ ad := fun h => by have := (had _ h).1; omega
    cases e with
    | ok => have := (hok rfl).1; omega
    | failed => simp [hna]
    | hang => simp [hna]

theorem rc_other {c c' : Nat} {d d' : Bool} {th : Thread}
    (h : (c' = c ∧ d' = d) ∨ (∀ k, th.role = .reader k → k ≠ c')) : rc c' d' th ≤ rc c d th := by
  rcases h with ⟨h1, h2⟩ | h
  · subst h1; subst h2; exact Nat.le_refl _
  · obtain ⟨role, pc⟩ := th
    cases role with
    | reader k =>
      have hk := h k rfl
      simp only [rc]
      split
      · simp [hk]
      · exact Nat.le_refl _
    | caller j => exact Nat.le_refl _
    | pusher => exact Nat.le_refl _

theorem stW_ok : stW .ok = 0 := rfl
theorem stW_le (st : Status) : stW st ≤ 1 := by unfold stW; split <;> omega
theorem stW_pos {st : Status} (h : st ≠ .ok) : stW st = 1 := by simp [stW, h]

/-- the reader goroutine a successful round starts. -/
def roundExtra (e : REnd) (c : Nat) : List Thread :=
  match e with
  | .ok => [⟨.reader c, .rRead⟩]
  | _ => []

/-- what the thread that ran a failing round gives up (it cannot run another one). -/
def roundPay (e : REnd) : Nat :=
  match e with
  | .ok => 0
  | _ => 4

/-- the potential after a round run by thread `i`, which continues at `pc'`. -/
theorem potential_round {s u t : State} {e : REnd} {i : Nat} {role : Role} {pc' : Pc} (a : AInv s)
    (f : RoundFacts s u e) (hth : s.threads[i]? = some ⟨role, .xLocked s.conn⟩)
    (hT : t.threads = (s.threads.set i ⟨role, pc'⟩) ++ roundExtra e u.conn)
    (hC : t.conn = u.conn) (hDd : t.dead = u.dead) (hS : t.status = u.status)
    (hrc : ∀ c d, rc c d ⟨role, pc'⟩ + roundPay e ≤ rc c d ⟨role, .xLocked s.conn⟩) :
    potential t + 1 ≤ potential s := by
  have hold := mem_of_get? hth
  have hx := a.x _ hold rfl
  obtain ⟨r1, r2, r3, r4, r5⟩ := round_dead f
  have hle := f.conn_le
  have hel : ∀ th ∈ s.threads, rc u.conn (decide (u.conn ∈ u.dead)) th ≤ rc s.conn (decide (s.conn ∈ s.dead)) th := by
    intro th hm
    apply rc_other
    by_cases hc : u.conn = s.conn
    · left; exact ⟨hc, by simp [r5 hc]⟩
    · right; intro k hk
      obtain ⟨role', pc0⟩ := th
      simp only at hk; subst hk
      have := a.e2 k pc0 hm
      omega
  have hsum := sumRc_le hel
  have hset := sumRc_set (c := u.conn) (d := decide (u.conn ∈ u.dead)) (b := (⟨role, pc'⟩ : Thread)) hth
  have hrc' := hrc u.conn (decide (u.conn ∈ u.dead))
  have hxs : 1 ≤ stW s.status + (if s.conn ∈ s.dead then 1 else 0) := by
    rcases hx with h | h
    · rw [stW_pos h]; omega
    · simp [h]
  unfold potential futureDead
  rw [hC, hDd, hS, hT, sumRc_append, f.status]
  unfold futureDead at r1 r2
  cases e with
  | ok =>
    obtain ⟨ad, _, _, hok, _⟩ := f.dead
    have hlt := (hok rfl).1
    simp only [sumRc, Nat.add_zero, roundExtra, roundPay] at hrc' ⊢
    by_cases hd : u.conn ∈ u.dead
    · have hds := (r3 rfl).mp hd
      have := r2 hlt hds
      simp only [hd, if_true, decide_true] at *
      have hr : rc u.conn true ⟨.reader u.conn, .rRead⟩ = 8 := by simp [rc, Pc.preCas]
      rw [hr, stW_ok]
      omega
    · simp only [hd, if_false, decide_false] at *
      have hr : rc u.conn false ⟨.reader u.conn, .rRead⟩ = 0 := by simp [rc, Pc.preCas]
      rw [hr, stW_ok]
      omega
  | failed =>
    simp only [sumRc, Nat.add_zero, roundExtra, roundPay] at hrc' ⊢
    have h1 : stW Status.redialFailed = 1 := rfl
    rw [h1]
    have : (if u.conn ∈ u.dead then 1 else 0 : Nat) ≤ 1 := by split <;> omega
    omega
  | hang =>
    simp only [sumRc, Nat.add_zero, roundExtra, roundPay] at hrc' ⊢
    have h1 : stW Status.redialing = 1 := rfl
    rw [h1]
    have : (if u.conn ∈ u.dead then 1 else 0 : Nat) ≤ 1 := by split <;> omega
    omega

/-! ## the status-changing steps -/

/-- the reader of the current connection wins the status CAS of `readDisconnected`. -/
theorem measure_cas {s : State} {i k : Nat} {st : Status} (a : AInv s)
    (hth : s.threads[i]? = some ⟨.reader k, .dLoaded st⟩) (hac : st ≠ .activeClosing) (hk : k = s.conn) :
    measure ({ s with status := .passiveClosing }.setPc i (.reader k) (.dStored st)) < measure s := by
  have hd : s.conn ∈ s.dead := by rw [← hk]; exact a.e1 k _ (mem_of_get? hth) (by simp)
  have hp := potential_set (t := State.setPc { s with status := .passiveClosing } i (.reader k) (.dStored st))
    hth rfl rfl Iff.rfl rfl
  have h1 : rc s.conn (decide (s.conn ∈ s.dead)) ⟨.reader k, .dLoaded st⟩ = 8 := by simp [rc, Pc.preCas, hac, hk, hd]
  have h2 : rc s.conn (decide (s.conn ∈ s.dead)) ⟨.reader k, .dStored st⟩ = 6 := by simp [rc, Pc.preCas, Pc.postCas, hac]
  have h3 : stW (State.setPc { s with status := .passiveClosing } i (.reader k) (.dStored st)).status = 1 := rfl
  rw [h1, h2, h3] at hp
  refine measure_lt_drop (pc' := .dStored st) (extra := []) hth (by simp) (by omega) ?_
  simp only [tw, sumTw]
  split <;> omega

/-- the final compare-and-swap of `readDisconnected`, lost: the reader just returns. -/
theorem measure_final_lost {s : State} {i k : Nat} (hth : s.threads[i]? = some ⟨.reader k, .dFinal⟩) :
    measure (s.setPc i (.reader k) .exit) < measure s :=
  measure_pure hth rfl rfl rfl Iff.rfl rfl (by intro d; simp [rc, Pc.preCas, Pc.postCas]) (by intro R; simp [tw])

/-- the final compare-and-swap of `readDisconnected`, won (the status was not Ok before either). -/
theorem measure_final {s : State} {i k : Nat} (hth : s.threads[i]? = some ⟨.reader k, .dFinal⟩)
    (hw : finalFrom s.status = true) :
    measure ({ s with status := .passiveClosed, notified := true, discHook := s.discHook + 1 }.setPc i (.reader k) .exit)
      < measure s := by
  have hp := potential_set
    (t := State.setPc { s with status := .passiveClosed, notified := true, discHook := s.discHook + 1 } i (.reader k) .exit)
    hth rfl rfl Iff.rfl rfl
  have h1 : rc s.conn (decide (s.conn ∈ s.dead)) ⟨.reader k, .dFinal⟩ = 2 := by simp [rc, Pc.preCas, Pc.postCas]
  have h2 : rc s.conn (decide (s.conn ∈ s.dead)) ⟨.reader k, .exit⟩ = 0 := by simp [rc, Pc.preCas, Pc.postCas]
  have h3 : stW (State.setPc { s with status := .passiveClosed, notified := true, discHook := s.discHook + 1 } i
      (.reader k) .exit).status = 1 := rfl
  have h4 : stW s.status = 1 := by
    apply stW_pos; intro e; rw [e] at hw; simp [finalFrom] at hw
  rw [h1, h2, h3, h4] at hp
  refine measure_lt_drop (pc' := .exit) (extra := []) hth (by simp) (by omega) ?_
  simp only [tw, sumTw]
  omega

end Teleport.Redial
