/-
Lemmas/RedialInv — first half of the invariant chain behind the C13 liveness theorems
(continued in Lemmas/RedialLive and Lemmas/RedialMeasure):

  * classification of events: `Ev.internal` (a step of one of the session's goroutines) against the
    environment's choices (operation issued, connection cut, reply delivered, availability stream set);
  * the stale-reader steps of the recorded findings (`staleCas`, `staleClose`, `staleFinal`);
  * `AInv` — invariants of every reachable state (typing of pcs, readers against the dead set,
    what a thread on its way into `redialForClient` has seen, completed calls), `ainv_reach`.
-/
import Teleport.Lemmas.RedialStep
namespace Teleport.Redial

/-- internal = a step of one of the session's own goroutines; everything else is the environment:
    `call`/`push` (an operation is issued), `lose` (the connection is cut), `reply` (the server's
    reply is delivered), `setEnv` (the outcomes of the coming dial attempts), `setUser`. -/
def Ev.internal : Ev → Bool
  | .th _ => true
  | _ => false

/-- no internal step is enabled: every further step needs a new external event. -/
def Quiescent (s : State) : Prop := ∀ i, threadStep s i = none

/-! ## the stale-reader steps -/

def readerAtPc (s : State) (i : Nat) : Option (Nat × Pc) :=
  match s.threads[i]? with
  | some ⟨.reader k, pc⟩ => some (k, pc)
  | _ => none

/-- the reader of an older connection wins the status CAS of `readDisconnected` on the session
    that has meanwhile been redialed (first step of `c13:writer-first-leaves-passive-closing`). -/
def staleCas (s : State) (i : Nat) : Bool :=
  match readerAtPc s i with
  | some (k, .dLoaded st) => k != s.conn && !st.exitClass && st != .activeClosing && s.status == st
  | _ => false

/-- the reader of an older connection closes the live newer connection (`s.socket.Close()` in
    `readDisconnected`; last step of `c13:stale-disconnect-cancels-new-calls` and of
    `c13:writer-first-leaves-passive-closing`). -/
def staleClose (s : State) (i : Nat) : Bool :=
  match readerAtPc s i with
  | some (k, .dClose st) => k != s.conn && st != .activeClosing && !s.sockClosed && !(s.conn ∈ s.dead)
  | _ => false

/-- the reader of an older connection, told `false` by `redialForClient`, WINS the final
    compare-and-swap of `readDisconnected` (PassiveClosed ← PassiveClosing / RedialFailed) although the
    connection has changed since its redial was refused. A final step that loses the compare-and-swap
    is not stale: it changes nothing (`TS.dFinalLost`). Since the repair of the stale final store
    (the store became this compare-and-swap) the only way to win it on a session that was
    re-established in between is that the session was lost AGAIN and a second redial round was
    refused (RedialFailed once more) or its reader already left PassiveClosing. -/
def staleFinal (s : State) (i : Nat) : Bool :=
  match readerAtPc s i with
  | some (k, .dFinal) => k != s.conn && finalFrom s.status
  | _ => false

/-! ## classes of program counters -/

def Pc.readerPc : Pc → Bool
  | .rRead | .rErr | .dLoaded _ | .dStored _ | .dCancel _ | .dClose _ | .dRedial | .dFinal
  | .xLock _ | .xLocked _ | .stuck | .exit => true
  | _ => false

def Pc.writerPc : Pc → Bool
  | .wCheck | .wWrite _ _ | .wAwait | .wDone _ | .xLock _ | .xLocked _ | .stuck => true
  | _ => false

/-- the `oldConn` argument of a thread inside `redialForClient`. -/
def Pc.redialOld : Pc → Option Nat
  | .xLock u | .xLocked u => some u
  | _ => none

/-- the connection a writer / a thread inside `redialForClient` captured. -/
def Pc.usedConn : Pc → Option Nat
  | .xLock u | .xLocked u | .wWrite u _ => some u
  | _ => none

def wellTyped (t : Thread) : Prop :=
  match t.role with
  | .reader k => t.pc.readerPc = true ∧ ∀ u, t.pc.redialOld = some u → u = k
  | .caller _ => t.pc.writerPc = true
  | .pusher => t.pc.writerPc = true ∧ t.pc ≠ .wAwait

/-- reader pcs after the status CAS of `readDisconnected` (not the ActiveClosing branch). -/
def Pc.afterCas : Pc → Bool
  | .dStored st | .dCancel st | .dClose st => st != .activeClosing
  | .dRedial | .xLock _ | .xLocked _ | .dFinal => true
  | _ => false

/-- reader pcs after the cancel loop of `readDisconnected` (not the ActiveClosing branch). -/
def Pc.postCancel : Pc → Bool
  | .dClose st => st != .activeClosing
  | .dRedial | .xLock _ | .xLocked _ | .dFinal => true
  | _ => false

def okRes (r : Option Nat) : Prop := r = none ∨ r = some 0 ∨ r = some 102 ∨ r = some 104

/-- what `wDone code` means for the operation of a thread. -/
def doneOk (s : State) (role : Role) (code : Nat) : Prop :=
  match role with
  | .pusher => code = 0 ∨ code = 102 ∨ code = 104
  | .caller j => (code = 102 ∨ code = 104) ∧ ∃ c, s.calls[j]? = some c ∧ (c.res = some 102 ∨ c.res = some 104)
  | .reader _ => False

/-- invariants of every reachable state. -/
structure AInv (s : State) : Prop where
  ty : ∀ th ∈ s.threads, wellTyped th
  e1 : ∀ k pc, ⟨.reader k, pc⟩ ∈ s.threads → pc ≠ .rRead → k ∈ s.dead
  e2 : ∀ k pc, ⟨.reader k, pc⟩ ∈ s.threads → k ≤ s.conn
  ub : ∀ th ∈ s.threads, ∀ u, th.pc.usedConn = some u → u ≤ s.conn
  e3 : s.conn ∉ s.dead → ⟨.reader s.conn, .rRead⟩ ∈ s.threads
  x : ∀ th ∈ s.threads, th.pc.redialOld = some s.conn → s.status ≠ .ok ∨ s.conn ∈ s.dead
  xw : ∀ role st, ⟨role, .wWrite s.conn st⟩ ∈ s.threads → st ≠ .ok → s.status ≠ .ok
  i2 : ∀ j pc, ⟨.caller j, pc⟩ ∈ s.threads → j < s.calls.length
  v : ∀ c ∈ s.calls, okRes c.res ∧ (c.hasReply = true → c.res ≠ none)
  i3 : ∀ role code, ⟨role, .wDone code⟩ ∈ s.threads → doneOk s role code
  k1 : ∀ k pc, ⟨.reader k, pc⟩ ∈ s.threads → k = s.conn → pc.afterCas = true → s.status ≠ .ok

/-! ## list helpers -/

theorem mem_of_get? {α : Type} {l : List α} {i : Nat} {a : α} (h : l[i]? = some a) : a ∈ l :=
  List.mem_of_getElem? h

theorem mem_set_cases {α : Type} {l : List α} {i : Nat} {a b : α} (h : b ∈ l.set i a) : b = a ∨ b ∈ l := by
  rcases List.mem_or_eq_of_mem_set h with h | h
  · exact Or.inr h
  · exact Or.inl h

theorem mem_set_of_mem {α : Type} {l : List α} {i : Nat} {a b : α} (h : b ∈ l) : b ∈ l.set i a ∨ l[i]? = some b := by
  induction l generalizing i with
  | nil => simp at h
  | cons x r ih =>
    cases i with
    | zero =>
      simp only [List.mem_cons] at h
      rcases h with h | h
      · right; simp [h]
      · left; simp [h]
    | succ n =>
      simp only [List.mem_cons] at h
      rcases h with h | h
      · left; simp [h]
      · rcases ih (i := n) h with h' | h'
        · left; simp [h']
        · right; simpa using h'

@[simp] theorem setPc_threads (s : State) (i : Nat) (r : Role) (pc : Pc) :
    (s.setPc i r pc).threads = s.threads.set i ⟨r, pc⟩ := rfl
@[simp] theorem setPc_status (s : State) (i : Nat) (r : Role) (pc : Pc) : (s.setPc i r pc).status = s.status := rfl
@[simp] theorem setPc_conn (s : State) (i : Nat) (r : Role) (pc : Pc) : (s.setPc i r pc).conn = s.conn := rfl
@[simp] theorem setPc_dead (s : State) (i : Nat) (r : Role) (pc : Pc) : (s.setPc i r pc).dead = s.dead := rfl
@[simp] theorem setPc_calls (s : State) (i : Nat) (r : Role) (pc : Pc) : (s.setPc i r pc).calls = s.calls := rfl
@[simp] theorem setPc_sock (s : State) (i : Nat) (r : Role) (pc : Pc) : (s.setPc i r pc).sockClosed = s.sockClosed := rfl
@[simp] theorem setPc_budget (s : State) (i : Nat) (r : Role) (pc : Pc) : (s.setPc i r pc).budget = s.budget := rfl

/-! ## `finishCall`, `afterRedial` -/

@[simp] theorem finishCall_status (s : State) (r : Role) (c : Nat) : (finishCall s r c).status = s.status := by
  unfold finishCall
  split
  · split <;> rfl
  · rfl
@[simp] theorem finishCall_conn (s : State) (r : Role) (c : Nat) : (finishCall s r c).conn = s.conn := by
  unfold finishCall
  split
  · split <;> rfl
  · rfl
@[simp] theorem finishCall_dead (s : State) (r : Role) (c : Nat) : (finishCall s r c).dead = s.dead := by
  unfold finishCall
  split
  · split <;> rfl
  · rfl
@[simp] theorem finishCall_budget (s : State) (r : Role) (c : Nat) : (finishCall s r c).budget = s.budget := by
  unfold finishCall
  split
  · split <;> rfl
  · rfl
@[simp] theorem finishCall_sock (s : State) (r : Role) (c : Nat) : (finishCall s r c).sockClosed = s.sockClosed := by
  unfold finishCall
  split
  · split <;> rfl
  · rfl

theorem finishCall_calls_len (s : State) (r : Role) (c : Nat) : (finishCall s r c).calls.length = s.calls.length := by
  unfold finishCall
  split
  · split <;> simp
  · rfl

/-- a call of the table after `finishCall`: the old entry, or the finished one. -/
theorem finishCall_get (s : State) (r : Role) (code j : Nat) (c : Call) (h : (finishCall s r code).calls[j]? = some c) :
    s.calls[j]? = some c ∨ (r = .caller j ∧ ∃ c0, s.calls[j]? = some c0 ∧ c = { c0 with res := some code }) := by
  unfold finishCall at h
  split at h
  · rename_i j'
    split at h
    · rename_i c0 hc0
      simp only [List.getElem?_set] at h
      split at h
      · rename_i hj; subst hj
        split at h
        · simp only [Option.some.injEq] at h
          exact Or.inr ⟨rfl, c0, hc0, h.symm⟩
        · simp at h
      · exact Or.inl h
    · exact Or.inl h
  · exact Or.inl h

/-- the pc `redialForClient`'s caller continues at. -/
def afterPc (role : Role) (r : Bool) : Pc :=
  match role with
  | .reader _ => if r then .exit else .dFinal
  | _ => if r then .wCheck else .wDone 102

theorem afterRedial_eq (w : State) (i : Nat) (role : Role) (r : Bool) :
    afterRedial w i role r = (if r then w else finishCall w role 102).setPc i role (afterPc role r) := by
  cases role <;> cases r <;> simp [afterRedial, afterPc, finishCall]

/-! ## preservation of `AInv` -/

/-- thread `i` moves from `pc` to `pc'`; the connection counter stays, the dead set may grow, the
    status stays or becomes some non-Ok value, finished calls stay finished. -/
theorem ainv_move {s t : State} {i : Nat} {role : Role} {pc pc' : Pc} (a : AInv s)
    (hth : s.threads[i]? = some ⟨role, pc⟩)
    (hT : t.threads = s.threads.set i ⟨role, pc'⟩)
    (hC : t.conn = s.conn)
    (hD : ∀ k, k ∈ s.dead → k ∈ t.dead)
    (hS : t.status = s.status ∨ t.status ≠ .ok)
    (hL : t.calls.length = s.calls.length)
    (hV : ∀ c ∈ t.calls, okRes c.res ∧ (c.hasReply = true → c.res ≠ none))
    (hK : ∀ (j : Nat) (c : Call), s.calls[j]? = some c → (c.res = some 102 ∨ c.res = some 104) →
      ∃ c' : Call, t.calls[j]? = some c' ∧ (c'.res = some 102 ∨ c'.res = some 104))
    (lty : wellTyped ⟨role, pc'⟩)
    (le1 : ∀ k, role = .reader k → pc' ≠ .rRead → k ∈ t.dead)
    (le3 : role = .reader s.conn → pc = .rRead → pc' = .rRead ∨ s.conn ∈ t.dead)
    (lub : ∀ u, pc'.usedConn = some u → u ≤ s.conn)
    (lx : pc'.redialOld = some s.conn → t.status ≠ .ok ∨ s.conn ∈ t.dead)
    (lxw : ∀ st, pc' = .wWrite s.conn st → st ≠ .ok → t.status ≠ .ok)
    (li3 : ∀ code, pc' = .wDone code → doneOk t role code)
    (lk1 : ∀ k, role = .reader k → k = s.conn → pc'.afterCas = true → t.status ≠ .ok) : AInv t := by
  have hold : (⟨role, pc⟩ : Thread) ∈ s.threads := mem_of_get? hth
  have hnok : ∀ {P : Prop}, (s.status ≠ .ok ∨ P) → (t.status ≠ .ok ∨ P) := by
    intro P h
    rcases h with h | h
    · left; rcases hS with e | e
      · rw [e]; exact h
      · exact e
    · exact Or.inr h
  have hnok' : s.status ≠ .ok → t.status ≠ .ok := by
    intro h
    rcases hS with e | e
    · rw [e]; exact h
    · exact e
  refine ⟨?_, ?_, ?_, ?_, ?_, ?_, ?_, ?_, hV, ?_, ?_⟩
  · intro th hm
    rw [hT] at hm
    rcases mem_set_cases hm with e | hm
    · rw [e]; exact lty
    · exact a.ty th hm
  · intro k p hm hp
    rw [hT] at hm
    rcases mem_set_cases hm with e | hm
    · injection e with e1 e2
      subst e2
      exact le1 k e1.symm hp
    · exact hD k (a.e1 k p hm hp)
  · intro k p hm
    rw [hT] at hm; rw [hC]
    rcases mem_set_cases hm with e | hm
    · injection e with e1 e2
      rw [← e1] at hold
      exact a.e2 k pc hold
    · exact a.e2 k p hm
  · intro th hm u hu
    rw [hT] at hm; rw [hC]
    rcases mem_set_cases hm with e | hm
    · rw [e] at hu; exact lub u hu
    · exact a.ub th hm u hu
  · intro hn
    rw [hC] at hn ⊢
    have hn' : s.conn ∉ s.dead := fun h => hn (hD _ h)
    have hw := a.e3 hn'
    rw [hT]
    rcases mem_set_of_mem (i := i) (a := (⟨role, pc'⟩ : Thread)) hw with h | h
    · exact h
    · rw [hth] at h
      injection h with h
      injection h with h1 h2
      rcases le3 h1 h2 with e | e
      · rw [h1, e]
        have hi : i < s.threads.length := by
          rcases Nat.lt_or_ge i s.threads.length with hlt | hge
          · exact hlt
          · simp [List.getElem?_eq_none hge] at hth
        exact List.mem_iff_getElem?.mpr ⟨i, by simp [hi]⟩
      · exact absurd e hn
  · intro th hm hu
    rw [hT] at hm; rw [hC] at hu ⊢
    rcases mem_set_cases hm with e | hm
    · rw [e] at hu; exact lx hu
    · have := hnok (a.x th hm hu)
      rcases this with h | h
      · exact Or.inl h
      · exact Or.inr (hD _ h)
  · intro r st hm hst
    rw [hT] at hm; rw [hC] at hm
    rcases mem_set_cases hm with e | hm
    · injection e with e1 e2
      exact lxw st e2.symm hst
    · exact hnok' (a.xw r st hm hst)
  · intro j p hm
    rw [hT] at hm; rw [hL]
    rcases mem_set_cases hm with e | hm
    · injection e with e1 e2
      rw [← e1] at hold
      exact a.i2 j pc hold
    · exact a.i2 j p hm
  · intro r code hm
    rw [hT] at hm
    rcases mem_set_cases hm with e | hm
    · injection e with e1 e2
      rw [e1]; exact li3 code e2.symm
    · have := a.i3 r code hm
      cases r with
      | pusher => exact this
      | reader k => exact this
      | caller j =>
        obtain ⟨h1, c, hc, hr⟩ := this
        exact ⟨h1, hK j c hc hr⟩
  · intro k p hm hk hp
    rw [hT] at hm; rw [hC] at hk
    rcases mem_set_cases hm with e | hm
    · injection e with e1 e2
      subst e2
      exact lk1 k e1.symm hk hp
    · exact hnok' (a.k1 k p hm hk hp)

theorem ainv_lock {u : State} (a : AInv u) (b : Bool) : AInv { u with lock := b } :=
  ⟨a.ty, a.e1, a.e2, a.ub, a.e3, a.x, a.xw, a.i2, a.v, a.i3, a.k1⟩

/-- a step that only moves thread `i` (status, connection, dead set and calls kept). -/
theorem ainv_pure {s t : State} {i : Nat} {role : Role} {pc pc' : Pc} (a : AInv s)
    (hth : s.threads[i]? = some ⟨role, pc⟩)
    (hT : t.threads = s.threads.set i ⟨role, pc'⟩) (hC : t.conn = s.conn) (hD : t.dead = s.dead)
    (hS : t.status = s.status) (hCa : t.calls = s.calls)
    (lty : wellTyped ⟨role, pc'⟩)
    (le1 : ∀ k, role = .reader k → pc' ≠ .rRead → k ∈ s.dead)
    (le3 : role = .reader s.conn → pc = .rRead → pc' = .rRead ∨ s.conn ∈ s.dead)
    (lub : ∀ u, pc'.usedConn = some u → u ≤ s.conn)
    (lx : pc'.redialOld = some s.conn → s.status ≠ .ok ∨ s.conn ∈ s.dead)
    (lxw : ∀ st, pc' = .wWrite s.conn st → st ≠ .ok → s.status ≠ .ok)
    (li3 : ∀ code, pc' = .wDone code → doneOk s role code)
    (lk1 : ∀ k, role = .reader k → k = s.conn → pc'.afterCas = true → s.status ≠ .ok) :
    AInv t := by
  refine ainv_move a hth hT hC (by rw [hD]; exact fun _ h => h) (Or.inl hS) (by rw [hCa]) (by rw [hCa]; exact a.v)
    (fun _ c hc hr => ⟨c, by rw [hCa]; exact hc, hr⟩) lty (by rw [hD]; exact le1) (by rw [hD]; exact le3) lub
    (by rw [hD, hS]; exact lx) (by rw [hS]; exact lxw) ?_ (by rw [hS]; exact lk1)
  intro code hc
  have := li3 code hc
  cases role <;> simp [doneOk, hCa] at this ⊢ <;> exact this

/-- the state the locked body of `redialForClient` leaves after a round. -/
theorem ainv_round {s u : State} {e : REnd} (a : AInv s) (f : RoundFacts s u e) : AInv u := by
  obtain ⟨ad, hd, had, hok, hnok⟩ := f.dead
  have hsub : ∀ k, k ∈ s.dead → k ∈ u.dead := by
    intro k hk; rw [hd]; cases e <;> simp [hk]
  have hth : ∀ th, th ∈ u.threads → th ∈ s.threads ∨ (e = .ok ∧ th = ⟨.reader u.conn, .rRead⟩) := by
    intro th hm; rw [f.threads] at hm
    cases e with
    | ok => simp only [List.mem_append, List.mem_singleton] at hm; rcases hm with h | h
            · exact Or.inl h
            · exact Or.inr ⟨rfl, h⟩
    | failed => exact Or.inl hm
    | hang => exact Or.inl hm
  have hst : e ≠ .ok → u.status ≠ .ok := by
    intro he; rw [f.status]; cases e <;> simp at he ⊢
  have hlt : e = .ok → s.conn < u.conn := fun he => (hok he).1
  refine ⟨?_, ?_, ?_, ?_, ?_, ?_, ?_, ?_, ?_, ?_, ?_⟩
  · intro th hm
    rcases hth th hm with h | ⟨_, h⟩
    · exact a.ty th h
    · rw [h]; exact ⟨rfl, by intro u hu; simp [Pc.redialOld] at hu⟩
  · intro k pc hm hp
    rcases hth _ hm with h | ⟨_, h⟩
    · exact hsub k (a.e1 k pc h hp)
    · injection h with h1 h2; exact absurd h2 hp
  · intro k pc hm
    rcases hth _ hm with h | ⟨_, h⟩
    · have := a.e2 k pc h; have := f.conn_le; omega
    · injection h with h1 h2; injection h1 with h1; omega
  · intro th hm x hx
    rcases hth _ hm with h | ⟨_, h⟩
    · have := a.ub th h x hx; have := f.conn_le; omega
    · rw [h] at hx; simp [Pc.usedConn] at hx
  · intro hn
    rw [f.threads]
    cases e with
    | ok => simp
    | failed =>
      by_cases hc : s.conn < u.conn
      · exact absurd (by rw [hd]; simp [hnok (by simp) hc]) hn
      · have hc' : u.conn = s.conn := by have := f.conn_le; omega
        rw [hc'] at hn ⊢
        exact a.e3 (fun h => hn (hsub _ h))
    | hang =>
      by_cases hc : s.conn < u.conn
      · exact absurd (by rw [hd]; simp [hnok (by simp) hc]) hn
      · have hc' : u.conn = s.conn := by have := f.conn_le; omega
        rw [hc'] at hn ⊢
        exact a.e3 (fun h => hn (hsub _ h))
  · intro th hm hu
    by_cases he : e = .ok
    · rcases hth _ hm with h | ⟨_, h⟩
      · have := a.ub th h u.conn (by cases hp : th.pc <;> simp [hp, Pc.redialOld, Pc.usedConn] at hu ⊢ <;> exact hu)
        have := hlt he; omega
      · rw [h] at hu; simp [Pc.redialOld] at hu
    · exact Or.inl (hst he)
  · intro r st hm hne
    by_cases he : e = .ok
    · rcases hth _ hm with h | ⟨_, h⟩
      · have := a.ub _ h u.conn (by simp [Pc.usedConn])
        have := hlt he; omega
      · injection h with h1 h2; cases h2
    · exact hst he
  · intro j pc hm
    rw [f.calls]
    rcases hth _ hm with h | ⟨_, h⟩
    · exact a.i2 j pc h
    · injection h with h1 h2; cases h1
  · rw [f.calls]; exact a.v
  · intro r code hm
    rcases hth _ hm with h | ⟨_, h⟩
    · have := a.i3 r code h
      cases r <;> simp [doneOk, f.calls] at this ⊢ <;> exact this
    · injection h with h1 h2; cases h2
  · intro k pc hm hk hp
    by_cases he : e = .ok
    · rcases hth _ hm with h | ⟨_, h⟩
      · have := a.e2 k pc h; have := hlt he; omega
      · injection h with h1 h2; subst h2; simp [Pc.afterCas] at hp
    · exact hst he

/-! ## `finishCall` against the call invariants -/

def callOk (c : Call) : Prop := okRes c.res ∧ (c.hasReply = true → c.res ≠ none)

theorem finishCall_v (s : State) (r : Role) (code : Nat) (hc : code = 102 ∨ code = 104)
    (h : ∀ c ∈ s.calls, callOk c) : ∀ c ∈ (finishCall s r code).calls, callOk c := by
  intro c hm
  obtain ⟨j, hj⟩ := List.mem_iff_getElem?.mp hm
  rcases finishCall_get s r code j c hj with h1 | ⟨_, c0, _, e⟩
  · exact h c (mem_of_get? h1)
  · subst e
    refine ⟨?_, by intro _; simp⟩
    rcases hc with hc | hc <;> simp [okRes, hc]

theorem finishCall_keep (s : State) (r : Role) (code : Nat) (hc : code = 102 ∨ code = 104)
    (j : Nat) (c : Call) (h : s.calls[j]? = some c) (hr : c.res = some 102 ∨ c.res = some 104) :
    ∃ c' : Call, (finishCall s r code).calls[j]? = some c' ∧ (c'.res = some 102 ∨ c'.res = some 104) := by
  unfold finishCall
  split
  · rename_i j'
    split
    · rename_i c0 hc0
      by_cases hj : j' = j
      · subst hj
        refine ⟨{ c0 with res := some code }, by simp [lt_of_getElem?_some hc0], ?_⟩
        rcases hc with hc | hc <;> simp [hc]
      · exact ⟨c, by simp [hj, h], hr⟩
    · exact ⟨c, h, hr⟩
  · exact ⟨c, h, hr⟩

theorem finishCall_done (s : State) (j code : Nat) (hj : j < s.calls.length) :
    ∃ c : Call, (finishCall s (.caller j) code).calls[j]? = some c ∧ c.res = some code := by
  unfold finishCall
  simp only
  have : s.calls[j]? = some s.calls[j] := List.getElem?_eq_getElem hj
  rw [this]
  exact ⟨{ s.calls[j] with res := some code }, by simp [hj], rfl⟩

theorem doneOk_finish (s : State) (role : Role) (code : Nat) (hc : code = 102 ∨ code = 104)
    (hw : ∀ k, role ≠ .reader k) (hj : ∀ j, role = .caller j → j < s.calls.length) :
    doneOk (finishCall s role code) role code := by
  cases role with
  | reader k => exact absurd rfl (hw k)
  | pusher => rcases hc with hc | hc <;> simp [doneOk, hc]
  | caller j =>
    obtain ⟨c, h1, h2⟩ := finishCall_done s j code (hj j rfl)
    refine ⟨hc, c, h1, ?_⟩
    rcases hc with hc | hc <;> simp [h2, hc]

theorem reader_of_ty {role : Role} {pc : Pc} (h : wellTyped ⟨role, pc⟩) (hp : pc.writerPc = false) :
    ∃ k, role = .reader k := by
  cases role with
  | reader k => exact ⟨k, rfl⟩
  | caller j => simp [wellTyped, hp] at h
  | pusher => simp [wellTyped, hp] at h

theorem writer_of_ty {role : Role} {pc : Pc} (h : wellTyped ⟨role, pc⟩) (hp : pc.readerPc = false) :
    ∀ k, role ≠ .reader k := by
  intro k hk; subst hk; simp [wellTyped, hp] at h

theorem ty_reader (k : Nat) (pc : Pc) (h1 : pc.readerPc = true) (h2 : ∀ u, pc.redialOld = some u → u = k) :
    wellTyped ⟨.reader k, pc⟩ := ⟨h1, h2⟩

theorem ty_writer (role : Role) (pc : Pc) (hw : ∀ k, role ≠ .reader k) (h1 : pc.writerPc = true)
    (h2 : role = .pusher → pc ≠ .wAwait := by simp) : wellTyped ⟨role, pc⟩ := by
  cases role with
  | reader k => exact absurd rfl (hw k)
  | caller j => exact h1
  | pusher => exact ⟨h1, h2 rfl⟩

/-- reader steps that only move the reader along `readDisconnected` (status, dead set, calls kept). -/
theorem ainv_reader_move {s t : State} {i k : Nat} {pc pc' : Pc} (a : AInv s)
    (hth : s.threads[i]? = some ⟨.reader k, pc⟩)
    (hT : t.threads = s.threads.set i ⟨.reader k, pc'⟩) (hC : t.conn = s.conn) (hD : t.dead = s.dead)
    (hS : t.status = s.status) (hCa : t.calls = s.calls) (hp : pc ≠ .rRead)
    (h1 : pc'.readerPc = true) (h2 : pc'.usedConn = none)
    (h3 : pc'.afterCas = true → pc.afterCas = true) (h4 : ∀ c, pc' ≠ .wDone c) :
    AInv t := by
  have hold := mem_of_get? hth
  have hro : pc'.redialOld = none := by cases pc' <;> simp [Pc.usedConn, Pc.redialOld] at h2 ⊢
  refine ainv_pure a hth hT hC hD hS hCa (ty_reader k pc' h1 (by simp [hro])) ?_ ?_ (by simp [h2]) (by simp [hro]) ?_ ?_ ?_
  · intro k' hk _; injection hk with hk; subst hk; exact a.e1 _ _ hold hp
  · intro _ h; exact absurd h hp
  · intro st h; rw [h] at h2; simp [Pc.usedConn] at h2
  · intro c h; exact absurd h (h4 c)
  · intro k' hk hc hac; injection hk with hk; subst hk; exact a.k1 _ _ hold hc (h3 hac)

theorem cancelCall_ok (c : Call) (h : callOk c) : callOk (cancelCall c) := by
  unfold cancelCall
  split
  · exact ⟨by simp [okRes], by intro _; simp⟩
  · exact h

theorem cancelCall_keep (c : Call) (h : c.res = some 102 ∨ c.res = some 104) :
    (cancelCall c).res = some 102 ∨ (cancelCall c).res = some 104 := by
  unfold cancelCall
  split
  · left; rfl
  · exact h

/-- `AInv` is kept by every step of a reader thread outside `redialForClient`'s locked body. -/
theorem ainv_thread_reader {s t : State} {i : Nat} (a : AInv s) (hts : TS s i t)
    (hk : ∃ k pc, s.threads[i]? = some ⟨.reader k, pc⟩ ∧ pc.redialOld = none) : AInv t := by
  obtain ⟨k, pc0, hth0, hro⟩ := hk
  have hold0 := mem_of_get? hth0
  cases hts with
  | rRead k' hth hd =>
    rw [hth0] at hth; injection hth with hth; injection hth with e1 e2; injection e1 with e1; subst e1; subst e2
    refine ainv_pure a hth0 rfl rfl rfl rfl rfl (ty_reader k _ rfl (by simp [Pc.redialOld])) (fun k' hk _ => ?_)
      (fun hk _ => Or.inr ?_) (by simp [Pc.usedConn]) (by simp [Pc.redialOld]) (by simp) (by simp) (by simp [Pc.afterCas])
    · injection hk with hk; subst hk; exact hd
    · injection hk with hk; subst hk; exact hd
  | rErr role hth =>
    rw [hth0] at hth; injection hth with hth; injection hth with e1 e2; subst e1; subst e2
    exact ainv_reader_move a hth0 rfl rfl rfl rfl rfl (by simp) rfl rfl (by simp [Pc.afterCas]) (by simp)
  | dLoadedExit role st hth _ =>
    rw [hth0] at hth; injection hth with hth; injection hth with e1 e2; subst e1; subst e2
    exact ainv_reader_move a hth0 rfl rfl rfl rfl rfl (by simp) rfl rfl (by simp [Pc.afterCas]) (by simp)
  | dLoadedAc role hth =>
    rw [hth0] at hth; injection hth with hth; injection hth with e1 e2; subst e1; subst e2
    exact ainv_reader_move a hth0 rfl rfl rfl rfl rfl (by simp) rfl rfl (by simp [Pc.afterCas]) (by simp)
  | dLoadedRetry role st hth _ _ _ =>
    rw [hth0] at hth; injection hth with hth; injection hth with e1 e2; subst e1; subst e2
    exact ainv_reader_move a hth0 rfl rfl rfl rfl rfl (by simp) rfl rfl (by simp [Pc.afterCas]) (by simp)
  | dLoadedCas role st hth _ _ _ =>
    rw [hth0] at hth; injection hth with hth; injection hth with e1 e2; subst e1; subst e2
    refine ainv_move a hth0 rfl rfl (fun _ h => h) (Or.inr (by simp)) rfl a.v (fun _ c hc hr => ⟨c, hc, hr⟩)
      (ty_reader k _ rfl (by simp [Pc.redialOld])) (fun k' hk _ => ?_) (by simp) (by simp [Pc.usedConn])
      (by simp [Pc.redialOld]) (by simp) (by simp) (by intro _ _ _ _; simp)
    injection hk with hk; subst hk; exact a.e1 _ _ hold0 (by simp)
  | dStored role st hth =>
    rw [hth0] at hth; injection hth with hth; injection hth with e1 e2; subst e1; subst e2
    exact ainv_reader_move a hth0 rfl rfl rfl rfl rfl (by simp) rfl rfl (by simp [Pc.afterCas]) (by simp)
  | dCancel role st hth _ =>
    rw [hth0] at hth; injection hth with hth; injection hth with e1 e2; subst e1; subst e2
    refine ainv_move a hth0 rfl rfl (fun _ h => h) (Or.inl rfl) (by simp) ?_ ?_
      (ty_reader k _ rfl (by simp [Pc.redialOld])) (fun k' hk _ => ?_) (by simp) (by simp [Pc.usedConn])
      (by simp [Pc.redialOld]) (by simp) (by simp) ?_
    · intro c hm
      simp only [setPc_calls, List.mem_map] at hm
      obtain ⟨c0, hc0, e⟩ := hm
      rw [← e]; exact cancelCall_ok c0 (a.v c0 hc0)
    · intro j c hc hr
      exact ⟨cancelCall c, by simp [List.getElem?_map, hc], cancelCall_keep c hr⟩
    · injection hk with hk; subst hk; exact a.e1 _ _ hold0 (by simp)
    · intro k' hk hc hac; injection hk with hk; subst hk
      exact a.k1 _ _ hold0 hc (by simpa [Pc.afterCas] using hac)
  | dCloseAc role hth =>
    rw [hth0] at hth; injection hth with hth; injection hth with e1 e2; subst e1; subst e2
    exact ainv_reader_move a hth0 rfl rfl rfl rfl rfl (by simp) rfl rfl (by simp [Pc.afterCas]) (by simp)
  | dCloseSkip role st hth hst _ =>
    rw [hth0] at hth; injection hth with hth; injection hth with e1 e2; subst e1; subst e2
    exact ainv_reader_move a hth0 rfl rfl rfl rfl rfl (by simp) rfl rfl (by simp [Pc.afterCas, hst]) (by simp)
  | dCloseKill role st hth hst _ =>
    rw [hth0] at hth; injection hth with hth; injection hth with e1 e2; subst e1; subst e2
    refine ainv_move a hth0 rfl rfl (fun _ h => List.mem_cons_of_mem _ h) (Or.inl rfl) rfl a.v
      (fun _ c hc hr => ⟨c, hc, hr⟩) (ty_reader k _ rfl (by simp [Pc.redialOld])) (fun k' hk _ => ?_) (by simp)
      (by simp [Pc.usedConn]) (by simp [Pc.redialOld]) (by simp) (by simp) ?_
    · injection hk with hk; subst hk; exact List.mem_cons_of_mem _ (a.e1 _ _ hold0 (by simp))
    · intro k' hk hc _; injection hk with hk; subst hk
      exact a.k1 _ _ hold0 hc (by simp [Pc.afterCas, hst])
  | dRedialGo k' hth _ =>
    rw [hth0] at hth; injection hth with hth; injection hth with e1 e2; injection e1 with e1; subst e1; subst e2
    refine ainv_pure a hth0 rfl rfl rfl rfl rfl (ty_reader k _ rfl (by simp [Pc.redialOld])) (fun k' hk _ => ?_)
      (by simp) ?_ ?_ (by simp) (by simp) ?_
    · injection hk with hk; subst hk; exact a.e1 _ _ hold0 (by simp)
    · intro u hu; simp [Pc.usedConn] at hu; subst hu; exact a.e2 _ _ hold0
    · intro hu; simp [Pc.redialOld] at hu; subst hu; exact Or.inr (a.e1 _ _ hold0 (by simp))
    · intro k' hk hc _; injection hk with hk; subst hk; exact a.k1 _ _ hold0 hc rfl
  | dRedialNo k' hth _ =>
    rw [hth0] at hth; injection hth with hth; injection hth with e1 e2; injection e1 with e1; subst e1; subst e2
    exact ainv_reader_move a hth0 rfl rfl rfl rfl rfl (by simp) rfl rfl (by simp [Pc.afterCas]) (by simp)
  | dFinalWon role hth _ =>
    rw [hth0] at hth; injection hth with hth; injection hth with e1 e2; subst e1; subst e2
    refine ainv_move a hth0 rfl rfl (fun _ h => h) (Or.inr (by simp)) rfl a.v (fun _ c hc hr => ⟨c, hc, hr⟩)
      (ty_reader k _ rfl (by simp [Pc.redialOld])) (fun k' hk _ => ?_) (by simp) (by simp [Pc.usedConn])
      (by simp [Pc.redialOld]) (by simp) (by simp) (by intro _ _ _ _; simp)
    injection hk with hk; subst hk; exact a.e1 _ _ hold0 (by simp)
  | dFinalLost role hth _ =>
    rw [hth0] at hth; injection hth with hth; injection hth with e1 e2; subst e1; subst e2
    exact ainv_reader_move a hth0 rfl rfl rfl rfl rfl (by simp) rfl rfl (by simp [Pc.afterCas]) (by simp)
  | wCheck role hth =>
    rw [hth0] at hth; injection hth with hth; injection hth with e1 e2; subst e1; subst e2
    have := a.ty _ hold0; simp [wellTyped, Pc.readerPc] at this
  | wWriteAwait j used c hth _ _ => rw [hth0] at hth; injection hth with hth; injection hth with e1 e2; cases e1
  | wWriteSent role used hth _ _ =>
    rw [hth0] at hth; injection hth with hth; injection hth with e1 e2; subst e1; subst e2
    have := a.ty _ hold0; simp [wellTyped, Pc.readerPc] at this
  | wWrite104 role used hth _ =>
    rw [hth0] at hth; injection hth with hth; injection hth with e1 e2; subst e1; subst e2
    have := a.ty _ hold0; simp [wellTyped, Pc.readerPc] at this
  | wWriteRedial role used st hth _ _ =>
    rw [hth0] at hth; injection hth with hth; injection hth with e1 e2; subst e1; subst e2
    have := a.ty _ hold0; simp [wellTyped, Pc.readerPc] at this
  | wWrite102 role used st hth _ =>
    rw [hth0] at hth; injection hth with hth; injection hth with e1 e2; subst e1; subst e2
    have := a.ty _ hold0; simp [wellTyped, Pc.readerPc] at this
  | xLock role old hth _ => rw [hth0] at hth; injection hth with hth; injection hth with e1 e2; subst e2; simp [Pc.redialOld] at hro
  | xLockedRet role old u r hth _ => rw [hth0] at hth; injection hth with hth; injection hth with e1 e2; subst e2; simp [Pc.redialOld] at hro
  | xLockedHang role old u hth _ => rw [hth0] at hth; injection hth with hth; injection hth with e1 e2; subst e2; simp [Pc.redialOld] at hro

/-- `AInv` is kept by every step of a writer thread (Call / Push) before `redialForClient`. -/
theorem ainv_thread_writer {s t : State} {i : Nat} (a : AInv s) (hts : TS s i t)
    (hk : ∃ role pc, s.threads[i]? = some ⟨role, pc⟩ ∧ (∀ k, role ≠ .reader k) ∧ pc.redialOld = none) : AInv t := by
  obtain ⟨role0, pc0, hth0, hw, hro⟩ := hk
  have hold0 := mem_of_get? hth0
  have hty0 := a.ty _ hold0
  have hwp : pc0.writerPc = true := by
    cases role0 with
    | reader k => exact absurd rfl (hw k)
    | caller j => exact hty0
    | pusher => exact hty0.1
  have hi2 : ∀ j, role0 = .caller j → j < s.calls.length := by
    intro j hj; subst hj; exact a.i2 j pc0 hold0
  have hne1 : ∀ k pc', role0 = .reader k → pc' ≠ Pc.rRead → k ∈ s.dead := fun k _ h _ => absurd h (hw k)
  have hne3 : ∀ pc', role0 = .reader s.conn → pc0 = .rRead → pc' = Pc.rRead ∨ s.conn ∈ s.dead :=
    fun _ h _ => absurd h (hw _)
  have hnk1 : ∀ k pc', role0 = .reader k → k = s.conn → Pc.afterCas pc' = true → s.status ≠ .ok :=
    fun k _ h _ _ => absurd h (hw k)
  cases hts with
  | wCheck role hth =>
    rw [hth0] at hth; injection hth with hth; injection hth with e1 e2; subst e1; subst e2
    exact ainv_pure a hth0 rfl rfl rfl rfl rfl (ty_writer _ _ hw rfl) (hne1 · _) (hne3 _)
      (by intro u hu; simp [Pc.usedConn] at hu; omega) (by simp [Pc.redialOld])
      (by intro st h hst; injection h with _ h2; subst h2; exact hst) (by simp) (hnk1 · _)
  | wWriteAwait j used c hth hl hc =>
    rw [hth0] at hth; injection hth with hth; injection hth with e1 e2; subst e1; subst e2
    refine ainv_move a hth0 rfl rfl (fun _ h => h) (Or.inl rfl) (by simp) ?_ ?_ (ty_writer _ _ hw rfl)
      (fun k h _ => absurd h (hw k)) (fun h _ => absurd h (hw _)) (by simp [Pc.usedConn]) (by simp [Pc.redialOld])
      (by simp) (by simp) (fun k h _ _ => absurd h (hw k))
    · intro c' hm
      simp only [setPc_calls] at hm
      rcases mem_set_cases hm with e | hm
      · have := a.v c (mem_of_get? hc)
        rw [e]; exact this
      · exact a.v c' hm
    · intro j' c' hc' hr
      by_cases hj : j = j'
      · subst hj
        rw [hc] at hc'; injection hc' with hc'; subst hc'
        exact ⟨{ c with conn := s.conn }, by simp [lt_of_getElem?_some hc], hr⟩
      · exact ⟨c', by simp [hj, hc'], hr⟩
  | wWriteSent role used hth hl hnc =>
    rw [hth0] at hth; injection hth with hth; injection hth with e1 e2; subst e1; subst e2
    refine ainv_pure a hth0 rfl rfl rfl rfl rfl (ty_writer _ _ hw rfl) (hne1 · _) (hne3 _)
      (by simp [Pc.usedConn]) (by simp [Pc.redialOld]) (by simp) ?_ (hnk1 · _)
    intro code hc; injection hc with hc; subst hc
    cases role0 with
    | reader k => exact absurd rfl (hw k)
    | caller j => exact absurd rfl (hnc j)
    | pusher => simp [doneOk]
  | wWrite104 role used hth hd =>
    rw [hth0] at hth; injection hth with hth; injection hth with e1 e2; subst e1; subst e2
    refine ainv_move (pc' := .wDone 104) a hth0 (by simp) (by simp) (by simp) (Or.inl (by simp))
      (by simp [finishCall_calls_len])
      (fun c hm => finishCall_v s role0 104 (Or.inr rfl) a.v c (by simpa using hm))
      (fun j c hc hr => by simpa using finishCall_keep s role0 104 (Or.inr rfl) j c hc hr) (ty_writer _ _ hw rfl)
      (fun k h _ => absurd h (hw k)) (fun h _ => absurd h (hw _)) (by simp [Pc.usedConn]) (by simp [Pc.redialOld])
      (by simp) ?_ (fun k h _ _ => absurd h (hw k))
    intro code hc; injection hc with hc; subst hc
    simpa [doneOk] using doneOk_finish s role0 104 (Or.inr rfl) hw hi2
  | wWriteRedial role used st hth hg _ =>
    rw [hth0] at hth; injection hth with hth; injection hth with e1 e2; subst e1; subst e2
    refine ainv_pure a hth0 rfl rfl rfl rfl rfl (ty_writer _ _ hw rfl) (hne1 · _) (hne3 _) ?_ ?_ (by simp) (by simp) (hnk1 · _)
    · intro u hu; simp [Pc.usedConn] at hu; subst hu; exact a.ub _ hold0 _ rfl
    · intro hu; simp [Pc.redialOld] at hu; subst hu
      rcases hg with hg | hg
      · exact Or.inl (a.xw _ _ hold0 hg)
      · exact Or.inr hg
  | wWrite102 role used st hth _ =>
    rw [hth0] at hth; injection hth with hth; injection hth with e1 e2; subst e1; subst e2
    refine ainv_move (pc' := .wDone 102) a hth0 (by simp) (by simp) (by simp) (Or.inl (by simp))
      (by simp [finishCall_calls_len])
      (fun c hm => finishCall_v s role0 102 (Or.inl rfl) a.v c (by simpa using hm))
      (fun j c hc hr => by simpa using finishCall_keep s role0 102 (Or.inl rfl) j c hc hr) (ty_writer _ _ hw rfl)
      (fun k h _ => absurd h (hw k)) (fun h _ => absurd h (hw _)) (by simp [Pc.usedConn]) (by simp [Pc.redialOld])
      (by simp) ?_ (fun k h _ _ => absurd h (hw k))
    intro code hc; injection hc with hc; subst hc
    simpa [doneOk] using doneOk_finish s role0 102 (Or.inl rfl) hw hi2
  | rRead k hth _ => rw [hth0] at hth; injection hth with hth; injection hth with e1 e2; exact absurd e1 (hw k)
  | rErr role hth => rw [hth0] at hth; injection hth with hth; injection hth with e1 e2; subst e2; simp [Pc.writerPc] at hwp
  | dLoadedExit role st hth _ => rw [hth0] at hth; injection hth with hth; injection hth with e1 e2; subst e2; simp [Pc.writerPc] at hwp
  | dLoadedAc role hth => rw [hth0] at hth; injection hth with hth; injection hth with e1 e2; subst e2; simp [Pc.writerPc] at hwp
  | dLoadedCas role st hth _ _ _ => rw [hth0] at hth; injection hth with hth; injection hth with e1 e2; subst e2; simp [Pc.writerPc] at hwp
  | dLoadedRetry role st hth _ _ _ => rw [hth0] at hth; injection hth with hth; injection hth with e1 e2; subst e2; simp [Pc.writerPc] at hwp
  | dStored role st hth => rw [hth0] at hth; injection hth with hth; injection hth with e1 e2; subst e2; simp [Pc.writerPc] at hwp
  | dCancel role st hth _ => rw [hth0] at hth; injection hth with hth; injection hth with e1 e2; subst e2; simp [Pc.writerPc] at hwp
  | dCloseAc role hth => rw [hth0] at hth; injection hth with hth; injection hth with e1 e2; subst e2; simp [Pc.writerPc] at hwp
  | dCloseSkip role st hth _ _ => rw [hth0] at hth; injection hth with hth; injection hth with e1 e2; subst e2; simp [Pc.writerPc] at hwp
  | dCloseKill role st hth _ _ => rw [hth0] at hth; injection hth with hth; injection hth with e1 e2; subst e2; simp [Pc.writerPc] at hwp
  | dRedialGo k hth _ => rw [hth0] at hth; injection hth with hth; injection hth with e1 e2; exact absurd e1 (hw k)
  | dRedialNo k hth _ => rw [hth0] at hth; injection hth with hth; injection hth with e1 e2; exact absurd e1 (hw k)
  | dFinalWon role hth _ => rw [hth0] at hth; injection hth with hth; injection hth with e1 e2; subst e2; simp [Pc.writerPc] at hwp
  | dFinalLost role hth _ => rw [hth0] at hth; injection hth with hth; injection hth with e1 e2; subst e2; simp [Pc.writerPc] at hwp
  | xLock role old hth _ => rw [hth0] at hth; injection hth with hth; injection hth with e1 e2; subst e2; simp [Pc.redialOld] at hro
  | xLockedRet role old u r hth _ => rw [hth0] at hth; injection hth with hth; injection hth with e1 e2; subst e2; simp [Pc.redialOld] at hro
  | xLockedHang role old u hth _ => rw [hth0] at hth; injection hth with hth; injection hth with e1 e2; subst e2; simp [Pc.redialOld] at hro

theorem casFrom_ok : casFrom .ok = true := rfl

/-- leaving `redialForClient` with result `r` from a state `w` that satisfies `AInv`. -/
theorem ainv_after {w : State} {i old : Nat} {role : Role} (a : AInv w)
    (hth : w.threads[i]? = some ⟨role, .xLocked old⟩) (r : Bool) (hr : r = false → w.status ≠ .ok) :
    AInv (afterRedial { w with lock := false } i role r) := by
  have hold := mem_of_get? hth
  have hty := a.ty _ hold
  rw [afterRedial_eq]
  cases r with
  | true =>
    simp only [if_true]
    refine ainv_pure (t := State.setPc { w with lock := false } i role (afterPc role true)) a hth rfl rfl rfl rfl rfl ?_ ?_
      (by simp) ?_ ?_ ?_ ?_ ?_
    · cases role <;> simp [afterPc, wellTyped, Pc.readerPc, Pc.writerPc, Pc.redialOld]
    · intro k hk _; subst hk; exact a.e1 _ _ hold (by simp)
    · cases role <;> simp [afterPc, Pc.usedConn]
    · cases role <;> simp [afterPc, Pc.redialOld]
    · cases role <;> simp [afterPc]
    · cases role <;> simp [afterPc]
    · intro k hk _ h; subst hk; simp [afterPc, Pc.afterCas] at h
  | false =>
    have hs := hr rfl
    simp only [Bool.false_eq_true, if_false]
    refine ainv_move (pc' := afterPc role false) a hth (by simp) (by simp) (by simp) (Or.inl (by simp))
      (by simp [finishCall_calls_len])
      (fun c hm => finishCall_v { w with lock := false } role 102 (Or.inl rfl) a.v c (by simpa using hm))
      (fun j c hc hr => by simpa using finishCall_keep { w with lock := false } role 102 (Or.inl rfl) j c hc hr)
      ?_ ?_ (by simp) ?_ ?_ ?_ ?_ ?_
    · cases role <;> simp [afterPc, wellTyped, Pc.readerPc, Pc.writerPc, Pc.redialOld]
    · intro k hk _; subst hk; simpa using a.e1 _ _ hold (by simp)
    · cases role <;> simp [afterPc, Pc.usedConn]
    · cases role <;> simp [afterPc, Pc.redialOld]
    · cases role <;> simp [afterPc]
    · intro code hc
      cases role with
      | reader k => simp [afterPc] at hc
      | caller j =>
        simp [afterPc] at hc; subst hc
        exact doneOk_finish { w with lock := false } (.caller j) 102 (Or.inl rfl) (by simp)
          (fun j' h => by injection h with h; subst h; exact a.i2 _ _ hold)
      | pusher =>
        simp [afterPc] at hc; subst hc
        simp [doneOk]
    · intro k _ _ _; simpa using hs

/-- `AInv` is kept by the steps of `redialForClient` (taking the lock; the locked body). -/
theorem ainv_thread_redial {s t : State} {i : Nat} (a : AInv s) (hts : TS s i t)
    (hk : ∃ role pc u, s.threads[i]? = some ⟨role, pc⟩ ∧ pc.redialOld = some u) : AInv t := by
  obtain ⟨role0, pc0, u0, hth0, hro⟩ := hk
  have hold0 := mem_of_get? hth0
  have hty0 := a.ty _ hold0
  cases hts with
  | xLock role old hth _ =>
    rw [hth0] at hth; injection hth with hth; injection hth with e1 e2; subst e1; subst e2
    refine ainv_pure (t := State.setPc { s with lock := true } i role0 (.xLocked old)) a hth0 rfl rfl rfl rfl rfl ?_ ?_
      (by simp) ?_ ?_ (by simp) (by simp) ?_
    · cases role0 with
      | reader k => simpa [wellTyped, Pc.readerPc, Pc.redialOld] using hty0
      | caller j => simp [wellTyped, Pc.writerPc]
      | pusher => simp [wellTyped, Pc.writerPc]
    · intro k hk _; subst hk; exact a.e1 _ _ hold0 (by simp)
    · intro u hu; exact a.ub _ hold0 u (by simpa [Pc.usedConn] using hu)
    · intro hu; exact a.x _ hold0 (by simpa [Pc.redialOld] using hu)
    · intro k hk hc _; subst hk; exact a.k1 _ _ hold0 hc rfl
  | xLockedRet role old u r hth hr =>
    rw [hth0] at hth; injection hth with hth; injection hth with e1 e2; subst e1; subst e2
    rcases redialLocked_cases s old with ⟨_, h⟩ | ⟨_, hc, h⟩ | ⟨_, _, u', h | h | h⟩
    · rw [h] at hr; injection hr with h1 h2; injection h2 with h2; subst h1; subst h2
      exact ainv_after a hth0 true (by simp)
    · rw [h] at hr; injection hr with h1 h2; injection h2 with h2; subst h1; subst h2
      refine ainv_after a hth0 false (fun _ hs => ?_)
      rw [hs] at hc; simp [casFrom] at hc
    · obtain ⟨h, f⟩ := h
      rw [h] at hr; injection hr with h1 h2; injection h2 with h2; subst h1; subst h2
      have hth' : u'.threads[i]? = some ⟨role0, .xLocked old⟩ := by
        rw [f.threads]; simp only
        rw [List.getElem?_append_left (lt_of_getElem?_some hth0)]; exact hth0
      exact ainv_after (ainv_round a f) hth' true (by simp)
    · obtain ⟨h, f⟩ := h
      rw [h] at hr; injection hr with h1 h2; injection h2 with h2; subst h1; subst h2
      have hth' : u'.threads[i]? = some ⟨role0, .xLocked old⟩ := by rw [f.threads]; exact hth0
      exact ainv_after (ainv_round a f) hth' false (fun _ => by rw [f.status]; simp)
    · rw [h.1] at hr; injection hr with h1 h2; cases h2
  | xLockedHang role old u hth hr =>
    rw [hth0] at hth; injection hth with hth; injection hth with e1 e2; subst e1; subst e2
    rcases redialLocked_cases s old with ⟨_, h⟩ | ⟨_, hc, h⟩ | ⟨_, _, u', h | h | h⟩
    · rw [h] at hr; injection hr with h1 h2; cases h2
    · rw [h] at hr; injection hr with h1 h2; cases h2
    · rw [h.1] at hr; injection hr with h1 h2; cases h2
    · rw [h.1] at hr; injection hr with h1 h2; cases h2
    · obtain ⟨h, f⟩ := h
      rw [h] at hr; injection hr with h1 h2; subst h1
      have hth' : u'.threads[i]? = some ⟨role0, .xLocked old⟩ := by rw [f.threads]; exact hth0
      have a' := ainv_round a f
      have hold' := mem_of_get? hth'
      refine ainv_pure a' hth' rfl rfl rfl rfl rfl ?_ ?_ (by simp) (by simp [Pc.usedConn]) (by simp [Pc.redialOld])
        (by simp) (by simp) ?_
      · cases role0 <;> simp [wellTyped, Pc.readerPc, Pc.writerPc, Pc.redialOld]
      · intro k hk _; subst hk; exact a'.e1 _ _ hold' (by simp)
      · intro k _ _ h; simp [Pc.afterCas] at h
  | rRead k hth _ => rw [hth0] at hth; injection hth with hth; injection hth with e1 e2; subst e2; simp [Pc.redialOld] at hro
  | rErr role hth => rw [hth0] at hth; injection hth with hth; injection hth with e1 e2; subst e2; simp [Pc.redialOld] at hro
  | dLoadedExit role st hth _ => rw [hth0] at hth; injection hth with hth; injection hth with e1 e2; subst e2; simp [Pc.redialOld] at hro
  | dLoadedAc role hth => rw [hth0] at hth; injection hth with hth; injection hth with e1 e2; subst e2; simp [Pc.redialOld] at hro
  | dLoadedCas role st hth _ _ _ => rw [hth0] at hth; injection hth with hth; injection hth with e1 e2; subst e2; simp [Pc.redialOld] at hro
  | dLoadedRetry role st hth _ _ _ => rw [hth0] at hth; injection hth with hth; injection hth with e1 e2; subst e2; simp [Pc.redialOld] at hro
  | dStored role st hth => rw [hth0] at hth; injection hth with hth; injection hth with e1 e2; subst e2; simp [Pc.redialOld] at hro
  | dCancel role st hth _ => rw [hth0] at hth; injection hth with hth; injection hth with e1 e2; subst e2; simp [Pc.redialOld] at hro
  | dCloseAc role hth => rw [hth0] at hth; injection hth with hth; injection hth with e1 e2; subst e2; simp [Pc.redialOld] at hro
  | dCloseSkip role st hth _ _ => rw [hth0] at hth; injection hth with hth; injection hth with e1 e2; subst e2; simp [Pc.redialOld] at hro
  | dCloseKill role st hth _ _ => rw [hth0] at hth; injection hth with hth; injection hth with e1 e2; subst e2; simp [Pc.redialOld] at hro
  | dRedialGo k hth _ => rw [hth0] at hth; injection hth with hth; injection hth with e1 e2; subst e2; simp [Pc.redialOld] at hro
  | dRedialNo k hth _ => rw [hth0] at hth; injection hth with hth; injection hth with e1 e2; subst e2; simp [Pc.redialOld] at hro
  | dFinalWon role hth _ => rw [hth0] at hth; injection hth with hth; injection hth with e1 e2; subst e2; simp [Pc.redialOld] at hro
  | dFinalLost role hth _ => rw [hth0] at hth; injection hth with hth; injection hth with e1 e2; subst e2; simp [Pc.redialOld] at hro
  | wCheck role hth => rw [hth0] at hth; injection hth with hth; injection hth with e1 e2; subst e2; simp [Pc.redialOld] at hro
  | wWriteAwait j used c hth _ _ => rw [hth0] at hth; injection hth with hth; injection hth with e1 e2; subst e2; simp [Pc.redialOld] at hro
  | wWriteSent role used hth _ _ => rw [hth0] at hth; injection hth with hth; injection hth with e1 e2; subst e2; simp [Pc.redialOld] at hro
  | wWrite104 role used hth _ => rw [hth0] at hth; injection hth with hth; injection hth with e1 e2; subst e2; simp [Pc.redialOld] at hro
  | wWriteRedial role used st hth _ _ => rw [hth0] at hth; injection hth with hth; injection hth with e1 e2; subst e2; simp [Pc.redialOld] at hro
  | wWrite102 role used st hth _ => rw [hth0] at hth; injection hth with hth; injection hth with e1 e2; subst e2; simp [Pc.redialOld] at hro

/-- `AInv` is kept by every thread step. -/
theorem ainv_thread {s t : State} {i : Nat} (a : AInv s) (h : threadStep s i = some t) : AInv t := by
  have hts := threadStep_cases h
  cases hth : s.threads[i]? with
  | none => simp [threadStep, hth] at h
  | some th =>
    obtain ⟨role, pc⟩ := th
    cases hro : pc.redialOld with
    | some u => exact ainv_thread_redial a hts ⟨role, pc, u, hth, hro⟩
    | none =>
      cases role with
      | reader k => exact ainv_thread_reader a hts ⟨k, pc, hth, hro⟩
      | caller j => exact ainv_thread_writer a hts ⟨_, pc, hth, by simp, hro⟩
      | pusher => exact ainv_thread_writer a hts ⟨_, pc, hth, by simp, hro⟩

theorem ainv_init (b : Int) (eof : Bool) : AInv (State.init b eof) := by
  refine ⟨?_, ?_, ?_, ?_, ?_, ?_, ?_, ?_, ?_, ?_, ?_⟩ <;> simp [State.init, wellTyped, Pc.readerPc, Pc.redialOld, Pc.usedConn, Pc.afterCas]

/-- a new writer thread at `wCheck` is appended (and possibly a call). -/
theorem ainv_spawn {s t : State} (a : AInv s) (role : Role) (hw : ∀ k, role ≠ .reader k)
    (hT : t.threads = s.threads ++ [⟨role, .wCheck⟩]) (hC : t.conn = s.conn) (hD : t.dead = s.dead)
    (hS : t.status = s.status)
    (hCa : t.calls = s.calls ∨ (role = .caller s.calls.length ∧ t.calls = s.calls ++ [⟨s.conn, false, none⟩]))
    (hj : ∀ j, role = .caller j → j < t.calls.length) : AInv t := by
  have hm : ∀ th, th ∈ t.threads → th ∈ s.threads ∨ th = ⟨role, .wCheck⟩ := by
    intro th h; rw [hT] at h; simpa using h
  have hlen : s.calls.length ≤ t.calls.length := by
    rcases hCa with h | ⟨_, h⟩ <;> simp [h]
  have hget : ∀ (j : Nat) (c : Call), s.calls[j]? = some c → t.calls[j]? = some c := by
    intro j c hc
    rcases hCa with h | ⟨_, h⟩
    · rw [h]; exact hc
    · rw [h, List.getElem?_append_left (lt_of_getElem?_some hc)]; exact hc
  refine ⟨?_, ?_, ?_, ?_, ?_, ?_, ?_, ?_, ?_, ?_, ?_⟩
  · intro th h
    rcases hm th h with h | h
    · exact a.ty th h
    · rw [h]; exact ty_writer _ _ hw rfl
  · intro k pc h hp
    rw [hD]
    rcases hm _ h with h | h
    · exact a.e1 k pc h hp
    · injection h with h1 h2; exact absurd h1.symm (hw k)
  · intro k pc h
    rw [hC]
    rcases hm _ h with h | h
    · exact a.e2 k pc h
    · injection h with h1 h2; exact absurd h1.symm (hw k)
  · intro th h u hu
    rw [hC]
    rcases hm _ h with h | h
    · exact a.ub th h u hu
    · rw [h] at hu; simp [Pc.usedConn] at hu
  · intro hn
    rw [hC, hD] at hn; rw [hT, hC]
    exact List.mem_append_left _ (a.e3 hn)
  · intro th h hu
    rw [hC] at hu; rw [hS, hC, hD]
    rcases hm _ h with h | h
    · exact a.x th h hu
    · rw [h] at hu; simp [Pc.redialOld] at hu
  · intro r st h hst
    rw [hC] at h; rw [hS]
    rcases hm _ h with h | h
    · exact a.xw r st h hst
    · injection h with h1 h2; cases h2
  · intro j pc h
    rcases hm _ h with h | h
    · have := a.i2 j pc h; omega
    · injection h with h1 h2; exact hj j h1.symm
  · intro c hc
    rcases hCa with h | ⟨_, h⟩
    · rw [h] at hc; exact a.v c hc
    · rw [h] at hc
      simp only [List.mem_append, List.mem_singleton] at hc
      rcases hc with hc | hc
      · exact a.v c hc
      · rw [hc]; exact ⟨by simp [okRes], by simp⟩
  · intro r code h
    rcases hm _ h with h | h
    · have := a.i3 r code h
      cases r with
      | pusher => exact this
      | reader k => exact this
      | caller j =>
        obtain ⟨h1, c, hc, hr⟩ := this
        exact ⟨h1, c, hget j c hc, hr⟩
    · injection h with h1 h2; cases h2
  · intro k pc h hk hp
    rw [hC] at hk; rw [hS]
    rcases hm _ h with h | h
    · exact a.k1 k pc h hk hp
    · injection h with h1 h2; exact absurd h1.symm (hw k)

/-- `AInv` is kept by every event. -/
theorem ainv_step {s t : State} {e : Ev} (a : AInv s) (h : step s e = some t) : AInv t := by
  cases e with
  | th i => exact ainv_thread a h
  | lose k =>
    simp only [step, Option.some.injEq] at h
    subst h
    split
    · exact a
    · exact ⟨a.ty, fun k' pc hm hp => List.mem_cons_of_mem _ (a.e1 k' pc hm hp), a.e2, a.ub,
        fun hn => a.e3 (fun hh => hn (List.mem_cons_of_mem _ hh)),
        fun th hm hu => (a.x th hm hu).elim Or.inl (fun hh => Or.inr (List.mem_cons_of_mem _ hh)),
        a.xw, a.i2, a.v, a.i3, a.k1⟩
  | reply j =>
    simp only [step] at h
    cases hc : s.calls[j]? with
    | none => simp [hc] at h
    | some c =>
      simp only [hc] at h
      split at h
      · rename_i hg
        simp only [Option.some.injEq] at h; subst h
        have hn : c.res = none := by simpa using hg.1
        refine ⟨a.ty, a.e1, a.e2, a.ub, a.e3, a.x, a.xw, fun j' pc hm => by simpa using a.i2 j' pc hm, ?_, ?_, a.k1⟩
        · intro c' hm
          rcases mem_set_cases hm with e | hm
          · rw [e]; exact ⟨by simp [okRes], by simp⟩
          · exact a.v c' hm
        · intro r code hm
          have := a.i3 r code hm
          cases r with
          | pusher => exact this
          | reader k => exact this
          | caller j' =>
            obtain ⟨h1, c', hc', hr⟩ := this
            refine ⟨h1, c', ?_, hr⟩
            by_cases hj : j = j'
            · subst hj; rw [hc] at hc'; injection hc' with hc'; subst hc'
              rw [hn] at hr; simp at hr
            · simp [hj, hc']
      · simp at h
  | setUser =>
    simp only [step] at h
    split at h
    · simp only [Option.some.injEq] at h; subst h; exact a
    · split at h <;> (simp only [Option.some.injEq] at h; subst h
                      exact ⟨a.ty, a.e1, a.e2, a.ub, a.e3, a.x, a.xw, a.i2, a.v, a.i3, a.k1⟩)
  | call =>
    simp only [step, Option.some.injEq] at h; subst h
    exact ainv_spawn a (.caller s.calls.length) (by simp) rfl rfl rfl rfl (Or.inr ⟨rfl, rfl⟩)
      (by intro j hj; injection hj with hj; subst hj; simp)
  | push =>
    simp only [step, Option.some.injEq] at h; subst h
    exact ainv_spawn a .pusher (by simp) rfl rfl rfl rfl (Or.inl rfl) (by intro j hj; cases hj)
  | setEnv e =>
    simp only [step, Option.some.injEq] at h; subst h
    exact ⟨a.ty, a.e1, a.e2, a.ub, a.e3, a.x, a.xw, a.i2, a.v, a.i3, a.k1⟩

theorem ainv_run : ∀ (evs : List Ev) (s t : State), AInv s → run s evs = some t → AInv t
  | [], s, t, a, h => by simp only [run, Option.some.injEq] at h; exact h ▸ a
  | e :: es, s, t, a, h => by
    simp only [run] at h
    cases hs : step s e with
    | none => simp [hs] at h
    | some u => simp only [hs, Option.bind_some] at h; exact ainv_run es u t (ainv_step a hs) h

theorem ainv_reach {b : Int} {eof : Bool} {t : State} (h : Reachable b eof t) : AInv t := by
  obtain ⟨evs, h⟩ := h
  exact ainv_run evs _ t (ainv_init b eof) h

end Teleport.Redial
