/-
Lemmas/Lifecycle — invariants of the session machine (Model/Lifecycle) and lemmas about the index.
-/
import Teleport.Model.Lifecycle
namespace Teleport.Lifecycle

/-! ## one session -/

/-- unfold one `lstep` equation into its guard and the new state. -/
theorem lstep_cases {c c' : Core} {e : LEv} (h : lstep c e = some c') :
    (e = .hookOk ∧ c.ph = .hooks ∧ c' = { c with ph := .accepted }) ∨
    (e = .hookReject ∧ c.ph = .hooks ∧ c' = { c with ph := .rejected }) ∨
    (e = .storeOk ∧ c.ph = .accepted ∧ c.st = .preparing ∧ c' = { c.store .ok with ph := .running }) ∨
    (e = .storeOk ∧ c.ph = .accepted ∧ c.st ≠ .preparing ∧ c' = { c with ph := .aborted }) ∨
    (e = .spawn ∧ c.ph = .running ∧ c.reader = .idle ∧ c' = { c with reader := .loop }) ∨
    (e = .closeCall ∧ c.closer = .idle ∧ (c.st = .ok ∨ c.st = .preparing) ∧ c' = { c with st := .activeClosing, closer := .hubdel }) ∨
    (e = .closeCall ∧ c.closer = .idle ∧ ¬ (c.st = .ok ∨ c.st = .preparing) ∧ c' = c) ∨
    (e = .cHubDel ∧ c.closer = .hubdel ∧ c' = { c with closer := .notify }) ∨
    (e = .cNotify ∧ c.closer = .notify ∧ c' = { c.notify with closer := .callwait }) ∨
    (e = .cCallWait ∧ c.closer = .callwait ∧ c' = { c with closer := .store }) ∨
    (e = .cStore ∧ c.closer = .store ∧ c' = { c.store .activeClosed with closer := .sock }) ∨
    (e = .cSock ∧ c.closer = .sock ∧ c' = { c with sockClosed := true, closer := .hook }) ∨
    (e = .cHook ∧ c.closer = .hook ∧ c' = { c with discCnt := c.discCnt + 1, closer := .idle }) ∨
    (e = .eof ∧ c' = { c with eof := true }) ∨
    (e = .rdTop ∧ c.reader = .loop ∧ goonRead c.st = true ∧ c' = { c with reader := .reading }) ∨
    (e = .rdTop ∧ c.reader = .loop ∧ goonRead c.st = false ∧ c' = { c with reader := .disc0 }) ∨
    (e = .rdMsg ∧ c.reader = .reading ∧ c.sockClosed = false ∧ c' = { c with reader := .got, late := c.st.isClosed }) ∨
    (e = .rdChk ∧ c.reader = .got ∧ goonRead c.st = false ∧ c' = { c with reader := .disc0 }) ∨
    (e = .rdChk ∧ c.reader = .got ∧ goonRead c.st = true ∧ c' = { c with reader := .add }) ∨
    (e = .rdAdd ∧ c.reader = .add ∧ c' = { c with handlers := c.handlers + 1, lateH := c.lateH + (if c.late then 1 else 0), reader := .loop }) ∨
    (e = .rdExit ∧ c.reader = .reading ∧ c' = { c with reader := .disc0 }) ∨
    (e = .dLoad ∧ c.reader = .disc0 ∧ c' = { c with rst := c.st, reader := .loaded }) ∨
    (e = .dStore ∧ c.reader = .loaded ∧ (c.rst = .passiveClosed ∨ c.rst = .activeClosed ∨ c.rst = .passiveClosing) ∧ c' = { c with reader := .done }) ∨
    (e = .dStore ∧ c.reader = .loaded ∧ c.rst = .activeClosing ∧ c' = { c with reader := .hubdel }) ∨
    (e = .dStore ∧ c.reader = .loaded ∧ (c.rst ≠ .passiveClosed ∧ c.rst ≠ .activeClosed ∧ c.rst ≠ .passiveClosing ∧ c.rst ≠ .activeClosing) ∧ c.st = c.rst ∧ c' = { c.store .passiveClosing with reader := .hubdel }) ∨
    (e = .dStore ∧ c.reader = .loaded ∧ (c.rst ≠ .passiveClosed ∧ c.rst ≠ .activeClosed ∧ c.rst ≠ .passiveClosing ∧ c.rst ≠ .activeClosing) ∧ c.st ≠ c.rst ∧ c' = { c with reader := .disc0 }) ∨
    (e = .dHubDel ∧ c.reader = .hubdel ∧ c' = { c with reader := if c.rst = .activeClosing then .done else .sock }) ∨
    (e = .dSock ∧ c.reader = .sock ∧ c' = { c with sockClosed := true, reader := .closed }) ∨
    (e = .dClosed ∧ c.reader = .closed ∧ (c.st = .passiveClosing ∨ c.st = .redialFailed) ∧ c' = { c.store .passiveClosed with reader := .notify }) ∨
    (e = .dClosed ∧ c.reader = .closed ∧ ¬ (c.st = .passiveClosing ∨ c.st = .redialFailed) ∧ c' = { c with reader := .done }) ∨
    (e = .dNotify ∧ c.reader = .notify ∧ c' = { c.notify with reader := .hook }) ∨
    (e = .dHook ∧ c.reader = .hook ∧ c' = { c with discCnt := c.discCnt + 1, reader := .done }) := by
  cases e <;> simp only [lstep, lstepV] at h
  case closeCall =>
    split at h
    · split at h <;> simp_all
    · simp at h
  case storeOk =>
    split at h
    · split at h <;> simp_all
    · simp at h
  case eof => simp_all
  case rdTop =>
    split at h
    · split at h <;> simp_all
    · simp at h
  case rdChk =>
    split at h
    · split at h <;> simp_all
    · simp at h
  case dStore =>
    split at h
    · split at h <;> (try split at h) <;> simp_all
    · simp at h
  case dClosed =>
    split at h
    · split at h <;> simp_all
    · simp at h
  all_goals (split at h <;> simp_all <;> done)


/-- split a step into the 32 guarded assignments of `lstep_cases`. -/
macro "lstep_split" h:ident : tactic =>
  `(tactic| (have hsplit := lstep_cases $h:ident; clear $h:ident; rcases hsplit with $h:ident | $h:ident | $h:ident | $h:ident | $h:ident | $h:ident | $h:ident | $h:ident | $h:ident | $h:ident | $h:ident | $h:ident | $h:ident | $h:ident | $h:ident | $h:ident | $h:ident | $h:ident | $h:ident | $h:ident | $h:ident | $h:ident | $h:ident | $h:ident | $h:ident | $h:ident | $h:ident | $h:ident | $h:ident | $h:ident | $h:ident | $h:ident))

/-- invariant of every schedule. -/
structure SInv (c : Core) : Prop where
  notify : c.notifyCnt = (if c.didNotify then 1 else 0)
  closerLate : (c.closer = .callwait ∨ c.closer = .store ∨ c.closer = .sock ∨ c.closer = .hook) → c.didNotify = true
  acNotify : c.st = .activeClosed → c.didNotify = true
  pcReader : c.st = .passiveClosed → (c.reader = .notify ∨ c.reader = .hook ∨ c.reader = .done)
  hookNotify : c.reader = .hook → c.didNotify = true
  doneNotify : c.reader = .done → c.st = .passiveClosed → c.didNotify = true
  okRunning : c.st = .ok → c.ph = .running
  pcRunning : (c.st = .passiveClosing ∨ c.st = .passiveClosed) → c.ph = .running
  readerRunning : c.reader ≠ .idle → c.ph = .running
  handlersReader : 0 < c.handlers → c.reader ≠ .idle
  noRedial : c.st ≠ .redialing ∧ c.st ≠ .redialFailed

theorem sinv_init : SInv Core.init := by
  constructor <;> simp [Core.init]

/-- the final compare-and-swap of `readDisconnected` (won: PassiveClosed; lost: the reader returns). -/
theorem sinv_step_dClosed {c c' : Core} (h : lstep c .dClosed = some c') (hi : SInv c) : SInv c' := by
  obtain ⟨i1, i2, i3, i4, i5, i6, i7, i8, i9, i10, i11⟩ := hi
  simp only [lstep, lstepV] at h
  split at h
  · split at h <;> (simp only [Option.some.injEq] at h; subst h) <;>
      (constructor <;> simp_all [Core.store, Core.notify] <;> (try split) <;> simp_all <;> (try omega))
  · simp at h

theorem sinv_step {c c' : Core} {e : LEv} (h : lstep c e = some c') (hi : SInv c) : SInv c' := by
  by_cases hd : e = .dClosed
  · subst hd; exact sinv_step_dClosed h hi
  obtain ⟨i1, i2, i3, i4, i5, i6, i7, i8, i9, i10, i11⟩ := hi
  lstep_split h
  all_goals (
    first
    | obtain ⟨rfl, g1, g2, g3, g4, rfl⟩ := h
    | obtain ⟨rfl, g1, g2, g3, rfl⟩ := h
    | obtain ⟨rfl, g1, g2, rfl⟩ := h
    | obtain ⟨rfl, g1, rfl⟩ := h
    | obtain ⟨rfl, rfl⟩ := h)
  all_goals (first | exact absurd rfl hd | clear hd)
  all_goals (constructor <;> simp_all [Core.store, Core.notify] <;> (try split) <;> simp_all <;> (try omega))

/-- the reader's position is compatible with an active close being in charge. -/
def RA (c : Core) : Prop :=
  c.reader = .idle ∨ c.reader = .loop ∨ c.reader = .reading ∨ c.reader = .got ∨ c.reader = .add ∨
  c.reader = .disc0 ∨ c.reader = .done ∨
  (c.reader = .loaded ∧ (c.rst = .ok ∨ c.rst = .activeClosing ∨ c.rst = .activeClosed)) ∨
  (c.reader = .hubdel ∧ c.rst = .activeClosing)

/-- invariant of every schedule: exactly one close path is in charge. -/
def RInv (c : Core) : Prop :=
  c.left = false ∧
  match c.st with
  | .preparing => c.closer = .idle ∧ c.reader = .idle ∧ c.discCnt = 0 ∧ c.ph ≠ .running
  | .ok => c.closer = .idle ∧ c.discCnt = 0 ∧ c.ph = .running ∧
      (c.reader = .idle ∨ c.reader = .loop ∨ c.reader = .reading ∨ c.reader = .got ∨ c.reader = .add ∨
        c.reader = .disc0 ∨ (c.reader = .loaded ∧ c.rst = .ok))
  | .activeClosing =>
      (c.closer = .hubdel ∨ c.closer = .notify ∨ c.closer = .callwait ∨ c.closer = .store) ∧
      c.discCnt = 0 ∧ RA c
  | .activeClosed =>
      (((c.closer = .sock ∨ c.closer = .hook) ∧ c.discCnt = 0) ∨ (c.closer = .idle ∧ c.discCnt = 1)) ∧
      RA c
  | .passiveClosing =>
      c.closer = .idle ∧ c.discCnt = 0 ∧ (c.reader = .hubdel ∨ c.reader = .sock ∨ c.reader = .closed) ∧ c.rst = .ok
  | .passiveClosed =>
      c.closer = .idle ∧ ((c.reader = .notify ∧ c.discCnt = 0) ∨ (c.reader = .hook ∧ c.discCnt = 0) ∨
        (c.reader = .done ∧ c.discCnt = 1))
  | _ => False

theorem rinv_init : RInv Core.init := by simp [RInv, Core.init]

theorem rinv_step {c c' : Core} {e : LEv} (h : lstep c e = some c')
    (hs : SInv c) (hi : RInv c) : RInv c' := by
  have hrun := hs.readerRunning
  have hpc := hs.pcRunning
  clear hs
  lstep_split h
  all_goals (
    first
    | obtain ⟨rfl, g1, g2, g3, g4, rfl⟩ := h
    | obtain ⟨rfl, g1, g2, g3, rfl⟩ := h
    | obtain ⟨rfl, g1, g2, rfl⟩ := h
    | obtain ⟨rfl, g1, rfl⟩ := h
    | obtain ⟨rfl, rfl⟩ := h)
  all_goals (
    obtain ⟨ph, st, closer, reader, rst, dn, nc, dc, sc, eof, hd, lf, lt, lh⟩ := c
    cases st <;> cases dn <;> simp_all [RInv, RA, Core.store, Core.notify, Status.isClosed] <;>
      (try (cases ph <;> simp_all <;> done)) <;> (try (cases reader <;> simp_all <;> done)))


/-- invariant of every schedule of the read loop as coded (with the second `goonRead` test): a
    frame that arrived when the status was already ActiveClosed / PassiveClosed is still in a closed
    status when it is tested, so it never gets past the test and no handler is started for it. -/
structure HInv (c : Core) : Prop where
  lateH : c.lateH = 0
  gotLate : c.reader = .got → c.late = true → c.st.isClosed = true
  addFresh : c.reader = .add → c.late = false

theorem hinv_init : HInv Core.init := by
  constructor <;> simp [Core.init]

theorem hinv_step {c c' : Core} {e : LEv} (h : lstep c e = some c')
    (hr : RInv c) (hi : HInv c) : HInv c' := by
  obtain ⟨i1, i2, i3⟩ := hi
  lstep_split h
  all_goals (
    first
    | obtain ⟨rfl, g1, g2, g3, g4, rfl⟩ := h
    | obtain ⟨rfl, g1, g2, g3, rfl⟩ := h
    | obtain ⟨rfl, g1, g2, rfl⟩ := h
    | obtain ⟨rfl, g1, rfl⟩ := h
    | obtain ⟨rfl, rfl⟩ := h)
  -- steps that touch neither the status nor the reader's frame
  all_goals (try (constructor <;> simp_all [Core.notify] <;> (try split) <;> simp_all <;> done))
  -- the status stores and the reader's own steps
  all_goals (
    obtain ⟨ph, st, closer, reader, rst, dn, nc, dc, sc, eof, hd, lf, lt, lh⟩ := c
    cases st <;> cases lt <;>
      simp_all [RInv, RA, Core.store, Status.isClosed, goonRead] <;>
      (try (constructor <;> simp_all [Status.isClosed] <;> done)))

/-! ### closures -/

theorem lreach_sinv {a c : Core} (r : LReach a c) (hs : SInv a) : SInv c := by
  induction r with
  | refl => exact hs
  | step e _ h ih => exact sinv_step h ih

theorem lreach_rinv {a c : Core} (r : LReach a c) (hs : SInv a) (hi : RInv a) : RInv c := by
  induction r with
  | refl => exact hi
  | step e r h ih => exact rinv_step h (lreach_sinv r hs) ih

theorem lreach_hinv {a c : Core} (r : LReach a c) (hs : SInv a) (hr : RInv a) (hi : HInv a) : HInv c := by
  induction r with
  | refl => exact hi
  | step e r h ih => exact hinv_step h (lreach_rinv r hs hr) ih

/-- `LReachV true` is `LReach`. -/
theorem lreach_of_v {a c : Core} (r : LReachV true a c) : LReach a c := by
  induction r with
  | refl => exact .refl _
  | step e _ h ih => exact .step e ih h

/-- a run is a path of the closure. -/
theorem lreachV_of_run {rc : Bool} {es : List LEv} {a b : Core} (h : lrunV rc a es = some b) : LReachV rc a b := by
  have aux : ∀ (es : List LEv) (x : Core), LReachV rc a x → lrunV rc x es = some b → LReachV rc a b := by
    intro es
    induction es with
    | nil => intro x r hx; simp only [lrunV, Option.some.injEq] at hx; subst hx; exact r
    | cons e es ih =>
      intro x r hx
      simp only [lrunV] at hx
      cases hs : lstepV rc x e with
      | none => simp [hs] at hx
      | some y =>
        simp only [hs, Option.bind_some] at hx
        exact ih y (.step e r hs) hx
  exact aux es a (.refl a) h

/-! ## any number of sessions: every world step is, for each session, a chain of `lstep`s -/

/-- every session's lifecycle component is reachable from `newSession` by `lstep`s. -/
@[reducible] def Good (w : World) : Prop :=
  ∀ (j : Nat) (s : Sess), w.sess[j]? = some s → LReach Core.init s.core

theorem good_empty : Good World.empty := by
  intro j s h; simp [World.empty] at h

theorem good_modify {w w' : World} {j : Nat} {f : Sess → Sess}
    (h : w.modify j f = some w') (hf : ∀ s, (f s).core = s.core) (hg : Good w) : Good w' := by
  unfold World.modify at h
  cases hs : w.sess[j]? with
  | none => simp [hs] at h
  | some s =>
    simp only [hs, Option.some.injEq] at h
    subst h
    intro k t hk
    simp only [List.getElem?_set] at hk
    split at hk
    · split at hk
      · simp only [Option.some.injEq] at hk; subst hk; rw [hf]; exact hg j s hs
      · cases hk
    · exact hg k t hk

theorem good_applyPrim {w w' : World} {p : Prim}
    (h : applyPrim w p = some w') (hg : Good w) : Good w' := by
  cases p with
  | core j e =>
    simp only [applyPrim] at h
    cases hs : w.sess[j]? with
    | none => simp [hs] at h
    | some s =>
      simp only [hs] at h
      cases hl : lstep s.core e with
      | none => simp [hl] at h
      | some c =>
        simp only [hl, Option.some.injEq] at h
        subst h
        intro k t hk
        simp only [List.getElem?_set] at hk
        split at hk
        · split at hk
          · simp only [Option.some.injEq] at hk; subst hk
            exact .step e (hg j s hs) hl
          · cases hk
        · exact hg k t hk
  | acc j q => simp only [applyPrim] at h; exact good_modify h (fun _ => rfl) hg
  | sid j q => simp only [applyPrim] at h; exact good_modify h (fun _ => rfl) hg
  | id j v => simp only [applyPrim] at h; exact good_modify h (fun _ => rfl) hg
  | put k v => simp only [applyPrim, Option.some.injEq] at h; subst h; exact hg
  | delIf k v => simp only [applyPrim, Option.some.injEq] at h; subst h; exact hg
  | new peer partner id path =>
    simp only [applyPrim, Option.some.injEq] at h
    subst h
    intro k t hk
    simp only [List.getElem?_append] at hk
    split at hk
    · exact hg k t hk
    · rename_i hlt
      cases hd : k - w.sess.length with
      | zero => simp [hd] at hk; subst hk; exact .refl _
      | succ n => simp [hd] at hk

theorem good_applyPrims {ps : List Prim} {w w' : World}
    (h : applyPrims w ps = some w') (hg : Good w) : Good w' := by
  induction ps generalizing w with
  | nil => simp only [applyPrims, Option.some.injEq] at h; subst h; exact hg
  | cons p ps ih =>
    simp only [applyPrims] at h
    cases hp : applyPrim w p with
    | none => simp [hp] at h
    | some w1 =>
      simp only [hp, Option.bind_some] at h
      exact ih h (good_applyPrim hp hg)

theorem good_step {w w' : World} {ev : Ev} (h : step w ev = some w') (hg : Good w) :
    Good w' := by
  unfold step at h
  cases hp : plan w ev with
  | none => simp [hp] at h
  | some ps => simp only [hp, Option.bind_some] at h; exact good_applyPrims h hg

theorem good_reach {a w : World} (r : Reach a w) (hg : Good a) : Good w := by
  induction r with
  | refl => exact hg
  | step ev _ h ih => exact good_step h ih


theorem good_of_reach {w : World} (r : Reach World.empty w) : Good w :=
  good_reach r good_empty

theorem reach_of_run_aux {evs : List Ev} {a : World} :
    ∀ (x b : World), Reach a x → run x evs = some b → Reach a b := by
  induction evs with
  | nil => intro x b r hx; simp only [run, Option.some.injEq] at hx; subst hx; exact r
  | cons e es ih =>
    intro x b r hx
    simp only [run] at hx
    cases hs : step x e with
    | none => simp [hs] at hx
    | some y =>
      simp only [hs, Option.bind_some] at hx
      exact ih y b (Reach.step e r hs) hx

theorem reach_of_run {evs : List Ev} {a b : World} (h : run a evs = some b) : Reach a b :=
  reach_of_run_aux a b (.refl a) h

/-- every session of a reachable world went from `newSession` through `lstep`s only. -/
theorem sess_reach {w : World} (r : Reach World.empty w) {s : Sess} (hs : s ∈ w.sess) :
    LReach Core.init s.core := by
  obtain ⟨j, hj⟩ := List.mem_iff_getElem?.1 hs
  exact good_of_reach r j s hj


/-- hook counts under the invariant. -/
theorem rinv_disc {c : Core} (hi : RInv c) :
    c.discCnt ≤ 1 ∧ ((c.st = .ok ∨ c.st = .preparing) → c.discCnt = 0) ∧
    (c.st.isClosed = true → c.quiet = true → c.discCnt = 1) := by
  obtain ⟨ph, st, closer, reader, rst, dn, nc, dc, sc, eof, hd, lf, lt, lh⟩ := c
  cases st <;> simp_all [RInv, Core.quiet, Status.isClosed]
  · obtain ⟨_, h | h, _⟩ := hi
    · exact ⟨by omega, fun hc _ => by rcases h.1 with e | e <;> rw [e] at hc <;> cases hc⟩
    · exact ⟨by omega, fun _ _ => h.2⟩
  · obtain ⟨_, _, h | h | h⟩ := hi
    · exact ⟨by omega, fun hq => by rw [h.1] at hq; simp at hq⟩
    · exact ⟨by omega, fun hq => by rw [h.1] at hq; simp at hq⟩
    · exact ⟨by omega, fun _ => h.2⟩


/-- the ghost `left` is sound: a step that changes a closed status sets it. -/
theorem left_sound {c c' : Core} {e : LEv} (h : lstep c e = some c') (hc : c.st.isClosed = true)
    (hne : c'.st ≠ c.st) : c'.left = true := by
  lstep_split h
  all_goals (
    first
    | obtain ⟨rfl, g1, g2, g3, g4, rfl⟩ := h
    | obtain ⟨rfl, g1, g2, g3, rfl⟩ := h
    | obtain ⟨rfl, g1, g2, rfl⟩ := h
    | obtain ⟨rfl, g1, rfl⟩ := h
    | obtain ⟨rfl, rfl⟩ := h)
  all_goals (
    obtain ⟨ph, st, closer, reader, rst, dn, nc, dc, sc, eof, hd, lf, lt, lh⟩ := c
    cases st <;> simp_all [Core.store, Core.notify, Status.isClosed] <;> (try (split at hne <;> simp_all)))

/-- the ghost never resets. -/
theorem left_mono {c c' : Core} {e : LEv} (h : lstep c e = some c') (hl : c.left = true) : c'.left = true := by
  lstep_split h
  all_goals (
    first
    | obtain ⟨rfl, g1, g2, g3, g4, rfl⟩ := h
    | obtain ⟨rfl, g1, g2, g3, rfl⟩ := h
    | obtain ⟨rfl, g1, g2, rfl⟩ := h
    | obtain ⟨rfl, g1, rfl⟩ := h
    | obtain ⟨rfl, rfl⟩ := h)
  all_goals (simp_all [Core.store, Core.notify] <;> (try split) <;> simp_all)

/-! ## the index alone -/

namespace AL
variable {κ : Type} [DecidableEq κ]

theorem get_put_same (h : AL κ) (k : κ) (v : Nat) : (h.put k v).get k = some v := by
  induction h with
  | nil => simp [put, get]
  | cons p t ih =>
    obtain ⟨k', v'⟩ := p
    by_cases hk : k' = k <;> simp [put, get, hk, ih]

theorem get_put_ne (h : AL κ) {k k' : κ} (v : Nat) (hne : k' ≠ k) : (h.put k v).get k' = h.get k' := by
  induction h with
  | nil => simp [put, get, Ne.symm hne]
  | cons p t ih =>
    obtain ⟨k2, v2⟩ := p
    by_cases hk : k2 = k
    · subst hk; simp [put, get, Ne.symm hne]
    · by_cases hk' : k2 = k'
      · subst hk'; simp [put, get, hk]
      · simp [put, get, hk, hk', ih]

theorem get_del_same (h : AL κ) (k : κ) : (h.del k).get k = none := by
  induction h with
  | nil => simp [del, get]
  | cons p t ih =>
    obtain ⟨k', v'⟩ := p
    by_cases hk : k' = k <;> simp [del, get, hk, ih]

theorem get_del_ne (h : AL κ) {k k' : κ} (hne : k' ≠ k) : (h.del k).get k' = h.get k' := by
  induction h with
  | nil => simp [del, get]
  | cons p t ih =>
    obtain ⟨k2, v2⟩ := p
    by_cases hk : k2 = k
    · subst hk; simp [del, get, Ne.symm hne, ih]
    · by_cases hk' : k2 = k'
      · subst hk'; simp [del, get, hk]
      · simp [del, get, hk, hk', ih]

theorem put_get_same (h : AL κ) {k : κ} {v : Nat} (hg : h.get k = some v) : h.put k v = h := by
  induction h with
  | nil => simp [get] at hg
  | cons p t ih =>
    obtain ⟨k', v'⟩ := p
    by_cases hk : k' = k
    · subst hk; simp [get] at hg; simp [put, hg]
    · simp [get, hk] at hg; simp [put, hk, ih hg]

/-- `delete(id, sess)` when the id maps to `sess`: the entry goes. -/
theorem get_delIf_hit (h : AL κ) {k : κ} {v : Nat} (hg : h.get k = some v) : (h.delIf k v).get k = none := by
  simp [delIf, hg, get_del_same]

/-- `delete(id, sess)` when the id maps to another session (or to none): nothing happens. -/
theorem delIf_miss (h : AL κ) {k : κ} {v : Nat} (hg : h.get k ≠ some v) : h.delIf k v = h := by
  simp [delIf, hg]

/-- other ids are never touched. -/
theorem get_delIf_ne (h : AL κ) {k k' : κ} (v : Nat) (hne : k' ≠ k) : (h.delIf k v).get k' = h.get k' := by
  unfold delIf
  split
  · exact get_del_ne _ hne
  · rfl

/-- an entry of another session survives `delete(id, sess)`. -/
theorem get_delIf_other (h : AL κ) {k k' : κ} {v t : Nat} (hg : h.get k' = some t) (hne : t ≠ v) :
    (h.delIf k v).get k' = some t := by
  by_cases hk : k' = k
  · subst hk
    rw [delIf_miss _ (by rw [hg]; intro e; cases e; exact hne rfl)]; exact hg
  · rw [get_delIf_ne _ _ hk]; exact hg

/-- whatever `delete(id, sess)` leaves was there before. -/
theorem get_delIf_some (h : AL κ) {k k' : κ} {v t : Nat} (hg : (h.delIf k v).get k' = some t) :
    h.get k' = some t ∧ ¬ (k' = k ∧ t = v) := by
  by_cases hk : k' = k
  · subst hk
    by_cases hv : h.get k' = some v
    · rw [get_delIf_hit _ hv] at hg; cases hg
    · rw [delIf_miss _ hv] at hg
      exact ⟨hg, fun e => hv (by rw [hg, e.2])⟩
  · rw [get_delIf_ne _ _ hk] at hg
    exact ⟨hg, fun e => hk e.1⟩

end AL

/-- exact except that session `x` (if any) is missing from the index. -/
def HSt.ExB (h : HSt) (x : Option Nat) : Prop :=
  ∀ k t, h.hub.get k = some t ↔ (t < h.n ∧ h.live t = true ∧ h.idOf t = k ∧ some t ≠ x)

theorem exact_iff_exb (h : HSt) : h.Exact ↔ h.ExB none := by
  simp [HSt.Exact, HSt.ExB]

/-- `Close()` / disconnect of an indexed (or already closed) session: the rest stays as it is. -/
theorem kill_exb_other {h : HSt} {x : Option Nat} {s : Nat} (hs : s < h.n) (hne : x ≠ some s)
    (hx : h.ExB x) : (h.kill s).ExB x := by
  unfold HSt.kill
  by_cases hl : h.live s = true
  · have hg : h.hub.get (h.idOf s) = some s := (hx _ s).2 ⟨hs, hl, rfl, fun e => hne e.symm⟩
    simp only [hl, if_true]
    intro k t
    show (h.hub.delIf (h.idOf s) s).get k = some t ↔
      (t < h.n ∧ (if t = s then false else h.live t) = true ∧ h.idOf t = k ∧ some t ≠ x)
    constructor
    · intro hd
      obtain ⟨h0, hns⟩ := AL.get_delIf_some _ hd
      obtain ⟨a, b, c, d⟩ := (hx k t).1 h0
      have hts : t ≠ s := by
        intro e; subst e; exact hns ⟨c.symm, rfl⟩
      exact ⟨a, by simp [hts, b], c, d⟩
    · rintro ⟨a, b, c, d⟩
      by_cases hts : t = s
      · simp [hts] at b
      · simp only [hts, if_false] at b
        exact AL.get_delIf_other _ ((hx k t).2 ⟨a, b, c, d⟩) hts
  · simp only [hl]
    exact hx

/-- `Close()` / disconnect of the session that is not (yet) indexed: entries of other sessions —
    one of them may hold the same id — are not touched. -/
theorem kill_exb_self {h : HSt} {s : Nat} (hx : h.ExB (some s)) : (h.kill s).Exact := by
  unfold HSt.kill
  by_cases hl : h.live s = true
  · simp only [hl, if_true]
    have hmiss : h.hub.get (h.idOf s) ≠ some s := by
      intro e; exact ((hx _ s).1 e).2.2.2 rfl
    intro k t
    show (h.hub.delIf (h.idOf s) s).get k = some t ↔
      (t < h.n ∧ (if t = s then false else h.live t) = true ∧ h.idOf t = k)
    rw [AL.delIf_miss _ hmiss]
    constructor
    · intro hg
      obtain ⟨a, b, c, d⟩ := (hx k t).1 hg
      have hts : t ≠ s := fun e => d (by rw [e])
      exact ⟨a, by simp [hts, b], c⟩
    · rintro ⟨a, b, c⟩
      by_cases hts : t = s
      · simp [hts] at b
      · simp only [hts, if_false] at b
        exact (hx k t).2 ⟨a, b, c, fun e => hts (by cases e; rfl)⟩
  · simp only [hl]
    intro k t
    constructor
    · intro hg
      obtain ⟨a, b, c, _⟩ := (hx k t).1 hg
      exact ⟨a, b, c⟩
    · rintro ⟨a, b, c⟩
      exact (hx k t).2 ⟨a, b, c, fun e => by cases e; exact hl b⟩

/-- `Close()` / disconnect of any session keeps an exact index exact. -/
theorem kill_exact {h : HSt} (s : Nat) (hs : s < h.n) (he : h.Exact) : (h.kill s).Exact :=
  (exact_iff_exb _).2 (kill_exb_other hs (by intro e; cases e) ((exact_iff_exb _).1 he))

/-- `hub.set(s)` of a live session that is indexed under its id (`x = none`) or not yet indexed
    (`x = some s`): afterwards the index is exact — a previous holder of the id is closed, and its
    close path leaves the entry (which now maps to `s`) alone. -/
theorem set_exact {h : HSt} {s : Nat} {x : Option Nat} (hxs : x = none ∨ x = some s)
    (hs : s < h.n) (hl : h.live s = true) (hx : h.ExB x) :
    (h.set s).Exact ∧ (h.set s).n = h.n ∧ (h.set s).idOf = h.idOf ∧ (h.set s).live s = true := by
  have hxt : ∀ t, t ≠ s → some t ≠ x := by
    intro t ht e
    rcases hxs with r | r
    · rw [r] at e; cases e
    · rw [r] at e; cases e; exact ht rfl
  unfold HSt.set
  cases hg : h.hub.get (h.idOf s) with
  | none =>
    refine ⟨?_, rfl, rfl, hl⟩
    intro k t
    show (h.hub.put (h.idOf s) s).get k = some t ↔ _
    by_cases hk : k = h.idOf s
    · subst hk
      rw [AL.get_put_same]
      constructor
      · intro e; cases e; exact ⟨hs, hl, rfl⟩
      · rintro ⟨a, b, c⟩
        by_cases hts : t = s
        · rw [hts]
        · have := (hx _ t).2 ⟨a, b, c, hxt t hts⟩
          rw [hg] at this; cases this
    · rw [AL.get_put_ne _ _ hk]
      constructor
      · intro h0
        obtain ⟨a, b, c, _⟩ := (hx k t).1 h0
        exact ⟨a, b, c⟩
      · rintro ⟨a, b, c⟩
        exact (hx k t).2 ⟨a, b, c, hxt t (fun e => hk (by rw [← c, e]))⟩
  | some old =>
    obtain ⟨oa, ob, oc, od⟩ := (hx _ old).1 hg
    by_cases hos : old = s
    · -- already indexed under its id: nothing changes
      subst hos
      simp only [if_true]
      refine ⟨?_, by trivial, by trivial, hl⟩
      rw [AL.put_get_same _ hg]
      intro k t
      constructor
      · intro h0
        obtain ⟨a, b, c, _⟩ := (hx k t).1 h0
        exact ⟨a, b, c⟩
      · rintro ⟨a, b, c⟩
        by_cases hts : t = old
        · rw [hts, ← c, hts]; exact hg
        · exact (hx k t).2 ⟨a, b, c, hxt t hts⟩
    · -- take-over: the previous holder is closed; the entry maps to `s` now and stays
      simp only [hos, if_false]
      unfold HSt.kill
      simp only [ob, if_true]
      have hmiss : (h.hub.put (h.idOf s) s).get (h.idOf old) ≠ some old := by
        rw [oc, AL.get_put_same]; intro e; cases e; exact hos rfl
      refine ⟨?_, by trivial, by trivial, by simp [Ne.symm hos, hl]⟩
      intro k t
      show ((h.hub.put (h.idOf s) s).delIf (h.idOf old) old).get k = some t ↔
        (t < h.n ∧ (if t = old then false else h.live t) = true ∧ h.idOf t = k)
      rw [AL.delIf_miss _ hmiss]
      by_cases hk : k = h.idOf s
      · subst hk
        rw [AL.get_put_same]
        constructor
        · intro e; cases e; exact ⟨hs, by simp [Ne.symm hos, hl], rfl⟩
        · rintro ⟨a, b, c⟩
          by_cases hto : t = old
          · simp [hto] at b
          · simp only [hto, if_false] at b
            by_cases hts : t = s
            · rw [hts]
            · have := (hx _ t).2 ⟨a, b, c, hxt t hts⟩
              rw [hg] at this; cases this; exact absurd rfl hto
      · rw [AL.get_put_ne _ _ hk]
        constructor
        · intro h0
          obtain ⟨a, b, c, _⟩ := (hx k t).1 h0
          have hto : t ≠ old := fun e => hk (by rw [← c, e, oc])
          exact ⟨a, by simp [hto, b], c⟩
        · rintro ⟨a, b, c⟩
          by_cases hto : t = old
          · simp [hto] at b
          · simp only [hto, if_false] at b
            exact (hx k t).2 ⟨a, b, c, hxt t (fun e => hk (by rw [← c, e]))⟩

/-- the index after `Store(v, s)` and `delete(oldID, s)`, in terms of the state before. -/
theorem setID_core {h : HSt} {s v : Nat} {x : Option Nat} (hxs : x = none ∨ x = some s)
    (hs : s < h.n) (hl : h.live s = true) (hx : h.ExB x) (hne : h.idOf s ≠ v) (k t : Nat) :
    ((h.hub.put v s).delIf (h.idOf s) s).get k = some t ↔
      (t < h.n ∧ h.live t = true ∧ (if t = s then v else h.idOf t) = k ∧ h.hub.get v ≠ some t) := by
  have hxt : ∀ t, t ≠ s → some t ≠ x := by
    intro t ht e
    rcases hxs with r | r
    · rw [r] at e; cases e
    · rw [r] at e; cases e; exact ht rfl
  have hvs : h.hub.get v ≠ some s := fun e => hne ((hx v s).1 e).2.2.1
  constructor
  · intro hd
    obtain ⟨h0, hns⟩ := AL.get_delIf_some _ hd
    by_cases hk : k = v
    · subst hk
      rw [AL.get_put_same] at h0
      cases h0
      exact ⟨hs, hl, by simp, hvs⟩
    · rw [AL.get_put_ne _ _ hk] at h0
      obtain ⟨a, b, c, _⟩ := (hx k t).1 h0
      have hts : t ≠ s := fun e => hns ⟨by rw [← c, e], e⟩
      refine ⟨a, b, by simp [hts, c], fun e => ?_⟩
      exact hk (by rw [← c, ((hx v t).1 e).2.2.1])
  · rintro ⟨a, b, c, d⟩
    by_cases hts : t = s
    · subst hts
      simp only [if_true] at c
      subst c
      rw [AL.get_delIf_ne _ _ (Ne.symm hne)]
      exact AL.get_put_same _ _ _
    · simp only [hts, if_false] at c
      have h0 := (hx k t).2 ⟨a, b, c, hxt t hts⟩
      have hk : k ≠ v := fun e => d (by rw [← e]; exact h0)
      refine AL.get_delIf_other _ ?_ hts
      rw [AL.get_put_ne _ _ hk]; exact h0

/-- `SetID(v)` on a live session that is indexed (`x = none`) or not yet indexed (`x = some s`,
    accept hook), to ANY other id — free, or held by another live session (which is then closed):
    afterwards the index is exact; the old id's entry goes only if it was this session's. -/
theorem setID_exact {h : HSt} {s v : Nat} {x : Option Nat} (hxs : x = none ∨ x = some s)
    (hs : s < h.n) (hl : h.live s = true) (hx : h.ExB x) (hne : h.idOf s ≠ v) :
    (h.setID s v).Exact ∧ (h.setID s v).n = h.n ∧ (h.setID s v).live s = true := by
  have core := setID_core hxs hs hl hx hne
  unfold HSt.setID
  simp only [hne, if_false, hl, if_true]
  unfold HSt.set
  simp only [if_true]
  cases hgv : h.hub.get v with
  | none =>
    refine ⟨?_, by trivial, hl⟩
    intro k t
    show ((h.hub.put v s).delIf (h.idOf s) s).get k = some t ↔
      (t < h.n ∧ h.live t = true ∧ (if t = s then v else h.idOf t) = k)
    rw [core k t, hgv]
    simp
  | some o =>
    obtain ⟨oa, ob, oc, od⟩ := (hx _ o).1 hgv
    have hos : o ≠ s := fun e => hne (by rw [← e]; exact oc)
    simp only [hos, if_false]
    unfold HSt.kill
    simp only [ob, if_true]
    have hmiss : (h.hub.put v s).get v ≠ some o := by
      rw [AL.get_put_same]; intro e; cases e; exact hos rfl
    refine ⟨?_, by trivial, by simp [Ne.symm hos, hl]⟩
    intro k t
    show (((h.hub.put v s).delIf (if o = s then v else h.idOf o) o).delIf (h.idOf s) s).get k = some t ↔
      (t < h.n ∧ (if t = o then false else h.live t) = true ∧ (if t = s then v else h.idOf t) = k)
    simp only [hos, if_false]
    rw [oc, AL.delIf_miss _ hmiss, core k t, hgv]
    constructor
    · rintro ⟨a, b, c, d⟩
      have hto : t ≠ o := fun e => d (by rw [e])
      exact ⟨a, by simp [hto, b], c⟩
    · rintro ⟨a, b, c⟩
      by_cases hto : t = o
      · simp [hto] at b
      · simp only [hto, if_false] at b
        exact ⟨a, b, c, fun e => by cases e; exact hto rfl⟩

/-- `SetID` on a session that is not in Preparing / Ok: only the socket id changes. -/
theorem setID_dead {h : HSt} {s v : Nat} (hl : h.live s ≠ true) (he : h.Exact) : (h.setID s v).Exact := by
  unfold HSt.setID
  by_cases hne : h.idOf s = v
  · simp only [hne, if_true]; exact he
  · simp only [hne, if_false, hl]
    intro k t
    show h.hub.get k = some t ↔ (t < h.n ∧ h.live t = true ∧ (if t = s then v else h.idOf t) = k)
    constructor
    · intro hg
      obtain ⟨a, b, c⟩ := (he k t).1 hg
      have hts : t ≠ s := fun e => hl (by rw [← e]; exact b)
      exact ⟨a, b, by simp [hts, c]⟩
    · rintro ⟨a, b, c⟩
      have hts : t ≠ s := fun e => hl (by rw [← e]; exact b)
      simp only [hts, if_false] at c
      exact (he k t).2 ⟨a, b, c⟩

/-- one operation of a history keeps the index exact, whatever ids it shares and whatever session
    it re-keys. -/
theorem apply_exact {h : HSt} {o : HOp} (he : h.Exact) : (h.apply o).Exact := by
  cases o with
  | close s =>
    simp only [HSt.apply]
    split
    · exact kill_exact s (by assumption) he
    · exact he
  | disconnect s =>
    simp only [HSt.apply]
    split
    · exact kill_exact s (by assumption) he
    · exact he
  | setID s v =>
    simp only [HSt.apply]
    split
    · rename_i hs
      by_cases hl : h.live s = true
      · by_cases hne : h.idOf s = v
        · simp only [HSt.setID, hne, if_true]; exact he
        · exact (setID_exact (x := none) (.inl rfl) hs hl ((exact_iff_exb h).1 he) hne).1
      · exact setID_dead hl he
    · exact he
  | accept id hook rej =>
    simp only [HSt.apply]
    -- the state after `newSession`: exact except for the new session
    let h1 : HSt := { h with n := h.n + 1, idOf := fun x => if x = h.n then id else h.idOf x,
                              live := fun x => if x = h.n then true else h.live x }
    have hx1 : h1.ExB (some h.n) := by
      intro k t
      show h.hub.get k = some t ↔ _
      constructor
      · intro hg
        have := (he k t).1 hg
        have htn : t ≠ h.n := Nat.ne_of_lt this.1
        refine ⟨Nat.lt_succ_of_lt this.1, by simp [h1, htn, this.2.1], by simp [h1, htn, this.2.2], ?_⟩
        intro e; cases e; exact htn rfl
      · rintro ⟨a, b, c, d⟩
        have htn : t ≠ h.n := by intro e; exact d (by rw [e])
        have hlt : t < h.n := by
          have : t < h.n + 1 := a
          omega
        simp only [h1, htn, if_false] at b c
        exact (he k t).2 ⟨hlt, b, c⟩
    have hs1 : h.n < h1.n := Nat.lt_succ_self _
    have hl1 : h1.live h.n = true := by simp [h1]
    cases hook with
    | none =>
      cases rej with
      | true =>
        show HSt.Exact (h1.kill h.n)
        exact kill_exb_self hx1
      | false =>
        show HSt.Exact (h1.set h.n)
        exact (set_exact (.inr rfl) hs1 hl1 hx1).1
    | some v =>
      by_cases hne : h1.idOf h.n = v
      · have e : h1.setID h.n v = h1 := by simp [HSt.setID, hne]
        cases rej with
        | true =>
          show HSt.Exact ((h1.setID h.n v).kill h.n)
          rw [e]; exact kill_exb_self hx1
        | false =>
          show HSt.Exact ((h1.setID h.n v).set h.n)
          rw [e]; exact (set_exact (.inr rfl) hs1 hl1 hx1).1
      · obtain ⟨r1, r2, r3⟩ := setID_exact (x := some h.n) (.inr rfl) hs1 hl1 hx1 hne
        cases rej with
        | true =>
          show HSt.Exact ((h1.setID h.n v).kill h.n)
          exact kill_exact _ (by rw [r2]; exact hs1) r1
        | false =>
          show HSt.Exact ((h1.setID h.n v).set h.n)
          exact (set_exact (x := none) (.inl rfl) (by rw [r2]; exact hs1) r3 ((exact_iff_exb _).1 r1)).1

theorem run_exact {ops : List HOp} {h : HSt} (he : h.Exact) : (h.run ops).Exact := by
  induction ops generalizing h with
  | nil => exact he
  | cons o os ih => exact ih (apply_exact he)

/-- the take-over itself, spelled out: a new connection whose id a live session `t` holds ends
    with the new session live and found under the id, and `t` closed. -/
theorem accept_takeover {h : HSt} {id t : Nat} (he : h.Exact) (ht : t < h.n)
    (lt : h.live t = true) (hid : h.idOf t = id) :
    let h' := h.apply (.accept id none false)
    h'.live h.n = true ∧ h'.idOf h.n = id ∧ h.n < h'.n ∧ h'.hub.get id = some h.n ∧ h'.live t = false := by
  have hg : h.hub.get id = some t := (he id t).2 ⟨ht, lt, hid⟩
  have htn : t ≠ h.n := Nat.ne_of_lt ht
  have hmiss : (h.hub.put id h.n).get id ≠ some t := by
    rw [AL.get_put_same]; intro e; cases e; exact htn rfl
  simp only [HSt.apply, HSt.set, if_true, hg, htn, if_false, HSt.kill, lt, hid, Bool.false_eq_true]
  refine ⟨by simp [Ne.symm htn], by simp, by simp, ?_, by simp⟩
  show ((h.hub.put id h.n).delIf id t).get id = some h.n
  rw [AL.delIf_miss _ hmiss, AL.get_put_same]

/-- `SetID` to the id of another live session `t`: the re-keyed session is found under the new id,
    `t` is closed, the old id is free. -/
theorem setID_takeover {h : HSt} {s t v : Nat} (he : h.Exact) (hs : s < h.n) (ht : t < h.n)
    (hst : t ≠ s) (ls : h.live s = true) (lt : h.live t = true) (hv : h.idOf t = v) (hne : h.idOf s ≠ v) :
    let h' := h.apply (.setID s v)
    h'.live s = true ∧ h'.idOf s = v ∧ h'.hub.get v = some s ∧ h'.live t = false ∧
      h'.hub.get (h.idOf s) = none := by
  have hx := (setID_exact (x := none) (.inl rfl) hs ls ((exact_iff_exb h).1 he) hne)
  have hg : h.hub.get v = some t := (he v t).2 ⟨ht, lt, hv⟩
  have hid : (h.apply (.setID s v)).idOf s = v := by
    simp [HSt.apply, hs, HSt.setID, hne, HSt.set, hg, hst, HSt.kill, lt, ls]
  have hlt : (h.apply (.setID s v)).live t = false := by
    simp [HSt.apply, hs, HSt.setID, hne, HSt.set, hg, hst, HSt.kill, lt, ls]
  have hn' : (h.apply (.setID s v)).n = h.n := by
    simp [HSt.apply, hs, HSt.setID, hne, HSt.set, hg, hst, HSt.kill, lt, ls]
  have hidx : ∀ y, y ≠ s → (h.apply (.setID s v)).idOf y = h.idOf y := by
    intro y hy
    simp [HSt.apply, hs, HSt.setID, hne, HSt.set, hg, hst, HSt.kill, lt, ls, hy]
  have hE : (h.apply (.setID s v)).Exact := by simpa [HSt.apply, hs] using hx.1
  have hL : (h.apply (.setID s v)).live s = true := by simpa [HSt.apply, hs] using hx.2.2
  refine ⟨hL, hid, (hE v s).2 ⟨by rw [hn']; exact hs, hL, hid⟩, hlt, ?_⟩
  cases hc : (h.apply (.setID s v)).hub.get (h.idOf s) with
  | none => rfl
  | some y =>
    obtain ⟨a, b, c⟩ := (hE _ y).1 hc
    by_cases hy : y = s
    · rw [hy, hid] at c; exact absurd c.symm hne
    · rw [hidx y hy] at c
      -- y held the old id of s before: then y = s in the exact index
      have hy' : h.hub.get (h.idOf s) = some s := (he _ s).2 ⟨hs, ls, rfl⟩
      have hyl : h.live y = true := by
        by_cases hyt : y = t
        · rw [hyt]; exact lt
        · have : (h.apply (.setID s v)).live y = h.live y := by
            simp [HSt.apply, hs, HSt.setID, hne, HSt.set, hg, hst, HSt.kill, lt, ls, hyt]
          rw [← this]; exact b
      have := (he _ y).2 ⟨by rw [← hn']; exact a, hyl, c⟩
      rw [hy'] at this; cases this; exact absurd rfl hy

end Teleport.Lifecycle
