/-
Model/Redial — the client session's redial machine (C13), as coded.

Go ↔ Lean
  dialer.go   redialCounter.Next                → `counterNext`
  dialer.go   dialWithRetry (first attempt + `for redialTimes.Next()` loop) → `dialRound`
              (`loopQ` = the loop while the scripted availability lasts, `stickyTail` = afterwards)
  peer.go     Dial: redial closure (`redialForClientLocked`) → `applyAttempt` (one attempt's
              callback: socket.Reset, id rule, status Preparing, dial hooks, on failure conn.Close
              and status Redialing), `redialLocked` (conn check, status CAS, round, both endings)
  session.go  closeLocked                        → `closeLocked` (its CAS from Ok/Preparing)
  session.go  redialForClient                    → pcs `xLock`, `xLocked`
  session.go  readDisconnected                   → pcs `rErr … dFinal` of a reader thread
  session.go  AsyncCall / Push write loop, write → pcs `wCheck`, `wWrite` of a writer thread
  session.go  Health, SetID, sessHub.set/delete  → `State.health`, `setUser`, `hubSet`, `List.erase`

A connection is a natural number: the k-th successful dial of the session (0 = the first `Dial`).
Every successful dial is followed by `socket.Reset`, so the socket always holds the newest one.
Server availability is environment input: one `Avail` per dial attempt.
Atomicity assumption (stated in DESIGN): the body of `redialForClient` between taking `s.lock`
and releasing it is one step (`xLocked`); every other step is one gate-to-gate segment of the code.
-/
namespace Teleport.Redial

/-- session status, in the order of the `iota` block of session.go. -/
inductive Status
  | preparing | ok | activeClosing | activeClosed | passiveClosing | passiveClosed | redialing | redialFailed
deriving DecidableEq, Repr

def Status.code : Status → Nat
  | .preparing => 0 | .ok => 1 | .activeClosing => 2 | .activeClosed => 3
  | .passiveClosing => 4 | .passiveClosed => 5 | .redialing => 6 | .redialFailed => 7

/-- what one dial attempt meets: server up; dial refused; connection established but the dial
    hook fails (the connection is lost during the redial). -/
inductive Avail
  | up | down | hookFail
deriving DecidableEq, Repr

/-- scripted availability: a finite queue, then `sticky` for ever. -/
structure Env where
  q : List Avail
  sticky : Avail
deriving DecidableEq, Repr

def Env.pop (e : Env) : Avail × Env :=
  match e.q with
  | a :: r => (a, { e with q := r })
  | [] => (e.sticky, e)

/-- `redialCounter.Next`: (continue?, counter afterwards). -/
def counterNext (t : Int) : Bool × Int :=
  if t = 0 then (false, t) else if t > 0 then (true, t - 1) else (true, t)

inductive RoundEnd
  | success | failed | hang
deriving DecidableEq, Repr

/-- the retry loop once the queue is used up: `n` = remaining (non-negative) counter. -/
def stickyTail (st : Avail) : Nat → List Avail × RoundEnd
  | 0 => ([], .failed)
  | n + 1 =>
    if st = .up then ([st], .success)
    else ((st :: (stickyTail st n).1), (stickyTail st n).2)

/-- the retry loop `for redialTimes.Next() { sleep; dialOne; fn }` with counter `c`:
    attempts made, how it ends, what is left of the queue. -/
def loopQ (st : Avail) : Int → List Avail → List Avail × RoundEnd × List Avail
  | c, [] =>
    if c < 0 then (if st = .up then ([st], .success, []) else ([], .hang, []))
    else ((stickyTail st c.toNat).1, (stickyTail st c.toNat).2, [])
  | c, a :: q =>
    if (counterNext c).1 then
      if a = .up then ([a], .success, q)
      else (a :: (loopQ st (counterNext c).2 q).1, (loopQ st (counterNext c).2 q).2.1, (loopQ st (counterNext c).2 q).2.2)
    else ([], .failed, a :: q)

structure Round where
  tried : List Avail
  fin : RoundEnd
  rest : Env
deriving DecidableEq, Repr

/-- `dialWithRetry`: the first attempt, then the loop with a fresh counter = the budget. -/
def dialRound (budget : Int) (env : Env) : Round :=
  if env.pop.1 = .up then ⟨[.up], .success, env.pop.2⟩
  else
    let r := loopQ env.pop.2.sticky budget env.pop.2.q
    ⟨env.pop.1 :: r.1, r.2.1, { env.pop.2 with q := r.2.2 }⟩

/-- key of the peer's session index: the local address of connection `k`, or the user's id. -/
inductive Key
  | addr (k : Nat)
  | user
deriving DecidableEq, Repr

/-- a pending-call table entry. `res = none`: still in the table. -/
structure Call where
  conn : Nat
  hasReply : Bool
  res : Option Nat
deriving DecidableEq, Repr

inductive Role
  | reader (k : Nat)
  | caller (i : Nat)
  | pusher
deriving DecidableEq, Repr

/-- program counters; the gate name of the real code at which a thread with this pc stands. -/
inductive Pc
  | rRead                      -- reader: blocked in ReadMessage
  | rErr                       -- ReadMessage failed                      [read.msg]
  | dLoaded (st : Status)      -- readDisconnected loaded the status      [disc.load]
  | dStored (st : Status)      -- status CAS loaded → PassiveClosing done  [disc.store]
  | dCancel (st : Status)      -- index entry deleted, handlers awaited   [disc.cancel]
  | dClose (st : Status)       -- cancel loop done
  | dRedial                    -- socket closed                           [disc.redial]
  | dFinal                     -- redialForClient said false              [final.store]
  | wCheck                     -- writer: about to read conn and status
  | wWrite (used : Nat) (st : Status)   --                                [write.check]
  | wAwait                     -- AsyncCall returned, call pending
  | wDone (code : Nat)
  | xLock (old : Nat)          -- redialForClient: waiting for s.lock
  | xLocked (old : Nat)        -- lock held                               [redial.locked]
  | stuck                      -- inside an unbounded retry loop that never ends
  | exit
deriving DecidableEq, Repr

structure Thread where
  role : Role
  pc : Pc
deriving DecidableEq, Repr

structure State where
  status : Status
  conn : Nat
  sockClosed : Bool
  dead : List Nat
  budget : Int
  werrEOF : Bool
  env : Env
  calls : List Call
  threads : List Thread
  lock : Bool
  notified : Bool
  discHook : Nat
  hub : List Key
  id : Key
  dialLog : List Bool
  rounds : List Nat
  redials : List Nat
deriving DecidableEq, Repr

/-- the state right after a successful `Dial`. -/
def State.init (budget : Int) (eof : Bool) : State :=
  { status := .ok, conn := 0, sockClosed := false, dead := [], budget := budget, werrEOF := eof,
    env := ⟨[], .up⟩, calls := [], threads := [⟨.reader 0, .rRead⟩], lock := false,
    notified := false, discHook := 0, hub := [.addr 0], id := .addr 0, dialLog := [false],
    rounds := [], redials := [] }

/-- `redialForClientLocked != nil`. -/
def State.redial (s : State) : Bool := s.budget != 0

def State.health (s : State) : Bool :=
  s.status == .ok || (s.redial && s.status == .passiveClosed)

def hubSet (h : List Key) (k : Key) : List Key := if k ∈ h then h else h ++ [k]

/-- the callback of one dial attempt inside the redial closure. -/
def applyAttempt (auto : Bool) (oldId : Key) (s : State) (a : Avail) : State :=
  match a with
  | .down => s
  | .up =>
    { s with conn := s.conn + 1, sockClosed := false,
             id := if auto then .addr (s.conn + 1) else oldId,
             status := .preparing, dialLog := s.dialLog ++ [true] }
  | .hookFail =>
    { s with conn := s.conn + 1, sockClosed := false,
             id := if auto then .addr (s.conn + 1) else oldId,
             status := .redialing, dialLog := s.dialLog ++ [true],
             dead := (s.conn + 1) :: s.dead }

/-- `closeLocked`, all of it in one step: nothing unless the status CAS from Ok/Preparing wins. -/
def closeLocked (s : State) : State :=
  if s.status = .ok ∨ s.status = .preparing then
    { s with status := .activeClosed, hub := s.hub.erase s.id, notified := true,
             sockClosed := true, dead := s.conn :: s.dead, discHook := s.discHook + 1 }
  else s

def casRedialFailed (s : State) : State :=
  if s.status = .redialing then { s with status := .redialFailed } else s

def casFrom (st : Status) : Bool :=
  st == .ok || st == .passiveClosing || st == .passiveClosed || st == .redialFailed

/-- the from-list of the final compare-and-swap of `readDisconnected` (to PassiveClosed): the status
    this reader's own CAS left when there is no redial function (PassiveClosing), or the one a refused
    redial round leaves (RedialFailed). -/
def finalFrom (st : Status) : Bool :=
  st == .passiveClosing || st == .redialFailed

/-- body of `redialForClient` under the lock; `none` = the retry loop never returns. -/
def redialLocked (s : State) (old : Nat) : State × Option Bool :=
  if old ≠ s.conn then (s, some true)
  else if casFrom s.status then
    let rd := dialRound s.budget s.env
    let s1 := { s with status := .redialing, env := rd.rest, rounds := s.rounds ++ [rd.tried.length] }
    let s2 := rd.tried.foldl (applyAttempt (s.id == .addr s.conn) s.id) s1
    match rd.fin with
    | .success =>
      ({ s2 with dead := old :: s2.dead, status := .ok,
                 threads := s2.threads ++ [⟨.reader s2.conn, .rRead⟩],
                 hub := hubSet s2.hub s2.id, redials := s2.redials ++ [old] }, some true)
    | .failed => (casRedialFailed (closeLocked s2), some false)
    | .hang => (s2, none)
  else (s, some false)

def cancelCall (c : Call) : Call :=
  if !c.hasReply && c.res.isNone then { c with res := some 102 } else c

def Pc.inAsyncCall : Pc → Bool
  | .wCheck | .wWrite _ _ | .xLock _ | .xLocked _ | .stuck => true
  | _ => false

/-- some caller still holds its call's mutex (AsyncCall has not returned). -/
def State.callerBusy (s : State) : Bool :=
  s.threads.any fun t => match t.role with
    | .caller _ => t.pc.inAsyncCall
    | _ => false

def State.setPc (s : State) (i : Nat) (r : Role) (pc : Pc) : State :=
  { s with threads := s.threads.set i ⟨r, pc⟩ }

def finishCall (s : State) (r : Role) (code : Nat) : State :=
  match r with
  | .caller i =>
    match s.calls[i]? with
    | some c => { s with calls := s.calls.set i { c with res := some code } }
    | none => s
  | _ => s

/-- after `redialForClient` returned `r` to thread `i`. -/
def afterRedial (s : State) (i : Nat) (role : Role) (r : Bool) : State :=
  match role with
  | .reader _ => s.setPc i role (if r then .exit else .dFinal)
  | _ => if r then s.setPc i role .wCheck else (finishCall s role 102).setPc i role (.wDone 102)

/-- one atomic step of thread `i`; `none` = not enabled (blocked or finished). -/
def threadStep (s : State) (i : Nat) : Option State :=
  match s.threads[i]? with
  | none => none
  | some ⟨role, pc⟩ =>
    match pc, role with
    | .rRead, .reader k => if k ∈ s.dead then some (s.setPc i role .rErr) else none
    | .rErr, _ => some (s.setPc i role (.dLoaded s.status))
    | .dLoaded st, _ =>
      if st = .passiveClosed ∨ st = .activeClosed ∨ st = .passiveClosing then some (s.setPc i role .exit)
      else if st = .activeClosing then some (s.setPc i role (.dStored st))
      -- `tryChangeStatus(statusPassiveClosing, status)`; when it fails: load again
      else if s.status = st then some ({ s with status := .passiveClosing }.setPc i role (.dStored st))
      else some (s.setPc i role .rErr)
    | .dStored st, _ => some ({ s with hub := s.hub.erase s.id }.setPc i role (.dCancel st))
    | .dCancel st, _ =>
      if s.callerBusy then none
      else some ({ s with calls := s.calls.map cancelCall }.setPc i role (.dClose st))
    | .dClose st, _ =>
      if st = .activeClosing then some (s.setPc i role .exit)
      else if s.sockClosed then some (s.setPc i role .dRedial)
      else some ({ s with sockClosed := true, dead := s.conn :: s.dead }.setPc i role .dRedial)
    | .dRedial, .reader k =>
      if s.redial then some (s.setPc i role (.xLock k)) else some (s.setPc i role .dFinal)
    | .dFinal, _ =>
      -- `tryChangeStatus(statusPassiveClosed, statusPassiveClosing, statusRedialFailed)`: the session is
      -- ended (notification, disconnect hook) only when it is still in a state a refused redial leaves;
      -- a lost compare-and-swap (someone re-established or ended the session meanwhile) changes nothing
      if finalFrom s.status then
        some ({ s with status := .passiveClosed, notified := true, discHook := s.discHook + 1 }.setPc i role .exit)
      else some (s.setPc i role .exit)
    | .wCheck, _ => some (s.setPc i role (.wWrite s.conn s.status))
    | .wWrite used st, _ =>
      if st = .ok ∧ s.conn ∉ s.dead then
        match role with
        | .caller j =>
          match s.calls[j]? with
          | some c => some ({ s with calls := s.calls.set j { c with conn := s.conn } }.setPc i role .wAwait)
          | none => none
        | _ => some (s.setPc i role (.wDone 0))
      else if st = .ok ∧ ¬ (s.sockClosed ∨ s.werrEOF) then
        some ((finishCall s role 104).setPc i role (.wDone 104))
      else if s.redial then some (s.setPc i role (.xLock used))
      else some ((finishCall s role 102).setPc i role (.wDone 102))
    | .xLock old, _ => if s.lock then none else some ({ s with lock := true }.setPc i role (.xLocked old))
    | .xLocked old, _ =>
      match redialLocked s old with
      | (t, some r) => some (afterRedial { t with lock := false } i role r)
      | (t, none) => some (t.setPc i role .stuck)
    | _, _ => none

/-- environment and API events. -/
inductive Ev
  | th (i : Nat)          -- thread i takes a step
  | lose (k : Nat)        -- connection k is lost
  | reply (j : Nat)       -- the server's reply to call j arrives and is handled
  | setUser               -- SetID(user id)
  | call                  -- a goroutine enters AsyncCall (seq, table store)
  | push                  -- a goroutine enters Push
  | setEnv (e : Env)      -- the server's availability changes
deriving DecidableEq, Repr

def readerAt (s : State) (k : Nat) : Bool :=
  s.threads.any fun t => t.role == .reader k && t.pc == .rRead

def step (s : State) : Ev → Option State
  | .th i => threadStep s i
  | .lose k => some (if k ∈ s.dead then s else { s with dead := k :: s.dead })
  | .reply j =>
    match s.calls[j]? with
    | some c =>
      if c.res.isNone ∧ c.hasReply = false ∧ c.conn ∉ s.dead ∧ readerAt s c.conn = true
          ∧ (s.status = .ok ∨ s.status = .activeClosing)
          ∧ s.threads.any (fun t => t.role == .caller j && t.pc == .wAwait) = true then
        some { s with calls := s.calls.set j { c with hasReply := true, res := some 0 } }
      else none
    | none => none
  | .setUser =>
    if s.id = .user then some s
    -- only a session in Preparing / Ok touches the index; otherwise the id alone changes
    else if s.status = .preparing ∨ s.status = .ok then
      some { s with id := .user, hub := (hubSet s.hub .user).erase s.id }
    else some { s with id := .user }
  | .call =>
    some { s with calls := s.calls ++ [⟨s.conn, false, none⟩],
                  threads := s.threads ++ [⟨.caller s.calls.length, .wCheck⟩] }
  | .push => some { s with threads := s.threads ++ [⟨.pusher, .wCheck⟩] }
  | .setEnv e => some { s with env := e }

def run : State → List Ev → Option State
  | s, [] => some s
  | s, e :: es => (step s e).bind fun t => run t es

/-- reachable from the state after `Dial` by any events in any order. -/
def Reachable (budget : Int) (eof : Bool) (t : State) : Prop :=
  ∃ evs, run (State.init budget eof) evs = some t

/-- lowest-numbered enabled thread not in `parked`, with its successor state. -/
def firstEnabled (s : State) (parked : List Nat) : Nat → Nat → Option State
  | _, 0 => none
  | i, n + 1 =>
    if i ∈ parked then firstEnabled s parked (i + 1) n
    else match threadStep s i with
      | some t => some t
      | none => firstEnabled s parked (i + 1) n

/-- run threads (lowest index first) until none outside `parked` is enabled. -/
def quiesce (parked : List Nat) : Nat → State → State
  | 0, s => s
  | f + 1, s =>
    match firstEnabled s parked 0 s.threads.length with
    | some t => quiesce parked f t
    | none => s

/-- run thread `i` until it is not enabled or its pc satisfies `stop`. -/
def runThread (i : Nat) (stop : Pc → Bool) : Nat → State → State
  | 0, s => s
  | f + 1, s =>
    match s.threads[i]? with
    | some t =>
      if stop t.pc then s
      else match threadStep s i with
        | some s' => runThread i stop f s'
        | none => s
    | none => s

end Teleport.Redial
